(* Sched: every execution is finite (a measure that every label decreases) and the scheduler never gets stuck
   before Done (progress) - in particular the maxActiveRuns limit never prevents completion (C15), and a retry
   run terminates (C10).  DESIGN.md Appendix A.2, "Termination". *)
From Coq Require Import List Arith Bool Lia PeanoNat.
Import ListNotations.
From BD.Sched Require Import Model Proofs.

(* ---------------------------------------------------------------------------------------------- *)
(* sums over the node table                                                                         *)
(* ---------------------------------------------------------------------------------------------- *)
Fixpoint sum_list (f : nat -> nat) (l : list nat) : nat :=
  match l with [] => 0 | a :: l' => f a + sum_list f l' end.

Lemma sum_ext f g l : (forall j, In j l -> f j = g j) -> sum_list f l = sum_list g l.
Proof.
  induction l as [|a l IH]; simpl; intros H; [reflexivity|].
  rewrite (H a (or_introl eq_refl)), IH; auto.
Qed.

Lemma sum_upd_in f g i l : NoDup l -> In i l -> (forall j, j <> i -> f j = g j) ->
  sum_list g l + f i = sum_list f l + g i.
Proof.
  intros Hnd Hin Hne. induction l as [|a l IH]; [inversion Hin|].
  inversion Hnd as [|? ? Ha Hnd']; subst. simpl.
  destruct (Nat.eq_dec a i) as [->|Hai].
  - assert (sum_list f l = sum_list g l) as Heq.
    { apply sum_ext. intros j Hj. apply Hne. intros ->. contradiction. }
    lia.
  - destruct Hin as [?|Hin]; [congruence|]. specialize (IH Hnd' Hin). rewrite (Hne a Hai). lia.
Qed.

Section Term.
Variable c : cfg.
Hypothesis Hnorep : norepeat c.
Notation n := (nsteps c).
Notation step := (step c).

Definition phw (x : node) : nat :=
  match ph x with
  | PIdle => match st x with NNone => 9 | _ => 0 end
  | PSetup => 7 | PStarting => 6 | PExec => 5 | PEnded _ => 4
  | PRetryWait => 11 | PRepeatWait => 8 | PPost => 2 | PGone => 0
  end.
Definition nodew (i : nat) (x : node) : nat := 12 * (rlimit (steps c i) - rc x) + phw x + stale x.
Definition pcw (p : lpc) : nat :=
  match p with
  | LHead => 8 | LCommitted _ => 7 | LExited => 6
  | LHandlers todo cur => 2 * length todo + (if cur then 0 else 1)
  | LDone => 0
  end.
Definition measure (s : state) : nat :=
  sum_list (fun i => nodew i (nd s i)) (seq 0 n) + pcw (pc s) + (S n) * sigleft s + length (sigq s)
  + (if timedout s then 0 else 1).

(* the bound: 12 per allowed retry + 9 per step, the loop, the Signal passes, the deadline *)
Definition bound : nat :=
  sum_list (fun i => 12 * rlimit (steps c i) + 9) (seq 0 n) + 8 + (S n) * sigs c + 1.

Lemma measure_init : measure (init c) = bound.
Proof.
  unfold measure, bound. cbn [init nd pc sigleft sigq timedout pcw length].
  assert (sum_list (fun i => nodew i init_node) (seq 0 n) = sum_list (fun i => 12 * rlimit (steps c i) + 9) (seq 0 n)) as ->.
  { apply sum_ext. intros j _. unfold nodew, phw. cbn. lia. }
  lia.
Qed.

Lemma sum_nodew_upd (s : state) i y : i < n ->
  sum_list (fun j => nodew j (if j =? i then y else nd s j)) (seq 0 n) + nodew i (nd s i)
  = sum_list (fun j => nodew j (nd s j)) (seq 0 n) + nodew i y.
Proof.
  intros Hi.
  pose proof (sum_upd_in (fun j => nodew j (nd s j)) (fun j => nodew j (if j =? i then y else nd s j)) i (seq 0 n)) as H.
  cbv beta in H. rewrite Nat.eqb_refl in H. apply H.
  - apply seq_NoDup.
  - apply in_seq. lia.
  - intros j Hne. apply Nat.eqb_neq in Hne. now rewrite Hne.
Qed.

Lemma sum_nodew_same (s : state) i y : nodew i y = nodew i (nd s i) ->
  sum_list (fun j => nodew j (if j =? i then y else nd s j)) (seq 0 n)
  = sum_list (fun j => nodew j (nd s j)) (seq 0 n).
Proof.
  intros E. apply sum_ext. intros j _. destruct (Nat.eqb_spec j i) as [->|]; [exact E|reflexivity].
Qed.

Lemma handlers_for_le s : length (handlers_for c s) <= 2.
Proof.
  unfold handlers_for.
  assert (Hf : forall (f : handler -> bool) l, length (filter f l) <= length l).
  { intros f l. induction l as [|a l IH]; simpl; [lia|]. destruct (f a); simpl; lia. }
  etransitivity; [apply Hf|]. destruct (overall c s); simpl; lia.
Qed.

Ltac use_after :=
  try match goal with
  | |- context [after c ?s ?i ?ok ?e] =>
      let H := fresh "HAC" in let sa := fresh "sa" in let E := fresh "Esa" in
      pose proof (after_cases c Hnorep s i ok e) as H; remember (after c s i ok e) as sa eqn:E; clear E; destruct H;
      try (let F := fresh "Hfp" in destruct (fphase_cases c) as [F|F]; rewrite F in * )
  end.

(* every label strictly decreases the measure *)
Theorem step_measure s l s' : Inv c s -> step s l = Some s' -> measure s' < measure s.
Proof.
  intros HI Hs. unfold measure.
  pose proof (iA _ _ HI) as HA. pose proof (iB _ _ HI) as HB.
  destruct l; cbn [Model.step] in Hs; inv_guard Hs; injection Hs as <-; split_guard; use_after;
    unfold set_nd, set_pc, set_err, set_hst, upd; cbn [nd pc canceled lasterr timedout sigq sigleft hst].
  all: try (match goal with H : is_head (pc _) = true |- _ => apply is_head_eq in H; rewrite H in * end).
  all: try (match goal with H : is_committed (pc _) _ = true |- _ =>
              apply is_committed_eq in H; destruct (HB _ H) as [Hlt Hst0];
              pose proof (coherent_none_idle _ (HA _) Hst0) as Hidle; rewrite H in * end).
  all: try (match goal with H : st (nd _ ?i) = NNone |- _ => pose proof (coherent_none_idle _ (HA i) H) as Hidle end).
  all: cbn [pcw length].
  all: try lia.
  all: try (match goal with |- context [sum_list (fun j => nodew j (if j =? ?i then ?y else _)) _] =>
              let Hu := fresh "Hu" in
              assert (Hu := sum_nodew_upd s i y ltac:(assumption));
              unfold nodew in Hu at 2 4; unfold phw in Hu; nsimpl; rewrite ?M, ?M0, ?M1, ?Hidle in Hu;
              try (match goal with H : st (nd _ i) = _ |- _ => rewrite H in Hu end); nsimpl;
              lia end).
  - (* LMark *)
    match type of M with _ = Some ?m =>
      pose proof (sum_nodew_upd s i (with_st (nd s i) m) ltac:(assumption)) as Hu;
      unfold nodew in Hu at 2 4; unfold phw in Hu; nsimpl; rewrite Hidle, H1 in Hu;
      destruct (dep_mark_values c s d m M); subst m; lia end.
  - (* SigFlag *) rewrite app_length, seq_length. nia.
  - (* SigNode *)
    match goal with |- context [sum_list (fun j => nodew j (if j =? ?i then ?y else _)) _] =>
      rewrite (sum_nodew_same s i y) end; [lia|].
    unfold nodew, phw. nsimpl. rewrite M1. destruct (ph (nd s _)); reflexivity.
  - (* Timeout *) rewrite H0. lia.
  - (* HBegin *) pose proof (handlers_for_le s). lia.
Qed.

(* hence every execution is finite, with an explicit bound *)
Lemma run_measure s ls s' : Inv c s -> run c s ls = Some s' -> length ls + measure s' <= measure s.
Proof.
  revert s. induction ls as [|l ls IH]; simpl; intros s HI Hr.
  - injection Hr as <-. lia.
  - destruct (step s l) eqn:Hs; [|discriminate].
    pose proof (step_measure _ _ _ HI Hs). pose proof (IH _ (inv_step c Hnorep _ _ _ HI Hs) Hr). lia.
Qed.

Theorem all_executions_finite ls s : run c (init c) ls = Some s -> length ls <= bound.
Proof.
  intros Hr. pose proof (run_measure _ _ _ (inv_init c) Hr) as H. rewrite measure_init in H. lia.
Qed.


(* ---------------------------------------------------------------------------------------------- *)
(* progress                                                                                         *)
(* ---------------------------------------------------------------------------------------------- *)

(* a worker that has left while its node is still running: only in a stopped run (scheduler.go:174, 206-208) *)
Definition GR1 (s : state) : Prop :=
  forall i, ph (nd s i) = PGone -> st (nd s i) = NRunning -> canceled s = true.
Definition GR (s : state) : Prop := GR1 s /\ pc s <> LHandlers [] true.

Lemma step_gr2 s l s' : pc s <> LHandlers [] true -> step s l = Some s' -> pc s' <> LHandlers [] true.
Proof.
  intros H0 Hs.
  destruct l; cbn [Model.step] in Hs; inv_guard Hs; injection Hs as <-; use_after;
    unfold set_nd, set_pc, set_err, set_hst, upd; cbn [pc]; try assumption; try discriminate.
Qed.

Lemma step_gr1 s l s' : Inv c s -> GR1 s -> step s l = Some s' -> GR1 s'.
Proof.
  intros HI HG0 Hs j. pose proof (iA _ _ HI) as HA. pose proof (iF _ _ HI) as HF.
  destruct l; cbn [Model.step] in Hs; inv_guard Hs; injection Hs as <-; split_guard; use_after;
    unfold set_nd, set_pc, set_err, set_hst, upd; cbn [nd pc canceled lasterr timedout sigq sigleft hst].
  all: try (apply HG0).
  all: try reflexivity.
  all: try (destruct (Nat.eqb_spec j i) as [->|Hne]; [|apply HG0]).
  all: nsimpl; try (intros; discriminate); try assumption; try (intros; assumption).
  all: try (intros X Y; rewrite ?M in *; try discriminate; try congruence).
  all: try (intros X Y; destruct (st (nd s i)); discriminate).
  all: try (intros Y; intuition congruence).
  all: try (exfalso; destruct (st (nd s i)); discriminate).
  all: try (exfalso; intuition congruence; fail).
  all: try (apply HF; discriminate).
  exfalso. rewrite (coherent_none_idle _ (HA i) H1) in X. discriminate.
Qed.

Lemma step_gr s l s' : Inv c s -> GR s -> step s l = Some s' -> GR s'.
Proof. intros HI [H1 H2] Hs. split; [eapply step_gr1; eauto|eapply step_gr2; eauto]. Qed.

Lemma gr_init : GR (init c).
Proof. split; [intros i H; cbn in H; discriminate|cbn; discriminate]. Qed.

Lemma reach_inv_gr s : Reach c s -> Inv c s /\ GR s.
Proof.
  intros [ls Hr]. revert Hr. generalize (inv_init c) gr_init. generalize (init c).
  induction ls as [|l ls IH]; simpl; intros s0 HI HG Hr.
  - injection Hr as <-. auto.
  - destruct (step s0 l) eqn:Hs; [|discriminate]. eapply IH; [| |exact Hr].
    + eapply inv_step; eauto.
    + eapply step_gr; eauto.
Qed.

Lemma reach_step s l s' : Reach c s -> step s l = Some s' -> Reach c s'.
Proof.
  intros [ls Hr] Hs. exists (ls ++ [l]).
  assert (Hgen : forall s0, run c s0 ls = Some s -> run c s0 (ls ++ [l]) = Some s').
  { clear Hr. induction ls as [|a ls IH]; simpl; intros s0 H0.
    - injection H0 as ->. rewrite Hs. reflexivity.
    - destruct (step s0 a); [auto|discriminate]. }
  auto.
Qed.

(* the dependency relation is well-founded (what NewExecutionGraph guarantees, C14) *)
Definition wf_deps : Prop :=
  exists rk : nat -> nat, forall i d, i < n -> In d (deps (steps c i)) -> d < n /\ rk d < rk i.

(* labels of the scheduler itself; the others are moves of the environment *)
Definition internal (l : label) : bool :=
  match l with
  | WExecEnd _ _ | HEnd _ _ | SigFlag | Timeout => false
  | _ => true end.

Definition busy (x : node) : bool := match ph x with PIdle | PGone | PExec => false | _ => true end.

Lemma busy_enabled s i : i < n -> busy (nd s i) = true -> exists l s', internal l = true /\ step s l = Some s'.
Proof.
  intros Hi Hb. unfold busy in Hb. apply Nat.ltb_lt in Hi.
  destruct (ph (nd s i)) eqn:Ep; try discriminate.
  - (* PSetup *)
    destruct (setup_fails c i) eqn:Es.
    + exists (WSetupFail i). eexists. split; [reflexivity|]. cbn [Model.step]. rewrite Ep, Hi, Es. reflexivity.
    + destruct (canceled s) eqn:Ec.
      * exists (WSkipExec i). eexists. split; [reflexivity|]. cbn [Model.step]. rewrite Ep, Hi, Es, Ec. reflexivity.
      * exists (WTest i). eexists. split; [reflexivity|]. cbn [Model.step]. rewrite Ep, Hi, Es, Ec. reflexivity.
  - (* PStarting *)
    destruct (dry c) eqn:Ed.
    + exists (WDryExec i). eexists. split; [reflexivity|]. cbn [Model.step]. rewrite Ep, Hi, Ed. reflexivity.
    + destruct (timedout s) eqn:Et.
      * exists (WExecRefused i). eexists. split; [reflexivity|]. cbn [Model.step]. rewrite Ep, Hi, Ed, Et. reflexivity.
      * destruct (create_fails c s i) eqn:Ecf.
        -- exists (WCreateFail i). eexists. split; [reflexivity|]. cbn [Model.step]. rewrite Ep, Hi, Ed, Ecf. reflexivity.
        -- exists (WExecStart i). eexists. split; [reflexivity|]. cbn [Model.step]. rewrite Ep, Hi, Ed, Et, Ecf. reflexivity.
  - exists (WAfter i false). eexists. split; [reflexivity|]. cbn [Model.step]. rewrite Ep, Hi. reflexivity.
  - exists (WRetryWake i). eexists. split; [reflexivity|]. cbn [Model.step]. rewrite Ep, Hi. reflexivity.
  - exists (WRepeatWake i). eexists. split; [reflexivity|]. cbn [Model.step]. rewrite Ep, Hi. reflexivity.
  - exists (WFinish i). eexists. split; [reflexivity|]. cbn [Model.step]. rewrite Ep, Hi. reflexivity.
Qed.

Lemma existsb_seq_witness (P : nat -> bool) k : existsb P (seq 0 k) = true -> exists i, i < k /\ P i = true.
Proof. intros H. apply existsb_exists in H. destruct H as (i & Hin & Hp). apply in_seq in Hin. exists i. split; [lia|auto]. Qed.
Lemma existsb_seq_none (P : nat -> bool) k : existsb P (seq 0 k) = false -> forall i, i < k -> P i = false.
Proof.
  intros H i Hi. destruct (P i) eqn:E; [|reflexivity].
  assert (existsb P (seq 0 k) = true) by (apply existsb_exists; exists i; split; [apply in_seq; lia|auto]). congruence.
Qed.

(* a not-started node all of whose dependencies have left the not-started state *)
Lemma minimal_none s : wf_deps -> (exists i, i < n /\ st (nd s i) = NNone) ->
  exists i, i < n /\ st (nd s i) = NNone /\ forall d, In d (deps (steps c i)) -> d < n /\ st (nd s d) <> NNone.
Proof.
  intros [rk Hrk] [i0 [Hi0 Hn0]].
  assert (Hgen : forall k i, rk i < k -> i < n -> st (nd s i) = NNone ->
            exists i', i' < n /\ st (nd s i') = NNone /\ forall d, In d (deps (steps c i')) -> d < n /\ st (nd s d) <> NNone).
  { induction k as [|k IH]; intros i Hk Hi Hn; [lia|].
    destruct (existsb (fun d => nstatus_eqb (st (nd s d)) NNone) (deps (steps c i))) eqn:E.
    - apply existsb_exists in E. destruct E as (d & Hd & Hdn). apply nstatus_eqb_eq in Hdn.
      destruct (Hrk i d Hi Hd) as [Hdlt Hrd]. apply (IH d); auto; lia.
    - exists i. split; [auto|]. split; [auto|]. intros d Hd. split; [apply (Hrk i d Hi Hd)|].
      intros Hc0. assert (existsb (fun d => nstatus_eqb (st (nd s d)) NNone) (deps (steps c i)) = true).
      { apply existsb_exists. exists d. split; auto. apply nstatus_eqb_eq. auto. }
      congruence. }
  apply (Hgen (S (rk i0)) i0); auto.
Qed.

Theorem progress s : Reach c s -> wf_deps -> pc s <> LDone ->
  (exists l s', internal l = true /\ step s l = Some s') \/
  (exists i, i < n /\ ph (nd s i) = PExec) \/ (exists h t, pc s = LHandlers (h :: t) true).
Proof.
  intros Hr Hwf Hpc. destruct (reach_inv_gr s Hr) as [HI [HGR HGR2]].
  pose proof (iA _ _ HI) as HA. pose proof (iS _ _ HI) as HS.
  (* a worker with an enabled step *)
  destruct (existsb (fun i => busy (nd s i)) (seq 0 n)) eqn:Eb.
  { apply existsb_seq_witness in Eb. destruct Eb as (i & Hi & Hb). left. apply (busy_enabled s i Hi Hb). }
  pose proof (existsb_seq_none _ _ Eb) as Hnb. cbv beta in Hnb.
  (* a command executing *)
  destruct (existsb (fun i => match ph (nd s i) with PExec => true | _ => false end) (seq 0 n)) eqn:Ee.
  { apply existsb_seq_witness in Ee. destruct Ee as (i & Hi & Hb). right. left. exists i. split; auto.
    destruct (ph (nd s i)); try discriminate. reflexivity. }
  pose proof (existsb_seq_none _ _ Ee) as Hne. cbv beta in Hne.
  assert (Hq : forall i, i < n -> ph (nd s i) = PIdle \/ ph (nd s i) = PGone).
  { intros i Hi. specialize (Hnb i Hi). specialize (Hne i Hi). unfold busy in Hnb.
    destruct (ph (nd s i)); try discriminate; auto. }
  (* a queued Signal pass *)
  destruct (sigq s) as [|q0 qs] eqn:Eq.
  2:{ left. destruct (repeat (steps c q0)) eqn:Er.
      - exists (SigNode false). eexists. split; [reflexivity|]. cbn [Model.step]. rewrite Eq, Er. reflexivity.
      - destruct (st (nd s q0)) eqn:Est;
          try (exists (SigNode false); eexists; split; [reflexivity|]; cbn [Model.step]; rewrite Eq, Er, Est; reflexivity).
        + destruct (0 <? att (nd s q0)) eqn:Ea.
          * exists (SigNode true). eexists. split; [reflexivity|]. cbn [Model.step]. rewrite Eq, Er, Est, Ea. reflexivity.
          * exists (SigNode false). eexists. split; [reflexivity|]. cbn [Model.step]. rewrite Eq, Er, Est, Ea. reflexivity.
        + exists (SigNode (match ph (nd s q0) with PExec => true | _ => false end)). eexists. split; [reflexivity|].
          cbn [Model.step]. rewrite Eq, Er, Est. rewrite Bool.eqb_reflx. reflexivity. }
  destruct (pc s) as [|i| |todo cur|] eqn:Ep.
  - (* LHead *)
    destruct (canceled s || all_terminal c s) eqn:Ex.
    { left. exists LExit. eexists. split; [reflexivity|]. cbn [Model.step]. rewrite Ep, Ex. reflexivity. }
    apply orb_false_iff in Ex. destruct Ex as [Ec Et].
    assert (Hnr : forall i, i < n -> st (nd s i) <> NRunning).
    { intros i Hi Hrun. destruct (Hq i Hi) as [Hp|Hp].
      - specialize (HA i). unfold coherent in HA. rewrite Hp in HA. intuition congruence.
      - rewrite (HGR i Hp Hrun) in Ec. discriminate. }
    assert (Hex : exists i, i < n /\ st (nd s i) = NNone).
    { unfold all_terminal in Et.
      destruct (existsb (fun j => negb (terminal (st (nd s j)))) (seq 0 n)) eqn:E2.
      - apply existsb_seq_witness in E2. destruct E2 as (i & Hi & Hti). exists i. split; auto.
        specialize (Hnr i Hi). destruct (st (nd s i)); try discriminate; try congruence.
      - exfalso. assert (forallb (fun j => terminal (st (nd s j))) (seq 0 n) = true); [|congruence].
        apply forallb_forall. intros j Hj. apply in_seq in Hj.
        pose proof (existsb_seq_none _ _ E2 j ltac:(lia)) as X. cbv beta in X. destruct (terminal (st (nd s j))); auto. }
    destruct (minimal_none s Hwf Hex) as (i & Hi & Hni & Hdeps).
    apply Nat.ltb_lt in Hi.
    destruct (existsb (fun d => match dep_mark c s d with Some _ => true | None => false end) (deps (steps c i))) eqn:Em.
    + (* some dependency blocks: the gate marks i *)
      apply existsb_exists in Em. destruct Em as (d & Hd & Hm). destruct (dep_mark c s d) as [m|] eqn:Edm; [|discriminate].
      left. exists (LMark i d). eexists. split; [reflexivity|]. cbn [Model.step]. rewrite Hi, Ep, Hni, Edm.
      assert (existsb (Nat.eqb d) (deps (steps c i)) = true) as ->.
      { apply existsb_exists. exists d. split; auto. apply Nat.eqb_refl. }
      reflexivity.
    + (* every dependency permits: i is committed; the capacity test passes because nothing is running *)
      assert (Hready : ready c s i = true).
      { unfold ready. apply forallb_forall. intros d Hd. destruct (Hdeps d Hd) as [Hdn Hdnn].
        specialize (Hnr d Hdn).
        assert (Hmd : dep_mark c s d = None).
        { destruct (dep_mark c s d) eqn:E; [|reflexivity]. exfalso.
          assert (existsb (fun d => match dep_mark c s d with Some _ => true | None => false end) (deps (steps c i)) = true).
          { apply existsb_exists. exists d. rewrite E. auto. }
          congruence. }
        unfold dep_mark in Hmd. unfold dep_ok.
        destruct (st (nd s d)); try congruence; try reflexivity.
        - destruct (cof (steps c d)); [reflexivity|discriminate].
        - destruct (cos (steps c d)); [reflexivity|discriminate]. }
      assert (Hrc : running_count c s = 0).
      { unfold running_count.
        assert (length (filter (fun j => is_running (nd s j)) (seq 0 n)) = length (filter (fun _ => false) (seq 0 n))) as ->.
        { apply count_ext. intros j Hj. apply in_seq in Hj. unfold is_running.
          specialize (Hnr j ltac:(lia)). destruct (st (nd s j)); try reflexivity. congruence. }
        generalize (seq 0 n). intros l0. induction l0 as [|a0 l0 IHl]; simpl; auto. }
      left. exists (LCommit i). eexists. split; [reflexivity|]. cbn [Model.step].
      rewrite Hi, Ep, Hni, Hready, Ec, Hrc. cbn [is_head nstatus_eqb andb negb].
      destruct (maxActive c) eqn:Ek; reflexivity.
  - (* LCommitted i *)
    left. destruct (pre (steps c i)) eqn:Epre.
    + exists (LLaunch i). eexists. split; [reflexivity|]. cbn [Model.step]. rewrite Ep. cbn [is_committed].
      rewrite Nat.eqb_refl, Epre. reflexivity.
    + exists (LSkipPre i). eexists. split; [reflexivity|]. cbn [Model.step]. rewrite Ep. cbn [is_committed].
      rewrite Nat.eqb_refl, Epre. reflexivity.
  - (* LExited: every worker has left, the handlers are chosen *)
    left. exists HBegin. eexists. split; [reflexivity|]. cbn [Model.step]. rewrite Ep.
    assert (all_gone c s = true) as ->; [|reflexivity].
    unfold all_gone. apply forallb_forall. intros j Hj. apply in_seq in Hj. unfold worker_gone.
    rewrite HS. destruct (Hq j ltac:(lia)) as [-> | ->]; reflexivity.
  - (* LHandlers *)
    destruct cur; [right; right; destruct todo as [|h t]; [congruence|eauto]|]. left.
    destruct todo as [|h t].
    + exists HFinish. eexists. split; [reflexivity|]. cbn [Model.step]. rewrite Ep. reflexivity.
    + destruct (dry c) eqn:Ed.
      * exists (HSkip h). eexists. split; [reflexivity|]. cbn [Model.step]. rewrite Ep, Ed.
        assert (handler_eqb h h = true) as -> by (destruct h; reflexivity). reflexivity.
      * assert (handler_eqb h h = true) as Hh by (destruct h; reflexivity).
        destruct (hsfail c h) eqn:Ehf.
        -- exists (HSetupFail h). eexists. split; [reflexivity|]. cbn [Model.step]. rewrite Ep, Ed, Hh, Ehf. reflexivity.
        -- exists (HStart h). eexists. split; [reflexivity|]. cbn [Model.step]. rewrite Ep, Ed, Hh, Ehf. reflexivity.
  - congruence.
Qed.

(* with the environment doing its part (commands and handlers end), every reachable state can be driven to Done;
   together with step_measure: every maximal execution ends in Done - neither the capacity limit nor anything else
   in the scheduler prevents a run from completing *)
Theorem can_complete s : Reach c s -> wf_deps -> exists ls s', run c s ls = Some s' /\ pc s' = LDone.
Proof.
  intros Hr Hwf.
  remember (measure s) as m eqn:Em. revert s Hr Em.
  induction m as [m IH] using lt_wf_ind. intros s Hr Em.
  assert (Hdrive : forall l s', step s l = Some s' -> exists ls s'', run c s ls = Some s'' /\ pc s'' = LDone).
  { intros l s' Hs.
    pose proof (step_measure _ _ _ (proj1 (reach_inv_gr s Hr)) Hs) as Hlt.
    destruct (IH (measure s') ltac:(lia) s' (reach_step _ _ _ Hr Hs) eq_refl) as (ls & s'' & Hrun & Hd).
    exists (l :: ls), s''. split; [simpl; rewrite Hs; exact Hrun|exact Hd]. }
  assert (Hdec : pc s = LDone \/ pc s <> LDone) by (destruct (pc s); auto; right; discriminate).
  destruct Hdec as [Hd|Hpc]; [exists [], s; split; [reflexivity|assumption]|].
  destruct (progress s Hr Hwf Hpc) as [(l & s' & _ & Hs)|[(i & Hi & Hp)|(h & t & Ht)]].
  - eapply Hdrive; eauto.
  - eapply (Hdrive (WExecEnd i true)). cbn [Model.step]. rewrite Hp. apply Nat.ltb_lt in Hi. rewrite Hi. reflexivity.
  - eapply (Hdrive (HEnd h true)). cbn [Model.step]. rewrite Ht.
    assert (handler_eqb h h = true) as -> by (destruct h; reflexivity). reflexivity.
Qed.

End Term.
