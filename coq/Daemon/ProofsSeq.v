(* C09 over histories: invariants of `step`, C09_no_miss, C09_no_double, C09_bad_file - for EVERY list of
   operations (ticks with arbitrary minutes and wall-clock lag, history changes, suspend, file writes / removals /
   renames seen by the watcher, daemon restarts), by induction on the list. *)
From Coq Require Import List Bool Arith ZArith Lia String Permutation.
Import ListNotations.
From BD.Cron Require Import Model Schedule ProofsNext ProofsSched.
From BD.Daemon Require Import Model ProofsTick Proofs.
Local Open Scope Z_scope.

(* ---------------------------------------------------------------------------------------- *)
(* the daemon's table follows the directory                                                   *)
(* ---------------------------------------------------------------------------------------- *)
Definition sync1 (s : state) (f : string) : Prop :=
  forall c e, lookup f (dir s) = Some c -> load f c = FOk e -> lookup f (tbl s) = Some e.

Record Inv (s : state) : Prop := {
  inv_tbl : NoDup (map fst (tbl s));
  inv_dir : NoDup (map fst (dir s));
  inv_sync : alive s = true -> forall f, sync1 s f
}.

Lemma scan_lookup : forall d acc t, NoDup (map fst d) -> scan d acc = Some t ->
  forall f, lookup f t = match lookup f d with
                         | Some c => match load f c with FOk e => Some e | _ => lookup f acc end
                         | None => lookup f acc
                         end.
Proof.
  induction d as [|[f0 c0] d IH]; intros acc t Hnd Hs f; simpl in *.
  - injection Hs as <-. reflexivity.
  - inversion Hnd as [|? ? Hnotin Hnd']; subst.
    assert (Hl0 : lookup f0 d = None).
    { destruct (lookup f0 d) eqn:E; [|reflexivity]. exfalso. apply Hnotin.
      apply lookup_in in E. apply (in_map fst) in E. exact E. }
    destruct (String.eqb f0 f) eqn:Ef.
    + apply String.eqb_eq in Ef. subst f.
      destruct (load f0 c0) eqn:El; try discriminate;
        try (rewrite (IH _ _ Hnd' Hs f0), Hl0; reflexivity).
      rewrite (IH _ _ Hnd' Hs f0), Hl0. apply lookup_upsert_same.
    + apply String.eqb_neq in Ef.
      destruct (load f0 c0) eqn:El; try discriminate; try (apply (IH _ _ Hnd' Hs f)).
      rewrite (IH _ _ Hnd' Hs f). rewrite lookup_upsert_other by assumption. reflexivity.
Qed.

Lemma scan_nodup : forall d acc t, NoDup (map fst acc) -> scan d acc = Some t -> NoDup (map fst t).
Proof.
  induction d as [|[f0 c0] d IH]; intros acc t Hacc Hs; simpl in *.
  - injection Hs as <-. assumption.
  - destruct (load f0 c0); try discriminate; try (eapply IH; eassumption).
    eapply IH; [|eassumption]. apply nodup_upsert. assumption.
Qed.

Definition panics (f : string) (c : content) : bool := match load f c with FPanic => true | _ => false end.

Lemma scan_some : forall d acc, (forall f c, In (f, c) d -> panics f c = false) -> scan d acc <> None.
Proof.
  induction d as [|[f0 c0] d IH]; intros acc H; simpl; [discriminate|].
  pose proof (H f0 c0 (or_introl eq_refl)) as H0. unfold panics in H0.
  destruct (load f0 c0); try discriminate; apply IH; intros; apply H; right; assumption.
Qed.

Lemma scan_none : forall d acc f c, In (f, c) d -> panics f c = true -> scan d acc = None.
Proof.
  induction d as [|[f0 c0] d IH]; intros acc f c Hin Hp; simpl; [contradiction|].
  destruct Hin as [E|Hin].
  - injection E as -> ->. unfold panics in Hp. destruct (load f c); try discriminate. reflexivity.
  - destruct (load f0 c0); try reflexivity; eapply IH; eassumption.
Qed.

(* watcher events keep the other files' synchronisation *)
Lemma on_remove_sync : forall s f (P : string -> Prop), lookup f (dir s) = None ->
  (forall h, h <> f -> P h -> sync1 s h) -> forall h, P h -> sync1 (on_remove s f) h.
Proof.
  intros s f P Hf H h Ph c e Hd Hl.
  assert (Ed : dir (on_remove s f) = dir s) by (unfold on_remove; destruct (alive s && ext_ok f); reflexivity).
  rewrite Ed in Hd. destruct (string_dec h f) as [->|Hne]; [congruence|].
  specialize (H h Hne Ph c e Hd Hl). unfold on_remove. destruct (alive s && ext_ok f); [|assumption].
  simpl. rewrite lookup_remove_other by congruence. assumption.
Qed.

Lemma on_write_sync : forall s g c (P : string -> Prop), lookup g (dir s) = Some c ->
  (forall h, h <> g -> P h -> sync1 s h) -> alive (on_write s g c) = true ->
  forall h, P h -> sync1 (on_write s g c) h.
Proof.
  intros s g c P Hg H Ha h Ph c' e Hd Hl. unfold on_write in *.
  destruct (alive s) eqn:Es; [|congruence].
  destruct (load g c) as [| | |e0] eqn:El; simpl in *; try discriminate.
  - destruct (string_dec h g) as [->|Hne]; [congruence | apply (H h Hne Ph c' e Hd Hl)].
  - destruct (string_dec h g) as [->|Hne]; [congruence | apply (H h Hne Ph c' e Hd Hl)].
  - destruct (string_dec h g) as [->|Hne].
    + rewrite Hg in Hd. injection Hd as <-. rewrite El in Hl. injection Hl as <-. apply lookup_upsert_same.
    + rewrite lookup_upsert_other by congruence. apply (H h Hne Ph c' e Hd Hl).
Qed.

Lemma on_write_tbl_nodup : forall s g c, NoDup (map fst (tbl s)) -> NoDup (map fst (tbl (on_write s g c))).
Proof.
  intros s g c H. unfold on_write. destruct (alive s); [|assumption].
  destruct (load g c); simpl; try assumption; [constructor | apply nodup_upsert; assumption].
Qed.

Lemma on_remove_tbl_nodup : forall s f, NoDup (map fst (tbl s)) -> NoDup (map fst (tbl (on_remove s f))).
Proof. intros s f H. unfold on_remove. destruct (alive s && ext_ok f); [simpl; apply nodup_remove|]; assumption. Qed.

Lemma on_write_dir : forall s g c, dir (on_write s g c) = dir s.
Proof. intros. unfold on_write. destruct (alive s); [|reflexivity]. destruct (load g c); reflexivity. Qed.
Lemma on_remove_dir : forall s f, dir (on_remove s f) = dir s.
Proof. intros. unfold on_remove. destruct (alive s && ext_ok f); reflexivity. Qed.
Lemma on_write_dead : forall s g c, alive s = false -> on_write s g c = s.
Proof. intros s g c H. unfold on_write. rewrite H. reflexivity. Qed.
Lemma on_remove_dead : forall s f, alive s = false -> on_remove s f = s.
Proof. intros s f H. unfold on_remove. rewrite H. reflexivity. Qed.
Lemma on_remove_alive : forall s f, alive (on_remove s f) = alive s.
Proof. intros. unfold on_remove. destruct (alive s) eqn:E; simpl; [destruct (ext_ok f); simpl; congruence | assumption]. Qed.

Theorem step_inv : forall s o, Inv s -> Inv (fst (step s o)).
Proof.
  intros s o [Ht Hd Hs]. destruct o as [m w|f st|f on|f c|f|f g|]; cbn [step fst].
  - constructor; assumption.
  - constructor; assumption.
  - constructor; assumption.
  - (* write *)
    set (s1 := set_dir s (upsert f c (dir s))).
    constructor.
    + apply on_write_tbl_nodup. assumption.
    + rewrite on_write_dir. simpl. apply nodup_upsert. assumption.
    + intros Ha h. apply (on_write_sync s1 f c (fun _ => True)); auto.
      * simpl. apply lookup_upsert_same.
      * intros h' Hne _ c' e Hd' Hl. simpl in Hd'. rewrite lookup_upsert_other in Hd' by congruence.
        destruct (alive s) eqn:Es; [apply (Hs eq_refl h' c' e Hd' Hl)|].
        rewrite on_write_dead in Ha by assumption. simpl in Ha. congruence.
  - (* remove *)
    destruct (lookup f (dir s)) eqn:Ef; cbn [fst]; [|constructor; assumption].
    set (s1 := set_dir s (remove_key f (dir s))).
    constructor.
    + apply on_remove_tbl_nodup. assumption.
    + rewrite on_remove_dir. simpl. apply nodup_remove. assumption.
    + intros Ha h. rewrite on_remove_alive in Ha. simpl in Ha.
      apply (on_remove_sync s1 f (fun _ => True)); auto.
      * simpl. apply lookup_remove_same.
      * intros h' Hne _ c' e Hd' Hl. simpl in Hd'. rewrite lookup_remove_other in Hd' by congruence.
        apply (Hs Ha h' c' e Hd' Hl).
  - (* rename *)
    destruct (lookup f (dir s)) as [c|] eqn:Ef; cbn [fst]; [|constructor; assumption].
    destruct (String.eqb f g) eqn:Efg; cbn [fst]; [constructor; assumption|].
    apply String.eqb_neq in Efg.
    set (s1 := set_dir s (upsert g c (remove_key f (dir s)))).
    constructor.
    + apply on_write_tbl_nodup, on_remove_tbl_nodup. assumption.
    + rewrite on_write_dir, on_remove_dir. simpl. apply nodup_upsert, nodup_remove. assumption.
    + intros Ha h.
      destruct (alive s) eqn:Es.
      2:{ rewrite on_write_dead in Ha by (rewrite on_remove_alive; assumption).
          rewrite on_remove_alive in Ha. simpl in Ha. congruence. }
      apply (on_write_sync (on_remove s1 f) g c (fun _ => True)); auto.
      * rewrite on_remove_dir. simpl. apply lookup_upsert_same.
      * intros h' Hne _. apply (on_remove_sync s1 f (fun x => x <> g)); auto.
        -- simpl. rewrite lookup_upsert_other by congruence. apply lookup_remove_same.
        -- intros h2 Hne2 Hne3 c' e Hd' Hl. simpl in Hd'.
           rewrite lookup_upsert_other, lookup_remove_other in Hd' by congruence.
           apply (Hs eq_refl h2 c' e Hd' Hl).
  - (* daemon restart *)
    destruct (scan (dir s) []) as [t|] eqn:Esc; cbn [fst].
    + constructor; simpl.
      * eapply scan_nodup; [|eassumption]. constructor.
      * assumption.
      * unfold sync1. simpl. intros _ f c e Hd' Hl. rewrite (scan_lookup _ _ _ Hd Esc f), Hd', Hl. reflexivity.
    + constructor; simpl; [constructor | assumption | discriminate].
Qed.

Lemma init_inv : forall d, NoDup (map fst d) -> Inv (init_state d).
Proof. intros d H. constructor; simpl; [constructor | assumption | discriminate]. Qed.

(* every state of a history satisfies the invariant *)
Lemma trace_inv : forall ops s0, Inv s0 -> forall s o cs, In (s, o, cs) (trace s0 ops) -> Inv s /\ cs = snd (step s o).
Proof.
  induction ops as [|o ops IH]; intros s0 H0 s o' cs Hin; simpl in Hin; [contradiction|].
  destruct (step s0 o) as [s' cs'] eqn:Est. destruct Hin as [E|Hin].
  - injection E as <- <- <-. rewrite Est. split; [assumption | reflexivity].
  - apply (IH s'); [|assumption]. pose proof (step_inv s0 o H0) as Hi. rewrite Est in Hi. exact Hi.
Qed.

(* ---------------------------------------------------------------------------------------- *)
(* C09_no_miss                                                                                *)
(* ---------------------------------------------------------------------------------------- *)

(* Whenever the tick of minute m happens while the daemon is alive, every loadable DAG file of the directory -
   present since the start, added or edited meanwhile - with a start schedule matching m, not suspended, not
   running and last started before m gets its Start call; other files (unloadable ones included) do not matter. *)
Theorem no_miss : forall s0 ops, Inv s0 ->
  forall s m w cs, In (s, OTick m w, cs) (trace s0 ops) -> alive s = true ->
  forall f c e sp, lookup f (dir s) = Some c -> load f c = FOk e -> In sp (starts e) -> matches sp m = true ->
  mem f (susp s) = false -> start_guard (status_of s f) m = true -> In (CStart f) cs.
Proof.
  intros s0 ops H0 s m w cs Hin Ha f c e sp Hd Hl Hsp Hm Hsu Hg.
  destruct (trace_inv ops s0 H0 _ _ _ Hin) as [[Ht Hdd Hs] ->]. cbn [step snd].
  apply count_pos_in. rewrite (tick_count s m (CStart f) Ht). cbn [call_file].
  rewrite Ha, (Hs Ha f c e Hd Hl), Hsu. cbn [file_count]. rewrite String.eqb_refl, Hg.
  replace (hit m (starts e)) with true by (symmetry; apply existsb_exists; exists sp; split; assumption). simpl. lia.
Qed.

(* the same for stop and restart schedules *)
Theorem no_miss_stop : forall s0 ops, Inv s0 ->
  forall s m w cs, In (s, OTick m w, cs) (trace s0 ops) -> alive s = true ->
  forall f c e sp, lookup f (dir s) = Some c -> load f c = FOk e -> In sp (stops e) -> matches sp m = true ->
  mem f (susp s) = false -> stop_guard (status_of s f) = true -> In (CStop f) cs.
Proof.
  intros s0 ops H0 s m w cs Hin Ha f c e sp Hd Hl Hsp Hm Hsu Hg.
  destruct (trace_inv ops s0 H0 _ _ _ Hin) as [[Ht Hdd Hs] ->]. cbn [step snd].
  apply count_pos_in. rewrite (tick_count s m (CStop f) Ht). cbn [call_file].
  rewrite Ha, (Hs Ha f c e Hd Hl), Hsu. cbn [file_count]. rewrite String.eqb_refl, Hg.
  replace (hit m (stops e)) with true by (symmetry; apply existsb_exists; exists sp; split; assumption). simpl. lia.
Qed.

Theorem no_miss_restart : forall s0 ops, Inv s0 ->
  forall s m w cs, In (s, OTick m w, cs) (trace s0 ops) -> alive s = true ->
  forall f c e sp, lookup f (dir s) = Some c -> load f c = FOk e -> In sp (restarts e) -> matches sp m = true ->
  mem f (susp s) = false -> In (CRestart f) cs.
Proof.
  intros s0 ops H0 s m w cs Hin Ha f c e sp Hd Hl Hsp Hm Hsu.
  destruct (trace_inv ops s0 H0 _ _ _ Hin) as [[Ht Hdd Hs] ->]. cbn [step snd].
  apply count_pos_in. rewrite (tick_count s m (CRestart f) Ht). cbn [call_file].
  rewrite Ha, (Hs Ha f c e Hd Hl), Hsu. cbn [file_count]. rewrite String.eqb_refl.
  replace (hit m (restarts e)) with true by (symmetry; apply existsb_exists; exists sp; split; assumption). simpl. lia.
Qed.

(* the daemon stays alive as long as no file makes the loader panic *)
Definition dir_safe (s : state) : Prop := forall f c, In (f, c) (dir s) -> forall g, panics g c = false.
Definition op_safe (o : op) : Prop := match o with OWrite f c => forall g, panics g c = false | _ => True end.

Lemma in_remove_key : forall {V} k (l : list (string * V)) x, In x (remove_key k l) -> In x l.
Proof.
  intros V k l x. induction l as [|[k1 v] l IH]; simpl; [tauto|].
  destruct (String.eqb k1 k); simpl; intro H; [right; apply IH; assumption|]. destruct H; [left | right; apply IH]; assumption.
Qed.
Lemma in_upsert : forall {V} k v (l : list (string * V)) x, In x (upsert k v l) -> x = (k, v) \/ In x l.
Proof.
  intros V k v l x H. unfold upsert in H. apply in_app_or in H. destruct H as [H|[H|[]]].
  - right. eapply in_remove_key. eassumption.
  - left. congruence.
Qed.

Lemma step_dir_safe : forall s o, dir_safe s -> op_safe o -> dir_safe (fst (step s o)).
Proof.
  intros s o Hs Ho. unfold dir_safe in *. destruct o as [m w|f st|f on|f c|f|f g|]; cbn [step fst]; try exact Hs.
  - rewrite on_write_dir. simpl. intros f' c' Hin. apply in_upsert in Hin. destruct Hin as [E|Hin].
    + injection E as -> ->. exact Ho.
    + eapply Hs. eassumption.
  - destruct (lookup f (dir s)); cbn [fst]; [|exact Hs]. rewrite on_remove_dir. simpl.
    intros f' c' Hin. eapply Hs. eapply in_remove_key. eassumption.
  - destruct (lookup f (dir s)) as [c|] eqn:Ef; cbn [fst]; [|exact Hs].
    destruct (String.eqb f g); cbn [fst]; [exact Hs|].
    rewrite on_write_dir, on_remove_dir. simpl. intros f' c' Hin. apply in_upsert in Hin. destruct Hin as [E|Hin].
    + injection E as -> ->. apply lookup_in in Ef. eapply Hs. eassumption.
    + eapply Hs. eapply in_remove_key. eassumption.
  - destruct (scan (dir s) []); exact Hs.
Qed.

Lemma step_alive : forall s o, dir_safe s -> op_safe o -> alive s = true -> alive (fst (step s o)) = true.
Proof.
  intros s o Hs Ho Ha. destruct o as [m w|f st|f on|f c|f|f g|]; cbn [step fst]; try exact Ha.
  - unfold on_write. simpl. rewrite Ha. pose proof (Ho f) as Hp. unfold panics in Hp.
    destruct (load f c); try discriminate; simpl; try reflexivity; assumption.
  - destruct (lookup f (dir s)); cbn [fst]; [|exact Ha]. rewrite on_remove_alive. exact Ha.
  - destruct (lookup f (dir s)) as [c|] eqn:Ef; cbn [fst]; [|exact Ha].
    destruct (String.eqb f g); cbn [fst]; [exact Ha|].
    unfold on_write. rewrite on_remove_alive. simpl. rewrite Ha.
    apply lookup_in in Ef. pose proof (Hs f c Ef g) as Hp. unfold panics in Hp.
    destruct (load g c); try discriminate; simpl; try reflexivity; try rewrite on_remove_alive; simpl; assumption.
  - destruct (scan (dir s) []) eqn:E; [reflexivity|]. exfalso. revert E. apply scan_some.
    intros f c Hin. eapply Hs. eassumption.
Qed.

Lemma restart_alive : forall s, dir_safe s -> alive (fst (step s ORestart)) = true.
Proof.
  intros s Hs. cbn [step]. destruct (scan (dir s) []) eqn:E; [reflexivity|]. exfalso. revert E. apply scan_some.
  intros f c Hin. eapply Hs. eassumption.
Qed.

Theorem alive_stable : forall ops s0, dir_safe s0 -> Forall op_safe ops -> alive s0 = true ->
  forall s o cs, In (s, o, cs) (trace s0 ops) -> alive s = true.
Proof.
  induction ops as [|o ops IH]; intros s0 Hd Ho Ha s o' cs Hin; simpl in Hin; [contradiction|].
  inversion Ho as [|? ? Ho1 Ho2]; subst.
  destruct (step s0 o) as [s' cs'] eqn:Est. destruct Hin as [E|Hin].
  - injection E as <- <- <-. assumption.
  - apply (IH s') with (o := o') (cs := cs); try assumption.
    + pose proof (step_dir_safe s0 o Hd Ho1) as H. rewrite Est in H. exact H.
    + pose proof (step_alive s0 o Hd Ho1 Ha) as H. rewrite Est in H. exact H.
Qed.

(* Since the repairs c2912bd / 519d0a6 no content of a DAG file makes the schedule loader panic: the premises
   dir_safe / op_safe hold for every directory and every operation, so a started daemon never dies. *)
Lemma never_panics : forall g c, panics g c = false.
Proof.
  intros g c. unfold panics, load. destruct (negb (ext_ok g)); [reflexivity|]. destruct c as [|v]; [reflexivity|].
  pose proof (build_schedule_no_panic v). destruct (build_schedule v); congruence.
Qed.

Lemma dir_safe_all : forall s, dir_safe s.
Proof. intros s f c _ g. apply never_panics. Qed.
Lemma op_safe_all : forall o, op_safe o.
Proof. intros [ | | |f c| | | ]; simpl; try exact I. intro g. apply never_panics. Qed.

Theorem step_alive_always : forall s o, alive s = true -> alive (fst (step s o)) = true.
Proof. intros. apply step_alive; [apply dir_safe_all | apply op_safe_all | assumption]. Qed.

Theorem restart_alive_always : forall s, alive (fst (step s ORestart)) = true.
Proof. intro s. apply restart_alive. apply dir_safe_all. Qed.

Theorem alive_always : forall ops s0, alive s0 = true ->
  forall s o cs, In (s, o, cs) (trace s0 ops) -> alive s = true.
Proof.
  intros ops s0 Ha. apply alive_stable; [apply dir_safe_all | | assumption].
  apply Forall_forall. intros o _. apply op_safe_all.
Qed.

Lemma final_app : forall a b s, final s (a ++ b) = final (final s a) b.
Proof. induction a as [|o a IH]; intros b s; simpl; [reflexivity | apply IH]. Qed.

Lemma final_inv : forall ops s, Inv s -> Inv (final s ops).
Proof. induction ops as [|o ops IH]; intros s H; simpl; [assumption | apply IH, step_inv; assumption]. Qed.

(* C09_no_miss in full: in every history, once the daemon has been started, every tick that happens starts every
   loadable DAG file of the directory whose guard holds - no exclusion of any file content. *)
Theorem no_miss_started : forall s0 pre post, Inv s0 ->
  forall s m w cs, In (s, OTick m w, cs) (trace (final s0 (pre ++ [ORestart])) post) ->
  forall f c e sp, lookup f (dir s) = Some c -> load f c = FOk e -> In sp (starts e) -> matches sp m = true ->
  mem f (susp s) = false -> start_guard (status_of s f) m = true -> In (CStart f) cs.
Proof.
  intros s0 pre post H0 s m w cs Hin.
  assert (Ha0 : alive (final s0 (pre ++ [ORestart])) = true).
  { rewrite final_app. cbn [final]. apply restart_alive_always. }
  pose proof (final_inv (pre ++ [ORestart]) s0 H0) as Hi.
  pose proof (alive_always post _ Ha0 _ _ _ Hin) as Ha.
  intros. eapply no_miss; eassumption.
Qed.

(* ---------------------------------------------------------------------------------------- *)
(* C09_bad_file                                                                               *)
(* ---------------------------------------------------------------------------------------- *)

(* a file whose load returns an error (or that is not a DAG file) changes nothing the daemon believes *)
Theorem bad_file_write : forall s f c, (load f c = FErr \/ load f c = FNotDag) ->
  tbl (fst (step s (OWrite f c))) = tbl s /\ alive (fst (step s (OWrite f c))) = alive s.
Proof.
  intros s f c H. cbn [step fst]. unfold on_write. cbn [set_dir alive tbl]. destruct (alive s) eqn:Ea.
  - destruct H as [-> | ->]; split; simpl; try reflexivity; congruence.
  - split; simpl; try reflexivity; congruence.
Qed.

(* at start-up unloadable files are skipped: the table is exactly the loadable part of the directory *)
Theorem bad_file_scan : forall s t, NoDup (map fst (dir s)) -> scan (dir s) [] = Some t ->
  forall f, lookup f t = match lookup f (dir s) with
                         | Some c => match load f c with FOk e => Some e | _ => None end
                         | None => None
                         end.
Proof. intros s t Hd Hs f. rewrite (scan_lookup _ _ _ Hd Hs f). destruct (lookup f (dir s)) as [c|]; [destruct (load f c)|]; reflexivity. Qed.

(* an edit of file f (whatever its content) leaves the entry of every other file as it was, unless the
   loader panics on it *)
Theorem other_files_kept : forall s f c h, h <> f -> panics f c = false ->
  lookup h (tbl (fst (step s (OWrite f c)))) = lookup h (tbl s).
Proof.
  intros s f c h Hne Hp. cbn [step fst]. unfold on_write. cbn [set_dir alive tbl]. destruct (alive s); [|reflexivity].
  unfold panics in Hp. destruct (load f c); try discriminate; simpl; try reflexivity.
  apply lookup_upsert_other. congruence.
Qed.

(* in full: whatever is written to file f, the entries of every other file stay as they are and the daemon lives *)
Theorem bad_file_others : forall s f c h, h <> f ->
  lookup h (tbl (fst (step s (OWrite f c)))) = lookup h (tbl s).
Proof. intros. apply other_files_kept; [assumption | apply never_panics]. Qed.

Theorem write_keeps_alive : forall s f c, alive (fst (step s (OWrite f c))) = alive s.
Proof.
  intros s f c. destruct (alive s) eqn:Ha.
  - apply step_alive_always. assumption.
  - cbn [step fst]. rewrite on_write_dead by (simpl; assumption). simpl. assumption.
Qed.

(* ---------------------------------------------------------------------------------------- *)
(* C09_no_double                                                                              *)
(* ---------------------------------------------------------------------------------------- *)
Fixpoint ticks_ge (b : Z) (ops : list op) : Prop :=
  match ops with
  | [] => True
  | OTick m _ :: r => b <= m /\ ticks_ge b r
  | _ :: r => ticks_ge b r
  end.

(* the logical minute never goes back (a restarted daemon resumes at the wall-clock minute, which may be the
   minute that was ticked last) *)
Fixpoint ticks_mono (ops : list op) : Prop :=
  match ops with
  | [] => True
  | OTick m _ :: r => ticks_ge m r /\ ticks_mono r
  | _ :: r => ticks_mono r
  end.

Definition opt_le (a b : option Z) : Prop :=
  match a, b with
  | None, _ => True
  | Some x, Some y => x <= y
  | Some _, None => False
  end.

(* What a history must satisfy for "no minute is started twice" to be meaningful - these are the property's own
   quantifier (which histories count as runs of the daemon and its environment), not exclusions of inputs:
   - a tick never runs before its minute (wall >= 60 m): the timer fires at or after the minute it stands for, and
     a run started by it carries the wall-clock start time;
   - the latest start time of f reported by the client never moves backwards: "its most recent run" is the
     newest run; a history store that loses or rewrites the newest run makes the guard formula itself allow the
     minute again (C09_start_iff), which is what the property states;
   - (ticks_mono below) the logical minute never goes back: the daemon advances minute by minute and a restarted
     daemon resumes at the wall-clock minute. *)
Definition step_ok (f : string) (s : state) (o : op) : Prop :=
  match o with
  | OTick m w => 60 * m <= w
  | OHist g st' => g = f -> opt_le (st_last (status_of s f)) (st_last st')
  | _ => True
  end.

Fixpoint trace_ok (f : string) (s : state) (ops : list op) : Prop :=
  match ops with
  | [] => True
  | o :: r => step_ok f s o /\ trace_ok f (fst (step s o)) r
  end.

(* number of Start calls for f issued by ticks of minute m0 over the whole history *)
Fixpoint starts_at (f : string) (m0 : Z) (s : state) (ops : list op) : nat :=
  match ops with
  | [] => 0%nat
  | o :: r => ((match o with OTick m _ => if (m =? m0)%Z then count (CStart f) (snd (step s o)) else 0 | _ => 0 end)
               + starts_at f m0 (fst (step s o)) r)%nat
  end.

Definition ran_since (s : state) (f : string) (m0 : Z) : Prop :=
  exists l, st_last (status_of s f) = Some l /\ m0 <= l.

Definition hstatus (h : list (string * status)) (f : string) : status :=
  match lookup f h with Some st => st | None => st_none end.

Lemma after_calls_idem : forall cs w f st, after_calls cs w f (after_calls cs w f st) = after_calls cs w f st.
Proof. intros. unfold after_calls. destruct (started_in cs f); [reflexivity|]. destruct (stopped_in cs f); reflexivity. Qed.

Lemma apply_calls_files_status : forall cs w fs h g,
  hstatus (apply_calls_files cs w fs h) g =
  if existsb (String.eqb g) fs then after_calls cs w g (hstatus h g) else hstatus h g.
Proof.
  intros cs w. induction fs as [|f1 fs IH]; intros h g; cbn [apply_calls_files existsb]; [reflexivity|].
  rewrite IH. fold (hstatus h f1).
  assert (E : hstatus (upsert f1 (after_calls cs w f1 (hstatus h f1)) h) g =
              if String.eqb g f1 then after_calls cs w g (hstatus h g) else hstatus h g).
  { unfold hstatus at 1. destruct (String.eqb g f1) eqn:Eg.
    - apply String.eqb_eq in Eg. subst. rewrite lookup_upsert_same. reflexivity.
    - apply String.eqb_neq in Eg. rewrite lookup_upsert_other by congruence. reflexivity. }
  rewrite E. destruct (String.eqb g f1); simpl; [|reflexivity].
  destruct (existsb (String.eqb g) fs); [apply after_calls_idem | reflexivity].
Qed.

Lemma status_after_tick : forall s m w f,
  status_of (fst (step s (OTick m w))) f =
  let cs := tick_calls s m in
  if existsb (String.eqb f) (map call_file cs) then after_calls cs w f (status_of s f) else status_of s f.
Proof. intros. cbn [step fst]. unfold status_of. simpl. apply apply_calls_files_status. Qed.

Lemma started_in_start : forall cs f, In (CStart f) cs -> started_in cs f = true /\ existsb (String.eqb f) (map call_file cs) = true.
Proof.
  intros cs f H. split.
  - unfold started_in. apply existsb_exists. exists (CStart f). split; [assumption|]. simpl. apply String.eqb_refl.
  - apply existsb_exists. exists f. split; [|apply String.eqb_refl]. apply in_map_iff. exists (CStart f). split; [reflexivity | assumption].
Qed.

Lemma tick_keeps_ran : forall s m w f m0, ran_since s f m0 -> 60 * m <= w -> m0 <= m ->
  ran_since (fst (step s (OTick m w))) f m0.
Proof.
  intros s m w f m0 (l & Hl & Hle) Hw Hm. unfold ran_since. rewrite status_after_tick. cbv zeta.
  destruct (existsb _ _); [|exists l; split; assumption].
  unfold after_calls. destruct (started_in _ f).
  - simpl. exists (w / 60). split; [reflexivity|]. apply Z.le_trans with m; [assumption|]. apply Z.div_le_lower_bound; lia.
  - destruct (stopped_in _ f); simpl; exists l; split; assumption.
Qed.

Lemma step_tbl_nodup : forall s o, NoDup (map fst (tbl s)) -> NoDup (map fst (tbl (fst (step s o)))).
Proof.
  intros s o Ht. destruct o as [m w|f st|f on|f c|f|f g|]; cbn [step fst]; try exact Ht.
  - apply on_write_tbl_nodup. exact Ht.
  - destruct (lookup f (dir s)); cbn [fst]; [apply on_remove_tbl_nodup|]; exact Ht.
  - destruct (lookup f (dir s)); cbn [fst]; [|exact Ht]. destruct (String.eqb f g); cbn [fst]; [exact Ht|].
    apply on_write_tbl_nodup, on_remove_tbl_nodup. exact Ht.
  - destruct (scan (dir s) []) eqn:E; simpl; [|constructor]. eapply scan_nodup; [|eassumption]. constructor.
Qed.

Lemma on_write_hist : forall s g c, hist (on_write s g c) = hist s.
Proof. intros. unfold on_write. destruct (alive s); [|reflexivity]. destruct (load g c); reflexivity. Qed.
Lemma on_remove_hist : forall s f, hist (on_remove s f) = hist s.
Proof. intros. unfold on_remove. destruct (alive s && ext_ok f); reflexivity. Qed.

Lemma step_keeps_ran : forall s o f m0, ran_since s f m0 -> step_ok f s o ->
  (match o with OTick m _ => m0 <= m | _ => True end) -> ran_since (fst (step s o)) f m0.
Proof.
  intros s o f m0 Hr Hok Hm. destruct o as [m w|g st|g on|g c|g|g g'|].
  - apply tick_keeps_ran; assumption.
  - destruct Hr as (l & Hl & Hle). unfold ran_since, status_of. cbn [step fst hist].
    destruct (string_dec g f) as [->|Hne].
    + rewrite lookup_upsert_same. specialize (Hok eq_refl). rewrite Hl in Hok. simpl in Hok.
      destruct (st_last st) as [l'|]; [|contradiction]. exists l'. split; [reflexivity | lia].
    + rewrite lookup_upsert_other by assumption. exists l. split; assumption.
  - exact Hr.
  - unfold ran_since, status_of in *. cbn [step fst]. rewrite on_write_hist. exact Hr.
  - unfold ran_since, status_of in *. cbn [step]. destruct (lookup g (dir s)); cbn [fst]; [rewrite on_remove_hist|]; exact Hr.
  - unfold ran_since, status_of in *. cbn [step]. destruct (lookup g (dir s)); cbn [fst]; [|exact Hr].
    destruct (String.eqb g g'); cbn [fst]; [exact Hr|]. rewrite on_write_hist, on_remove_hist. exact Hr.
  - unfold ran_since, status_of in *. cbn [step]. destruct (scan (dir s) []); exact Hr.
Qed.

(* a DAG whose latest run started at or after minute m0 gets no Start call from a tick of minute m0 *)
Lemma no_start_after_run : forall s f m0, NoDup (map fst (tbl s)) -> ran_since s f m0 ->
  count (CStart f) (tick_calls s m0) = 0%nat.
Proof.
  intros s f m0 Ht (l & Hl & Hle). rewrite (tick_count s m0 (CStart f) Ht). cbn [call_file].
  destruct (alive s); [|reflexivity]. destruct (lookup f (tbl s)) as [e|]; [|reflexivity].
  destruct (mem f (susp s)); [reflexivity|]. cbn [file_count]. rewrite String.eqb_refl.
  unfold start_guard. rewrite Hl. replace (l <? m0) with false by (symmetry; apply Z.ltb_ge; lia).
  rewrite !andb_false_r. reflexivity.
Qed.

Lemma quiet_after_run : forall ops s f m0, NoDup (map fst (tbl s)) -> ran_since s f m0 ->
  ticks_ge m0 ops -> trace_ok f s ops -> starts_at f m0 s ops = 0%nat.
Proof.
  induction ops as [|o ops IH]; intros s f m0 Ht Hr Hge Hok; [reflexivity|].
  cbn [starts_at]. destruct Hok as [Hok1 Hok2].
  assert (Hm : match o with OTick m _ => m0 <= m | _ => True end).
  { destruct o; simpl in Hge; try exact I. tauto. }
  assert (Hge' : ticks_ge m0 ops) by (destruct o; simpl in Hge; tauto).
  rewrite (IH (fst (step s o)) f m0 (step_tbl_nodup s o Ht) (step_keeps_ran s o f m0 Hr Hok1 Hm) Hge' Hok2).
  destruct o as [m w| | | | | |]; try reflexivity.
  destruct (m =? m0) eqn:E; [|reflexivity]. apply Z.eqb_eq in E. subst m. cbn [step snd].
  rewrite (no_start_after_run s f m0 Ht Hr). reflexivity.
Qed.

Lemma ticks_ge_trans : forall ops a b, a <= b -> ticks_ge b ops -> ticks_ge a ops.
Proof. induction ops as [|o ops IH]; intros a b Hab H; [exact I|]. destruct o; simpl in *; try (eapply IH; eassumption). split; [lia | eapply IH; [eassumption | tauto]]. Qed.

(* C09_no_double: over every history in which the logical minute never goes back, ticks do not run early and the
   reported latest start never moves backwards, the ticks of any given minute m0 issue at most one Start for f -
   whatever its schedules, whatever the lag, however often the daemon is restarted, whatever happens to the
   directory. *)
Theorem no_double : forall ops s f m0, NoDup (map fst (tbl s)) -> ticks_mono ops -> trace_ok f s ops ->
  (starts_at f m0 s ops <= 1)%nat.
Proof.
  induction ops as [|o ops IH]; intros s f m0 Ht Hmono Hok; [simpl; lia|].
  cbn [starts_at]. destruct Hok as [Hok1 Hok2].
  pose proof (step_tbl_nodup s o Ht) as Ht'.
  assert (Hmono' : ticks_mono ops) by (destruct o; simpl in Hmono; tauto).
  specialize (IH (fst (step s o)) f m0 Ht' Hmono' Hok2).
  destruct o as [m w| | | | | |]; try lia.
  destruct (m =? m0) eqn:E; [|lia]. apply Z.eqb_eq in E. subst m.
  destruct Hmono as [Hge _]. pose proof Hok1 as Hw. cbn [step_ok] in Hw. cbn [step snd] in *.
  (* at most one call from this tick *)
  pose proof (call_once s m0 Ht (CStart f)) as Hc.
  destruct (count (CStart f) (tick_calls s m0)) as [|[|n]] eqn:Ec; [lia| |lia].
  (* one call: from now on the latest run of f started at or after m0 *)
  assert (Hin : In (CStart f) (tick_calls s m0)) by (apply count_pos_in; lia).
  assert (Hr : ran_since (fst (step s (OTick m0 w))) f m0).
  { unfold ran_since. rewrite status_after_tick. cbv zeta. destruct (started_in_start _ _ Hin) as [E1 E2].
    rewrite E2. unfold after_calls. rewrite E1. simpl. exists (w / 60). split; [reflexivity|]. apply Z.div_le_lower_bound; lia. }
  rewrite (quiet_after_run ops _ f m0 Ht' Hr Hge Hok2). lia.
Qed.
