(* C09: concrete histories evaluated by vm_compute - the premises of the theorems are satisfiable, and the inputs that
   used to contradict the property (F9a zero Next, F9b overlapping start schedules, F13a/b loader panics; all repaired
   in /repo) now behave as the property demands.  The same inputs are replayed on the real code by
   tools/props/C09.py (fixed sequences of harness/cmd/cron, findings/). *)
From Coq Require Import List Bool Arith ZArith Lia String.
Import ListNotations.
From BD.Cron Require Import Model Schedule ProofsNext.
From BD.Daemon Require Import Model ProofsTick Proofs ProofsSeq.
Local Open Scope string_scope.
Local Open Scope Z_scope.

(* decidable forms of the premises of no_double *)
Definition opt_leb (a b : option Z) : bool :=
  match a, b with None, _ => true | Some x, Some y => x <=? y | Some _, None => false end.

Definition step_okb (f : string) (s : state) (o : op) : bool :=
  match o with
  | OTick m w => 60 * m <=? w
  | OHist g st' => if String.eqb g f then opt_leb (st_last (status_of s f)) (st_last st') else true
  | _ => true
  end.

Fixpoint trace_okb (f : string) (s : state) (ops : list op) : bool :=
  match ops with [] => true | o :: r => step_okb f s o && trace_okb f (fst (step s o)) r end.

Fixpoint ticks_geb (b : Z) (ops : list op) : bool :=
  match ops with [] => true | OTick m _ :: r => (b <=? m) && ticks_geb b r | _ :: r => ticks_geb b r end.
Fixpoint ticks_monob (ops : list op) : bool :=
  match ops with [] => true | OTick m _ :: r => ticks_geb m r && ticks_monob r | _ :: r => ticks_monob r end.

Lemma step_okb_ok : forall f s o, step_okb f s o = true -> step_ok f s o.
Proof.
  intros f s o H. destruct o as [m w|g st|g on|g c|g|g g'|]; simpl in *; try exact I.
  - apply Z.leb_le. assumption.
  - intros ->. rewrite String.eqb_refl in H. unfold opt_leb, opt_le in *.
    destruct (st_last (status_of s f)), (st_last st); try exact I; try discriminate. apply Z.leb_le. assumption.
Qed.

Lemma trace_okb_ok : forall ops f s, trace_okb f s ops = true -> trace_ok f s ops.
Proof.
  induction ops as [|o ops IH]; intros f s H; [exact I|]. simpl in H. apply andb_true_iff in H as [H1 H2].
  split; [apply step_okb_ok; assumption | apply IH; assumption].
Qed.

Lemma ticks_geb_ok : forall ops b, ticks_geb b ops = true -> ticks_ge b ops.
Proof.
  induction ops as [|o ops IH]; intros b H; [exact I|]. destruct o; simpl in *; try (apply IH; assumption).
  apply andb_true_iff in H as [H1 H2]. apply Z.leb_le in H1. split; [assumption | apply IH; assumption].
Qed.

Lemma ticks_monob_ok : forall ops, ticks_monob ops = true -> ticks_mono ops.
Proof.
  induction ops as [|o ops IH]; intro H; [exact I|]. destruct o; simpl in *; try (apply IH; assumption).
  apply andb_true_iff in H as [H1 H2]. split; [apply ticks_geb_ok; assumption | apply IH; assumption].
Qed.

(* boolean form of no_double, ready for evaluation on a concrete history *)
Corollary no_double_b : forall ops s f m0, NoDup (map fst (tbl s)) -> ticks_monob ops = true -> trace_okb f s ops = true ->
  (starts_at f m0 s ops <= 1)%nat.
Proof. intros. apply no_double; [assumption | apply ticks_monob_ok; assumption | apply trace_okb_ok; assumption]. Qed.

(* ---------------------------------------------------------------------------------------- *)
(* concrete directories                                                                       *)
(* ---------------------------------------------------------------------------------------- *)
(* every proof below evaluates closed terms with vm_compute before anything else *)
Fixpoint nodupb (l : list string) : bool :=
  match l with [] => true | x :: r => negb (existsb (String.eqb x) r) && nodupb r end.
Lemma nodupb_ok : forall l, nodupb l = true -> NoDup l.
Proof.
  induction l as [|x l IH]; intro H; [constructor|]. simpl in H. apply andb_true_iff in H as [H1 H2].
  constructor; [|apply IH; assumption]. intro Hin. apply negb_true_iff in H1.
  assert (existsb (String.eqb x) l = true) by (apply existsb_exists; exists x; split; [assumption | apply String.eqb_refl]).
  congruence.
Qed.

Definition m0 : Z := 28589040.      (* 2024-05-10 12:00 UTC *)
Definition file (v : sval) : content := CSched v.
Definition after (d : list (string * content)) (ops : list op) : state := final (init_state d) ops.
Definition entry_of (s : state) (f : string) : sched3 := match lookup f (tbl s) with Some e => e | None => no_sched end.
Definition content_of (s : state) (f : string) : content := match lookup f (dir s) with Some c => c | None => CBad end.
Definition loaded (f : string) (c : content) : sched3 := match load f c with FOk e => e | _ => no_sched end.

Definition d_f9a_start := [("d0.yaml", file (SStr "0 0 30 2 *"))].
Definition d_f9a_restart := [("d0.yaml", file (SMap [(KStr "restart", MStr "0 0 30 2 *")]))].
Definition d_f9b := [("d0.yaml", file (SList [IStr "* * * * *"; IStr "*/2 * * * *"]))].
Definition d_f13a := [("d0.yaml", file (SStr "* * * * *")); ("d1.yaml", file (SMap [(KStr "begin", MStr "* * * * *")]))].
Definition d_good := [("d0.yaml", file (SStr "* * * * *")); ("zz.yaml", CBad)].

(* The former F9a witnesses: a schedule that never fires within the horizon ('0 0 30 2 *') as start, restart and
   stop schedule.  The zero time returned by Next is skipped now: no call at any tick. *)
Example former_zero_next_is_silent :
  run (init_state d_f9a_start) [ORestart; OTick m0 (60 * m0); OTick (m0 + 1) (60 * m0 + 60)] = [[]; []; []] /\
  run (init_state d_f9a_restart) [ORestart; OTick m0 (60 * m0); OTick (m0 + 1) (60 * m0 + 60); OTick (m0 + 2) (60 * m0 + 120)]
    = [[]; []; []; []] /\
  restarts (entry_of (final (init_state d_f9a_restart) [ORestart]) "d0.yaml") = [feb30] /\
  next feb30 (60 * m0 - 1) = None.
Proof. vm_compute. repeat split. Qed.

(* The former F9b witness: two start schedules of one DAG that match the same minute.  One entry per file and
   operation now: one Start in that tick, one Start for the minute over the history. *)
Example former_overlap_starts_once :
  run (init_state d_f9b) [ORestart; OTick m0 (60 * m0); OTick (m0 + 1) (60 * m0 + 60)] = [[]; [CStart "d0.yaml"]; []] /\
  count (CStart "d0.yaml") (tick_calls (after d_f9b [ORestart]) m0) = 1%nat /\
  List.length (filter (fun sp => matches sp m0) (starts (entry_of (after d_f9b [ORestart]) "d0.yaml"))) = 2%nat /\
  starts_at "d0.yaml" m0 (init_state d_f9b) [ORestart; OTick m0 (60 * m0)] = 1%nat.
Proof. vm_compute. repeat split. Qed.

(* The former F13a / F13b witnesses (a schedule map with an unknown key; a schedule that is only a zone prefix),
   at start-up and through the watcher: since c2912bd / 519d0a6 such a file merely fails to load - the daemon
   lives and the other DAG is started. *)
Example former_loader_panics_are_errors :
  run (init_state d_f13a) [ORestart; OTick m0 (60 * m0)] = [[]; [CStart "d0.yaml"]] /\
  alive (final (init_state d_f13a) [ORestart]) = true /\
  run (init_state d_good) [ORestart; OWrite "d1.yaml" (file (SStr "CRON_TZ=UTC")); OTick m0 (60 * m0)] = [[]; []; [CStart "d0.yaml"]] /\
  load "d1.yaml" (file (SStr "CRON_TZ=UTC")) = FErr /\
  load "d1.yaml" (file (SMap [(KStr "begin", MStr "* * * * *")])) = FErr.
Proof. vm_compute. repeat split. Qed.

(* ---------------------------------------------------------------------------------------- *)
(* the premises are satisfiable                                                               *)
(* ---------------------------------------------------------------------------------------- *)
Definition d_sat := [("d0.yaml", file (SMap [(KStr "start", MStr "*/2 * * * *"); (KStr "stop", MStr "0 18 * * *")])); ("zz.yaml", CBad)].

(* start_iff: the tick of a matching minute starts the DAG once *)
Example start_iff_sat : exists s m f e,
  NoDup (map fst (tbl s)) /\ lookup f (tbl s) = Some e /\
  count (CStart f) (tick_calls s m) = 1%nat /\ count (CStart f) (tick_calls s (m + 1)) = 0%nat.
Proof.
  exists (after d_sat [ORestart]), m0, "d0.yaml", (entry_of (after d_sat [ORestart]) "d0.yaml").
  split; [apply nodupb_ok; vm_compute; reflexivity|].
  split; [vm_compute; reflexivity|].
  split; vm_compute; reflexivity.
Qed.

(* no_double / no_miss: a history with lag, bunched ticks, a daemon restart inside a minute already ticked, a run
   that ends, a bad file and a file added while the daemon runs *)
Definition h_ops : list op :=
  [ORestart;
   OTick m0 (60 * m0 + 7);
   OHist "d0.yaml" {| st_err := false; st_run := false; st_last := Some m0 |};      (* the run ends *)
   ORestart;                                                                         (* daemon restarted within the minute *)
   OTick m0 (60 * m0 + 40);
   OWrite "d2.yaml" (file (SStr "* * * * *"));                                       (* added while running *)
   OWrite "bad.yaml" CBad;
   OTick (m0 + 1) (60 * m0 + 200);                                                   (* late *)
   OTick (m0 + 2) (60 * m0 + 200);                                                   (* bunched *)
   OTick (m0 + 3) (60 * m0 + 200)].

Example history_sat :
  Inv (init_state d_good) /\ ticks_mono h_ops /\ trace_ok "d0.yaml" (init_state d_good) h_ops /\
  trace_ok "d2.yaml" (init_state d_good) h_ops /\
  run (init_state d_good) h_ops =
    [[]; [CStart "d0.yaml"]; []; []; []; []; []; [CStart "d0.yaml"; CStart "d2.yaml"]; []; []] /\
  starts_at "d0.yaml" m0 (init_state d_good) h_ops = 1%nat.
Proof.
  split; [apply init_inv; apply nodupb_ok; vm_compute; reflexivity|].
  split; [apply ticks_monob_ok; vm_compute; reflexivity|].
  split; [apply trace_okb_ok; vm_compute; reflexivity|].
  split; [apply trace_okb_ok; vm_compute; reflexivity|].
  split; vm_compute; reflexivity.
Qed.

Definition content_safe (c : content) : bool :=
  match c with CBad => true | CSched v => match build_schedule v with PPanic => false | _ => true end end.
Lemma content_safe_ok : forall c, content_safe c = true -> forall g, panics g c = false.
Proof.
  intros c H g. unfold panics, load. destruct (negb (ext_ok g)); [reflexivity|]. destruct c as [|v]; [reflexivity|].
  simpl in H. destruct (build_schedule v); try reflexivity. discriminate.
Qed.

Definition op_safeb (o : op) : bool := match o with OWrite _ c => content_safe c | _ => true end.
Lemma ops_safeb_ok : forall ops, forallb op_safeb ops = true -> Forall op_safe ops.
Proof.
  intros ops H. apply Forall_forall. intros o Hin. rewrite forallb_forall in H. specialize (H o Hin).
  destruct o; simpl in *; try exact I. apply content_safe_ok. assumption.
Qed.
Lemma dir_safeb_ok : forall s, forallb (fun fc => content_safe (snd fc)) (dir s) = true -> dir_safe s.
Proof.
  intros s H f c Hin. rewrite forallb_forall in H. specialize (H (f, c) Hin). apply content_safe_ok. assumption.
Qed.

Example alive_sat : dir_safe (init_state d_good) /\ Forall op_safe h_ops.
Proof. split; [apply dir_safeb_ok | apply ops_safeb_ok]; vm_compute; reflexivity. Qed.
