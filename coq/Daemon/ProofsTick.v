(* One tick of the daemon: the multiset of client calls equals the guard formula (C09_start_iff / stop_iff /
   restart_iff).  Sorting by Next and stopping at the first entry after the tick is a filter. *)
From Coq Require Import List Bool Arith ZArith Lia String Permutation Sorted.
Import ListNotations.
From BD.Cron Require Import Model Schedule ProofsNext.
From BD.Daemon Require Import Model.
Local Open Scope Z_scope.

(* ---------------------------------------------------------------------------------------- *)
(* lists                                                                                      *)
(* ---------------------------------------------------------------------------------------- *)
Lemma filter_flat_map : forall {A B} (p : B -> bool) (g : A -> list B) l,
  filter p (flat_map g l) = flat_map (fun x => filter p (g x)) l.
Proof. intros. induction l as [|x l IH]; simpl; [reflexivity|]. rewrite filter_app, IH. reflexivity. Qed.

Lemma flat_map_flat_map : forall {A B C} (f : B -> list C) (g : A -> list B) l,
  flat_map f (flat_map g l) = flat_map (fun x => flat_map f (g x)) l.
Proof. intros. induction l as [|x l IH]; simpl; [reflexivity|]. rewrite flat_map_app, IH. reflexivity. Qed.

Lemma Permutation_filter : forall {A} (p : A -> bool) l l', Permutation l l' -> Permutation (filter p l) (filter p l').
Proof.
  intros A p l l' H. induction H; simpl.
  - constructor.
  - destruct (p x); [constructor|]; assumption.
  - destruct (p x), (p y); try apply perm_swap; try apply perm_skip; apply Permutation_refl.
  - eapply Permutation_trans; eassumption.
Qed.

(* ---------------------------------------------------------------------------------------- *)
(* sort.SliceStable + break = filter                                                          *)
(* ---------------------------------------------------------------------------------------- *)
Definition le_next (a b : entry) : Prop := next_leb (e_next a) (e_next b) = true.

Lemma next_leb_total : forall a b, next_leb a b = false -> next_leb b a = true.
Proof. intros [x|] [y|]; simpl; try discriminate; try reflexivity. intro H. apply Z.leb_gt in H. apply Z.leb_le. lia. Qed.

Lemma next_leb_trans : forall a b c, next_leb a b = true -> next_leb b c = true -> next_leb a c = true.
Proof.
  intros [x|] [y|] [z|]; simpl; try discriminate; try reflexivity. intros H1 H2.
  apply Z.leb_le in H1, H2. apply Z.leb_le. lia.
Qed.

Lemma insert_perm : forall e l, Permutation (insert_entry e l) (e :: l).
Proof.
  intros e l. induction l as [|x l IH]; simpl; [apply Permutation_refl|].
  destruct (next_leb (e_next e) (e_next x)); [apply Permutation_refl|].
  eapply Permutation_trans; [apply perm_skip, IH | apply perm_swap].
Qed.

Lemma sort_perm : forall l, Permutation (sort_entries l) l.
Proof.
  induction l as [|e l IH]; simpl; [constructor|].
  eapply Permutation_trans; [apply insert_perm | apply perm_skip, IH].
Qed.

Lemma insert_sorted : forall e l, StronglySorted le_next l -> StronglySorted le_next (insert_entry e l).
Proof.
  intros e l H. induction H as [|x l Hs IH Hx]; simpl.
  - constructor; constructor.
  - destruct (next_leb (e_next e) (e_next x)) eqn:E.
    + constructor; [constructor; assumption|].
      constructor; [exact E|].
      eapply Forall_impl; [|exact Hx]. intros a Ha. unfold le_next in *. eapply next_leb_trans; eassumption.
    + constructor; [assumption|].
      eapply Permutation_Forall; [apply Permutation_sym, insert_perm|].
      constructor; [unfold le_next; apply next_leb_total; assumption | assumption].
Qed.

Lemma sort_sorted : forall l, StronglySorted le_next (sort_entries l).
Proof. induction l as [|e l IH]; simpl; [constructor | apply insert_sorted; assumption]. Qed.

Definition due_entry (m : Z) (e : entry) : bool := match e_next e with Some n => n <=? m | None => false end.

Lemma filter_nil : forall {A} (p : A -> bool) l, (forall x, In x l -> p x = false) -> filter p l = [].
Proof.
  intros A p l H. induction l as [|x l IH]; simpl; [reflexivity|].
  rewrite (H x (or_introl eq_refl)). apply IH. intros y Hy. apply H. right. assumption.
Qed.

Lemma take_due_sorted : forall m l, StronglySorted le_next l -> take_due m l = filter (due_entry m) l.
Proof.
  intros m l H. induction H as [|x l Hs IH Hx]; simpl; [reflexivity|].
  unfold due_entry at 1. destruct (e_next x) as [n|] eqn:En; [|exact IH].
  destruct (m <? n) eqn:E.
  - apply Z.ltb_lt in E. replace (n <=? m) with false by (symmetry; apply Z.leb_gt; lia).
    symmetry. apply filter_nil. intros y Hy. rewrite Forall_forall in Hx. specialize (Hx y Hy).
    unfold due_entry, le_next in *. rewrite En in Hx. destruct (e_next y) as [n'|]; [|reflexivity].
    simpl in Hx. apply Z.leb_le in Hx. apply Z.leb_gt. lia.
  - apply Z.ltb_ge in E. replace (n <=? m) with true by (symmetry; apply Z.leb_le; lia).
    rewrite IH. reflexivity.
Qed.

(* the calls of a tick, up to order: every due entry of every non-suspended file is invoked *)
Definition all_calls (s : state) (m : Z) : list call :=
  flat_map (invoke s) (filter (due_entry m) (read_entries s (60 * m - 1))).

Theorem tick_calls_perm : forall s m, alive s = true -> Permutation (tick_calls s m) (all_calls s m).
Proof.
  intros s m Ha. unfold tick_calls, all_calls. rewrite Ha.
  rewrite take_due_sorted by apply sort_sorted.
  apply Permutation_flat_map. apply Permutation_filter. apply sort_perm.
Qed.

(* ---------------------------------------------------------------------------------------- *)
(* counting calls                                                                             *)
(* ---------------------------------------------------------------------------------------- *)
Definition call_eq_dec : forall a b : call, {a = b} + {a <> b}.
Proof. decide equality; apply string_dec. Defined.

Definition count (c : call) (l : list call) : nat := count_occ call_eq_dec l c.

Lemma count_app : forall c l1 l2, count c (l1 ++ l2) = (count c l1 + count c l2)%nat.
Proof. intros. unfold count. apply count_occ_app. Qed.

Lemma count_perm : forall c l l', Permutation l l' -> count c l = count c l'.
Proof. intros c l l' H. unfold count. apply (proj1 (Permutation_count_occ call_eq_dec l l') H). Qed.

Lemma count_zero : forall c l, (forall x, In x l -> x <> c) -> count c l = 0%nat.
Proof. intros c l H. unfold count. apply count_occ_not_In. intro Hin. apply (H c Hin). reflexivity. Qed.

Lemma count_pos_in : forall c l, (0 < count c l)%nat <-> In c l.
Proof. intros. unfold count. symmetry. apply count_occ_In. Qed.

(* the guards of job.go *)
Definition start_guard (st : status) (n : Z) : bool :=
  negb (st_err st) && negb (st_run st) && match st_last st with Some l => l <? n | None => true end.
Definition stop_guard (st : status) : bool := negb (st_err st) && st_run st.

Definition next_or_zero (n : option Z) : Z := match n with Some n => n | None => zero_minute end.

Lemma invoke_start : forall s n f, invoke s {| e_next := n; e_kind := KStart; e_file := f |} =
  if start_guard (status_of s f) (next_or_zero n) then [CStart f] else [].
Proof.
  intros. unfold invoke, start_guard, next_or_zero. simpl. set (n' := match n with Some n0 => n0 | None => zero_minute end). destruct (st_err _); simpl; [reflexivity|].
  destruct (st_run _); simpl; [reflexivity|]. destruct (st_last _) as [l|]; [|reflexivity].
  destruct (n' <=? l) eqn:E.
  - apply Z.leb_le in E. replace (l <? n') with false by (symmetry; apply Z.ltb_ge; lia). reflexivity.
  - apply Z.leb_gt in E. replace (l <? n') with true by (symmetry; apply Z.ltb_lt; lia). reflexivity.
Qed.

Lemma invoke_stop : forall s n f, invoke s {| e_next := n; e_kind := KStop; e_file := f |} =
  if stop_guard (status_of s f) then [CStop f] else [].
Proof. intros. unfold invoke, stop_guard. simpl. destruct (st_err _); simpl; [reflexivity|]. destruct (st_run _); reflexivity. Qed.

Lemma invoke_restart : forall s n f, invoke s {| e_next := n; e_kind := KRestart; e_file := f |} = [CRestart f].
Proof. reflexivity. Qed.

(* ---------------------------------------------------------------------------------------- *)
(* one entry per file and kind: the earliest Next is due iff some schedule of the kind fires    *)
(* ---------------------------------------------------------------------------------------- *)
Definition hit (m : Z) (sps : list spec) : bool := existsb (fun sp => matches sp m) sps.
Definition opt_due (m : Z) (o : option Z) : bool := match o with Some n => n <=? m | None => false end.
Definition opt_ge (m : Z) (o : option Z) : Prop := match o with Some a => m <= a | None => True end.

Lemma earlier_spec : forall m sp acc, opt_ge m acc ->
  opt_ge m (earlier acc (next sp (60 * m - 1))) /\
  opt_due m (earlier acc (next sp (60 * m - 1))) = opt_due m acc || matches sp m.
Proof.
  intros m sp acc Hge. destruct (next sp (60 * m - 1)) as [n|] eqn:E; cbn [earlier].
  - destruct (next_some _ _ _ E) as (Hn & _ & _). rewrite next_lo_tick in Hn.
    assert (Hm : matches sp m = (n <=? m)) by (rewrite <- due_matches; unfold due; rewrite E; reflexivity).
    rewrite Hm. destruct acc as [a|]; cbn [opt_ge opt_due] in *.
    + destruct (n <? a) eqn:L; cbn [opt_ge opt_due]; [apply Z.ltb_lt in L | apply Z.ltb_ge in L]; (split; [lia|]);
        destruct (n <=? m) eqn:N; destruct (a <=? m) eqn:A; try reflexivity;
        try apply Z.leb_le in N; try apply Z.leb_gt in N; try apply Z.leb_le in A; try apply Z.leb_gt in A; lia.
    + split; [lia | reflexivity].
  - destruct (due_of_none sp m E) as [_ ->]. rewrite orb_false_r. split; [assumption | reflexivity].
Qed.

Lemma earliest_spec : forall m sps acc, opt_ge m acc ->
  opt_ge m (earliest (60 * m - 1) sps acc) /\
  opt_due m (earliest (60 * m - 1) sps acc) = opt_due m acc || hit m sps.
Proof.
  intros m. induction sps as [|sp sps IH]; intros acc Hge; cbn [earliest hit existsb].
  - rewrite orb_false_r. split; [assumption | reflexivity].
  - destruct (earlier_spec m sp acc Hge) as [Hge' Hd']. destruct (IH _ Hge') as [Hge2 Hd2].
    split; [assumption|]. unfold hit in Hd2. rewrite Hd2, Hd', orb_assoc. reflexivity.
Qed.

(* the calls produced by the entry of one kind of one file *)
Definition kind_calls (s : state) (m : Z) (k : skind) (f : string) (sps : list spec) : list call :=
  flat_map (invoke s) (filter (due_entry m) (kind_entry (60 * m - 1) k f sps)).

Lemma kind_calls_eq : forall s m k f sps,
  kind_calls s m k f sps = if hit m sps then invoke s {| e_next := Some m; e_kind := k; e_file := f |} else [].
Proof.
  intros. unfold kind_calls, kind_entry. destruct (earliest_spec m sps None I) as [Hge Hd]. cbn [opt_due orb] in Hd.
  destruct (earliest (60 * m - 1) sps None) as [n|]; cbn [opt_due opt_ge filter flat_map] in *.
  - unfold due_entry. cbn [e_next]. rewrite Hd. destruct (hit m sps); [|reflexivity].
    apply Z.leb_le in Hd. assert (n = m) by lia. subst. cbn [flat_map]. apply app_nil_r.
  - rewrite <- Hd. reflexivity.
Qed.

Lemma count_single : forall c d, count c [d] = if call_eq_dec c d then 1%nat else 0%nat.
Proof.
  intros. unfold count. cbn [count_occ]. destruct (call_eq_dec d c), (call_eq_dec c d); congruence.
Qed.

Lemma count_nil : forall c, count c [] = 0%nat.
Proof. reflexivity. Qed.

Definition b2n (b : bool) : nat := if b then 1%nat else 0%nat.

Lemma kind_calls_start : forall s m f sps c,
  count c (kind_calls s m KStart f sps) =
  if call_eq_dec c (CStart f) then b2n (hit m sps && start_guard (status_of s f) m) else 0%nat.
Proof.
  intros. rewrite kind_calls_eq. destruct (hit m sps); cbn [andb].
  - rewrite invoke_start. cbn [next_or_zero]. destruct (start_guard (status_of s f) m); cbn [b2n].
    + apply count_single.
    + rewrite count_nil. destruct (call_eq_dec c (CStart f)); reflexivity.
  - rewrite count_nil. destruct (call_eq_dec c (CStart f)); reflexivity.
Qed.

Lemma kind_calls_stop : forall s m f sps c,
  count c (kind_calls s m KStop f sps) =
  if call_eq_dec c (CStop f) then b2n (hit m sps && stop_guard (status_of s f)) else 0%nat.
Proof.
  intros. rewrite kind_calls_eq. destruct (hit m sps); cbn [andb].
  - rewrite invoke_stop. destruct (stop_guard (status_of s f)); cbn [b2n].
    + apply count_single.
    + rewrite count_nil. destruct (call_eq_dec c (CStop f)); reflexivity.
  - rewrite count_nil. destruct (call_eq_dec c (CStop f)); reflexivity.
Qed.

Lemma kind_calls_restart : forall s m f sps c,
  count c (kind_calls s m KRestart f sps) = if call_eq_dec c (CRestart f) then b2n (hit m sps) else 0%nat.
Proof.
  intros. rewrite kind_calls_eq. destruct (hit m sps); cbn [b2n].
  - rewrite invoke_restart. apply count_single.
  - rewrite count_nil. destruct (call_eq_dec c (CRestart f)); reflexivity.
Qed.

(* the calls of one file *)
Definition file_calls (s : state) (m : Z) (f : string) (e : sched3) : list call :=
  flat_map (invoke s) (filter (due_entry m) (entries_of (60 * m - 1) f e)).

Lemma file_calls_split : forall s m f e,
  file_calls s m f e = kind_calls s m KStart f (starts e) ++ kind_calls s m KStop f (stops e) ++ kind_calls s m KRestart f (restarts e).
Proof. intros. unfold file_calls, entries_of, kind_calls. rewrite !filter_app, !flat_map_app. reflexivity. Qed.

(* number of calls c issued for file f by the tick of minute m: 0 or 1 *)
Definition file_count (s : state) (m : Z) (f : string) (e : sched3) (c : call) : nat :=
  match c with
  | CStart g => if String.eqb g f then b2n (hit m (starts e) && start_guard (status_of s f) m) else 0
  | CStop g => if String.eqb g f then b2n (hit m (stops e) && stop_guard (status_of s f)) else 0
  | CRestart g => if String.eqb g f then b2n (hit m (restarts e)) else 0
  end%nat.

Lemma dec_if_same : forall c {A} (a b : A), (if call_eq_dec c c then a else b) = a.
Proof. intros. destruct (call_eq_dec c c); congruence. Qed.
Lemma dec_if_diff : forall c d {A} (a b : A), c <> d -> (if call_eq_dec c d then a else b) = b.
Proof. intros. destruct (call_eq_dec c d); congruence. Qed.

Lemma file_calls_count : forall s m f e c, count c (file_calls s m f e) = file_count s m f e c.
Proof.
  intros. rewrite file_calls_split, !count_app, kind_calls_start, kind_calls_stop, kind_calls_restart.
  unfold file_count.
  destruct c as [g|g|g]; (destruct (String.eqb g f) eqn:Eg;
    [apply String.eqb_eq in Eg; subst g; rewrite dec_if_same, !dec_if_diff by discriminate; lia
    |apply String.eqb_neq in Eg; rewrite !dec_if_diff by congruence; reflexivity]).
Qed.

Lemma file_count_le1 : forall s m f e c, (file_count s m f e c <= 1)%nat.
Proof. intros. unfold file_count, b2n. destruct c; destruct (String.eqb _ _); try lia; destruct (_ && _) || destruct (hit _ _); lia. Qed.

Lemma all_calls_files : forall s m,
  all_calls s m = flat_map (fun fe => if mem (fst fe) (susp s) then [] else file_calls s m (fst fe) (snd fe)) (tbl s).
Proof.
  intros. unfold all_calls, read_entries. rewrite filter_flat_map, flat_map_flat_map.
  apply flat_map_ext. intros [f e]. simpl. destruct (mem f (susp s)); reflexivity.
Qed.

Lemma lookup_in : forall {V} k (l : list (string * V)) v, lookup k l = Some v -> In (k, v) l.
Proof.
  intros V k l v. induction l as [|[k' v'] l IH]; simpl; [discriminate|].
  destruct (String.eqb k' k) eqn:E; intro H.
  - apply String.eqb_eq in E. injection H as ->. subst. left. reflexivity.
  - right. apply IH. assumption.
Qed.

Lemma lookup_none_notin : forall {V} k (l : list (string * V)), lookup k l = None -> ~ In k (map fst l).
Proof.
  intros V k l. induction l as [|[k' v'] l IH]; simpl; [tauto|].
  destruct (String.eqb k' k) eqn:E; intro H; [discriminate|].
  apply String.eqb_neq in E. intros [H1|H1]; [congruence | apply (IH H); assumption].
Qed.

Lemma count_files : forall s m c (t : list (string * sched3)), NoDup (map fst t) ->
  count c (flat_map (fun fe => if mem (fst fe) (susp s) then [] else file_calls s m (fst fe) (snd fe)) t) =
  match lookup (call_file c) t with
  | Some e => if mem (call_file c) (susp s) then 0%nat else file_count s m (call_file c) e c
  | None => 0%nat
  end.
Proof.
  intros s m c t. induction t as [|[f e] t IH]; intro Hnd; simpl; [reflexivity|].
  inversion Hnd as [|? ? Hnotin Hnd']; subst. rewrite count_app, (IH Hnd').
  destruct (String.eqb f (call_file c)) eqn:E.
  - apply String.eqb_eq in E. subst f.
    destruct (lookup (call_file c) t) eqn:El.
    + exfalso. apply Hnotin. apply lookup_in in El. apply (in_map fst) in El. exact El.
    + destruct (mem (call_file c) (susp s)); [reflexivity|]. rewrite file_calls_count. lia.
  - replace (count c (if mem f (susp s) then [] else file_calls s m f e)) with 0%nat; [reflexivity|].
    destruct (mem f (susp s)); [reflexivity|]. rewrite file_calls_count.
    unfold file_count. apply String.eqb_neq in E.
    destruct c as [g|g|g]; simpl in E; destruct (String.eqb g f) eqn:Eg; try reflexivity;
      apply String.eqb_eq in Eg; congruence.
Qed.

(* The multiset of calls of a tick, faithful form (no premise on the schedules): per DAG file and call kind the
   number of calls is the number of schedules of that kind that are due and pass the job's guard. *)
Theorem tick_count : forall s m c, NoDup (map fst (tbl s)) ->
  count c (tick_calls s m) =
  if alive s then
    match lookup (call_file c) (tbl s) with
    | Some e => if mem (call_file c) (susp s) then 0%nat else file_count s m (call_file c) e c
    | None => 0%nat
    end
  else 0%nat.
Proof.
  intros s m c Hnd. destruct (alive s) eqn:Ha.
  - rewrite (count_perm _ _ _ (tick_calls_perm s m Ha)), all_calls_files. apply count_files. assumption.
  - unfold tick_calls. rewrite Ha. reflexivity.
Qed.
