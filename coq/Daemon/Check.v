(* Entry point of the C09 correspondence for the daemon: a case is a DAG directory, a list of operations and,
   per operation, what the real daemon did (calls received by the recording client, daemon alive?). *)
From Coq Require Import List String Ascii Bool Arith ZArith.
Import ListNotations.
From BD.Cron Require Import Model Schedule.
From BD.Daemon Require Import Model.

Definition call_eqb (a b : call) : bool :=
  match a, b with
  | CStart f, CStart g | CStop f, CStop g | CRestart f, CRestart g => String.eqb f g
  | _, _ => false
  end.
Definition count_call (c : call) (l : list call) : nat := List.length (filter (call_eqb c) l).
(* equal as multisets *)
Definition same_calls (a b : list call) : bool :=
  forallb (fun c => (count_call c a =? count_call c b)%nat) (a ++ b).

Definition obs := (list call * bool)%type.   (* calls of the op, daemon alive after the op *)

Fixpoint first_diff (s : state) (ops : list op) (os : list obs) (k : nat) : option nat :=
  match ops, os with
  | o :: r, (cs, al) :: r' =>
      let '(s', ms) := step s o in
      if same_calls ms cs && Bool.eqb (alive s') al then first_diff s' r r' (S k) else Some k
  | [], [] => None
  | _, _ => Some k
  end.

Definition seq_case := (list (string * content) * list op * list obs)%type.
Definition check_seq (c : seq_case) : option nat :=
  let '(d, ops, os) := c in first_diff (init_state d) ops os 0.

(* (case index, op index) of the first disagreement of each disagreeing case *)
Fixpoint bad_seqs_from (k : nat) (cs : list seq_case) : list (nat * nat) :=
  match cs with
  | [] => []
  | c :: r => match check_seq c with Some i => (k, i) :: bad_seqs_from (S k) r | None => bad_seqs_from (S k) r end
  end.
Definition bad_seqs := bad_seqs_from 0.

(* the model's own calls, for diagnostics *)
Definition model_calls (c : seq_case) : list (list call) := let '(d, ops, _) := c in run (init_state d) ops.
