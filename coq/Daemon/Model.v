(* Daemon: executable model of the scheduler daemon (internal/scheduler/{scheduler,entryreader,job}.go) for C09.
   State = what the daemon believes (table file -> schedules, alive?) + its environment (latest status per DAG
   as the client reports it, suspend set, the DAG directory).  `tick m` = scheduler.go:175-206 run(now) with
   entryreader.go:60-92 Read(now - 1s) and job.go:51-90 guards; watcher events = entryreader.go:131-180;
   daemon (re)start = entryreader.go:94-129 initDags.
   Modelled, not verified:
   - the jobs of one tick run in goroutines of their own; every guard reads the latest status as it was when the
     tick began (a real start needs far longer to become visible as running than the goroutines need to start);
   - a call Start / Restart makes the DAG running with start minute = the wall-clock minute, Stop ends a running one
     (this is the recording client of the harness; job.go only sees GetLatestStatus);
   - a loader panic kills the daemon process (initDags runs in the caller of scheduler.New, the watcher in a
     goroutine without recover).
   Executable definitions only. *)
From Coq Require Import List String Ascii Bool Arith ZArith.
Import ListNotations.
From BD.Cron Require Import Model Schedule.
Local Open Scope Z_scope.

(* ---------------------------------------------------------------------------------------- *)
(* files                                                                                      *)
(* ---------------------------------------------------------------------------------------- *)

(* CBad: LoadMetadata returns an error before the schedule is looked at (YAML syntax, unknown field) *)
Inductive content := CBad | CSched (v : sval).
Inductive fileres := FNotDag | FErr | FPanic | FOk (e : sched3).

(* filepath.Ext(name) is one of dag.Exts (util.MatchExtension) *)
Fixpoint ext_rev (r : list ascii) (acc : list ascii) : list ascii :=
  match r with
  | [] => []
  | c :: r' => if Ascii.eqb c "."%char then c :: acc else ext_rev r' (c :: acc)
  end.
Definition ext (name : string) : string := string_of_list_ascii (ext_rev (rev (list_ascii_of_string name)) []).
Definition ext_ok (name : string) : bool := String.eqb (ext name) ".yaml" || String.eqb (ext name) ".yml".

Definition load (name : string) (c : content) : fileres :=
  if negb (ext_ok name) then FNotDag
  else match c with
       | CBad => FErr
       | CSched v => match build_schedule v with POk e => FOk e | PErr => FErr | PPanic => FPanic end
       end.

(* ---------------------------------------------------------------------------------------- *)
(* association lists keyed by file name                                                       *)
(* ---------------------------------------------------------------------------------------- *)
Section Assoc.
  Context {V : Type}.
  Fixpoint lookup (k : string) (l : list (string * V)) : option V :=
    match l with
    | [] => None
    | (k', v) :: r => if String.eqb k' k then Some v else lookup k r
    end.
  Fixpoint remove_key (k : string) (l : list (string * V)) : list (string * V) :=
    match l with
    | [] => []
    | (k', v) :: r => if String.eqb k' k then remove_key k r else (k', v) :: remove_key k r
    end.
  Definition upsert (k : string) (v : V) (l : list (string * V)) : list (string * V) := remove_key k l ++ [(k, v)].
End Assoc.

Definition mem (k : string) (l : list string) : bool := existsb (String.eqb k) l.

(* ---------------------------------------------------------------------------------------- *)
(* state                                                                                      *)
(* ---------------------------------------------------------------------------------------- *)

(* what client.GetLatestStatus answers for a DAG: an error, or (running?, start minute of the latest run);
   st_last = None: the start time does not parse (a DAG that never ran has StartedAt empty) *)
Record status := { st_err : bool; st_run : bool; st_last : option Z }.
Definition st_none : status := {| st_err := false; st_run := false; st_last := None |}.

Record state := {
  alive : bool;                          (* the daemon process exists *)
  tbl : list (string * sched3);          (* entryReaderImpl.dags *)
  hist : list (string * status);         (* environment: latest status per DAG file *)
  susp : list string;                    (* environment: suspended DAG files *)
  dir : list (string * content)          (* environment: the DAG directory *)
}.

Definition status_of (s : state) (f : string) : status :=
  match lookup f (hist s) with Some st => st | None => st_none end.

Definition init_state (d : list (string * content)) : state :=
  {| alive := false; tbl := []; hist := []; susp := []; dir := d |}.

(* ---------------------------------------------------------------------------------------- *)
(* one tick                                                                                   *)
(* ---------------------------------------------------------------------------------------- *)
Inductive call := CStart (f : string) | CStop (f : string) | CRestart (f : string).

(* e_next = None: the library's zero time (no activation within the horizon) *)
Record entry := { e_next : option Z; e_kind : skind; e_file : string }.

(* addEntriesFn (entryreader.go, since 7357cf4): ONE entry per workflow and operation - the earliest non-zero Next
   among its schedules of that kind; no entry when every Next is the zero time (or there is no schedule) *)
Definition earlier (acc : option Z) (n : option Z) : option Z :=
  match n with
  | None => acc
  | Some x => match acc with
              | None => Some x
              | Some a => if x <? a then Some x else acc
              end
  end.
Fixpoint earliest (t : Z) (sps : list spec) (acc : option Z) : option Z :=
  match sps with
  | [] => acc
  | sp :: r => earliest t r (earlier acc (next sp t))
  end.
Definition kind_entry (t : Z) (k : skind) (f : string) (sps : list spec) : list entry :=
  match earliest t sps None with
  | Some n => [{| e_next := Some n; e_kind := k; e_file := f |}]
  | None => []
  end.

Definition entries_of (t : Z) (f : string) (e : sched3) : list entry :=
  kind_entry t KStart f (starts e) ++ kind_entry t KStop f (stops e) ++ kind_entry t KRestart f (restarts e).

(* entryReaderImpl.Read(now): t = now in unix seconds *)
Definition read_entries (s : state) (t : Z) : list entry :=
  flat_map (fun fe => if mem (fst fe) (susp s) then [] else entries_of t (fst fe) (snd fe)) (tbl s).

(* sort.SliceStable by Next; the zero time is before every other time *)
Definition next_leb (a b : option Z) : bool :=
  match a, b with
  | None, _ => true
  | Some _, None => false
  | Some x, Some y => x <=? y
  end.
Fixpoint insert_entry (e : entry) (l : list entry) : list entry :=
  match l with
  | [] => [e]
  | x :: r => if next_leb (e_next e) (e_next x) then e :: l else x :: insert_entry e r
  end.
Fixpoint sort_entries (l : list entry) : list entry :=
  match l with [] => [] | e :: r => insert_entry e (sort_entries r) end.

(* for _, e := range entries { if e.Next.IsZero() { continue }; if e.Next.After(now) { break }; go e.Invoke() } *)
Fixpoint take_due (m : Z) (l : list entry) : list entry :=
  match l with
  | [] => []
  | e :: r => match e_next e with
              | None => take_due m r
              | Some n => if m <? n then [] else e :: take_due m r
              end
  end.

(* jobImpl.Start / Stop / Restart *)
Definition invoke (s : state) (e : entry) : list call :=
  let st := status_of s (e_file e) in
  let n := match e_next e with Some n => n | None => zero_minute end in
  match e_kind e with
  | KStart =>
      if st_err st then []
      else if st_run st then []                               (* errJobRunning *)
      else match st_last st with
           | Some l => if n <=? l then [] else [CStart (e_file e)]   (* errJobFinished *)
           | None => [CStart (e_file e)]
           end
  | KStop => if st_err st then [] else if st_run st then [CStop (e_file e)] else []
  | KRestart => [CRestart (e_file e)]
  end.

Definition tick_calls (s : state) (m : Z) : list call :=
  if alive s then flat_map (invoke s) (take_due m (sort_entries (read_entries s (60 * m - 1)))) else [].

(* effect of the calls on the environment (wall = wall-clock second at which the tick runs) *)
Definition call_file (c : call) : string := match c with CStart f | CStop f | CRestart f => f end.
Definition is_stop (c : call) : bool := match c with CStop _ => true | _ => false end.

Definition started_in (cs : list call) (f : string) : bool :=
  existsb (fun c => negb (is_stop c) && String.eqb (call_file c) f) cs.
Definition stopped_in (cs : list call) (f : string) : bool :=
  existsb (fun c => is_stop c && String.eqb (call_file c) f) cs.

Definition after_calls (cs : list call) (wall : Z) (f : string) (st : status) : status :=
  if started_in cs f then {| st_err := false; st_run := true; st_last := Some (wall / 60) |}
  else if stopped_in cs f then {| st_err := st_err st; st_run := false; st_last := st_last st |}
  else st.

Fixpoint apply_calls_files (cs : list call) (wall : Z) (fs : list string) (h : list (string * status)) : list (string * status) :=
  match fs with
  | [] => h
  | f :: r =>
      let st := match lookup f h with Some st => st | None => st_none end in
      apply_calls_files cs wall r (upsert f (after_calls cs wall f st) h)
  end.
Definition apply_calls (cs : list call) (wall : Z) (h : list (string * status)) : list (string * status) :=
  apply_calls_files cs wall (map call_file cs) h.

(* ---------------------------------------------------------------------------------------- *)
(* directory scan and watcher                                                                 *)
(* ---------------------------------------------------------------------------------------- *)

(* initDags: a load error skips the file, a panic ends the process *)
Fixpoint scan (d : list (string * content)) (acc : list (string * sched3)) : option (list (string * sched3)) :=
  match d with
  | [] => Some acc
  | (f, c) :: r => match load f c with
                   | FOk e => scan r (upsert f e acc)
                   | FPanic => None
                   | _ => scan r acc
                   end
  end.

Definition set_alive_tbl (s : state) (a : bool) (t : list (string * sched3)) : state :=
  {| alive := a; tbl := t; hist := hist s; susp := susp s; dir := dir s |}.
Definition set_dir (s : state) (d : list (string * content)) : state :=
  {| alive := alive s; tbl := tbl s; hist := hist s; susp := susp s; dir := d |}.

(* Create / Write event for f whose content now is c *)
Definition on_write (s : state) (f : string) (c : content) : state :=
  if alive s then
    match load f c with
    | FOk e => set_alive_tbl s true (upsert f e (tbl s))
    | FPanic => set_alive_tbl s false []
    | _ => s
    end
  else s.

(* Rename / Remove event for f *)
Definition on_remove (s : state) (f : string) : state :=
  if alive s && ext_ok f then set_alive_tbl s true (remove_key f (tbl s)) else s.

Inductive op :=
| OTick (m wall : Z)                  (* the tick for minute m, executed at wall-clock second wall *)
| OHist (f : string) (st : status)    (* the latest status of f changes (run ends, manual start, error, clean-up) *)
| OSusp (f : string) (on : bool)
| OWrite (f : string) (c : content)   (* file created or overwritten *)
| ORemove (f : string)
| ORename (f g : string)
| ORestart.                           (* the daemon process is started (again): fresh table from a directory scan *)

Definition step (s : state) (o : op) : state * list call :=
  match o with
  | OTick m wall =>
      let cs := tick_calls s m in
      ({| alive := alive s; tbl := tbl s; hist := apply_calls cs wall (hist s); susp := susp s; dir := dir s |}, cs)
  | OHist f st => ({| alive := alive s; tbl := tbl s; hist := upsert f st (hist s); susp := susp s; dir := dir s |}, [])
  | OSusp f on =>
      let l := filter (fun x => negb (String.eqb x f)) (susp s) in
      ({| alive := alive s; tbl := tbl s; hist := hist s; susp := if on then f :: l else l; dir := dir s |}, [])
  | OWrite f c => (on_write (set_dir s (upsert f c (dir s))) f c, [])
  | ORemove f =>
      match lookup f (dir s) with
      | None => (s, [])
      | Some _ => (on_remove (set_dir s (remove_key f (dir s))) f, [])
      end
  | ORename f g =>
      match lookup f (dir s) with
      | None => (s, [])
      | Some c => if String.eqb f g then (s, [])
                  else (on_write (on_remove (set_dir s (upsert g c (remove_key f (dir s)))) f) g c, [])
      end
  | ORestart =>
      match scan (dir s) [] with
      | Some t => (set_alive_tbl s true t, [])
      | None => (set_alive_tbl s false [], [])
      end
  end.

(* the calls of every op of a history, in order *)
Fixpoint run (s : state) (ops : list op) : list (list call) :=
  match ops with
  | [] => []
  | o :: r => let '(s', cs) := step s o in cs :: run s' r
  end.

(* the states before each op, paired with the op and its calls *)
Fixpoint trace (s : state) (ops : list op) : list (state * op * list call) :=
  match ops with
  | [] => []
  | o :: r => let '(s', cs) := step s o in (s, o, cs) :: trace s' r
  end.

Fixpoint final (s : state) (ops : list op) : state :=
  match ops with [] => s | o :: r => final (fst (step s o)) r end.
