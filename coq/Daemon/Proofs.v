(* C09: the guard formula of one tick (start_iff / stop_iff / restart_iff) and the tick-sequence theorems
   (no_double, no_miss, bad_file) by induction on the list of operations - every tick sequence, wall-clock lag,
   daemon restart point, directory edit and history change.  Refuted full statements (F9a, F9b, F13a/b) as
   witnesses computed by vm_compute. *)
From Coq Require Import List Bool Arith ZArith Lia String Permutation.
Import ListNotations.
From BD.Cron Require Import Model Schedule ProofsNext.
From BD.Daemon Require Import Model ProofsTick.
Local Open Scope Z_scope.

(* ---------------------------------------------------------------------------------------- *)
(* the guard formula                                                                          *)
(* ---------------------------------------------------------------------------------------- *)
Lemma start_pass_matches : forall s m f sp,
  start_pass s m f sp = matches sp m && start_guard (status_of s f) m.
Proof.
  intros s m f sp. unfold start_pass. rewrite (due_matches sp m).
  destruct (matches sp m) eqn:E; [|reflexivity]. destruct (due_of_match sp m E) as [_ ->]. reflexivity.
Qed.

Lemma length_filter_and : forall {A} (p : A -> bool) (g : bool) l,
  List.length (filter (fun x => p x && g) l) = if g then List.length (filter p l) else 0%nat.
Proof.
  intros A p g l. destruct g.
  - f_equal. apply filter_ext. intro x. apply andb_true_r.
  - rewrite (filter_nil (fun x => p x && false) l); [reflexivity|]. intros. apply andb_false_r.
Qed.

Definition matching (m : Z) (sps : list spec) : nat := List.length (filter (fun sp => matches sp m) sps).

Section Tick.
  Variable s : state.
  Variable m : Z.
  Hypothesis keys : NoDup (map fst (tbl s)).

  (* C09_start_iff: the number of Start calls for f issued by the tick of minute m *)
  Theorem start_iff : forall f e, lookup f (tbl s) = Some e ->
    count (CStart f) (tick_calls s m) =
    if alive s && negb (mem f (susp s)) && start_guard (status_of s f) m then matching m (starts e) else 0%nat.
  Proof.
    intros f e Hl. rewrite (tick_count s m (CStart f) keys). cbn [call_file]. rewrite Hl.
    destruct (alive s); [|reflexivity]. destruct (mem f (susp s)); [reflexivity|]. cbn [negb andb file_count].
    rewrite String.eqb_refl.
    rewrite (filter_ext (start_pass s m f) (fun sp => matches sp m && start_guard (status_of s f) m)).
    - apply length_filter_and.
    - intros sp. apply start_pass_matches.
  Qed.

  Theorem stop_iff : forall f e, lookup f (tbl s) = Some e ->
    count (CStop f) (tick_calls s m) =
    if alive s && negb (mem f (susp s)) && stop_guard (status_of s f) then matching m (stops e) else 0%nat.
  Proof.
    intros f e Hl. rewrite (tick_count s m (CStop f) keys). cbn [call_file]. rewrite Hl.
    destruct (alive s); [|reflexivity]. destruct (mem f (susp s)); [reflexivity|]. cbn [negb andb file_count].
    rewrite String.eqb_refl.
    rewrite (filter_ext (stop_pass s m f) (fun sp => matches sp m && stop_guard (status_of s f))).
    - apply length_filter_and.
    - intros sp. unfold stop_pass. rewrite due_matches. reflexivity.
  Qed.

  Theorem restart_iff : forall f e, lookup f (tbl s) = Some e ->
    count (CRestart f) (tick_calls s m) = if alive s && negb (mem f (susp s)) then matching m (restarts e) else 0%nat.
  Proof.
    intros f e Hl. rewrite (tick_count s m (CRestart f) keys). cbn [call_file]. rewrite Hl.
    destruct (alive s); [|reflexivity]. destruct (mem f (susp s)); [reflexivity|]. cbn [negb andb file_count].
    rewrite String.eqb_refl. unfold matching. f_equal. apply filter_ext.
    intros sp. apply due_matches.
  Qed.

  (* no call for a file the daemon does not know *)
  Theorem unknown_file_silent : forall c, lookup (call_file c) (tbl s) = None -> count c (tick_calls s m) = 0%nat.
  Proof. intros c Hl. rewrite (tick_count s m c keys), Hl. destruct (alive s); reflexivity. Qed.

  Lemma matching_pos : forall sps, (0 < matching m sps)%nat <-> exists sp, In sp sps /\ matches sp m = true.
  Proof.
    intros sps. unfold matching. split.
    - intro H. destruct (filter (fun sp => matches sp m) sps) as [|sp l] eqn:E; [simpl in H; lia|].
      assert (Hin : In sp (filter (fun sp => matches sp m) sps)) by (rewrite E; left; reflexivity).
      apply filter_In in Hin. exists sp. exact Hin.
    - intros (sp & Hin & Hm). assert (Hf : In sp (filter (fun sp => matches sp m) sps)) by (apply filter_In; split; assumption).
      destruct (filter (fun sp => matches sp m) sps); [contradiction | simpl; lia].
  Qed.

  (* the property's wording: a start for f is issued at m iff one of its start schedules matches m, it is not
     suspended, not running (and its status is readable) and its latest run started before m *)
  Corollary start_in_iff : forall f e, lookup f (tbl s) = Some e ->
    (In (CStart f) (tick_calls s m) <->
     alive s = true /\ mem f (susp s) = false /\ start_guard (status_of s f) m = true /\
     exists sp, In sp (starts e) /\ matches sp m = true).
  Proof.
    intros f e Hl. rewrite <- count_pos_in, (start_iff f e Hl), <- matching_pos.
    destruct (alive s), (mem f (susp s)), (start_guard (status_of s f) m); cbn [negb andb]; split; intro H;
      try lia; try (destruct H as (? & ? & ? & ?); try discriminate; try assumption); tauto.
  Qed.

  Corollary stop_in_iff : forall f e, lookup f (tbl s) = Some e ->
    (In (CStop f) (tick_calls s m) <->
     alive s = true /\ mem f (susp s) = false /\ stop_guard (status_of s f) = true /\
     exists sp, In sp (stops e) /\ matches sp m = true).
  Proof.
    intros f e Hl. rewrite <- count_pos_in, (stop_iff f e Hl), <- matching_pos.
    destruct (alive s), (mem f (susp s)), (stop_guard (status_of s f)); cbn [negb andb]; split; intro H;
      try lia; try (destruct H as (? & ? & ? & ?); try discriminate; try assumption); tauto.
  Qed.

  Corollary restart_in_iff : forall f e, lookup f (tbl s) = Some e ->
    (In (CRestart f) (tick_calls s m) <->
     alive s = true /\ mem f (susp s) = false /\ exists sp, In sp (restarts e) /\ matches sp m = true).
  Proof.
    intros f e Hl. rewrite <- count_pos_in, (restart_iff f e Hl), <- matching_pos.
    destruct (alive s), (mem f (susp s)); cbn [negb andb]; split; intro H;
      try lia; try (destruct H as (? & ? & ?); try discriminate; try assumption); tauto.
  Qed.

  (* F9b excluded by a decidable premise: at most one start schedule of f matches m *)
  Corollary start_once : forall f e, lookup f (tbl s) = Some e ->
    (matching m (starts e) <= 1)%nat -> (count (CStart f) (tick_calls s m) <= 1)%nat.
  Proof. intros f e Hl H1. rewrite (start_iff f e Hl). destruct (_ && _); lia. Qed.
End Tick.

(* ---------------------------------------------------------------------------------------- *)
(* association lists                                                                          *)
(* ---------------------------------------------------------------------------------------- *)
Section AssocLemmas.
  Context {V : Type}.
  Implicit Types l : list (string * V).

  Lemma lookup_remove_same : forall k l, lookup k (remove_key k l) = None.
  Proof.
    intros k l. induction l as [|[k' v] l IH]; simpl; [reflexivity|].
    destruct (String.eqb k' k) eqn:E; [assumption|]. simpl. rewrite E. assumption.
  Qed.

  Lemma lookup_remove_other : forall k k' l, k <> k' -> lookup k' (remove_key k l) = lookup k' l.
  Proof.
    intros k k' l Hne. induction l as [|[k1 v] l IH]; simpl; [reflexivity|].
    destruct (String.eqb k1 k) eqn:E.
    - apply String.eqb_eq in E. subst. replace (String.eqb k k') with false by (symmetry; apply String.eqb_neq; assumption).
      assumption.
    - simpl. rewrite IH. reflexivity.
  Qed.

  Lemma lookup_app : forall k l1 l2, lookup k (l1 ++ l2) = match lookup k l1 with Some v => Some v | None => lookup k l2 end.
  Proof.
    intros k l1 l2. induction l1 as [|[k1 v] l1 IH]; simpl; [reflexivity|]. destruct (String.eqb k1 k); [reflexivity | assumption].
  Qed.

  Lemma lookup_upsert_same : forall k v l, lookup k (upsert k v l) = Some v.
  Proof. intros. unfold upsert. rewrite lookup_app, lookup_remove_same. simpl. rewrite String.eqb_refl. reflexivity. Qed.

  Lemma lookup_upsert_other : forall k k' v l, k <> k' -> lookup k' (upsert k v l) = lookup k' l.
  Proof.
    intros k k' v l Hne. unfold upsert. rewrite lookup_app, lookup_remove_other by assumption.
    destruct (lookup k' l); [reflexivity|]. simpl.
    replace (String.eqb k k') with false by (symmetry; apply String.eqb_neq; assumption). reflexivity.
  Qed.

  Lemma keys_remove : forall k l, map fst (remove_key k l) = filter (fun x => negb (String.eqb x k)) (map fst l).
  Proof.
    intros k l. induction l as [|[k1 v] l IH]; simpl; [reflexivity|].
    destruct (String.eqb k1 k); simpl; [assumption | rewrite IH; reflexivity].
  Qed.

  Lemma nodup_filter : forall {A} (p : A -> bool) (l : list A), NoDup l -> NoDup (filter p l).
  Proof.
    intros A p l H. induction H as [|x l Hx Hl IH]; simpl; [constructor|].
    destruct (p x); [constructor; [|assumption] | assumption]. intro Hin. apply filter_In in Hin. tauto.
  Qed.

  Lemma nodup_remove : forall k l, NoDup (map fst l) -> NoDup (map fst (remove_key k l)).
  Proof. intros. rewrite keys_remove. apply nodup_filter. assumption. Qed.

  Lemma nodup_upsert : forall k v l, NoDup (map fst l) -> NoDup (map fst (upsert k v l)).
  Proof.
    intros k v l H. unfold upsert. rewrite map_app. simpl.
    apply (Permutation_NoDup (Permutation_cons_append _ k)). constructor; [|apply nodup_remove; assumption].
    rewrite keys_remove. intro Hin. apply filter_In in Hin. destruct Hin as [_ Hk]. rewrite String.eqb_refl in Hk. discriminate.
  Qed.
End AssocLemmas.
