(* C09: the guard formula of one tick (start_iff / stop_iff / restart_iff): per DAG file and operation the tick issues
   exactly one call if some schedule of that kind fires at the minute and the job's guard holds, else none. *)
From Coq Require Import List Bool Arith ZArith Lia String Permutation.
Import ListNotations.
From BD.Cron Require Import Model Schedule ProofsNext.
From BD.Daemon Require Import Model ProofsTick.
Local Open Scope Z_scope.

Lemma hit_iff : forall m sps, hit m sps = true <-> exists sp, In sp sps /\ matches sp m = true.
Proof. intros. unfold hit. apply existsb_exists. Qed.

Section Tick.
  Variable s : state.
  Variable m : Z.
  Hypothesis keys : NoDup (map fst (tbl s)).

  (* C09_start_iff: the number of Start calls for f issued by the tick of minute m *)
  Theorem start_iff : forall f e, lookup f (tbl s) = Some e ->
    count (CStart f) (tick_calls s m) =
    b2n (alive s && negb (mem f (susp s)) && start_guard (status_of s f) m && hit m (starts e)).
  Proof.
    intros f e Hl. rewrite (tick_count s m (CStart f) keys). cbn [call_file]. rewrite Hl.
    destruct (alive s); [|reflexivity]. destruct (mem f (susp s)); [reflexivity|]. cbn [negb andb file_count].
    rewrite String.eqb_refl, andb_comm. reflexivity.
  Qed.

  Theorem stop_iff : forall f e, lookup f (tbl s) = Some e ->
    count (CStop f) (tick_calls s m) =
    b2n (alive s && negb (mem f (susp s)) && stop_guard (status_of s f) && hit m (stops e)).
  Proof.
    intros f e Hl. rewrite (tick_count s m (CStop f) keys). cbn [call_file]. rewrite Hl.
    destruct (alive s); [|reflexivity]. destruct (mem f (susp s)); [reflexivity|]. cbn [negb andb file_count].
    rewrite String.eqb_refl, andb_comm. reflexivity.
  Qed.

  Theorem restart_iff : forall f e, lookup f (tbl s) = Some e ->
    count (CRestart f) (tick_calls s m) = b2n (alive s && negb (mem f (susp s)) && hit m (restarts e)).
  Proof.
    intros f e Hl. rewrite (tick_count s m (CRestart f) keys). cbn [call_file]. rewrite Hl.
    destruct (alive s); [|reflexivity]. destruct (mem f (susp s)); [reflexivity|]. cbn [negb andb file_count].
    rewrite String.eqb_refl. reflexivity.
  Qed.

  (* no call for a file the daemon does not know *)
  Theorem unknown_file_silent : forall c, lookup (call_file c) (tbl s) = None -> count c (tick_calls s m) = 0%nat.
  Proof. intros c Hl. rewrite (tick_count s m c keys), Hl. destruct (alive s); reflexivity. Qed.

  (* at most one call of each kind per DAG file and tick - for every table, every status, every schedule list *)
  Theorem call_once : forall c, (count c (tick_calls s m) <= 1)%nat.
  Proof.
    intros c. rewrite (tick_count s m c keys). destruct (alive s); [|lia].
    destruct (lookup (call_file c) (tbl s)); [|lia]. destruct (mem _ _); [lia | apply file_count_le1].
  Qed.

  Lemma b2n_pos : forall b, (0 < b2n b)%nat <-> b = true.
  Proof. intros [|]; simpl; split; intro; try lia; try reflexivity; discriminate. Qed.

  (* the property's wording: a start for f is issued at m iff one of its start schedules matches m, it is not
     suspended, not running (and its status is readable) and its latest run started before m *)
  Corollary start_in_iff : forall f e, lookup f (tbl s) = Some e ->
    (In (CStart f) (tick_calls s m) <->
     alive s = true /\ mem f (susp s) = false /\ start_guard (status_of s f) m = true /\
     exists sp, In sp (starts e) /\ matches sp m = true).
  Proof.
    intros f e Hl. rewrite <- count_pos_in, (start_iff f e Hl), b2n_pos, <- hit_iff, !andb_true_iff, negb_true_iff. tauto.
  Qed.

  Corollary stop_in_iff : forall f e, lookup f (tbl s) = Some e ->
    (In (CStop f) (tick_calls s m) <->
     alive s = true /\ mem f (susp s) = false /\ stop_guard (status_of s f) = true /\
     exists sp, In sp (stops e) /\ matches sp m = true).
  Proof.
    intros f e Hl. rewrite <- count_pos_in, (stop_iff f e Hl), b2n_pos, <- hit_iff, !andb_true_iff, negb_true_iff. tauto.
  Qed.

  Corollary restart_in_iff : forall f e, lookup f (tbl s) = Some e ->
    (In (CRestart f) (tick_calls s m) <->
     alive s = true /\ mem f (susp s) = false /\ exists sp, In sp (restarts e) /\ matches sp m = true).
  Proof.
    intros f e Hl. rewrite <- count_pos_in, (restart_iff f e Hl), b2n_pos, <- hit_iff, !andb_true_iff, negb_true_iff. tauto.
  Qed.
End Tick.

(* The operations of one tick are independent: what the tick does for file f is determined by f's own entry, f's
   suspension and f's latest status (and the daemon being alive) - not by which other DAGs are loaded, due,
   running or being started in the same tick.  (scheduler.go run: one goroutine per due entry.) *)
Theorem tick_independent : forall s s' m c,
  NoDup (map fst (tbl s)) -> NoDup (map fst (tbl s')) ->
  alive s = alive s' ->
  lookup (call_file c) (tbl s) = lookup (call_file c) (tbl s') ->
  mem (call_file c) (susp s) = mem (call_file c) (susp s') ->
  status_of s (call_file c) = status_of s' (call_file c) ->
  count c (tick_calls s m) = count c (tick_calls s' m).
Proof.
  intros s s' m c K K' Ha Hl Hs Hst.
  assert (Hf : forall e, file_count s m (call_file c) e c = file_count s' m (call_file c) e c).
  { intro e. unfold file_count. destruct c; cbn [call_file] in *; rewrite ?Hst; reflexivity. }
  rewrite (tick_count s m c K), (tick_count s' m c K'), Ha, Hl, Hs.
  destruct (alive s'); [|reflexivity]. destruct (lookup (call_file c) (tbl s')) as [e|]; [|reflexivity].
  rewrite Hf. reflexivity.
Qed.

(* ---------------------------------------------------------------------------------------- *)
(* association lists                                                                          *)
(* ---------------------------------------------------------------------------------------- *)
Section AssocLemmas.
  Context {V : Type}.
  Implicit Types l : list (string * V).

  Lemma lookup_remove_same : forall k l, lookup k (remove_key k l) = None.
  Proof.
    intros k l. induction l as [|[k' v] l IH]; simpl; [reflexivity|].
    destruct (String.eqb k' k) eqn:E; [assumption|]. simpl. rewrite E. assumption.
  Qed.

  Lemma lookup_remove_other : forall k k' l, k <> k' -> lookup k' (remove_key k l) = lookup k' l.
  Proof.
    intros k k' l Hne. induction l as [|[k1 v] l IH]; simpl; [reflexivity|].
    destruct (String.eqb k1 k) eqn:E.
    - apply String.eqb_eq in E. subst. replace (String.eqb k k') with false by (symmetry; apply String.eqb_neq; assumption).
      assumption.
    - simpl. rewrite IH. reflexivity.
  Qed.

  Lemma lookup_app : forall k l1 l2, lookup k (l1 ++ l2) = match lookup k l1 with Some v => Some v | None => lookup k l2 end.
  Proof.
    intros k l1 l2. induction l1 as [|[k1 v] l1 IH]; simpl; [reflexivity|]. destruct (String.eqb k1 k); [reflexivity | assumption].
  Qed.

  Lemma lookup_upsert_same : forall k v l, lookup k (upsert k v l) = Some v.
  Proof. intros. unfold upsert. rewrite lookup_app, lookup_remove_same. simpl. rewrite String.eqb_refl. reflexivity. Qed.

  Lemma lookup_upsert_other : forall k k' v l, k <> k' -> lookup k' (upsert k v l) = lookup k' l.
  Proof.
    intros k k' v l Hne. unfold upsert. rewrite lookup_app, lookup_remove_other by assumption.
    destruct (lookup k' l); [reflexivity|]. simpl.
    replace (String.eqb k k') with false by (symmetry; apply String.eqb_neq; assumption). reflexivity.
  Qed.

  Lemma keys_remove : forall k l, map fst (remove_key k l) = filter (fun x => negb (String.eqb x k)) (map fst l).
  Proof.
    intros k l. induction l as [|[k1 v] l IH]; simpl; [reflexivity|].
    destruct (String.eqb k1 k); simpl; [assumption | rewrite IH; reflexivity].
  Qed.

  Lemma nodup_filter : forall {A} (p : A -> bool) (l : list A), NoDup l -> NoDup (filter p l).
  Proof.
    intros A p l H. induction H as [|x l Hx Hl IH]; simpl; [constructor|].
    destruct (p x); [constructor; [|assumption] | assumption]. intro Hin. apply filter_In in Hin. tauto.
  Qed.

  Lemma nodup_remove : forall k l, NoDup (map fst l) -> NoDup (map fst (remove_key k l)).
  Proof. intros. rewrite keys_remove. apply nodup_filter. assumption. Qed.

  Lemma nodup_upsert : forall k v l, NoDup (map fst l) -> NoDup (map fst (upsert k v l)).
  Proof.
    intros k v l H. unfold upsert. rewrite map_app. simpl.
    apply (Permutation_NoDup (Permutation_cons_append _ k)). constructor; [|apply nodup_remove; assumption].
    rewrite keys_remove. intro Hin. apply filter_In in Hin. destruct Hin as [_ Hk]. rewrite String.eqb_refl in Hk. discriminate.
  Qed.
End AssocLemmas.
