(* C17 - entry points evaluated on harness cases (tools/props/C17.py): the outcome class the model predicts
   for a request against what the real middleware chain did, and the standard-form constructors against the
   headers the Go side built with encoding/base64. *)
From Coq Require Import List String Ascii Bool Arith.
Import ListNotations.
From BD.Auth Require Import Model.

Definition mkcfg (b : option (string * string)) (t : option string) (bp : string) : cfg :=
  {| basic := match b with Some (u, p) => Some (L u, L p) | None => None end;
     token := match t with Some x => Some (L x) | None => None end;
     base_path := L bp |}.

(* ((basic, token, base path), method, path, raw path, header, class seen, std) ;
   std = 1: the Go side built this header as "Basic " + StdEncoding(user:password), 2: as "Bearer " + token, 0: neither *)
Definition case : Type :=
  (option (string * string) * option string * string) * string * string * string * string * nat * nat.

Definition model_class (x : case) : nat :=
  let '(cf, m, p, rp, h, _, _) := x in let '(b, t, bp) := cf in
  observe (mkcfg b t bp) {| method := L m; path := L p; rawpath := L rp; hdr := L h |}.

Definition std_ok (x : case) : bool :=
  let '(cf, _, _, _, h, _, std) := x in let '(b, t, _) := cf in
  match std, b, t with
  | 1, Some (u, p), _ => la_eqb (L h) (std_basic (L u) (L p))
  | 2, _, Some tk => la_eqb (L h) (std_bearer (L tk))
  | 0, _, _ => true
  | _, _, _ => false
  end.

Definition seen (x : case) : nat := let '(_, _, _, _, _, k, _) := x in k.

(* (index, model class) of every case where model and implementation differ; class 9 = the standard-form
   constructor of the model differs from the header built by Go's encoder *)
Fixpoint mism (i : nat) (l : list case) : list (nat * nat) :=
  match l with
  | [] => []
  | x :: r =>
      let m := model_class x in
      (if negb (m =? seen x) then [(i, m)] else if negb (std_ok x) then [(i, 9)] else []) ++ mism (S i) r
  end.
Definition mismatches (l : list case) : list (nat * nat) := mism 0 l.
