(* C17 - proofs about the request filter model (Auth/Model.v), for ALL byte strings and configurations. *)
From Coq Require Import List String Ascii Bool Arith NArith ZArith Lia Zify ZifyClasses ZifyInst.
Import ListNotations.
From BD.Auth Require Import Model.

(* ---------------------------------------------------------------------------------------------
   byte strings *)
Lemma la_eqb_refl a : la_eqb a a = true.
Proof. induction a; simpl; auto. unfold aeq. rewrite Ascii.eqb_refl. auto. Qed.

Lemma la_eqb_eq a b : la_eqb a b = true -> a = b.
Proof.
  revert b. induction a as [|x a IH]; destruct b as [|y b]; simpl; intros H; try reflexivity; try discriminate.
  apply andb_true_iff in H. destruct H as [H1 H2]. apply Ascii.eqb_eq in H1. apply IH in H2. congruence.
Qed.

Lemma la_eqb_iff a b : la_eqb a b = true <-> a = b.
Proof. split; [apply la_eqb_eq | intros ->; apply la_eqb_refl]. Qed.

Lemma is_nil_true s : is_nil s = true -> s = [].
Proof. destruct s; simpl; auto; discriminate. Qed.

(* ---------------------------------------------------------------------------------------------
   base64: the 64-symbol alphabet by a finite sweep, the 3-byte groups by lia over div/mod *)
Definition below (n : nat) : list N := map N.of_nat (seq 0 n).

Lemma below_spec k n : (n < N.of_nat k)%N -> In n (below k).
Proof.
  intros H. unfold below. apply in_map_iff. exists (N.to_nat n). split; [apply N2Nat.id|].
  apply in_seq. lia.
Qed.

Definition sym_ok (n : N) : bool :=
  match b64val (b64chr n) with Some m => (m =? n)%N | None => false end
  && negb (is_crlf (b64chr n)) && negb (aeq (b64chr n) sp) && negb (aeq (b64chr n) pad).

Lemma sym_sweep : forallb sym_ok (below 64) = true.
Proof. vm_compute. reflexivity. Qed.

Lemma sym_ok_all n : (n < 64)%N -> sym_ok n = true.
Proof. intros H. exact (proj1 (forallb_forall _ _) sym_sweep n (below_spec 64 n H)). Qed.

Lemma b64val_chr n : (n < 64)%N -> b64val (b64chr n) = Some n.
Proof.
  intros H. pose proof (sym_ok_all n H) as S. unfold sym_ok in S.
  repeat (apply andb_true_iff in S; destruct S as [S ?]).
  destruct (b64val (b64chr n)); [|discriminate]. apply N.eqb_eq in S. congruence.
Qed.
Lemma chr_not_crlf n : (n < 64)%N -> is_crlf (b64chr n) = false.
Proof.
  intros H. pose proof (sym_ok_all n H) as S. unfold sym_ok in S.
  repeat (apply andb_true_iff in S; destruct S as [S ?]). now apply negb_true_iff.
Qed.
Lemma chr_not_sp n : (n < 64)%N -> aeq (b64chr n) sp = false.
Proof.
  intros H. pose proof (sym_ok_all n H) as S. unfold sym_ok in S.
  repeat (apply andb_true_iff in S; destruct S as [S ?]). now apply negb_true_iff.
Qed.

Lemma b64val_pad : b64val pad = None.
Proof. vm_compute. reflexivity. Qed.
Lemma pad_not_crlf : is_crlf pad = false.
Proof. vm_compute. reflexivity. Qed.
Lemma pad_not_sp : aeq pad sp = false.
Proof. vm_compute. reflexivity. Qed.

Lemma byte_of a : byte (N_of_ascii a) = a.
Proof.
  unfold byte. rewrite N.mod_small by apply N_ascii_bounded. apply ascii_N_embedding.
Qed.

(* the arithmetic of one group: x y z are bytes *)
Lemma grp1 x y : (x < 256 -> y < 256 -> x / 4 * 4 + ((x mod 4) * 16 + y / 16) / 16 = x)%N.
Proof. intros. zify. Z.to_euclidean_division_equations. lia. Qed.
Lemma grp2 x y z : (x < 256 -> y < 256 -> z < 256 ->
  (((x mod 4) * 16 + y / 16) mod 16) * 16 + ((y mod 16) * 4 + z / 64) / 4 = y)%N.
Proof. intros. zify. Z.to_euclidean_division_equations. lia. Qed.
Lemma grp3 y z : (y < 256 -> z < 256 -> (((y mod 16) * 4 + z / 64) mod 4) * 64 + z mod 64 = z)%N.
Proof. intros. zify. Z.to_euclidean_division_equations. lia. Qed.
Lemma grp1_last x : (x < 256 -> x / 4 * 4 + ((x mod 4) * 16) / 16 = x)%N.
Proof. intros. zify. Z.to_euclidean_division_equations. lia. Qed.
Lemma grp2_last x y : (x < 256 -> y < 256 -> (((x mod 4) * 16 + y / 16) mod 16) * 16 + ((y mod 16) * 4) / 4 = y)%N.
Proof. intros. zify. Z.to_euclidean_division_equations. lia. Qed.

Lemma rng_a x : (x < 256 -> x / 4 < 64)%N.
Proof. intros. zify. Z.to_euclidean_division_equations. lia. Qed.
Lemma rng_b x y : (x < 256 -> y < 256 -> (x mod 4) * 16 + y / 16 < 64)%N.
Proof. intros. zify. Z.to_euclidean_division_equations. lia. Qed.
Lemma rng_b0 x : (x < 256 -> (x mod 4) * 16 < 64)%N.
Proof. intros. zify. Z.to_euclidean_division_equations. lia. Qed.
Lemma rng_c y z : (y < 256 -> z < 256 -> (y mod 16) * 4 + z / 64 < 64)%N.
Proof. intros. zify. Z.to_euclidean_division_equations. lia. Qed.
Lemma rng_c0 y : (y < 256 -> (y mod 16) * 4 < 64)%N.
Proof. intros. zify. Z.to_euclidean_division_equations. lia. Qed.
Lemma rng_d z : (z mod 64 < 64)%N.
Proof. apply N.mod_lt. discriminate. Qed.

(* three bytes at a time *)
Lemma la_ind3 (P : la -> Prop) :
  P [] -> (forall a, P [a]) -> (forall a b, P [a; b]) -> (forall a b c r, P r -> P (a :: b :: c :: r)) ->
  forall l, P l.
Proof.
  intros H0 H1 H2 H3.
  assert (A : forall n l, List.length l <= n -> P l).
  { induction n as [|n IH]; intros l Hl.
    - destruct l; simpl in Hl; [exact H0 | lia].
    - destruct l as [|a [|b [|c r]]]; auto. apply H3. apply IH. simpl in Hl. lia. }
  intros l. exact (A (List.length l) l (le_n _)).
Qed.

Lemma b64_dec_aux_enc l : b64_dec_aux (b64_enc l) = Some l.
Proof.
  induction l as [|a|a b|a b c r IH] using la_ind3.
  - reflexivity.
  - pose proof (N_ascii_bounded a) as Ha. cbn [b64_enc b64_dec_aux].
    rewrite (b64val_chr _ (rng_a _ Ha)), (b64val_chr _ (rng_b0 _ Ha)), b64val_pad.
    unfold aeq. rewrite Ascii.eqb_refl. cbn [andb is_nil].
    rewrite (grp1_last _ Ha), byte_of. reflexivity.
  - pose proof (N_ascii_bounded a) as Ha. pose proof (N_ascii_bounded b) as Hb. cbn [b64_enc b64_dec_aux].
    rewrite (b64val_chr _ (rng_a _ Ha)), (b64val_chr _ (rng_b _ _ Ha Hb)), (b64val_chr _ (rng_c0 _ Hb)), b64val_pad.
    unfold aeq. rewrite Ascii.eqb_refl. cbn [andb is_nil].
    rewrite (grp1 _ _ Ha Hb), (grp2_last _ _ Ha Hb), !byte_of. reflexivity.
  - pose proof (N_ascii_bounded a) as Ha. pose proof (N_ascii_bounded b) as Hb. pose proof (N_ascii_bounded c) as Hc.
    cbn [b64_enc b64_dec_aux].
    rewrite (b64val_chr _ (rng_a _ Ha)), (b64val_chr _ (rng_b _ _ Ha Hb)), (b64val_chr _ (rng_c _ _ Hb Hc)),
      (b64val_chr _ (rng_d _)), IH.
    rewrite (grp1 _ _ Ha Hb), (grp2 _ _ _ Ha Hb Hc), (grp3 _ _ Hb Hc), !byte_of. reflexivity.
Qed.

(* every symbol of an encoding is an alphabet symbol or the padding: no CR/LF, no space *)
Definition clean (c : ascii) : Prop := is_crlf c = false /\ aeq c sp = false.
Lemma clean_chr n : (n < 64)%N -> clean (b64chr n).
Proof. intros H. split; [apply chr_not_crlf | apply chr_not_sp]; exact H. Qed.
Lemma clean_pad : clean pad.
Proof. split; [apply pad_not_crlf | apply pad_not_sp]. Qed.

Lemma b64_enc_clean l : Forall clean (b64_enc l).
Proof.
  induction l as [|a|a b|a b c r IH] using la_ind3; cbn [b64_enc].
  - constructor.
  - pose proof (N_ascii_bounded a) as Ha.
    repeat (apply Forall_cons; [first [apply clean_pad | apply clean_chr; auto using rng_a, rng_b0]|]). apply Forall_nil.
  - pose proof (N_ascii_bounded a) as Ha. pose proof (N_ascii_bounded b) as Hb.
    repeat (apply Forall_cons; [first [apply clean_pad | apply clean_chr; auto using rng_a, rng_b, rng_c0]|]). apply Forall_nil.
  - pose proof (N_ascii_bounded a) as Ha. pose proof (N_ascii_bounded b) as Hb. pose proof (N_ascii_bounded c) as Hc.
    do 4 (apply Forall_cons; [apply clean_chr; auto using rng_a, rng_b, rng_c, rng_d|]). exact IH.
Qed.

Lemma strip_clean s : Forall clean s -> strip_crlf s = s.
Proof.
  induction 1 as [|c s [Hc _] _ IH]; simpl; auto. rewrite Hc. simpl. now rewrite IH.
Qed.

(* THE ROUND TRIP: StdEncoding.DecodeString (StdEncoding.EncodeToString l) = l, for every byte string *)
Theorem b64_roundtrip l : b64_dec (b64_enc l) = Some l.
Proof. unfold b64_dec. rewrite (strip_clean _ (b64_enc_clean l)). apply b64_dec_aux_enc. Qed.

(* ---------------------------------------------------------------------------------------------
   Split and Cut *)
Lemma split_sp_nonempty s : split_sp s <> [].
Proof. induction s as [|c s IH]; simpl; [discriminate|]. destruct (aeq c sp); [discriminate|]. destruct (split_sp s); discriminate. Qed.

Definition no_sp (w : la) : Prop := Forall (fun c => aeq c sp = false) w.

Lemma split_sp_word w : no_sp w -> split_sp w = [w].
Proof. induction 1 as [|c w Hc _ IH]; simpl; auto. now rewrite Hc, IH. Qed.

Lemma split_sp_app w x : no_sp w -> split_sp (w ++ sp :: x) = w :: split_sp x.
Proof.
  induction 1 as [|c w Hc _ IH]; simpl.
  - reflexivity.
  - now rewrite Hc, IH.
Qed.

Lemma cut_app sep u p : Forall (fun c => aeq c sep = false) u -> cut sep (u ++ sep :: p) = Some (u, p).
Proof.
  induction 1 as [|c u Hc _ IH]; simpl.
  - unfold aeq. now rewrite Ascii.eqb_refl.
  - now rewrite Hc, IH.
Qed.

Lemma cut_sound sep s a b : cut sep s = Some (a, b) -> s = a ++ sep :: b.
Proof.
  revert a. induction s as [|c s IH]; simpl; intros a H; [discriminate|].
  destruct (aeq c sep) eqn:E.
  - injection H as <- <-. apply Ascii.eqb_eq in E. now subst.
  - destruct (cut sep s) as [[a' b']|]; [|discriminate]. injection H as <- <-. simpl. now rewrite (IH a' eq_refl).
Qed.

Lemma not_in_forall (sep : ascii) (u : la) : ~ In sep u -> Forall (fun c => aeq c sep = false) u.
Proof.
  intros H. apply Forall_forall. intros c Hc. unfold aeq. apply Ascii.eqb_neq. intros ->. contradiction.
Qed.

Lemma clean_no_sp s : Forall clean s -> no_sp s.
Proof. apply Forall_impl. intros c [_ H]. exact H. Qed.

(* ---------------------------------------------------------------------------------------------
   parseBasicAuth *)
Lemma parse_basic_std u p : ~ In colon u -> parse_basic (std_basic u p) = Some (u, p).
Proof.
  intros Hu. unfold parse_basic, std_basic.
  change (L "Basic ") with ["B"; "a"; "s"; "i"; "c"; " "]%char.
  cbn [app List.length Nat.ltb Nat.leb firstn skipn].
  replace (equal_fold ["B"; "a"; "s"; "i"; "c"; " "]%char ["B"; "a"; "s"; "i"; "c"; " "]%char) with true by (vm_compute; reflexivity).
  cbn [negb]. rewrite b64_roundtrip. apply cut_app. now apply not_in_forall.
Qed.

(* what a header accepted by parseBasicAuth looks like *)
Lemma parse_basic_spec h u p : parse_basic h = Some (u, p) ->
  exists pre payload, h = pre ++ payload /\ equal_fold pre (L "Basic ") = true /\ b64_dec payload = Some (u ++ colon :: p).
Proof.
  unfold parse_basic. intros H.
  destruct (List.length h <? 6); [discriminate|].
  destruct (equal_fold (firstn 6 h) (L "Basic ")) eqn:E; [|discriminate]. cbn [negb] in H.
  destruct (b64_dec (skipn 6 h)) as [cs|] eqn:D; [|discriminate].
  exists (firstn 6 h), (skipn 6 h). rewrite firstn_skipn. repeat split; auto.
  now rewrite (cut_sound _ _ _ _ H) in D.
Qed.

(* the first word of a header that parseBasicAuth accepts is not "Bearer" *)
Lemma equal_fold_len a b : equal_fold a b = true -> List.length a = List.length b.
Proof. unfold equal_fold. intros H. apply la_eqb_eq in H. rewrite <- (map_length lower a), H. apply map_length. Qed.

(* ---------------------------------------------------------------------------------------------
   the chain *)
Lemma token_mw_api c authed h : token_mw c authed h = Api ->
  token c = None \/ authed = true \/ carries_token c h = true.
Proof.
  unfold token_mw, carries_token. destruct (token c) as [t|]; [|auto].
  destruct authed; [auto|]. intros H. right. right.
  destruct (split_sp h) as [|w0 [|w ws]]; try discriminate.
  destruct (is_nil w); [discriminate|]. destruct (la_eqb w t); [reflexivity|discriminate].
Qed.

Lemma token_mw_cases c h : token_mw c false h = match token c with None => Api | Some _ => if carries_token c h then Api else Unauth end.
Proof.
  unfold token_mw, carries_token. destruct (token c) as [t|]; [|reflexivity].
  destruct (split_sp h) as [|w0 [|w ws]]; try reflexivity.
  destruct (is_nil w); [reflexivity|]. simpl. destruct (la_eqb w t); reflexivity.
Qed.

Lemma token_mw_authed c h : token_mw c true h = Api.
Proof. unfold token_mw. destruct (token c); reflexivity. Qed.

(* exact characterisation of the authentication decision *)
Lemma auth_cases c h : auth c h =
  match basic c with
  | None => match token c with None => Api | Some _ => if carries_token c h then Api else Unauth end
  | Some _ => if skip_basic c h then (if carries_token c h then Api else Unauth)
              else if carries_basic c h then Api else Unauth
  end.
Proof.
  unfold auth, carries_basic. destruct (basic c) as [[u p]|]; [|apply token_mw_cases].
  destruct (skip_basic c h) eqn:S.
  - rewrite token_mw_cases. unfold skip_basic in S. destruct (token c); [reflexivity|discriminate].
  - destruct (parse_basic h) as [[u' p']|]; [|reflexivity].
    destruct (la_eqb u' u && la_eqb p' p); [apply token_mw_authed|reflexivity].
Qed.

Lemma auth_only_two c h : auth c h = Api \/ auth c h = Unauth.
Proof.
  rewrite auth_cases. destruct (basic c), (token c); try destruct (skip_basic c h);
    try destruct (carries_token c h); try destruct (carries_basic c h); auto.
Qed.

Lemma chain_api c r : chain c r = Api -> route c r = Api /\ auth c (hdr r) = Api.
Proof. unfold chain. destruct (route c r); try discriminate. auto. Qed.

Lemma carries_basic_spec c h : carries_basic c h = true ->
  exists u p, basic c = Some (u, p) /\ parse_basic h = Some (u, p).
Proof.
  unfold carries_basic. destruct (basic c) as [[u p]|]; [|discriminate].
  destruct (parse_basic h) as [[u' p']|]; [|discriminate]. intros H.
  apply andb_true_iff in H. destruct H as [H1 H2]. apply la_eqb_eq in H1, H2. subst. eauto.
Qed.

Lemma carries_token_spec c h : carries_token c h = true ->
  exists t, token c = Some t /\ t <> [] /\ nth_error (split_sp h) 1 = Some t.
Proof.
  unfold carries_token. destruct (token c) as [t|]; [|discriminate].
  destruct (split_sp h) as [|w0 [|w ws]]; try discriminate. intros H.
  apply andb_true_iff in H. destruct H as [H1 H2]. apply la_eqb_eq in H2. rewrite <- H2.
  exists w. repeat split; auto. intros E. rewrite E in H1. discriminate.
Qed.

(* C17_sound: a request reaches the API only with no authentication configured, or with the configured
   basic pair, or with the configured (non-empty) token as the second space-separated word of the header *)
Theorem sound c r : chain c r = Api ->
  route c r = Api /\
  ( (basic c = None /\ token c = None)
    \/ (exists u p, basic c = Some (u, p) /\ parse_basic (hdr r) = Some (u, p))
    \/ (exists t, token c = Some t /\ t <> [] /\ nth_error (split_sp (hdr r)) 1 = Some t) ).
Proof.
  intros H. apply chain_api in H. destruct H as [HR HA]. split; [exact HR|].
  rewrite auth_cases in HA.
  destruct (basic c) as [[u p]|] eqn:B.
  - destruct (skip_basic c (hdr r)).
    + destruct (carries_token c (hdr r)) eqn:T; [|discriminate]. right. right. now apply carries_token_spec.
    + destruct (carries_basic c (hdr r)) eqn:CB; [|discriminate]. right. left.
      destruct (carries_basic_spec _ _ CB) as (u' & p' & E1 & E2). rewrite B in E1. injection E1 as <- <-. eauto.
  - destruct (token c) as [t|] eqn:T; [|auto].
    destruct (carries_token c (hdr r)) eqn:CT; [|discriminate]. right. right.
    destruct (carries_token_spec _ _ CT) as (t' & E1 & E2 & E3). rewrite T in E1. injection E1 as <-. eauto.
Qed.

(* "served" (the API handler really runs) implies the same *)
Lemma served_chain c r : served c r = true -> chain c r = Api.
Proof. unfold served. destruct (chain c r); try discriminate. auto. Qed.

(* C17_open *)
Theorem open c r : basic c = None -> token c = None -> route c r = Api -> chain c r = Api.
Proof. intros B T R. unfold chain. rewrite R. rewrite auth_cases, B, T. reflexivity. Qed.

(* C17_deny *)
Theorem deny c r : route c r = Api -> no_auth c = false ->
  carries_basic c (hdr r) = false -> carries_token c (hdr r) = false ->
  chain c r = Unauth /\ served c r = false.
Proof.
  intros R N CB CT.
  assert (E : chain c r = Unauth).
  { unfold chain. rewrite R. rewrite auth_cases, CB, CT. unfold no_auth in N.
    destruct (basic c), (token c); try discriminate; try destruct (skip_basic c (hdr r)); reflexivity. }
  split; [exact E|]. unfold served. now rewrite E.
Qed.

Lemma route_not_unauth c r : route c r <> Unauth.
Proof.
  unfold route. repeat match goal with |- context [if ?b then _ else _] => destruct b end; discriminate.
Qed.

(* C17_non_api *)
Theorem non_api c r : route c r <> Api -> chain c r <> Api /\ chain c r <> Unauth /\ served c r = false.
Proof.
  intros R. pose proof (route_not_unauth c r) as U. unfold served, chain.
  destruct (route c r); repeat split; try discriminate; exfalso; first [apply R; reflexivity | apply U; reflexivity].
Qed.

(* C17_complete, basic: the standard form of the configured pair passes whatever else is configured *)
Lemma skip_basic_std c u p : skip_basic c (std_basic u p) = false.
Proof.
  unfold skip_basic. destruct (token c); [|reflexivity].
  unfold std_basic. change (L "Basic ") with (L "Basic" ++ [sp]). rewrite <- app_assoc. cbn [app].
  rewrite split_sp_app by (repeat constructor).
  cbn [hd]. replace (la_eqb (L "Basic") (L "Bearer")) with false by (vm_compute; reflexivity).
  apply andb_false_r.
Qed.

Theorem complete_basic c r u p : basic c = Some (u, p) -> ~ In colon u ->
  route c r = Api -> hdr r = std_basic u p -> chain c r = Api.
Proof.
  intros B Hu R Hh. unfold chain. rewrite R, Hh, auth_cases, B, skip_basic_std.
  unfold carries_basic. rewrite B, (parse_basic_std u p Hu), !la_eqb_refl. reflexivity.
Qed.

(* C17_complete, token *)
Lemma std_bearer_split t : no_sp t -> split_sp (std_bearer t) = [L "Bearer"; t].
Proof.
  intros Ht. unfold std_bearer. change (L "Bearer ") with (L "Bearer" ++ [sp]). rewrite <- app_assoc. cbn [app].
  rewrite split_sp_app by (repeat constructor). now rewrite split_sp_word.
Qed.

Theorem complete_token c r t : token c = Some t -> t <> [] -> ~ In sp t ->
  route c r = Api -> hdr r = std_bearer t -> chain c r = Api.
Proof.
  intros T Hne Hsp R Hh. unfold chain. rewrite R, Hh, auth_cases.
  assert (S : split_sp (std_bearer t) = [L "Bearer"; t]) by (apply std_bearer_split; now apply not_in_forall).
  assert (CT : carries_token c (std_bearer t) = true).
  { unfold carries_token. rewrite T, S. rewrite la_eqb_refl. destruct t; [contradiction|reflexivity]. }
  assert (SK : skip_basic c (std_bearer t) = true).
  { unfold skip_basic. rewrite T, S. cbn [List.length hd]. rewrite la_eqb_refl. reflexivity. }
  rewrite CT, SK, T. destruct (basic c); reflexivity.
Qed.

(* the two kinds of credentials never overlap in the both-configuration: a header that carries the basic
   pair is not skipped by skipBasicAuth *)
Lemma no_auth_open c r : no_auth c = true -> route c r = Api -> chain c r = Api.
Proof.
  unfold no_auth. intros N R. destruct (basic c) eqn:B; [discriminate|]. destruct (token c) eqn:T; [discriminate|].
  now apply open.
Qed.

(* ---------------------------------------------------------------------------------------------
   concrete states (premises are satisfiable, the outcomes are not trivial) *)
Definition cfg_both : cfg := {| basic := Some (L "admin", L "secret"); token := Some (L "tok123"); base_path := L "/bd" |}.
Definition rq (m p h : string) : req := {| method := L m; path := L p; rawpath := []; hdr := L h |}.

Example ex_enc : b64_enc (L "admin:secret") = L "YWRtaW46c2VjcmV0" /\ b64_enc (L "a") = L "YQ==" /\ b64_enc (L "ab") = L "YWI=".
Proof. vm_compute. auto. Qed.
Example ex_dec : b64_dec (L "YWRtaW46c2VjcmV0") = Some (L "admin:secret") /\ b64_dec (L "YR==") = Some (L "a")
  /\ b64_dec (L "YQ=") = None /\ b64_dec (L "YQ") = None /\ b64_dec (L "YQ==YQ==") = None /\ b64_dec (L "Y!==") = None.
Proof. vm_compute. repeat split. Qed.
Example ex_std_basic : std_basic (L "admin") (L "secret") = L "Basic YWRtaW46c2VjcmV0" /\ ~ In colon (L "admin").
Proof. split; [vm_compute; reflexivity|]. simpl. intros H. repeat (destruct H as [H|H]; [discriminate H|]). exact H. Qed.
Example ex_std_bearer : std_bearer (L "tok123") = L "Bearer tok123" /\ L "tok123" <> [] /\ ~ In sp (L "tok123").
Proof. split; [reflexivity|]. split; [discriminate|]. simpl. intros H. repeat (destruct H as [H|H]; [discriminate H|]). exact H. Qed.
Example ex_chain :
  chain cfg_both (rq "GET" "/bd/api/v1/dags" "Basic YWRtaW46c2VjcmV0") = Api /\
  chain cfg_both (rq "GET" "/bd/api/v1/dags" "Bearer tok123") = Api /\
  chain cfg_both (rq "GET" "/bd/api/v1/dags" "Bearer tok12") = Unauth /\
  chain cfg_both (rq "GET" "/bd/api/v1/dags" "Basic YWRtaW46c2VjcmV") = Unauth /\
  chain cfg_both (rq "GET" "/bd/api/v1/dags" "") = Unauth /\
  chain cfg_both (rq "GET" "/bd/dags/x" "") = Static /\
  chain cfg_both (rq "GET" "/" "") = Redirect /\
  chain cfg_both (rq "GET" "/api/v1/dags" "Bearer tok123") = NotFound /\
  served cfg_both (rq "OPTIONS" "/bd/api/v1/dags" "Bearer tok123") = false /\
  served cfg_both (rq "POST" "/bd/api/v1/dags" "Bearer tok123") = true.
Proof. vm_compute. repeat split. Qed.
Example ex_deny_premises :
  route cfg_both (rq "GET" "/bd/api/v1/dags" "Token tok123") = Api /\ no_auth cfg_both = false /\
  carries_basic cfg_both (L "Bearer dG9rMTIz") = false /\ carries_token cfg_both (L "Bearer dG9rMTIz") = false.
Proof. vm_compute. repeat split. Qed.

(* a password containing colons: net/http cuts user:password at the FIRST colon, so the standard form of the configured pair
   passes (complete_basic puts no condition on the password) and neither `password:junk` nor the password cut at its first
   colon does *)
Definition cfg_colon : cfg := {| basic := Some (L "admin", L "a:b:c"); token := None; base_path := [] |}.
Example ex_colon_password :
  chain cfg_colon {| method := L "GET"; path := L "/api/v1/dags"; rawpath := []; hdr := std_basic (L "admin") (L "a:b:c") |} = Api /\
  chain cfg_colon {| method := L "GET"; path := L "/api/v1/dags"; rawpath := []; hdr := std_basic (L "admin") (L "a:b:c:junk") |} = Unauth /\
  chain cfg_colon {| method := L "GET"; path := L "/api/v1/dags"; rawpath := []; hdr := std_basic (L "admin") (L "a") |} = Unauth /\
  parse_basic (std_basic (L "admin") (L "a:b:c")) = Some (L "admin", L "a:b:c").
Proof. vm_compute. repeat split. Qed.

(* C17, wrong secrets in the standard forms are refused - for every user/password/token other than the configured one,
   whatever else is configured (a configured token does not let a wrong Basic pair through, and the reverse) *)
Lemma la_eqb_neq a b : a <> b -> la_eqb a b = false.
Proof. intros N. destruct (la_eqb a b) eqn:E; [|reflexivity]. now apply la_eqb_eq in E. Qed.

Theorem wrong_basic_denied c r u p u' p' : basic c = Some (u, p) -> ~ In colon u' -> (u', p') <> (u, p) ->
  route c r = Api -> hdr r = std_basic u' p' -> chain c r = Unauth /\ served c r = false.
Proof.
  intros B Hu Hne R Hh.
  assert (C : chain c r = Unauth).
  { unfold chain. rewrite R, Hh, auth_cases, B, skip_basic_std.
    unfold carries_basic. rewrite B, (parse_basic_std u' p' Hu).
    destruct (la_eqb u' u) eqn:EU; [|reflexivity]. apply la_eqb_eq in EU. subst u'.
    rewrite la_eqb_neq; [reflexivity|]. intros ->. now apply Hne. }
  split; [exact C|]. unfold served. now rewrite C.
Qed.

Theorem wrong_token_denied c r t t' : token c = Some t -> ~ In sp t' -> t' <> t ->
  route c r = Api -> hdr r = std_bearer t' -> chain c r = Unauth /\ served c r = false.
Proof.
  intros T Hsp Hne R Hh.
  assert (S : split_sp (std_bearer t') = [L "Bearer"; t']) by (apply std_bearer_split; now apply not_in_forall).
  assert (C : chain c r = Unauth).
  { unfold chain. rewrite R, Hh, auth_cases.
    assert (CT : carries_token c (std_bearer t') = false).
    { unfold carries_token. rewrite T, S, (la_eqb_neq t' t Hne). apply andb_false_r. }
    assert (SK : skip_basic c (std_bearer t') = true).
    { unfold skip_basic. rewrite T, S. cbn [List.length hd]. rewrite la_eqb_refl. reflexivity. }
    rewrite CT, SK, T. destruct (basic c); reflexivity. }
  split; [exact C|]. unfold served. now rewrite C.
Qed.

(* premises of wrong_basic_denied / wrong_token_denied are met by a concrete state *)
Lemma ex_wrong_premises :
  basic cfg_both = Some (L "admin", L "secret") /\ ~ In colon (L "admin") /\ (L "admin", L "secreT") <> (L "admin", L "secret") /\
  token cfg_both = Some (L "tok123") /\ ~ In sp (L "tok124") /\ L "tok124" <> L "tok123" /\
  route cfg_both {| method := L "GET"; path := L "/bd/api/v1/dags"; rawpath := []; hdr := std_basic (L "admin") (L "secreT") |} = Api.
Proof.
  repeat split; try reflexivity; try discriminate.
  - intros H; vm_compute in H; intuition discriminate.
  - intros H; vm_compute in H; intuition discriminate.
Qed.
