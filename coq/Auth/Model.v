(* C17 - the request filter of the web frontend as a pure decision function.
   Code: internal/frontend/middleware/global.go (SetupGlobalMiddleware :12-34, prefixChecker :88-105, cors :107-118),
         basic_auth.go (BasicAuth :14-49, skipBasicAuth :52-56), token_auth.go (TokenAuth :12-46),
         net/http parseBasicAuth + http.StripPrefix, encoding/base64 StdEncoding (DESIGN.md Appendix B).
   Byte strings are `list ascii` (every Go string is a byte string); `L` converts a Coq string literal.
   Executable definitions only - the proofs are in Proofs.v. *)
From Coq Require Import List String Ascii Bool Arith NArith.
Import ListNotations.

Definition la := list ascii.
Definition L (s : string) : la := list_ascii_of_string s.
Definition aeq := Ascii.eqb.

Fixpoint la_eqb (a b : la) : bool :=
  match a, b with
  | [], [] => true
  | x :: r, y :: t => aeq x y && la_eqb r t
  | _, _ => false
  end.

Definition is_nil (s : la) : bool := match s with [] => true | _ => false end.

(* ---------------------------------------------------------------------------------------------
   encoding/base64 StdEncoding: alphabet A-Z a-z 0-9 + /, padding '=' required, CR and LF skipped
   anywhere, the unused low bits of the last symbol are not checked (non-strict). *)
Definition pad : ascii := "="%char.

Definition b64chr (n : N) : ascii :=
  if (n <? 26)%N then ascii_of_N (65 + n)
  else if (n <? 52)%N then ascii_of_N (97 + (n - 26))
  else if (n <? 62)%N then ascii_of_N (48 + (n - 52))
  else if (n =? 62)%N then "+"%char else "/"%char.

Definition b64val (c : ascii) : option N :=
  let n := N_of_ascii c in
  if ((65 <=? n) && (n <=? 90))%N then Some (n - 65)%N
  else if ((97 <=? n) && (n <=? 122))%N then Some (n - 97 + 26)%N
  else if ((48 <=? n) && (n <=? 57))%N then Some (n - 48 + 52)%N
  else if (n =? 43)%N then Some 62%N
  else if (n =? 47)%N then Some 63%N
  else None.

Definition byte (n : N) : ascii := ascii_of_N (n mod 256).

(* EncodeToString *)
Fixpoint b64_enc (l : la) : la :=
  match l with
  | [] => []
  | [a] => let x := N_of_ascii a in
           [b64chr (x / 4); b64chr ((x mod 4) * 16); pad; pad]
  | [a; b] => let x := N_of_ascii a in let y := N_of_ascii b in
           [b64chr (x / 4); b64chr ((x mod 4) * 16 + y / 16); b64chr ((y mod 16) * 4); pad]
  | a :: b :: c :: r =>
           let x := N_of_ascii a in let y := N_of_ascii b in let z := N_of_ascii c in
           b64chr (x / 4) :: b64chr ((x mod 4) * 16 + y / 16) :: b64chr ((y mod 16) * 4 + z / 64) :: b64chr (z mod 64)
           :: b64_enc r
  end.

Definition is_crlf (c : ascii) : bool := let n := N_of_ascii c in ((n =? 10) || (n =? 13))%N.
Definition strip_crlf (s : la) : la := filter (fun c => negb (is_crlf c)) s.

(* decodeQuantum over the CR/LF-free input, four symbols at a time: a padded quantum must be the last one,
   anything after it (or a quantum cut short) is CorruptInputError *)
Fixpoint b64_dec_aux (s : la) : option la :=
  match s with
  | [] => Some []
  | a :: b :: c :: d :: r =>
      match b64val a, b64val b, b64val c, b64val d with
      | Some x, Some y, Some z, Some w =>
          match b64_dec_aux r with
          | Some rest => Some (byte (x * 4 + y / 16) :: byte ((y mod 16) * 16 + z / 4) :: byte ((z mod 4) * 64 + w) :: rest)
          | None => None
          end
      | Some x, Some y, Some z, None =>
          if aeq d pad && is_nil r then Some [byte (x * 4 + y / 16); byte ((y mod 16) * 16 + z / 4)] else None
      | Some x, Some y, None, None =>
          if aeq c pad && aeq d pad && is_nil r then Some [byte (x * 4 + y / 16)] else None
      | _, _, _, _ => None
      end
  | _ => None
  end.

(* DecodeString *)
Definition b64_dec (s : la) : option la := b64_dec_aux (strip_crlf s).

(* ---------------------------------------------------------------------------------------------
   strings.Split(s, " ") (never empty), strings.Cut(s, ":"), ASCII EqualFold, HasPrefix *)
Definition sp : ascii := " "%char.
Definition colon : ascii := ":"%char.

Fixpoint split_sp (s : la) : list la :=
  match s with
  | [] => [[]]
  | c :: r => if aeq c sp then [] :: split_sp r
              else match split_sp r with
                   | w :: ws => (c :: w) :: ws
                   | [] => [[c]]
                   end
  end.

Fixpoint cut (sep : ascii) (s : la) : option (la * la) :=
  match s with
  | [] => None
  | c :: r => if aeq c sep then Some ([], r)
              else match cut sep r with
                   | Some (a, b) => Some (c :: a, b)
                   | None => None
                   end
  end.

Definition lower (c : ascii) : ascii :=
  let n := N_of_ascii c in if ((65 <=? n) && (n <=? 90))%N then ascii_of_N (n + 32) else c.
Definition equal_fold (a b : la) : bool := la_eqb (map lower a) (map lower b).

Definition has_prefix (p s : la) : bool := la_eqb p (firstn (List.length p) s).
Definition trim_prefix (p s : la) : la := if has_prefix p s then skipn (List.length p) s else s.

(* net/http Request.BasicAuth / parseBasicAuth *)
Definition parse_basic (h : la) : option (la * la) :=
  if (List.length h <? 6) then None
  else if negb (equal_fold (firstn 6 h) (L "Basic ")) then None
  else match b64_dec (skipn 6 h) with
       | Some cs => cut colon cs
       | None => None
       end.

(* ---------------------------------------------------------------------------------------------
   configuration (middleware.Setup) and request *)
Record cfg := { basic : option (la * la); token : option la; base_path : la }.
Record req := { method : la; path : la (* URL.Path *); rawpath : la (* URL.RawPath, empty unless the path was escaped *);
                hdr : la (* first Authorization value, empty when absent *) }.

Inductive outcome :=
| Redirect   (* 303 to the base path *)
| NotFound   (* http.StripPrefix: 404 *)
| Static     (* the default (UI) handler *)
| Unauth     (* 401 from BasicAuth or TokenAuth *)
| Api.       (* passed the authentication middlewares towards the API handler *)

(* TokenAuth (token_auth.go:12-46); `authed` = the per-request marker set by a successful BasicAuth *)
Definition token_mw (c : cfg) (authed : bool) (h : la) : outcome :=
  match token c with
  | None => Api                               (* middleware not installed (global.go:22) *)
  | Some t =>
      if authed then Api                      (* skipTokenAuth *)
      else match split_sp h with
           | _ :: bearer :: _ =>
               if is_nil bearer then Unauth
               else if la_eqb bearer t then Api else Unauth      (* subtle.ConstantTimeCompare *)
           | _ => Unauth
           end
  end.

(* skipBasicAuth (basic_auth.go:52-56) *)
Definition skip_basic (c : cfg) (h : la) : bool :=
  match token c with
  | Some _ => let parts := split_sp h in (2 <=? List.length parts) && la_eqb (hd [] parts) (L "Bearer")
  | None => false
  end.

(* BasicAuth (basic_auth.go:14-49) followed by TokenAuth - the order of global.go:22-31 *)
Definition auth (c : cfg) (h : la) : outcome :=
  match basic c with
  | None => token_mw c false h                (* middleware not installed (global.go:26) *)
  | Some (u, p) =>
      if skip_basic c h then token_mw c false h
      else match parse_basic h with
           | Some (u', p') => if la_eqb u' u && la_eqb p' p then token_mw c true h else Unauth
           | None => Unauth
           end
  end.

(* prefixChecker (global.go:88-105) with http.StripPrefix; Api = handed on to the auth middlewares *)
Definition route (c : cfg) (r : req) : outcome :=
  let bp := base_path c in
  if negb (is_nil bp) && la_eqb (path r) (L "/") then Redirect
  else
    let p := trim_prefix bp (path r) in
    let rp := trim_prefix bp (rawpath r) in
    if is_nil bp
       || ((List.length p <? List.length (path r))
           && (is_nil (rawpath r) || (List.length rp <? List.length (rawpath r))))
    then (if has_prefix (L "/api") p then Api else Static)
    else NotFound.

Definition chain (c : cfg) (r : req) : outcome :=
  match route c r with
  | Api => auth c (hdr r)
  | o => o
  end.

(* cors (global.go:107-118) sits inside the auth middlewares: an OPTIONS request that passed them is
   answered without calling the API handler *)
Definition served (c : cfg) (r : req) : bool :=
  match chain c r with
  | Api => negb (la_eqb (method r) (L "OPTIONS"))
  | _ => false
  end.

(* what the harness sees: 0 redirect, 1 not found, 2 static handler ran, 3 401, 4 API handler ran,
   5 passed authentication but answered by cors (OPTIONS) *)
Definition observe (c : cfg) (r : req) : nat :=
  match chain c r with
  | Redirect => 0 | NotFound => 1 | Static => 2 | Unauth => 3
  | Api => if served c r then 4 else 5
  end.

(* the credentials a request carries, as the middlewares read them *)
Definition carries_basic (c : cfg) (h : la) : bool :=
  match basic c, parse_basic h with
  | Some (u, p), Some (u', p') => la_eqb u' u && la_eqb p' p
  | _, _ => false
  end.
Definition carries_token (c : cfg) (h : la) : bool :=
  match token c, split_sp h with
  | Some t, _ :: w :: _ => negb (is_nil w) && la_eqb w t
  | _, _ => false
  end.
Definition no_auth (c : cfg) : bool :=
  match basic c, token c with None, None => true | _, _ => false end.

(* the standard forms (RFC 7617 / RFC 6750) *)
Definition std_basic (u p : la) : la := L "Basic " ++ b64_enc (u ++ colon :: p).
Definition std_bearer (t : la) : la := L "Bearer " ++ t.
