(* Log - theorems (C12), second part: ANY number of retries with the direct wiring (no `stdout:` file, no `output:`
   variable) and teardowns in the usual order (each stale worker tears down before the next attempt is set up): the
   files hold everything.  Symbolic reasoning about the heap of descriptors / writers: a `running` invariant per
   attempt (one open log descriptor behind an empty bufio writer that is reached through ReadFrom), an `idle`
   invariant between attempts.  Together with the refutations of Proofs.v this locates the defect exactly: retry x
   MultiWriter wiring (F12a) and late stale teardowns (F12b). *)
From Coq Require Import List Bool Arith NArith Lia.
Import ListNotations.
From BD.Log Require Import Model.

Section Retry.
Variable A : Type.
Notation bytes := (list A).

Lemma mget_mset_same {X} (d : X) m k v : mget d (mset m k v) k = v.
Proof.
  induction m as [|[k' v'] m IH]; cbn; [now rewrite Nat.eqb_refl|].
  destruct (k =? k') eqn:E; cbn; [now rewrite Nat.eqb_refl | now rewrite E].
Qed.
Lemma mget_mset_other {X} (d : X) m k k2 v : k2 <> k -> mget d (mset m k v) k2 = mget d m k2.
Proof.
  intros Hn. induction m as [|[k' v'] m IH]; cbn.
  - destruct (k2 =? k) eqn:E; [apply Nat.eqb_eq in E; contradiction | reflexivity].
  - destruct (k =? k') eqn:E; cbn.
    + apply Nat.eqb_eq in E. subst k'. destruct (k2 =? k) eqn:E2; [apply Nat.eqb_eq in E2; contradiction | reflexivity].
    + destruct (k2 =? k'); [reflexivity | exact IH].
Qed.

Variable c : cfg.
Hypothesis Hso : c_stdout c = false.
Hypothesis Hou : c_output c = false.

(* the state while attempt j runs: one open log descriptor behind an empty bufio writer, reached directly;
   stderr either shares it or has its own empty writer on the stderr: file *)
Record running (j : nat) (s : st A) (L Epre E : bytes) : Prop := {
  r_blk : blocked A s = false;
  r_bo : brk_o A s = false;
  r_be : brk_e A s = false;
  r_lp : logpath A s = p_log j;
  r_wout : exists lw lf, w_out A s = WDirect lw /\ n_logW (nd A s) = Some lw /\ n_logF (nd A s) = Some lf /\
            buf A s lw = {| bw_buf := []; bw_fd := lf; bw_err := false |} /\
            fdd A s lf = {| fd_path := p_log j; fd_closed := false |} /\
            (if c_stderr c
             then exists ew ef, w_err A s = WDirect ew /\ shared A s = false /\ ew <> lw /\
                    buf A s ew = {| bw_buf := []; bw_fd := ef; bw_err := false |} /\
                    fdd A s ef = {| fd_path := P_STDERR; fd_closed := false |}
             else w_err A s = WDirect lw /\ shared A s = true);
  r_out : n_outW (nd A s) = None /\ n_outF (nd A s) = None;
  r_errW : c_stderr c = false -> n_errW (nd A s) = None;
  r_log : dsk A s (p_log j) = L;
  r_err : c_stderr c = true -> dsk A s P_STDERR = Epre ++ E;
  r_future : forall i, j < i -> dsk A s (p_log i) = [] }.

Definition lpart (x : stream) (p : bytes) : bytes := match x with Out => p | Err => if c_stderr c then [] else p end.
Definition epart (x : stream) (p : bytes) : bytes := match x with Err => p | Out => [] end.

(* a direct write through an empty writer on an open descriptor *)
Lemma readfrom_direct s b f path p :
  buf A s b = {| bw_buf := []; bw_fd := f; bw_err := false |} ->
  fdd A s f = {| fd_path := path; fd_closed := false |} ->
  exists s', bw_readfrom A s b p = (s', true) /\
    dsk A s' path = dsk A s path ++ p /\ (forall q, q <> path -> dsk A s' q = dsk A s q) /\
    (forall b', buf A s' b' = buf A s b') /\ (forall f', fdd A s' f' = fdd A s f') /\ nd A s' = nd A s /\
    w_out A s' = w_out A s /\ w_err A s' = w_err A s /\ shared A s' = shared A s /\ blocked A s' = blocked A s /\
    brk_o A s' = brk_o A s /\ brk_e A s' = brk_e A s /\ logpath A s' = logpath A s /\ nfd A s' = nfd A s /\ nbuf A s' = nbuf A s
    /\ outvar A s' = outvar A s.
Proof.
  intros Hb Hf. unfold bw_readfrom, bw_raw, fd_write. rewrite Hb. cbn [bw_err bw_buf bw_fd]. rewrite Hf. cbn [fd_closed fd_path].
  eexists. split; [reflexivity|].
  unfold dsk, buf, put_buf, set_bufs, set_disk. cbn.
  repeat split; try reflexivity.
  - apply mget_mset_same.
  - intros q Hq. now apply mget_mset_other.
  - intros b'. destruct (Nat.eq_dec b' b) as [->|Hn].
    + rewrite mget_mset_same. unfold buf in Hb. now rewrite Hb.
    + now apply mget_mset_other.
Qed.

Lemma deliver_running j s L Epre E x p : running j s L Epre E ->
  running j (deliver A s x p) (L ++ lpart x p) Epre (E ++ epart x p).
Proof.
  intros [Hblk Hbo Hbe Hlp (lw & lf & Hwo & HlW & HlF & Hbuf & Hfd & Herrw) Hout HerrW Hlog Herr Hfut].
  unfold deliver. rewrite Hblk. cbn [orb].
  assert (Hbr : broken_of A s x = false).
  { unfold broken_of. destruct x; [exact Hbo|]. destruct (shared A s); assumption. }
  rewrite Hbr.
  (* which writer the chunk goes to, and the path behind it *)
  assert (Hsel : exists b f path,
            match x with Out => w_out A s | Err => w_err A s end = WDirect b /\
            buf A s b = {| bw_buf := []; bw_fd := f; bw_err := false |} /\
            fdd A s f = {| fd_path := path; fd_closed := false |} /\
            ((path = p_log j /\ lpart x p = p /\ (c_stderr c = true -> epart x p = [])) \/
             (path = P_STDERR /\ c_stderr c = true /\ lpart x p = [] /\ epart x p = p))).
  { destruct (c_stderr c) eqn:Ese.
    - destruct Herrw as (ew & ef & Hwe & Hsh & Hne & Hbufe & Hfde). destruct x.
      + exists lw, lf, (p_log j). repeat split; try assumption. left. repeat split; reflexivity.
      + exists ew, ef, P_STDERR. repeat split; try assumption. right. unfold lpart. rewrite Ese. repeat split; reflexivity.
    - destruct Herrw as (Hwe & Hsh). exists lw, lf, (p_log j). repeat split; try assumption.
      + destruct x; assumption.
      + left. unfold lpart. rewrite Ese. repeat split; [now destruct x | discriminate]. }
  destruct Hsel as (b & f & path & Hw & Hb & Hf & Hcase). rewrite Hw.
  destruct (readfrom_direct s b f path p Hb Hf) as (s' & Hrf & D1 & D2 & B & F & N & W1 & W2 & S & BL & O1 & O2 & LP & _ & _ & _).
  rewrite Hrf.
  assert (G5 : exists lw lf, w_out A s' = WDirect lw /\ n_logW (nd A s') = Some lw /\ n_logF (nd A s') = Some lf /\
            buf A s' lw = {| bw_buf := []; bw_fd := lf; bw_err := false |} /\
            fdd A s' lf = {| fd_path := p_log j; fd_closed := false |} /\
            (if c_stderr c
             then exists ew ef, w_err A s' = WDirect ew /\ shared A s' = false /\ ew <> lw /\
                    buf A s' ew = {| bw_buf := []; bw_fd := ef; bw_err := false |} /\
                    fdd A s' ef = {| fd_path := P_STDERR; fd_closed := false |}
             else w_err A s' = WDirect lw /\ shared A s' = true)).
  { exists lw, lf. rewrite W1, W2, S, N, !B, !F. repeat split; try assumption.
    destruct (c_stderr c); [|exact Herrw].
    destruct Herrw as (ew & ef & Hwe & Hsh & Hne & Hbufe & Hfde). exists ew, ef. now rewrite B, F. }
  constructor; try congruence; try assumption.
  - intros Hs. rewrite N. now apply HerrW.
  - destruct Hcase as [(-> & Hl & He)|(-> & Hs & Hl & He)].
    + now rewrite D1, Hl, Hlog.
    + rewrite D2 by (unfold p_log, P_STDERR; lia). now rewrite Hl, app_nil_r.
  - intros Hs. destruct Hcase as [(-> & Hl & He)|(-> & _ & Hl & He)].
    + rewrite D2 by (unfold p_log, P_STDERR; lia). rewrite (He Hs), app_nil_r. now apply Herr.
    + rewrite D1, (Herr Hs), He. now rewrite app_assoc.
  - intros i Hi. destruct Hcase as [(-> & _)|(-> & _)]; rewrite D2 by (unfold p_log, P_STDERR; lia); now apply Hfut.
Qed.

(* the state between two attempts (j attempts have run and were torn down) *)
Record idle (j : nat) (s : st A) (Eall : bytes) : Prop := {
  i_blk : blocked A s = false;
  i_out : n_outW (nd A s) = None /\ n_outF (nd A s) = None;
  i_errW : c_stderr c = false -> n_errW (nd A s) = None;
  i_err : c_stderr c = true -> dsk A s P_STDERR = Eall;
  i_future : forall i, j <= i -> dsk A s (p_log i) = [] }.

Lemma mget_mset_self {X} (d : X) m k q : mget d (mset m k (mget d m k)) q = mget d m q.
Proof.
  destruct (Nat.eq_dec q k) as [->|Hn]; [apply mget_mset_same | now apply mget_mset_other].
Qed.

(* effects of open / new_buf, as equations between observations *)
Lemma open_spec s path : let s1 := fst (open A s path) in let f := snd (open A s path) in
  f = nfd A s /\ nfd A s1 = S (nfd A s) /\ fdd A s1 f = {| fd_path := path; fd_closed := false |} /\
  (forall f', f' <> f -> fdd A s1 f' = fdd A s f') /\ (forall q, dsk A s1 q = dsk A s q) /\
  bufs A s1 = bufs A s /\ nbuf A s1 = nbuf A s /\ nd A s1 = nd A s /\ blocked A s1 = blocked A s /\
  logpath A s1 = logpath A s /\ outvar A s1 = outvar A s.
Proof.
  unfold open. cbn [fst snd]. unfold fdd, dsk, set_fds, set_disk. cbn [fds nfd disk bufs nbuf nd blocked logpath outvar].
  repeat split; try reflexivity.
  - apply mget_mset_same.
  - intros f' Hf. now apply mget_mset_other.
  - intros q. apply mget_mset_self.
Qed.

Lemma new_buf_spec s fd : let s1 := fst (new_buf A s fd) in let b := snd (new_buf A s fd) in
  b = nbuf A s /\ nbuf A s1 = S (nbuf A s) /\ buf A s1 b = {| bw_buf := []; bw_fd := fd; bw_err := false |} /\
  (forall b', b' <> b -> buf A s1 b' = buf A s b') /\ fds A s1 = fds A s /\ nfd A s1 = nfd A s /\
  disk A s1 = disk A s /\ nd A s1 = nd A s /\ blocked A s1 = blocked A s /\
  logpath A s1 = logpath A s /\ outvar A s1 = outvar A s.
Proof.
  unfold new_buf. cbn [fst snd]. unfold buf, set_bufs. cbn [fds nfd disk bufs nbuf nd blocked logpath outvar].
  repeat split; try reflexivity.
  - apply mget_mset_same.
  - intros b' Hb. now apply mget_mset_other.
Qed.

Lemma exec_start_obs s : let s1 := exec_start A c s in
  disk A s1 = disk A s /\ fds A s1 = fds A s /\ bufs A s1 = bufs A s /\ nd A s1 = nd A s /\ logpath A s1 = logpath A s /\
  blocked A s1 = false /\ brk_o A s1 = false /\ brk_e A s1 = false /\
  w_out A s1 = wire_out c (nd A s) /\ w_err A s1 = wire_err c (nd A s) /\ shared A s1 = is_shared (nd A s).
Proof. cbn. repeat split; reflexivity. Qed.

Lemma start_running j s Eall : idle j s Eall -> running j (exec_start A c (setup A c j s)) [] Eall [].
Proof.
  intros [Hblk [Ho1 Ho2] HeW Herr Hfut].
  unfold setup. rewrite Hso.
  destruct (open A s (p_log j)) as [s1 lf] eqn:E1.
  pose proof (open_spec s (p_log j)) as P1. rewrite E1 in P1. cbn [fst snd] in P1.
  destruct P1 as (Hlf & Hn1 & Hfd1 & Hfo1 & Hd1 & Hb1 & Hnb1 & Hnd1 & Hbl1 & Hlp1 & Hov1).
  destruct (new_buf A s1 lf) as [s2 lw] eqn:E2.
  pose proof (new_buf_spec s1 lf) as P2. rewrite E2 in P2. cbn [fst snd] in P2.
  destruct P2 as (Hlw & Hnb2 & Hbuf2 & Hbo2 & Hf2 & Hn2 & Hd2 & Hnd2 & Hbl2 & Hlp2 & Hov2).
  set (s3 := set_log A (set_nd A s2 _) (p_log j) (outvar A s2)).
  assert (S3 : disk A s3 = disk A s2 /\ fds A s3 = fds A s2 /\ bufs A s3 = bufs A s2 /\ nfd A s3 = nfd A s2 /\
               nbuf A s3 = nbuf A s2 /\ blocked A s3 = blocked A s2 /\ logpath A s3 = p_log j /\
               n_logW (nd A s3) = Some lw /\ n_logF (nd A s3) = Some lf /\
               n_outW (nd A s3) = n_outW (nd A s2) /\ n_outF (nd A s3) = n_outF (nd A s2) /\
               n_errW (nd A s3) = n_errW (nd A s2)).
  { subst s3. cbn. repeat split; reflexivity. }
  destruct S3 as (Sd & Sf & Sb & Snf & Snb & Sbl & Slp & SlW & SlF & SoW & SoF & SeW).
  assert (Hdsk3 : forall q, dsk A s3 q = dsk A s q).
  { intros q. unfold dsk. rewrite Sd, Hd2. apply Hd1. }
  assert (Hfdd3 : fdd A s3 lf = {| fd_path := p_log j; fd_closed := false |}).
  { unfold fdd. rewrite Sf, Hf2. exact Hfd1. }
  assert (Hbuf3 : buf A s3 lw = {| bw_buf := []; bw_fd := lf; bw_err := false |}).
  { unfold buf. rewrite Sb. exact Hbuf2. }
  destruct (c_stderr c) eqn:Ese.
  - (* own stderr writer *)
    destruct (open A s3 P_STDERR) as [s4 ef] eqn:E4.
    pose proof (open_spec s3 P_STDERR) as P4. rewrite E4 in P4. cbn [fst snd] in P4.
    destruct P4 as (Hef & Hn4 & Hfd4 & Hfo4 & Hd4 & Hb4 & Hnb4 & Hnd4 & Hbl4 & Hlp4 & Hov4).
    destruct (new_buf A s4 ef) as [s5 ew] eqn:E5.
    pose proof (new_buf_spec s4 ef) as P5. rewrite E5 in P5. cbn [fst snd] in P5.
    destruct P5 as (Hew & Hnb5 & Hbuf5 & Hbo5 & Hf5 & Hn5 & Hd5 & Hnd5 & Hbl5 & Hlp5 & Hov5).
    set (s6 := set_nd A s5 _).
    assert (S6 : disk A s6 = disk A s5 /\ fds A s6 = fds A s5 /\ bufs A s6 = bufs A s5 /\ blocked A s6 = blocked A s5 /\
                 logpath A s6 = logpath A s5 /\ n_logW (nd A s6) = n_logW (nd A s5) /\ n_logF (nd A s6) = n_logF (nd A s5) /\
                 n_outW (nd A s6) = n_outW (nd A s5) /\ n_outF (nd A s6) = n_outF (nd A s5) /\ n_errW (nd A s6) = Some ew).
    { subst s6. cbn. repeat split; reflexivity. }
    destruct S6 as (Td & Tf & Tb & Tbl & Tlp & TlW & TlF & ToW & ToF & TeW).
    pose proof (exec_start_obs s6) as X. cbn zeta in X.
    destruct X as (Xd & Xf & Xb & Xn & Xlp & Xbl & Xbo & Xbe & Xwo & Xwe & Xsh).
    assert (HlW6 : n_logW (nd A s6) = Some lw) by (rewrite TlW, Hnd5, Hnd4; exact SlW).
    assert (HoW6 : n_outW (nd A s6) = None) by (rewrite ToW, Hnd5, Hnd4, SoW, Hnd2, Hnd1; exact Ho1).
    assert (Hne : ew <> lw) by (rewrite Hew, Hnb4, Snb, Hnb2, Hlw; lia).
    assert (Hnef : lf <> ef) by (rewrite Hef, Snf, Hn2, Hn1, Hlf; lia).
    constructor; try assumption.
    + now rewrite Xlp, Tlp, Hlp5, Hlp4.
    + exists lw, lf. rewrite Xwo, Xwe, Xsh, Xn. unfold wire_out, wire_err, is_shared. rewrite HlW6, HoW6, Hou, TeW.
      split; [reflexivity|]. split; [reflexivity|]. split; [rewrite TlF, Hnd5, Hnd4; exact SlF|].
      split; [unfold buf; rewrite Xb, Tb; fold (buf A s5 lw); rewrite Hbo5 by (rewrite Hew; rewrite Hew in Hne; lia);
              unfold buf; rewrite Hb4; exact Hbuf3|].
      split; [unfold fdd; rewrite Xf, Tf, Hf5; fold (fdd A s4 lf); rewrite Hfo4 by exact Hnef; exact Hfdd3|].
      rewrite Ese. exists ew, ef. repeat split; try reflexivity; try assumption.
      all: try (unfold buf; rewrite Xb, Tb; exact Hbuf5).
      all: try (unfold fdd; rewrite Xf, Tf, Hf5; exact Hfd4).
    + rewrite Xn. split; [exact HoW6 | rewrite ToF, Hnd5, Hnd4, SoF, Hnd2, Hnd1; exact Ho2].
    + intros Hs. congruence.
    + unfold dsk. rewrite Xd, Td, Hd5. fold (dsk A s4 (p_log j)). rewrite Hd4, Hdsk3. apply Hfut. lia.
    + intros _. unfold dsk. rewrite Xd, Td, Hd5. fold (dsk A s4 P_STDERR). rewrite Hd4, Hdsk3, app_nil_r. now apply Herr.
    + intros i Hi. unfold dsk. rewrite Xd, Td, Hd5. fold (dsk A s4 (p_log i)). rewrite Hd4, Hdsk3. apply Hfut. lia.
  - pose proof (exec_start_obs s3) as X. cbn zeta in X.
    destruct X as (Xd & Xf & Xb & Xn & Xlp & Xbl & Xbo & Xbe & Xwo & Xwe & Xsh).
    assert (HoW3 : n_outW (nd A s3) = None) by (rewrite SoW, Hnd2, Hnd1; exact Ho1).
    assert (HeW3 : n_errW (nd A s3) = n_errW (nd A s)) by (rewrite SeW, Hnd2, Hnd1; reflexivity).
    assert (HeN : n_errW (nd A s3) = None) by (rewrite HeW3; now apply HeW).
    constructor; try assumption.
    + exists lw, lf. rewrite Xwo, Xwe, Xsh, Xn. unfold wire_out, wire_err, is_shared. rewrite SlW, HoW3, Hou, HeN.
      split; [reflexivity|]. split; [reflexivity|]. split; [exact SlF|].
      split; [unfold buf; rewrite Xb; exact Hbuf3|]. split; [unfold fdd; rewrite Xf; exact Hfdd3|].
      rewrite Ese. unfold wire_out. rewrite SlW, HoW3, Hou. split; reflexivity.
    + rewrite Xn. split; [exact HoW3 | rewrite SoF, Hnd2, Hnd1; exact Ho2].
    + intros _. rewrite Xn. exact HeN.
    + unfold dsk. rewrite Xd. fold (dsk A s3 (p_log j)). rewrite Hdsk3. apply Hfut. lia.
    + intros Hs. congruence.
    + intros i Hi. unfold dsk. rewrite Xd. fold (dsk A s3 (p_log i)). rewrite Hdsk3. apply Hfut. lia.
Qed.


Lemma setup_blocked j s : blocked A (setup A c j s) = blocked A s.
Proof.
  unfold setup. rewrite Hso.
  destruct (open A s (p_log j)) as [s1 lf] eqn:E1.
  pose proof (open_spec s (p_log j)) as P1. rewrite E1 in P1. cbn [fst snd] in P1.
  destruct (new_buf A s1 lf) as [s2 lw] eqn:E2.
  pose proof (new_buf_spec s1 lf) as P2. rewrite E2 in P2. cbn [fst snd] in P2.
  set (s3 := set_log A (set_nd A s2 _) (p_log j) (outvar A s2)).
  assert (S3 : blocked A s3 = blocked A s) by (subst s3; cbn; intuition congruence).
  destruct (c_stderr c); [|exact S3].
  destruct (open A s3 P_STDERR) as [s4 ef] eqn:E4.
  pose proof (open_spec s3 P_STDERR) as P4. rewrite E4 in P4. cbn [fst snd] in P4.
  destruct (new_buf A s4 ef) as [s5 ew] eqn:E5.
  pose proof (new_buf_spec s4 ef) as P5. rewrite E5 in P5. cbn [fst snd] in P5.
  cbn. intuition congruence.
Qed.

Lemma finish_idle j s L Epre E : running j s L Epre E ->
  let s' := teardown A (exec_end A c s) in
  idle (S j) s' (Epre ++ E) /\ dsk A s' (p_log j) = L /\ logpath A s' = p_log j.
Proof.
  intros [Hblk Hbo Hbe Hlp (lw & lf & Hwo & HlW & HlF & Hbuf & Hfd & Herrw) [Ho1 Ho2] HerrW Hlog Herr Hfut].
  unfold exec_end. rewrite Hou. cbn [andb]. unfold teardown.
  destruct (n_done (nd A s)) eqn:Ed.
  - cbn zeta. split; [|split; assumption]. constructor; try assumption. now split.
  - rewrite HlW, Ho1, HlF, Ho2. cbn [flush_opt close_opt].
    set (s1 := set_nd A s _).
    assert (Hb1 : buf A s1 lw = {| bw_buf := []; bw_fd := lf; bw_err := false |}) by exact Hbuf.
    unfold bw_flush. rewrite Hb1. cbn [bw_err bw_buf fst].
    assert (Hd : forall q, dsk A (close A s1 lf) q = dsk A s q) by reflexivity.
    cbn zeta. rewrite !Hd. split; [|split; [exact Hlog | exact Hlp]].
    constructor.
    + exact Hblk.
    + cbn. now split.
    + intros Hs. cbn. now apply HerrW.
    + intros Hs. rewrite Hd. now apply Herr.
    + intros i Hi. rewrite Hd. apply Hfut. lia.
Qed.

Lemma lpart_eq x p : lpart x p = match fst (x, p) with Out => p | Err => if c_stderr c then [] else p end.
Proof. reflexivity. Qed.

Lemma chunks_running j cs : forall s L Epre E, running j s L Epre E ->
  running j (exec A c s (map (fun ch => AChunk A (fst ch) (snd ch)) cs)) (L ++ log_of A c cs) Epre (E ++ err_of A cs).
Proof.
  induction cs as [|[x p] cs IH]; intros s L Epre E Hr.
  - cbn. now rewrite !app_nil_r.
  - unfold exec. cbn [map fold_left fst snd]. fold (exec A c (step A c s (AChunk A x p)) (map (fun ch => AChunk A (fst ch) (snd ch)) cs)).
    assert (Hstep : step A c s (AChunk A x p) = deliver A s x p).
    { unfold step. now rewrite (r_blk _ _ _ _ _ Hr). }
    rewrite Hstep.
    replace (L ++ log_of A c ((x, p) :: cs)) with ((L ++ lpart x p) ++ log_of A c cs).
    2:{ rewrite <- app_assoc. f_equal; try (unfold log_of, lpart; cbn [flat_map fst snd]; destruct x; reflexivity). }
    replace (E ++ err_of A ((x, p) :: cs)) with ((E ++ epart x p) ++ err_of A cs).
    2:{ rewrite <- app_assoc. f_equal; try (unfold err_of, epart; cbn [flat_map fst snd]; destruct x; reflexivity). }
    apply IH. now apply deliver_running.
Qed.

Lemma attempts_ok : forall atts j s Eall, atts <> [] -> idle j s Eall ->
  let s' := exec A c s (program A j atts []) in
  blocked A s' = false /\ dsk A s' (logpath A s') = log_of A c (last atts []) /\
  (c_stderr c = true -> is_suffix A (err_of A (last atts [])) (dsk A s' P_STDERR)).
Proof.
  induction atts as [|cs rest IH]; intros j s Eall Hne Hi; [contradiction|].
  cbn [program hd tl]. unfold insert_at. cbn [firstn skipn app].
  unfold body. cbn zeta.
  unfold exec. cbn [app fold_left].
  rewrite <- app_assoc. rewrite fold_left_app.
  assert (H1 : step A c s (ASetup A j) = setup A c j s) by (unfold step; now rewrite (i_blk _ _ _ Hi)).
  rewrite H1.
  assert (H2 : step A c (setup A c j s) (AStart A) = exec_start A c (setup A c j s)).
  { unfold step. now rewrite setup_blocked, (i_blk _ _ _ Hi). }
  rewrite H2.
  pose proof (start_running j s Eall Hi) as Hr0.
  pose proof (chunks_running j cs _ _ _ _ Hr0) as Hr. cbn [app] in Hr. unfold exec in Hr.
  match type of Hr with running _ ?st _ _ _ => set (s2 := st) in * end.
  cbn [app fold_left].
  assert (H3 : step A c s2 (AEnd A) = exec_end A c s2) by (unfold step; now rewrite (r_blk _ _ _ _ _ Hr)).
  rewrite H3.
  destruct (finish_idle j s2 _ _ _ Hr) as (Hid & Hlog & Hlp).
  assert (Hb3 : blocked A (exec_end A c s2) = false).
  { unfold exec_end. rewrite Hou. cbn [andb]. exact (r_blk _ _ _ _ _ Hr). }
  assert (H4 : step A c (exec_end A c s2) (ATeardown A) = teardown A (exec_end A c s2)) by (unfold step; now rewrite Hb3).
  rewrite H4.
  destruct rest as [|cs2 rest'].
  - cbn [program fold_left last]. split; [exact (i_blk _ _ _ Hid)|]. split.
    + rewrite Hlp. exact Hlog.
    + intros Hs. exists Eall. now rewrite (i_err _ _ _ Hid Hs).
  - change (last (cs :: cs2 :: rest') []) with (last (cs2 :: rest') []).
    apply (IH (S j) _ _ ltac:(discriminate) Hid).
Qed.

Lemma idle_init : idle 0 (init (A := A)) [].
Proof. constructor; try reflexivity; try (now split); intros; reflexivity. Qed.

(* Any number of retries, direct wiring, teardowns in the usual order: everything is there. *)
Theorem retry_direct : forall atts, atts <> [] -> complete A c (last atts []) (run A c atts []).
Proof.
  intros atts Hne. destruct (attempts_ok atts 0 _ [] Hne idle_init) as (H1 & H2 & H3).
  unfold complete, run. split; [exact H1|]. split; [exact H2|]. split; [|exact H3].
  intros Hs. rewrite Hso in Hs. discriminate.
Qed.

End Retry.


(* the premises are satisfiable and the conclusion is not vacuous: three attempts, stderr redirected *)
Example retry_direct_example :
  let c := {| c_stdout := false; c_stderr := true; c_output := false; c_script := true |} in
  let atts := [[(Out, [1; 2]); (Err, [9])]; [(Out, [3])]; [(Err, [8]); (Out, [4; 5])]] in
  c_stdout c = false /\ c_output c = false /\ atts <> [] /\
  dsk nat (run nat c atts []) (logpath nat (run nat c atts [])) = [4; 5] /\
  dsk nat (run nat c atts []) P_STDERR = [9; 8].
Proof. cbv zeta. repeat split; try reflexivity. discriminate. Qed.
