(* Log - theorems (C12). *)
From Coq Require Import List Bool Arith NArith Lia.
Import ListNotations.
From BD.Log Require Import Model.

Definition mkc (a b c d : bool) : cfg := {| c_stdout := a; c_stderr := b; c_output := c; c_script := d |}.

(* F12a: a retry with a stdout: file - the last attempt's bytes never reach the log *)
Lemma C12_complete_refuted_retry : exists (c : cfg) (atts : list (list (chunk nat))) (lates : list nat),
  atts <> [] /\ ~ complete nat c (last atts []) (run nat c atts lates).
Proof.
  exists (mkc true false false false), [[(Out, [1])]; [(Out, [2])]], [0].
  split; [discriminate|]. intros (_ & H & _). vm_compute in H. discriminate.
Qed.
