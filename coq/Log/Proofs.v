(* Log - theorems (C12).  Stdlib style.

   Plan.  For ONE attempt (no retry happened) the heap of files / descriptors / bufio writers is fixed by the
   configuration; every reachable state is `mk c k` for a small tuple k of byte sequences (file contents, buffer
   contents, pipe).  `step_chunk` shows by computation that the model's step on such a state is `simple_step` on
   the tuple; the properties are then proved about `simple_step` by list reasoning with the invariant
        file ++ buffered = bytes accepted          (and: buffered fits the buffer, pipe slots are well formed)
   and teardown flushes what is buffered. *)
From Coq Require Import List Bool Arith NArith Lia.
Import ListNotations.
From BD.Log Require Import Model.

Definition mkc (a b c d : bool) : cfg := {| c_stdout := a; c_stderr := b; c_output := c; c_script := d |}.

Lemma BUFSZ_pos : 0 < BUFSZ.
Proof. unfold BUFSZ. lia. Qed.
Lemma PAGE_pos : 0 < PAGE.
Proof. unfold PAGE. lia. Qed.
Lemma HALFPIPE_eq : HALFPIPE = 8 * PAGE.
Proof. reflexivity. Qed.
Lemma NSLOTS_eq : NSLOTS = 16.
Proof. reflexivity. Qed.

Global Opaque BUFSZ PAGE HALFPIPE.

Section Proofs.
Variable A : Type.
Notation bytes := (list A).

(* ---------------------------------------------------------------------------------------------------- *)
(* bufio.Write on a (file, buffer) pair                                                                   *)
(* ---------------------------------------------------------------------------------------------------- *)
Definition bwp (file bf p : bytes) : bytes * bytes :=
  if length p <=? BUFSZ - length bf then (file, bf ++ p)
  else match bf with
       | [] => (file ++ p, [])
       | _ => if length (skipn (BUFSZ - length bf) p) <=? BUFSZ
              then (file ++ (bf ++ firstn (BUFSZ - length bf) p), skipn (BUFSZ - length bf) p)
              else ((file ++ (bf ++ firstn (BUFSZ - length bf) p)) ++ skipn (BUFSZ - length bf) p, [])
       end.

(* ReadFrom, one chunk *)
Definition rfp (file bf p : bytes) : bytes * bytes :=
  match bf with [] => (file ++ p, []) | _ => bwp file bf p end.

Lemma bwp_spec file bf p : length bf <= BUFSZ ->
  fst (bwp file bf p) ++ snd (bwp file bf p) = file ++ bf ++ p /\ length (snd (bwp file bf p)) <= BUFSZ.
Proof.
  intros Hb. unfold bwp.
  destruct (length p <=? BUFSZ - length bf) eqn:E1.
  - apply Nat.leb_le in E1. cbn [fst snd]. split; [reflexivity|]. rewrite app_length. lia.
  - destruct bf as [|b0 bf'].
    + cbn [fst snd]. split; [now rewrite app_nil_r | cbn; lia].
    + set (bf := b0 :: bf') in *. set (n := BUFSZ - length bf).
      destruct (length (skipn n p) <=? BUFSZ) eqn:E2; cbn [fst snd].
      * apply Nat.leb_le in E2. split; [|exact E2].
        rewrite <- !app_assoc. now rewrite (firstn_skipn n p).
      * split; [|cbn; lia]. rewrite app_nil_r, <- !app_assoc. now rewrite (firstn_skipn n p).
Qed.

Lemma rfp_spec file bf p : length bf <= BUFSZ ->
  fst (rfp file bf p) ++ snd (rfp file bf p) = file ++ bf ++ p /\ length (snd (rfp file bf p)) <= BUFSZ.
Proof.
  intros Hb. unfold rfp. destruct bf as [|b0 bf'].
  - cbn [fst snd]. split; [now rewrite app_nil_r | cbn; lia].
  - now apply bwp_spec.
Qed.

Lemma rfp_empty file p : rfp file [] p = (file ++ p, []).
Proof. reflexivity. Qed.

(* ---------------------------------------------------------------------------------------------------- *)
(* The pipe: slots stay well formed, and half a pipe always fits                                          *)
(* ---------------------------------------------------------------------------------------------------- *)
Fixpoint adj (l : list nat) : Prop :=
  match l with a :: ((b :: _) as t) => PAGE < a + b /\ adj t | _ => True end.
Definition slots_inv (l : list nat) : Prop := Forall (fun x => 1 <= x <= PAGE) l /\ adj l.
Definition sum (l : list nat) : nat := fold_right Nat.add 0 l.

Lemma adj_tl a l : adj (a :: l) -> adj l.
Proof. destruct l as [|b l]; [trivial | now intros [_ H]]. Qed.

Lemma adj_cons a l : (match l with [] => True | b :: _ => PAGE < a + b end) -> adj l -> adj (a :: l).
Proof. destruct l as [|b l]; [trivial | now split]. Qed.

Lemma adj_pages q l : adj l -> (match l with [] => True | b :: _ => 1 <= b end) -> adj (repeat PAGE q ++ l).
Proof.
  intros Hl Hb. induction q as [|q IH]; [exact Hl|].
  cbn [repeat app]. apply adj_cons; [|exact IH].
  destruct q as [|q]; cbn [repeat app].
  - destruct l as [|b l]; [trivial | lia].
  - pose proof PAGE_pos. lia.
Qed.

Lemma forall_pages q : Forall (fun x => 1 <= x <= PAGE) (repeat PAGE q).
Proof. pose proof PAGE_pos. induction q; cbn; constructor; [lia | assumption]. Qed.

Lemma sum_cons x l : sum (x :: l) = x + sum l.
Proof. reflexivity. Qed.
Lemma sum_app a b : sum (a ++ b) = sum a + sum b.
Proof. induction a as [|x a IH]; [reflexivity|]. cbn [app]. rewrite !sum_cons, IH. lia. Qed.
Lemma sum_pages q : sum (repeat PAGE q) = PAGE * q.
Proof. induction q as [|q IH]; [cbn; lia|]. cbn [repeat]. rewrite sum_cons, IH. lia. Qed.

(* each adjacent pair of slots holds more than a page *)
Lemma pairs_bound : forall n l, length l <= n -> adj l -> (PAGE + 1) * (length l / 2) <= sum l.
Proof.
  induction n as [|n IH]; intros l Hn Ha.
  - destruct l; [cbn; lia | cbn in Hn; lia].
  - destruct l as [|a [|b r]]; [cbn; lia | cbn; lia |].
    destruct Ha as [Hab Ha]. apply adj_tl in Ha.
    assert (Hr : length r <= n) by (cbn in Hn; lia).
    specialize (IH r Hr Ha).
    replace (length (a :: b :: r)) with (length r + 1 * 2) by (cbn; lia).
    rewrite Nat.div_add by lia. rewrite !sum_cons. lia.
Qed.

Definition put_result (slots : list nat) (n : nat) : list nat :=
  let chars := n mod PAGE in
  let '(slots1, rest) :=
    match slots with
    | l :: r => if (0 <? chars) && (l + chars <=? PAGE) then ((l + chars) :: r, n - chars) else (slots, n)
    | [] => (slots, n)
    end in
  (if rest mod PAGE =? 0 then [] else [rest mod PAGE]) ++ repeat PAGE (rest / PAGE) ++ slots1.

Lemma pipe_put_unfold slots n : 0 < n ->
  pipe_put slots n = if length (put_result slots n) <=? NSLOTS then Some (put_result slots n) else None.
Proof.
  intros Hn. unfold pipe_put, put_result. destruct (n =? 0) eqn:E; [apply Nat.eqb_eq in E; lia|].
  destruct slots as [|l r]; [reflexivity|].
  destruct ((0 <? n mod PAGE) && (l + n mod PAGE <=? PAGE)); reflexivity.
Qed.

Lemma put_result_inv slots n : 0 < n -> slots_inv slots ->
  slots_inv (put_result slots n) /\ sum (put_result slots n) = sum slots + n.
Proof.
  intros Hn [Hf Ha]. pose proof PAGE_pos as HP.
  pose proof (Nat.div_mod n PAGE ltac:(lia)) as Hdm.
  pose proof (Nat.mod_upper_bound n PAGE ltac:(lia)) as Hm.
  unfold put_result.
  destruct slots as [|l r].
  - (* empty pipe *)
    destruct (n mod PAGE =? 0) eqn:E0.
    + apply Nat.eqb_eq in E0. cbn [app]. rewrite app_nil_r. split; [split|].
      * apply forall_pages.
      * rewrite <- (app_nil_r (repeat PAGE (n / PAGE))). now apply adj_pages.
      * rewrite sum_pages. cbn. lia.
    + apply Nat.eqb_neq in E0. rewrite app_nil_r. split; [split|].
      * constructor; [lia | apply forall_pages].
      * change ([n mod PAGE] ++ repeat PAGE (n / PAGE)) with (n mod PAGE :: repeat PAGE (n / PAGE)).
        apply adj_cons.
        -- destruct (n / PAGE); cbn; [trivial | lia].
        -- rewrite <- (app_nil_r (repeat PAGE (n / PAGE))). now apply adj_pages.
      * change ([n mod PAGE] ++ repeat PAGE (n / PAGE)) with (n mod PAGE :: repeat PAGE (n / PAGE)).
        rewrite sum_cons, sum_pages. cbn. lia.
  - inversion Hf as [|? ? Hl Hfr]; subst.
    destruct ((0 <? n mod PAGE) && (l + n mod PAGE <=? PAGE)) eqn:Em.
    + (* the sub-page remainder is merged into the last slot, the rest is whole pages *)
      apply andb_true_iff in Em as [E1 E2]. apply Nat.ltb_lt in E1. apply Nat.leb_le in E2.
      assert (Hrest : n - n mod PAGE = PAGE * (n / PAGE)) by lia.
      rewrite Hrest.
      replace (PAGE * (n / PAGE) mod PAGE) with 0
        by (symmetry; rewrite Nat.mul_comm; apply Nat.mod_mul; lia).
      replace (PAGE * (n / PAGE) / PAGE) with (n / PAGE)
        by (symmetry; rewrite Nat.mul_comm; apply Nat.div_mul; lia).
      cbn [Nat.eqb app]. split; [split|].
      * apply Forall_app. split; [apply forall_pages|]. constructor; [lia | assumption].
      * apply adj_pages; [|lia]. apply adj_cons; [|now apply adj_tl in Ha].
        destruct r as [|b r]; [trivial|]. destruct Ha as [Hab _]. lia.
      * rewrite sum_app, sum_pages, !sum_cons. lia.
    + (* no merge *)
      assert (Hnm : n mod PAGE = 0 \/ PAGE < l + n mod PAGE).
      { apply andb_false_iff in Em as [E|E]; [apply Nat.ltb_ge in E; lia | apply Nat.leb_gt in E; lia]. }
      destruct (n mod PAGE =? 0) eqn:E0.
      * apply Nat.eqb_eq in E0. cbn [app]. split; [split|].
        -- apply Forall_app. split; [apply forall_pages | assumption].
        -- apply adj_pages; [assumption | lia].
        -- rewrite sum_app, sum_pages. lia.
      * apply Nat.eqb_neq in E0. split; [split|].
        -- constructor; [lia|]. apply Forall_app. split; [apply forall_pages | assumption].
        -- change ([n mod PAGE] ++ repeat PAGE (n / PAGE) ++ l :: r) with (n mod PAGE :: repeat PAGE (n / PAGE) ++ l :: r).
           apply adj_cons; [|apply adj_pages; [assumption | lia]].
           destruct (n / PAGE); cbn [repeat app]; lia.
        -- change ([n mod PAGE] ++ repeat PAGE (n / PAGE) ++ l :: r) with (n mod PAGE :: repeat PAGE (n / PAGE) ++ l :: r).
           rewrite sum_cons, sum_app, sum_pages. lia.
Qed.

(* a write that leaves the pipe at most half full never blocks *)
Lemma pipe_put_fits slots n : slots_inv slots -> sum slots + n <= HALFPIPE ->
  exists ps, pipe_put slots n = Some ps /\ slots_inv ps /\ sum ps = sum slots + n.
Proof.
  intros Hi Hs. destruct (Nat.eq_dec n 0) as [->|Hn].
  - exists slots. cbn. repeat split; try apply Hi. lia.
  - assert (0 < n) as Hn' by lia.
    destruct (put_result_inv slots n Hn' Hi) as [Hinv Hsum].
    rewrite (pipe_put_unfold slots n Hn').
    destruct (length (put_result slots n) <=? NSLOTS) eqn:E.
    + eauto.
    + exfalso. apply Nat.leb_gt in E. rewrite NSLOTS_eq in E.
      pose proof (pairs_bound _ _ (Nat.le_refl _) (proj2 Hinv)) as Hb.
      assert (8 <= length (put_result slots n) / 2).
      { change 8 with (16 / 2). apply Nat.div_le_mono; lia. }
      rewrite HALFPIPE_eq in Hs. nia.
Qed.

(* ---------------------------------------------------------------------------------------------------- *)
(* One attempt as a tuple of byte sequences                                                               *)
(* ---------------------------------------------------------------------------------------------------- *)
Record comps := {
  k_dlog : bytes; k_bl : bytes;        (* log file, log buffer *)
  k_dout : bytes; k_bo : bytes;        (* stdout: file and buffer *)
  k_derr : bytes;                      (* stderr: file (its buffer stays empty) *)
  k_pipe : bytes; k_ps : list nat; k_blocked : bool; k_outvar : option bytes }.

Definition k0 : comps :=
  {| k_dlog := []; k_bl := []; k_dout := []; k_bo := []; k_derr := []; k_pipe := []; k_ps := []; k_blocked := false; k_outvar := None |}.

Definition ebuf (c : cfg) : nat := if c_stdout c then 2 else 1.     (* id of the stderr writer / descriptor *)

Definition mk (c : cfg) (k : comps) : st A :=
  let s0 := exec_start A c (setup A c 0 (init (A := A))) in
  {| disk := [(p_log 0, k_dlog k)] ++ (if c_stdout c then [(P_STDOUT, k_dout k)] else [])
                                   ++ (if c_stderr c then [(P_STDERR, k_derr k)] else []);
     fds := fds A s0; nfd := nfd A s0;
     bufs := [(0, {| bw_buf := k_bl k; bw_fd := 0; bw_err := false |})]
             ++ (if c_stdout c then [(1, {| bw_buf := k_bo k; bw_fd := 1; bw_err := false |})] else [])
             ++ (if c_stderr c then [(ebuf c, {| bw_buf := []; bw_fd := ebuf c; bw_err := false |})] else []);
     nbuf := nbuf A s0; nd := nd A s0; w_out := w_out A s0; w_err := w_err A s0; shared := shared A s0;
     pipe := k_pipe k; pslots := k_ps k; blocked := k_blocked k; brk_o := false; brk_e := false;
     logpath := logpath A s0; outvar := k_outvar k |}.

Definition multi (c : cfg) : bool := c_output c || c_stdout c.

(* the bytes of a chunk that go towards the log *)
Definition to_log (c : cfg) (x : stream) : bool := match x with Out => true | Err => negb (c_stderr c) end.

Definition simple_step (c : cfg) (k : comps) (x : stream) (p : bytes) : comps :=
  if k_blocked k then k
  else if to_log c x then
    if multi c then
      let lg := bwp (k_dlog k) (k_bl k) p in
      let ou := if c_stdout c then bwp (k_dout k) (k_bo k) p else (k_dout k, k_bo k) in
      if c_output c then
        match pipe_put (k_ps k) (length p) with
        | Some ps => {| k_dlog := fst lg; k_bl := snd lg; k_dout := fst ou; k_bo := snd ou; k_derr := k_derr k;
                        k_pipe := k_pipe k ++ p; k_ps := ps; k_blocked := false; k_outvar := k_outvar k |}
        | None => {| k_dlog := fst lg; k_bl := snd lg; k_dout := fst ou; k_bo := snd ou; k_derr := k_derr k;
                     k_pipe := k_pipe k; k_ps := k_ps k; k_blocked := true; k_outvar := k_outvar k |}
        end
      else {| k_dlog := fst lg; k_bl := snd lg; k_dout := fst ou; k_bo := snd ou; k_derr := k_derr k;
              k_pipe := k_pipe k; k_ps := k_ps k; k_blocked := false; k_outvar := k_outvar k |}
    else
      let lg := rfp (k_dlog k) (k_bl k) p in
      {| k_dlog := fst lg; k_bl := snd lg; k_dout := k_dout k; k_bo := k_bo k; k_derr := k_derr k;
         k_pipe := k_pipe k; k_ps := k_ps k; k_blocked := false; k_outvar := k_outvar k |}
  else {| k_dlog := k_dlog k; k_bl := k_bl k; k_dout := k_dout k; k_bo := k_bo k; k_derr := k_derr k ++ p;
          k_pipe := k_pipe k; k_ps := k_ps k; k_blocked := false; k_outvar := k_outvar k |}.

Lemma mk_start c : exec_start A c (setup A c 0 (init (A := A))) = mk c k0.
Proof. destruct c as [[] [] [] sc]; reflexivity. Qed.

Ltac split_ifs :=
  repeat match goal with
  | |- context [if ?b then _ else _] =>
      lazymatch b with
      | true => fail | false => fail
      | _ => let E := fresh "E" in destruct b eqn:E
      end
  | |- context [match ?l with [] => _ | _ :: _ => _ end] =>
      lazymatch l with
      | [] => fail | _ :: _ => fail
      | _ => let E := fresh "E" in destruct l eqn:E
      end
  | |- context [match ?o with Some _ => _ | None => _ end] =>
      lazymatch o with
      | Some _ => fail | None => fail
      | _ => let E := fresh "E" in destruct o eqn:E
      end
  end.

Lemma step_chunk c k x p : step A c (mk c k) (AChunk A x p) = mk c (simple_step c k x p).
Proof.
  destruct c as [[] [] [] sc]; destruct x.
  all: unfold step, simple_step, mk; cbn [blocked k_blocked].
  all: destruct (k_blocked k) eqn:Eb; [destruct k; cbn [k_blocked] in Eb; subst; reflexivity|].
  all: destruct k as [dlog bl dout bo derr pp ps blk ov]; cbn [k_blocked] in Eb; subst blk.
  all: cbv -[BUFSZ PAGE Nat.leb Nat.sub firstn skipn length pipe_put].
  all: split_ifs; reflexivity.
Qed.

(* ---------------------------------------------------------------------------------------------------- *)
(* The attempt as a fold of simple_step                                                                   *)
(* ---------------------------------------------------------------------------------------------------- *)
Definition fold_chunks (c : cfg) (k : comps) (cs : list (chunk A)) : comps :=
  fold_left (fun k ch => simple_step c k (fst ch) (snd ch)) cs k.

Lemma exec_chunks c cs : forall k,
  exec A c (mk c k) (map (fun ch => AChunk A (fst ch) (snd ch)) cs) = mk c (fold_chunks c k cs).
Proof.
  induction cs as [|ch cs IH]; intros k; [reflexivity|].
  unfold exec, fold_chunks in *. cbn [map fold_left]. rewrite step_chunk. apply IH.
Qed.

Definition end_k (c : cfg) (k : comps) : comps :=
  if c_output c && negb (k_blocked k)
  then {| k_dlog := k_dlog k; k_bl := k_bl k; k_dout := k_dout k; k_bo := k_bo k; k_derr := k_derr k;
          k_pipe := k_pipe k; k_ps := k_ps k; k_blocked := k_blocked k; k_outvar := Some (k_pipe k) |}
  else k.

Lemma exec_end_mk c k : exec_end A c (mk c k) = mk c (end_k c k).
Proof.
  destruct c as [[] [] [] sc]; destruct k as [dlog bl dout bo derr pp ps blk ov]; destruct blk;
    cbv -[BUFSZ PAGE]; reflexivity.
Qed.

Lemma start_mk c : step A c (step A c (init (A := A)) (ASetup A 0)) (AStart A) = mk c k0.
Proof. destruct c as [[] [] [] sc]; cbv -[BUFSZ PAGE]; reflexivity. Qed.

Lemma run_single c cs :
  run A c [cs] [] = step A c (step A c (mk c (fold_chunks c k0 cs)) (AEnd A)) (ATeardown A).
Proof.
  unfold run, program, body, insert_at. cbn [hd tl firstn skipn app].
  unfold exec. cbn [fold_left]. rewrite start_mk.
  rewrite !fold_left_app. cbn [fold_left]. f_equal. f_equal. exact (exec_chunks c cs k0).
Qed.

(* teardown of a running single attempt: what is buffered reaches the files *)
Lemma teardown_obs c k : k_blocked k = false ->
  let s := teardown A (mk c k) in
  blocked A s = false /\ logpath A s = p_log 0 /\ dsk A s (p_log 0) = k_dlog k ++ k_bl k /\
  (c_stdout c = true -> dsk A s P_STDOUT = k_dout k ++ k_bo k) /\
  (c_stderr c = true -> dsk A s P_STDERR = k_derr k) /\ outvar A s = k_outvar k.
Proof.
  intros Hb. destruct k as [dlog bl dout bo derr pp ps blk ov]. cbn [k_blocked] in Hb. subst blk.
  destruct c as [[] [] [] sc].
  all: destruct bl as [|b0 bl].
  all: destruct bo as [|o0 bo].
  all: cbn [k_dlog k_bl k_dout k_bo k_derr k_outvar]; rewrite ?app_nil_r.
  all: cbv -[BUFSZ PAGE].
  all: repeat split.
  all: try reflexivity.
  all: intros H; try reflexivity; discriminate H.
Qed.

(* ---------------------------------------------------------------------------------------------------- *)
(* Invariant: file ++ buffered = bytes accepted                                                           *)
(* ---------------------------------------------------------------------------------------------------- *)
Record kinv (c : cfg) (k : comps) (L E : bytes) : Prop := {
  ki_blk : k_blocked k = false;
  ki_log : k_dlog k ++ k_bl k = L;
  ki_lbuf : length (k_bl k) <= BUFSZ;
  ki_out : c_stdout c = true -> k_dout k ++ k_bo k = L /\ length (k_bo k) <= BUFSZ;
  ki_err : c_stderr c = true -> k_derr k = E;
  ki_pipe : c_output c = true -> k_pipe k = L /\ slots_inv (k_ps k) /\ sum (k_ps k) = length L;
  ki_ov : k_outvar k = None }.

Lemma kinv0 c : kinv c k0 [] [].
Proof.
  constructor; cbn; try reflexivity; try lia; intros _; repeat split; try reflexivity; try lia; constructor.
Qed.

Definition lpart (c : cfg) (x : stream) (p : bytes) : bytes := if to_log c x then p else [].
Definition epart (x : stream) (p : bytes) : bytes := match x with Err => p | Out => [] end.

Lemma simple_step_inv c k L E x p :
  kinv c k L E -> (c_output c = true -> length (L ++ lpart c x p) <= HALFPIPE) ->
  kinv c (simple_step c k x p) (L ++ lpart c x p) (E ++ epart x p).
Proof.
  intros [Hblk Hlog Hlb Hout Herr Hpipe Hov] Hfit.
  unfold simple_step, lpart in *. rewrite Hblk.
  destruct (to_log c x) eqn:Etl.
  - (* towards the log *)
    assert (HE : c_stderr c = true -> E ++ epart x p = E).
    { intros Hs. destruct x; cbn; [apply app_nil_r|]. cbn in Etl. rewrite Hs in Etl. discriminate. }
    destruct (multi c) eqn:Em.
    + pose proof (bwp_spec (k_dlog k) (k_bl k) p Hlb) as [Hl1 Hl2].
      assert (Ho : c_stdout c = true ->
                   fst (if c_stdout c then bwp (k_dout k) (k_bo k) p else (k_dout k, k_bo k)) ++
                   snd (if c_stdout c then bwp (k_dout k) (k_bo k) p else (k_dout k, k_bo k)) = L ++ p /\
                   length (snd (if c_stdout c then bwp (k_dout k) (k_bo k) p else (k_dout k, k_bo k))) <= BUFSZ).
      { intros Hs. rewrite Hs. destruct (Hout Hs) as [Ho1 Ho2].
        pose proof (bwp_spec (k_dout k) (k_bo k) p Ho2) as [H1 H2]. split; [|exact H2].
        rewrite H1, <- Ho1. now rewrite app_assoc. }
      destruct (c_output c) eqn:Eo.
      * destruct (Hpipe eq_refl) as (Hp1 & Hp2 & Hp3).
        specialize (Hfit eq_refl). rewrite app_length in Hfit.
        destruct (pipe_put_fits (k_ps k) (length p) Hp2 ltac:(lia)) as (ps & Hput & Hpi & Hps).
        rewrite Hput. constructor; cbn [k_blocked k_dlog k_bl k_dout k_bo k_derr k_pipe k_ps k_outvar]; try assumption; try reflexivity.
        all: try (rewrite Hl1, <- Hlog; now rewrite app_assoc).
        all: try (intros Hs; rewrite (HE Hs); now apply Herr).
        intros _. split; [now rewrite Hp1 | split; [exact Hpi | rewrite Hps, Hp3, app_length; lia]].
      * constructor; cbn [k_blocked k_dlog k_bl k_dout k_bo k_derr k_pipe k_ps k_outvar]; try assumption; try reflexivity.
        all: try (rewrite Hl1, <- Hlog; now rewrite app_assoc).
        all: try (intros Hs; rewrite (HE Hs); now apply Herr).
        all: try (intros Hs; congruence).
    + (* a lone bufio.Writer: ReadFrom *)
      unfold multi in Em. apply orb_false_iff in Em as [Eo Es].
      pose proof (rfp_spec (k_dlog k) (k_bl k) p Hlb) as [Hl1 Hl2].
      constructor; cbn [k_blocked k_dlog k_bl k_dout k_bo k_derr k_pipe k_ps k_outvar]; try assumption; try reflexivity.
      all: try (rewrite Hl1, <- Hlog; now rewrite app_assoc).
      all: try (intros Hs; rewrite (HE Hs); now apply Herr).
      all: try (intros Hs; congruence).
  - (* stderr with its own file *)
    destruct x; [discriminate|]. cbn in Etl. apply negb_false_iff in Etl.
    rewrite app_nil_r. cbn [epart].
    constructor; cbn [k_blocked k_dlog k_bl k_dout k_bo k_derr k_pipe k_ps k_outvar]; try assumption; try reflexivity.
    intros _. now rewrite (Herr Etl).
Qed.

Lemma log_of_cons c ch cs : log_of A c (ch :: cs) = lpart c (fst ch) (snd ch) ++ log_of A c cs.
Proof.
  unfold log_of, lpart, to_log. cbn [flat_map]. destruct (fst ch); [reflexivity|]. now destruct (c_stderr c).
Qed.
Lemma err_of_cons ch cs : err_of A (ch :: cs) = epart (fst ch) (snd ch) ++ err_of A cs.
Proof. unfold err_of, epart. cbn [flat_map]. now destruct (fst ch). Qed.

Lemma fold_inv c cs : forall k L E,
  kinv c k L E -> (c_output c = true -> length (L ++ log_of A c cs) <= HALFPIPE) ->
  kinv c (fold_chunks c k cs) (L ++ log_of A c cs) (E ++ err_of A cs).
Proof.
  induction cs as [|ch cs IH]; intros k L E Hk Hfit.
  - cbn. now rewrite !app_nil_r.
  - unfold fold_chunks. cbn [fold_left]. fold (fold_chunks c (simple_step c k (fst ch) (snd ch)) cs).
    rewrite log_of_cons, err_of_cons, !app_assoc.
    apply IH.
    + apply simple_step_inv; [exact Hk|]. intros Ho. specialize (Hfit Ho).
      rewrite log_of_cons, app_assoc, app_length in Hfit. lia.
    + intros Ho. specialize (Hfit Ho). now rewrite log_of_cons, app_assoc in Hfit.
Qed.

(* ---------------------------------------------------------------------------------------------------- *)
(* C12, one attempt                                                                                       *)
(* ---------------------------------------------------------------------------------------------------- *)
Theorem complete_single : forall c cs,
  (c_output c = false \/ length (log_of A c cs) <= HALFPIPE) -> complete A c cs (run A c [cs] []).
Proof.
  intros c cs Hpre. rewrite run_single.
  assert (Hk : kinv c (fold_chunks c k0 cs) (log_of A c cs) (err_of A cs)).
  { apply (fold_inv c cs k0 [] [] (kinv0 c)). intros Ho. destruct Hpre as [H|H]; [congruence | exact H]. }
  destruct Hk as [Hblk Hlog Hlb Hout Herr Hpipe Hov].
  assert (Hs1 : step A c (mk c (fold_chunks c k0 cs)) (AEnd A) = mk c (end_k c (fold_chunks c k0 cs))).
  { unfold step. cbn [blocked mk]. rewrite Hblk. apply exec_end_mk. }
  rewrite Hs1.
  assert (Hb' : k_blocked (end_k c (fold_chunks c k0 cs)) = false).
  { unfold end_k. now destruct (c_output c && negb (k_blocked (fold_chunks c k0 cs))). }
  unfold step at 1. cbn [blocked mk]. rewrite Hb'.
  destruct (teardown_obs c _ Hb') as (T1 & T2 & T3 & T4 & T5 & _).
  assert (Hsame : forall f : comps -> bytes,
            (forall k v, f {| k_dlog := k_dlog k; k_bl := k_bl k; k_dout := k_dout k; k_bo := k_bo k; k_derr := k_derr k;
                              k_pipe := k_pipe k; k_ps := k_ps k; k_blocked := k_blocked k; k_outvar := v |} = f k) ->
            f (end_k c (fold_chunks c k0 cs)) = f (fold_chunks c k0 cs)).
  { intros f Hf. unfold end_k. destruct (c_output c && negb (k_blocked (fold_chunks c k0 cs))); [apply Hf | reflexivity]. }
  unfold complete. rewrite T1, T2, T3. split; [reflexivity|]. split; [|split].
  - rewrite (Hsame k_dlog), (Hsame k_bl) by reflexivity. exact Hlog.
  - intros Hs. exists []. rewrite (T4 Hs). rewrite (Hsame k_dout), (Hsame k_bo) by reflexivity. now destruct (Hout Hs).
  - intros Hs. exists []. rewrite (T5 Hs). rewrite (Hsame k_derr) by reflexivity. now apply Herr.
Qed.

(* what the `output:` variable receives (before TrimSpace): everything that went towards the log - stdout, and
   stderr too unless a `stderr:` file is configured *)
Theorem capture_single : forall c cs,
  c_output c = true -> length (log_of A c cs) <= HALFPIPE ->
  outvar A (run A c [cs] []) = Some (log_of A c cs).
Proof.
  intros c cs Ho Hfit. rewrite run_single.
  assert (Hk : kinv c (fold_chunks c k0 cs) (log_of A c cs) (err_of A cs)).
  { apply (fold_inv c cs k0 [] [] (kinv0 c)). now intros _. }
  destruct Hk as [Hblk Hlog Hlb Hout Herr Hpipe Hov].
  assert (Hs1 : step A c (mk c (fold_chunks c k0 cs)) (AEnd A) = mk c (end_k c (fold_chunks c k0 cs))).
  { unfold step. cbn [blocked mk]. rewrite Hblk. apply exec_end_mk. }
  rewrite Hs1.
  assert (Hb' : k_blocked (end_k c (fold_chunks c k0 cs)) = false).
  { unfold end_k. now destruct (c_output c && negb (k_blocked (fold_chunks c k0 cs))). }
  unfold step at 1. cbn [blocked mk]. rewrite Hb'.
  destruct (teardown_obs c _ Hb') as (_ & _ & _ & _ & _ & T6).
  rewrite T6. unfold end_k. rewrite Ho, Hblk. cbn [andb negb k_outvar]. f_equal. now destruct (Hpipe Ho).
Qed.

(* the log stream is an order-preserving merge of the two streams (stderr only when it is not redirected) *)
Lemma merge_app_l x y z a : is_merge A x y z -> is_merge A (a ++ x) y (a ++ z).
Proof. intros H. induction a as [|e a IH]; [exact H | now constructor]. Qed.
Lemma merge_app_r x y z a : is_merge A x y z -> is_merge A x (a ++ y) (a ++ z).
Proof. intros H. induction a as [|e a IH]; [exact H | now constructor]. Qed.

Theorem log_of_merge : forall c cs,
  is_merge A (out_of A cs) (if c_stderr c then [] else err_of A cs) (log_of A c cs).
Proof.
  intros c cs. induction cs as [|[x p] cs IH]; [destruct (c_stderr c); constructor|].
  unfold out_of, err_of, log_of in *. cbn [flat_map fst snd]. destruct x.
  - rewrite app_nil_l. destruct (c_stderr c); now apply merge_app_l.
  - rewrite app_nil_l. destruct (c_stderr c); [exact IH | now apply merge_app_r].
Qed.

End Proofs.

(* ---------------------------------------------------------------------------------------------------- *)
(* What the faithful model refutes                                                                        *)
(* ---------------------------------------------------------------------------------------------------- *)
(* Full statement (false):
     forall c atts lates, atts <> [] -> complete c (last atts []) (run c atts lates)
   i.e. for every configuration, every number of attempts, every chunking and every size. *)

(* F12a: a retry with a `stdout:` file (MultiWriter wiring): Node.done stays true after the first teardown,
   the second attempt's writers are never flushed - its log is empty *)
Lemma complete_refuted_retry_stdout : exists (c : cfg) (atts : list (list (chunk nat))) (lates : list nat),
  atts <> [] /\ Forall (fun d => d = 0) lates /\ ~ complete nat c (last atts []) (run nat c atts lates).
Proof.
  exists (mkc true false false false), [[(Out, [1])]; [(Out, [2])]], [0].
  split; [discriminate|]. split; [repeat constructor|]. intros (_ & H & _). vm_compute in H. discriminate.
Qed.

(* F12a with an `output:` variable instead of a stdout: file *)
Lemma complete_refuted_retry_output : exists (c : cfg) (atts : list (list (chunk nat))) (lates : list nat),
  atts <> [] /\ Forall (fun d => d = 0) lates /\ ~ complete nat c (last atts []) (run nat c atts lates).
Proof.
  exists (mkc false false true false), [[(Out, [1])]; [(Out, [2])]], [0].
  split; [discriminate|]. split; [repeat constructor|]. intros (_ & H & _). vm_compute in H. discriminate.
Qed.

(* F12b: plain log-only wiring, but the stale worker of the failed attempt reaches its teardown after the next
   attempt has been set up: it closes the new attempt's file, whose log stays empty *)
Lemma complete_refuted_stale_teardown : exists (c : cfg) (atts : list (list (chunk nat))) (lates : list nat),
  atts <> [] /\ c_stdout c = false /\ c_output c = false /\ ~ complete nat c (last atts []) (run nat c atts lates).
Proof.
  exists (mkc false false false false), [[(Out, [1])]; [(Out, [2])]], [2].
  split; [discriminate|]. split; [reflexivity|]. split; [reflexivity|]. intros (_ & H & _). vm_compute in H. discriminate.
Qed.

(* F12c: one attempt, `output:` set, 65537 bytes in page-aligned chunks: the copy blocks for good *)
Lemma complete_refuted_pipe : exists (c : cfg) (cs : list (chunk nat)),
  c_output c = true /\ blocked nat (run nat c [cs] []) = true.
Proof.
  exists (mkc false false true false),
    [(Out, repeat 0 (N.to_nat 32768)); (Out, repeat 0 (N.to_nat 32768)); (Out, [0])].
  split; [reflexivity | vm_compute; reflexivity].
Qed.

(* ... and the half-pipe bound of the partial theorem is nearly sharp: 17 chunks of 2049 bytes (34833 bytes) block *)
Lemma complete_refuted_pipe_chunking : exists (c : cfg) (cs : list (chunk nat)),
  c_output c = true /\ N.of_nat (length (log_of nat c cs)) = 34833%N /\ blocked nat (run nat c [cs] []) = true.
Proof.
  exists (mkc false false true false), (repeat (Out, repeat 0 2049) 17).
  split; [reflexivity|]. split; vm_compute; reflexivity.
Qed.

(* F11d (C11): the captured value contains the step's stderr *)
Lemma capture_stdout_refuted : exists (c : cfg) (cs : list (chunk nat)),
  c_output c = true /\ outvar nat (run nat c [cs] []) <> Some (out_of nat cs).
Proof.
  exists (mkc false false true false), [(Out, [1]); (Err, [2])].
  split; [reflexivity | vm_compute; discriminate].
Qed.

(* satisfiability of the premises of complete_single / an instance *)
Example complete_single_example :
  let c := mkc true true true false in
  let cs := [(Out, repeat 7 5000); (Err, [1; 2; 3]); (Out, repeat 8 3000)] in
  (c_output c = false \/ length (log_of nat c cs) <= HALFPIPE) /\
  dsk nat (run nat c [cs] []) (logpath nat (run nat c [cs] [])) = repeat 7 5000 ++ repeat 8 3000 /\
  dsk nat (run nat c [cs] []) P_STDERR = [1; 2; 3].
Proof.
  cbv zeta. split; [right; apply Nat.leb_le; vm_compute; reflexivity|]. split; vm_compute; reflexivity.
Qed.
