(* Log - theorems (C12) about the REPAIRED code (8880f0d, f5eca82).  Stdlib style.

   Symbolic reasoning about the heap of files / descriptors / bufio writers, for any configuration and any number
   of attempts:
     running j s L ...   while attempt j runs, every sink (a bufio writer on an open descriptor of a path) satisfies
                             file ++ buffered = bytes accepted      and      buffered <= 4096
     idle j s ...        between attempts: teardown has flushed what was buffered, the files hold everything. *)
From Coq Require Import List Bool Arith NArith Lia.
Import ListNotations.
From BD.Log Require Import Model.

Definition mkc (a b c d : bool) : cfg := {| c_stdout := a; c_stderr := b; c_output := c; c_script := d |}.

Lemma BUFSZ_pos : 0 < BUFSZ.
Proof. unfold BUFSZ. lia. Qed.

Global Opaque BUFSZ.

Section Proofs.
Variable A : Type.
Notation bytes := (list A).

(* ---------------------------------------------------------------------------------------------------- *)
(* finite maps                                                                                            *)
(* ---------------------------------------------------------------------------------------------------- *)
Lemma mget_mset_same {X} (d : X) m k v : mget d (mset m k v) k = v.
Proof.
  induction m as [|[k' v'] m IH]; cbn; [now rewrite Nat.eqb_refl|].
  destruct (k =? k') eqn:E; cbn; [now rewrite Nat.eqb_refl | now rewrite E].
Qed.
Lemma mget_mset_other {X} (d : X) m k k2 v : k2 <> k -> mget d (mset m k v) k2 = mget d m k2.
Proof.
  intros Hn. induction m as [|[k' v'] m IH]; cbn.
  - destruct (k2 =? k) eqn:E; [apply Nat.eqb_eq in E; contradiction | reflexivity].
  - destruct (k =? k') eqn:E; cbn.
    + apply Nat.eqb_eq in E. subst k'. destruct (k2 =? k) eqn:E2; [apply Nat.eqb_eq in E2; contradiction | reflexivity].
    + destruct (k2 =? k'); [reflexivity | exact IH].
Qed.
Lemma mget_mset_self {X} (d : X) m k q : mget d (mset m k (mget d m k)) q = mget d m q.
Proof. destruct (Nat.eq_dec q k) as [->|Hn]; [apply mget_mset_same | now apply mget_mset_other]. Qed.

(* ---------------------------------------------------------------------------------------------------- *)
(* bufio.Write / ReadFrom on a (file, buffer) pair                                                        *)
(* ---------------------------------------------------------------------------------------------------- *)
Definition bwp (file bf p : bytes) : bytes * bytes :=
  if length p <=? BUFSZ - length bf then (file, bf ++ p)
  else match bf with
       | [] => (file ++ p, [])
       | _ => if length (skipn (BUFSZ - length bf) p) <=? BUFSZ
              then (file ++ (bf ++ firstn (BUFSZ - length bf) p), skipn (BUFSZ - length bf) p)
              else ((file ++ (bf ++ firstn (BUFSZ - length bf) p)) ++ skipn (BUFSZ - length bf) p, [])
       end.

Lemma bwp_spec file bf p : length bf <= BUFSZ ->
  fst (bwp file bf p) ++ snd (bwp file bf p) = file ++ bf ++ p /\ length (snd (bwp file bf p)) <= BUFSZ.
Proof.
  intros Hb. unfold bwp.
  destruct (length p <=? BUFSZ - length bf) eqn:E1.
  - apply Nat.leb_le in E1. cbn [fst snd]. split; [reflexivity|]. rewrite app_length. lia.
  - destruct bf as [|b0 bf'].
    + cbn [fst snd]. split; [now rewrite app_nil_r | cbn; lia].
    + set (bf := b0 :: bf') in *. set (n := BUFSZ - length bf).
      destruct (length (skipn n p) <=? BUFSZ) eqn:E2; cbn [fst snd].
      * apply Nat.leb_le in E2. split; [|exact E2].
        rewrite <- !app_assoc. now rewrite (firstn_skipn n p).
      * split; [|cbn; lia]. rewrite app_nil_r, <- !app_assoc. now rewrite (firstn_skipn n p).
Qed.

(* ---------------------------------------------------------------------------------------------------- *)
(* frames                                                                                                 *)
(* ---------------------------------------------------------------------------------------------------- *)
(* everything of the state that file / writer operations never touch *)
Definition core (s : st A) :=
  (nd A s, w_out A s, w_err A s, shared A s, brk_o A s, brk_e A s, logpath A s, outvar A s, nfd A s, nbuf A s).

(* a sink: bufio writer b with content bf on the open descriptor f of `path` *)
Definition sink (s : st A) (b f path : nat) (bf : bytes) : Prop :=
  buf A s b = {| bw_buf := bf; bw_fd := f; bw_err := false |} /\ fdd A s f = {| fd_path := path; fd_closed := false |}.

(* s' differs from s at most in the content of `path` and in writer b *)
Definition frame (s s' : st A) (b path : nat) : Prop :=
  (forall q, q <> path -> dsk A s' q = dsk A s q) /\ (forall b', b' <> b -> buf A s' b' = buf A s b') /\
  (forall f', fdd A s' f' = fdd A s f') /\ core s' = core s /\ capbuf A s' = capbuf A s.

Lemma frame_sink s s' b path b2 f2 path2 bf2 : frame s s' b path -> b2 <> b -> sink s b2 f2 path2 bf2 -> sink s' b2 f2 path2 bf2.
Proof. intros (_ & Hb & Hf & _) Hn [H1 H2]. split; [now rewrite Hb | now rewrite Hf]. Qed.

Lemma raw_spec s b f path bf p keep : sink s b f path bf ->
  exists s', bw_raw A s b p keep = (s', true) /\ dsk A s' path = dsk A s path ++ p /\ sink s' b f path keep /\ frame s s' b path.
Proof.
  intros [Hb Hf]. unfold bw_raw, fd_write. rewrite Hb. cbn [bw_fd]. rewrite Hf. cbn [fd_closed fd_path].
  eexists. split; [reflexivity|].
  unfold sink, frame, dsk, buf, fdd, core, put_buf, set_bufs, set_disk. cbn.
  split; [apply mget_mset_same|]. split; [split; [apply mget_mset_same | exact Hf]|].
  repeat split; try reflexivity.
  - intros q Hq. now apply mget_mset_other.
  - intros b' Hb'. now apply mget_mset_other.
Qed.

Lemma put_spec s b f path bf bf' : sink s b f path bf ->
  sink (put_buf A s b {| bw_buf := bf'; bw_fd := f; bw_err := false |}) b f path bf' /\
  dsk A (put_buf A s b {| bw_buf := bf'; bw_fd := f; bw_err := false |}) path = dsk A s path /\
  frame s (put_buf A s b {| bw_buf := bf'; bw_fd := f; bw_err := false |}) b path.
Proof.
  intros [Hb Hf]. unfold sink, frame, dsk, buf, fdd, core, put_buf, set_bufs. cbn.
  split; [split; [apply mget_mset_same | exact Hf]|]. split; [reflexivity|].
  repeat split; try reflexivity. intros b' Hb'. now apply mget_mset_other.
Qed.

Lemma frame_trans s s1 s2 b path : frame s s1 b path -> frame s1 s2 b path -> frame s s2 b path.
Proof.
  intros (D1 & B1 & F1 & C1 & P1) (D2 & B2 & F2 & C2 & P2). repeat split.
  - intros q Hq. now rewrite D2, D1.
  - intros b' Hb'. now rewrite B2, B1.
  - intros f'. now rewrite F2, F1.
  - now rewrite C2.
  - now rewrite P2.
Qed.

(* bufio.Write *)
Lemma write_spec s b f path bf p : sink s b f path bf ->
  exists s', bw_write A s b p = (s', true) /\
    dsk A s' path = fst (bwp (dsk A s path) bf p) /\ sink s' b f path (snd (bwp (dsk A s path) bf p)) /\ frame s s' b path.
Proof.
  intros Hs. pose proof Hs as [Hb Hf]. unfold bw_write, bwp. rewrite Hb. cbn [bw_err bw_buf bw_fd].
  destruct (length p <=? BUFSZ - length bf) eqn:E1.
  - destruct (put_spec s b f path bf (bf ++ p) Hs) as (S1 & D1 & F1). eexists. split; [reflexivity|]. cbn [fst snd]. auto.
  - destruct bf as [|b0 bf'].
    + destruct (raw_spec s b f path [] p [] Hs) as (s' & R & D & S1 & F1). exists s'. cbn [fst snd]. auto.
    + set (bf := b0 :: bf') in *. set (n := BUFSZ - length bf).
      destruct (length (skipn n p) <=? BUFSZ) eqn:E2.
      * destruct (raw_spec s b f path bf (bf ++ firstn n p) (skipn n p) Hs) as (s' & R & D & S1 & F1).
        exists s'. cbn [fst snd]. auto.
      * destruct (raw_spec s b f path bf (bf ++ firstn n p) [] Hs) as (s1 & R1 & D1 & S1 & F1).
        rewrite R1.
        destruct (raw_spec s1 b f path [] (skipn n p) [] S1) as (s2 & R2 & D2 & S2 & F2).
        exists s2. cbn [fst snd]. split; [exact R2|]. split; [now rewrite D2, D1|]. split; [exact S2|].
        exact (frame_trans _ _ _ _ _ F1 F2).
Qed.

(* ReadFrom with an empty buffer: straight to the file *)
Lemma readfrom_spec s b f path p : sink s b f path [] ->
  exists s', bw_readfrom A s b p = (s', true) /\ dsk A s' path = dsk A s path ++ p /\ sink s' b f path [] /\ frame s s' b path.
Proof.
  intros Hs. pose proof Hs as [Hb Hf]. unfold bw_readfrom. rewrite Hb. cbn [bw_err bw_buf].
  exact (raw_spec s b f path [] p [] Hs).
Qed.

(* Flush *)
Lemma flush_spec s b f path bf : sink s b f path bf ->
  let s' := fst (bw_flush A s b) in
  dsk A s' path = dsk A s path ++ bf /\ sink s' b f path [] /\ frame s s' b path.
Proof.
  intros Hs. pose proof Hs as [Hb Hf]. unfold bw_flush. rewrite Hb. cbn [bw_err bw_buf].
  destruct bf as [|b0 bf'].
  - cbn [fst]. rewrite app_nil_r. split; [reflexivity|]. split; [exact Hs|].
    repeat split; reflexivity.
  - destruct (raw_spec s b f path (b0 :: bf') (b0 :: bf') [] Hs) as (s' & R & D & S1 & F1).
    rewrite R. cbn [fst]. auto.
Qed.

(* ---------------------------------------------------------------------------------------------------- *)
(* While an attempt runs                                                                                  *)
(* ---------------------------------------------------------------------------------------------------- *)
Variable c : cfg.

Definition multi : bool := c_output c || c_stdout c.
Definition to_log (x : stream) : bool := match x with Out => true | Err => negb (c_stderr c) end.
Definition lpart (x : stream) (p : bytes) : bytes := if to_log x then p else [].
Definition epart (x : stream) (p : bytes) : bytes := match x with Err => p | Out => [] end.

(* Ll / Lo / Lc: what the log sink, the stdout: sink and the capture buffer have accepted (they are the same
   sequence between two chunks); E: what the stderr: sink has accepted; Opre / Epre: earlier attempts' content *)
Record running (j : nat) (s : st A) (Ll Lo Lc Opre Epre E : bytes) : Prop := {
  r_lp : logpath A s = p_log j;
  r_bo : brk_o A s = false;
  r_be : brk_e A s = false;
  r_done : n_done (nd A s) = false;
  r_wo : w_out A s = wire_out c (nd A s);
  r_we : w_err A s = wire_err c (nd A s);
  r_sh : shared A s = is_shared (nd A s);
  r_log : exists lw lf bl, n_logW (nd A s) = Some lw /\ n_logF (nd A s) = Some lf /\ sink s lw lf (p_log j) bl /\
            dsk A s (p_log j) ++ bl = Ll /\ length bl <= BUFSZ /\ (multi = false -> bl = []) /\
            (if c_stdout c
             then exists ow of bo, n_outW (nd A s) = Some ow /\ n_outF (nd A s) = Some of /\ ow <> lw /\
                    sink s ow of P_STDOUT bo /\ dsk A s P_STDOUT ++ bo = Opre ++ Lo /\ length bo <= BUFSZ
             else n_outW (nd A s) = None /\ n_outF (nd A s) = None) /\
            (if c_stderr c
             then exists ew ef, n_errW (nd A s) = Some ew /\ ew <> lw /\ (forall ow, n_outW (nd A s) = Some ow -> ew <> ow) /\
                    sink s ew ef P_STDERR [] /\ dsk A s P_STDERR = Epre ++ E
             else n_errW (nd A s) = None);
  r_cap : c_output c = true -> capbuf A s = Lc;
  r_future : forall i, j < i -> dsk A s (p_log i) = [] }.

Lemma core_eq s s' : core s' = core s ->
  nd A s' = nd A s /\ w_out A s' = w_out A s /\ w_err A s' = w_err A s /\ shared A s' = shared A s /\
  brk_o A s' = brk_o A s /\ brk_e A s' = brk_e A s /\ logpath A s' = logpath A s.
Proof. unfold core. intros H. injection H. intros. repeat split; assumption. Qed.

Ltac use_core H :=
  let N := fresh "N" in let W1 := fresh "W1" in let W2 := fresh "W2" in let SH := fresh "SH" in
  let B1 := fresh "B1" in let B2 := fresh "B2" in let LP := fresh "LP" in
  destruct (core_eq _ _ H) as (N & W1 & W2 & SH & B1 & B2 & LP).

(* a write into the log sink *)
Lemma upd_log j s Ll Lo Lc Opre Epre E p : multi = true -> running j s Ll Lo Lc Opre Epre E ->
  forall lw, n_logW (nd A s) = Some lw ->
  exists s', bw_write A s lw p = (s', true) /\ running j s' (Ll ++ p) Lo Lc Opre Epre E /\ core s' = core s.
Proof.
  intros Hm [Hlp Hbo Hbe Hdn Hwo Hwe Hsh (lw & lf & bl & HlW & HlF & Hsk & Hd & Hlen & Hdir & Hout & Herr) Hcap Hfut] lw' Hlw'.
  rewrite HlW in Hlw'. injection Hlw' as <-.
  destruct (write_spec s lw lf (p_log j) bl p Hsk) as (s' & Hw & Hd' & Hsk' & Hfr).
  pose proof Hfr as (FD & FB & FF & FC & FP). use_core FC.
  destruct (bwp_spec (dsk A s (p_log j)) bl p Hlen) as [Hb1 Hb2].
  exists s'. split; [exact Hw|]. split; [|exact FC].
  constructor; try congruence.
  - exists lw, lf, (snd (bwp (dsk A s (p_log j)) bl p)). rewrite N.
    split; [exact HlW|]. split; [exact HlF|]. split; [exact Hsk'|].
    split; [rewrite Hd', Hb1, <- Hd; now rewrite app_assoc|]. split; [exact Hb2|]. split; [congruence|].
    split.
    + destruct (c_stdout c); [|exact Hout].
      destruct Hout as (ow & of & bo & H1 & H2 & H3 & H4 & H5 & H6). exists ow, of, bo.
      split; [exact H1|]. split; [exact H2|]. split; [exact H3|].
      split; [exact (frame_sink _ _ _ _ _ _ _ _ Hfr H3 H4)|].
      split; [rewrite FD by (unfold p_log, P_STDOUT; lia); exact H5 | exact H6].
    + destruct (c_stderr c); [|exact Herr].
      destruct Herr as (ew & ef & H1 & H2 & H3 & H4 & H5). exists ew, ef.
      split; [exact H1|]. split; [exact H2|]. split; [exact H3|].
      split; [exact (frame_sink _ _ _ _ _ _ _ _ Hfr H2 H4)|].
      rewrite FD by (unfold p_log, P_STDERR; lia). exact H5.
  - intros Ho. rewrite FP. now apply Hcap.
  - intros i Hi. rewrite FD by (unfold p_log; lia). now apply Hfut.
Qed.

(* a direct write (ReadFrom) into the log sink: only with the lone-writer wiring, where the buffer stays empty *)
Lemma upd_log_direct j s Ll Lo Lc Opre Epre E p : multi = false -> running j s Ll Lo Lc Opre Epre E ->
  forall lw, n_logW (nd A s) = Some lw ->
  exists s', bw_readfrom A s lw p = (s', true) /\ running j s' (Ll ++ p) Lo Lc Opre Epre E /\ core s' = core s.
Proof.
  intros Hm [Hlp Hbo Hbe Hdn Hwo Hwe Hsh (lw & lf & bl & HlW & HlF & Hsk & Hd & Hlen & Hdir & Hout & Herr) Hcap Hfut] lw' Hlw'.
  rewrite HlW in Hlw'. injection Hlw' as <-. rewrite (Hdir Hm) in *.
  destruct (readfrom_spec s lw lf (p_log j) p Hsk) as (s' & Hw & Hd' & Hsk' & Hfr).
  pose proof Hfr as (FD & FB & FF & FC & FP). use_core FC.
  exists s'. split; [exact Hw|]. split; [|exact FC].
  constructor; try congruence.
  - exists lw, lf, []. rewrite N.
    split; [exact HlW|]. split; [exact HlF|]. split; [exact Hsk'|].
    split; [rewrite Hd', app_nil_r; rewrite app_nil_r in Hd; now rewrite Hd|]. split; [cbn; lia|]. split; [reflexivity|].
    split.
    + destruct (c_stdout c); [|exact Hout].
      destruct Hout as (ow & of & bo & H1 & H2 & H3 & H4 & H5 & H6). exists ow, of, bo.
      split; [exact H1|]. split; [exact H2|]. split; [exact H3|].
      split; [exact (frame_sink _ _ _ _ _ _ _ _ Hfr H3 H4)|].
      split; [rewrite FD by (unfold p_log, P_STDOUT; lia); exact H5 | exact H6].
    + destruct (c_stderr c); [|exact Herr].
      destruct Herr as (ew & ef & H1 & H2 & H3 & H4 & H5). exists ew, ef.
      split; [exact H1|]. split; [exact H2|]. split; [exact H3|].
      split; [exact (frame_sink _ _ _ _ _ _ _ _ Hfr H2 H4)|].
      rewrite FD by (unfold p_log, P_STDERR; lia). exact H5.
  - intros Ho. rewrite FP. now apply Hcap.
  - intros i Hi. rewrite FD by (unfold p_log; lia). now apply Hfut.
Qed.

(* a write into the stdout: sink *)
Lemma upd_out j s Ll Lo Lc Opre Epre E p : running j s Ll Lo Lc Opre Epre E ->
  forall ow, n_outW (nd A s) = Some ow -> c_stdout c = true ->
  exists s', bw_write A s ow p = (s', true) /\ running j s' Ll (Lo ++ p) Lc Opre Epre E /\ core s' = core s.
Proof.
  intros [Hlp Hbo Hbe Hdn Hwo Hwe Hsh (lw & lf & bl & HlW & HlF & Hsk & Hd & Hlen & Hdir & Hout & Herr) Hcap Hfut] ow' How' Hso.
  rewrite Hso in Hout. destruct Hout as (ow & of & bo & H1 & H2 & H3 & H4 & H5 & H6).
  rewrite H1 in How'. injection How' as <-.
  destruct (write_spec s ow of P_STDOUT bo p H4) as (s' & Hw & Hd' & Hsk' & Hfr).
  pose proof Hfr as (FD & FB & FF & FC & FP). use_core FC.
  destruct (bwp_spec (dsk A s P_STDOUT) bo p H6) as [Hb1 Hb2].
  exists s'. split; [exact Hw|]. split; [|exact FC].
  constructor; try congruence.
  - exists lw, lf, bl. rewrite N.
    split; [exact HlW|]. split; [exact HlF|].
    split; [exact (frame_sink _ _ _ _ _ _ _ _ Hfr (not_eq_sym H3) Hsk)|].
    split; [rewrite FD by (unfold p_log, P_STDOUT; lia); exact Hd|]. split; [exact Hlen|]. split; [exact Hdir|].
    split.
    + rewrite Hso. exists ow, of, (snd (bwp (dsk A s P_STDOUT) bo p)).
      split; [exact H1|]. split; [exact H2|]. split; [exact H3|]. split; [exact Hsk'|].
      split; [rewrite Hd', Hb1, app_assoc, H5, <- app_assoc; reflexivity | exact Hb2].
    + destruct (c_stderr c); [|exact Herr].
      destruct Herr as (ew & ef & E1 & E2 & E3 & E4 & E5). exists ew, ef.
      split; [exact E1|]. split; [exact E2|]. split; [exact E3|].
      split; [exact (frame_sink _ _ _ _ _ _ _ _ Hfr (E3 ow H1) E4)|].
      rewrite FD by (unfold P_STDOUT, P_STDERR; lia). exact E5.
  - intros Ho. rewrite FP. now apply Hcap.
  - intros i Hi. rewrite FD by (unfold p_log, P_STDOUT; lia). now apply Hfut.
Qed.

(* a direct write into the stderr: sink *)
Lemma upd_err j s Ll Lo Lc Opre Epre E p : running j s Ll Lo Lc Opre Epre E ->
  forall ew, n_errW (nd A s) = Some ew -> c_stderr c = true ->
  exists s', bw_readfrom A s ew p = (s', true) /\ running j s' Ll Lo Lc Opre Epre (E ++ p) /\ core s' = core s.
Proof.
  intros [Hlp Hbo Hbe Hdn Hwo Hwe Hsh (lw & lf & bl & HlW & HlF & Hsk & Hd & Hlen & Hdir & Hout & Herr) Hcap Hfut] ew' Hew' Hse.
  rewrite Hse in Herr. destruct Herr as (ew & ef & E1 & E2 & E3 & E4 & E5).
  rewrite E1 in Hew'. injection Hew' as <-.
  destruct (readfrom_spec s ew ef P_STDERR p E4) as (s' & Hw & Hd' & Hsk' & Hfr).
  pose proof Hfr as (FD & FB & FF & FC & FP). use_core FC.
  exists s'. split; [exact Hw|]. split; [|exact FC].
  constructor; try congruence.
  - exists lw, lf, bl. rewrite N.
    split; [exact HlW|]. split; [exact HlF|].
    split; [exact (frame_sink _ _ _ _ _ _ _ _ Hfr (not_eq_sym E2) Hsk)|].
    split; [rewrite FD by (unfold p_log, P_STDERR; lia); exact Hd|]. split; [exact Hlen|]. split; [exact Hdir|].
    split.
    + destruct (c_stdout c); [|exact Hout].
      destruct Hout as (ow & of & bo & H1 & H2 & H3 & H4 & H5 & H6). exists ow, of, bo.
      split; [exact H1|]. split; [exact H2|]. split; [exact H3|].
      split; [exact (frame_sink _ _ _ _ _ _ _ _ Hfr (not_eq_sym (E3 ow H1)) H4)|].
      split; [rewrite FD by (unfold P_STDOUT, P_STDERR; lia); exact H5 | exact H6].
    + rewrite Hse. exists ew, ef.
      split; [exact E1|]. split; [exact E2|]. split; [exact E3|]. split; [exact Hsk'|].
      rewrite Hd', E5. now rewrite app_assoc.
  - intros Ho. rewrite FP. now apply Hcap.
  - intros i Hi. rewrite FD by (unfold p_log, P_STDERR; lia). now apply Hfut.
Qed.

(* an append to the capture buffer *)
Lemma upd_cap j s Ll Lo Lc Opre Epre E p : running j s Ll Lo Lc Opre Epre E ->
  running j (set_exec A s (w_out A s) (w_err A s) (shared A s) (capbuf A s ++ p) (brk_o A s) (brk_e A s)) Ll Lo (Lc ++ p) Opre Epre E.
Proof.
  intros [Hlp Hbo Hbe Hdn Hwo Hwe Hsh Hlog Hcap Hfut].
  constructor; try assumption.
  intros Ho. cbn. now rewrite (Hcap Ho).
Qed.

Lemma running_Lo j s Ll Lo Lo' Lc Opre Epre E : c_stdout c = false -> running j s Ll Lo Lc Opre Epre E -> running j s Ll Lo' Lc Opre Epre E.
Proof.
  intros Hs [Hlp Hbo Hbe Hdn Hwo Hwe Hsh Hlog Hcap Hfut]. constructor; try assumption.
  destruct Hlog as (lw & lf & bl & H). exists lw, lf, bl. now rewrite Hs in *.
Qed.
Lemma running_Lc j s Ll Lo Lc Lc' Opre Epre E : c_output c = false -> running j s Ll Lo Lc Opre Epre E -> running j s Ll Lo Lc' Opre Epre E.
Proof.
  intros Hs [Hlp Hbo Hbe Hdn Hwo Hwe Hsh Hlog Hcap Hfut]. constructor; try assumption. intros Ho. congruence.
Qed.
Lemma running_E j s Ll Lo Lc Opre Epre E E' : c_stderr c = false -> running j s Ll Lo Lc Opre Epre E -> running j s Ll Lo Lc Opre Epre E'.
Proof.
  intros Hs [Hlp Hbo Hbe Hdn Hwo Hwe Hsh Hlog Hcap Hfut]. constructor; try assumption.
  destruct Hlog as (lw & lf & bl & H). exists lw, lf, bl. now rewrite Hs in *.
Qed.

(* one chunk *)
Lemma deliver_running j s L Opre Epre E x p : running j s L L L Opre Epre E ->
  running j (deliver A s x p) (L ++ lpart x p) (L ++ lpart x p) (L ++ lpart x p) Opre Epre (E ++ epart x p).
Proof.
  intros Hr. pose proof Hr as [Hlp Hbo Hbe Hdn Hwo Hwe Hsh (lw & lf & bl & HlW & HlF & Hsk & Hd & Hlen & Hdir & Hout & Herr) Hcap Hfut].
  unfold deliver.
  assert (Hbr : broken_of A s x = false).
  { unfold broken_of. destruct x; [exact Hbo|]. destruct (shared A s); assumption. }
  rewrite Hbr.
  destruct (to_log x) eqn:Etl.
  - (* towards the log: the wiring of stdout *)
    assert (Hw : match x with Out => w_out A s | Err => w_err A s end = wire_out c (nd A s)).
    { destruct x; [exact Hwo|]. rewrite Hwe. unfold wire_err. cbn in Etl. apply negb_true_iff in Etl.
      rewrite Etl in Herr. now rewrite Herr. }
    rewrite Hw. unfold lpart. rewrite Etl.
    assert (HE : c_stderr c = true -> epart x p = []).
    { intros Hs. destruct x; [reflexivity|]. cbn in Etl. rewrite Hs in Etl. discriminate. }
    assert (Hfin : forall s', running j s' (L ++ p) (L ++ p) (L ++ p) Opre Epre E ->
                   running j s' (L ++ p) (L ++ p) (L ++ p) Opre Epre (E ++ epart x p)).
    { intros s' H. destruct (c_stderr c) eqn:Es; [now rewrite (HE eq_refl), app_nil_r | now apply (running_E _ _ _ _ _ _ _ E)]. }
    apply Hfin. clear Hfin.
    unfold wire_out. rewrite HlW.
    destruct (c_stdout c) eqn:Eso.
    + destruct Hout as (ow & of & bo & H1 & H2 & H3 & H4 & H5 & H6). rewrite H1.
      assert (Hm : multi = true) by (unfold multi; rewrite Eso; apply orb_true_r).
      destruct (upd_log j s L L L Opre Epre E p Hm Hr lw HlW) as (s1 & W1 & R1 & C1).
      use_core C1.
      assert (H1' : n_outW (nd A s1) = Some ow) by (now rewrite N).
      destruct (upd_out j s1 (L ++ p) L L Opre Epre E p R1 ow H1' Eso) as (s2 & W2' & R2 & C2).
      destruct (c_output c) eqn:Eo.
      * cbn [app write_leaves]. rewrite W1, W2'. cbn [fst].
        pose proof (upd_cap j s2 _ _ _ _ _ _ p R2) as R3. exact R3.
      * cbn [app write_leaves]. rewrite W1, W2'. cbn [fst]. now apply (running_Lc _ _ _ _ L).
    + destruct Hout as [H1 H2]. rewrite H1.
      destruct (c_output c) eqn:Eo.
      * assert (Hm : multi = true) by (unfold multi; now rewrite Eo).
        destruct (upd_log j s L L L Opre Epre E p Hm Hr lw HlW) as (s1 & W1 & R1 & C1).
        cbn [app write_leaves]. rewrite W1.
        pose proof (upd_cap j s1 _ _ _ _ _ _ p R1) as R3. now apply (running_Lo _ _ _ L).
      * assert (Hm : multi = false) by (unfold multi; now rewrite Eo, Eso).
        destruct (upd_log_direct j s L L L Opre Epre E p Hm Hr lw HlW) as (s1 & W1 & R1 & C1).
        rewrite W1. apply (running_Lo _ _ _ L); [exact Eso|]. now apply (running_Lc _ _ _ _ L).
  - (* stderr with its own file *)
    destruct x; [discriminate|]. cbn in Etl. apply negb_false_iff in Etl.
    unfold lpart. cbn [to_log]. rewrite Etl. cbn [negb epart]. rewrite app_nil_r.
    rewrite Etl in Herr. destruct Herr as (ew & ef & E1 & E2 & E3 & E4 & E5).
    rewrite Hwe. unfold wire_err. rewrite E1.
    destruct (upd_err j s L L L Opre Epre E p Hr ew E1 Etl) as (s1 & W1 & R1 & C1).
    now rewrite W1.
Qed.

(* ---------------------------------------------------------------------------------------------------- *)
(* setup                                                                                                  *)
(* ---------------------------------------------------------------------------------------------------- *)
(* OpenOrCreateFile + bufio.NewWriter: a fresh empty sink on `path`; nothing else changes *)
Lemma add_sink_spec s path : exists s1 s2,
  open A s path = (s1, nfd A s) /\ new_buf A s1 (nfd A s) = (s2, nbuf A s) /\
  sink s2 (nbuf A s) (nfd A s) path [] /\ nfd A s2 = S (nfd A s) /\ nbuf A s2 = S (nbuf A s) /\
  (forall b', b' <> nbuf A s -> buf A s2 b' = buf A s b') /\ (forall f', f' <> nfd A s -> fdd A s2 f' = fdd A s f') /\
  (forall q, dsk A s2 q = dsk A s q) /\ nd A s2 = nd A s /\ logpath A s2 = logpath A s /\ outvar A s2 = outvar A s.
Proof.
  eexists. eexists. split; [reflexivity|]. split; [reflexivity|].
  unfold sink, buf, fdd, dsk, set_bufs, set_fds, set_disk. cbn.
  split; [split; apply mget_mset_same|].
  repeat split; try reflexivity.
  - intros b' Hb. now apply mget_mset_other.
  - intros f' Hf. now apply mget_mset_other.
  - intros q. apply mget_mset_self.
Qed.

Lemma sink_kept s s2 b f path bf :
  (forall b', b' <> nbuf A s -> buf A s2 b' = buf A s b') -> (forall f', f' <> nfd A s -> fdd A s2 f' = fdd A s f') ->
  b <> nbuf A s -> f <> nfd A s -> sink s b f path bf -> sink s2 b f path bf.
Proof. intros HB HF Hb Hf [H1 H2]. split; [now rewrite HB | now rewrite HF]. Qed.

(* the state between two attempts (j attempts have run and were torn down) *)
Record idle (j : nat) (s : st A) (Oall Eall : bytes) : Prop := {
  i_out : c_stdout c = false -> n_outW (nd A s) = None /\ n_outF (nd A s) = None;
  i_errW : c_stderr c = false -> n_errW (nd A s) = None;
  i_o : c_stdout c = true -> dsk A s P_STDOUT = Oall;
  i_e : c_stderr c = true -> dsk A s P_STDERR = Eall;
  i_future : forall i, j <= i -> dsk A s (p_log i) = [] }.

Lemma start_running j s Oall Eall : idle j s Oall Eall ->
  running j (exec_start A c (setup A c j s)) [] [] [] Oall Eall [].
Proof.
  intros [Hio HieW Ho He Hfut].
  unfold setup.
  destruct (add_sink_spec s (p_log j)) as (s1 & s2 & E1 & E2 & K2 & NF2 & NB2 & B2 & F2 & D2 & N2 & LP2 & OV2).
  rewrite E1, E2.
  set (lw := nbuf A s) in *. set (lf := nfd A s) in *.
  set (s3 := set_log A (set_nd A s2 _) (p_log j) (outvar A s2)).
  assert (K3 : sink s3 lw lf (p_log j) []) by exact K2.
  assert (D3 : forall q, dsk A s3 q = dsk A s q) by exact D2.
  assert (NF3 : nfd A s3 = S lf) by exact NF2.
  assert (NB3 : nbuf A s3 = S lw) by exact NB2.
  assert (ND3 : n_logW (nd A s3) = Some lw /\ n_logF (nd A s3) = Some lf /\ n_done (nd A s3) = false /\
                n_outW (nd A s3) = n_outW (nd A s) /\ n_outF (nd A s3) = n_outF (nd A s) /\ n_errW (nd A s3) = n_errW (nd A s)).
  { subst s3. cbn. rewrite N2. repeat split; reflexivity. }
  destruct ND3 as (G1 & G2 & G3 & G4 & G5 & G6).
  assert (LP3 : logpath A s3 = p_log j) by reflexivity.
  clearbody s3. clear E1 E2 K2 NF2 NB2 B2 F2 D2 N2 LP2 OV2 s1 s2.
  (* stdout: *)
  assert (Hst : exists s5,
            (if c_stdout c
             then let '(s4, f) := open A s3 P_STDOUT in
                  let '(s4', w) := new_buf A s4 f in
                  set_nd A s4' {| n_logW := n_logW (nd A s4'); n_outW := Some w; n_errW := n_errW (nd A s4');
                                  n_logF := n_logF (nd A s4'); n_outF := Some f; n_done := n_done (nd A s4') |}
             else s3) = s5 /\
            sink s5 lw lf (p_log j) [] /\ (forall q, dsk A s5 q = dsk A s q) /\ logpath A s5 = p_log j /\
            n_logW (nd A s5) = Some lw /\ n_logF (nd A s5) = Some lf /\ n_done (nd A s5) = false /\
            n_errW (nd A s5) = n_errW (nd A s) /\ lw < nbuf A s5 /\ lf < nfd A s5 /\
            (if c_stdout c
             then exists ow of, n_outW (nd A s5) = Some ow /\ n_outF (nd A s5) = Some of /\ ow <> lw /\
                    sink s5 ow of P_STDOUT [] /\ ow < nbuf A s5 /\ of < nfd A s5
             else n_outW (nd A s5) = None /\ n_outF (nd A s5) = None)).
  { destruct (c_stdout c) eqn:Eso.
    - destruct (add_sink_spec s3 P_STDOUT) as (s4 & s4' & E1 & E2 & K4 & NF4 & NB4 & B4 & F4 & D4 & N4 & LP4 & OV4).
      rewrite E1, E2. eexists. split; [reflexivity|].
      assert (K : sink s4' lw lf (p_log j) []) by (apply (sink_kept s3 s4' _ _ _ _ B4 F4); [lia | lia | exact K3]).
      split; [exact K|]. split; [intros q; cbn; change (dsk A s4' q = dsk A s q); now rewrite D4|].
      cbn. rewrite N4, LP4, NB4, NF4. repeat split; try assumption; try lia.
      exists (nbuf A s3), (nfd A s3). repeat split; try reflexivity; try lia; try exact K4.
      + apply K4.
      + apply K4.
    - exists s3. split; [reflexivity|]. split; [exact K3|]. split; [exact D3|]. split; [exact LP3|].
      split; [exact G1|]. split; [exact G2|]. split; [exact G3|]. split; [exact G6|]. split; [lia|]. split; [lia|].
      split; [rewrite G4; now apply Hio | rewrite G5; now apply Hio]. }
  destruct Hst as (s5 & E5 & K5 & D5 & LP5 & H1 & H2 & H3 & H4 & LB5 & LF5 & Hout5).
  rewrite E5. clear E5.
  (* stderr: *)
  destruct (c_stderr c) eqn:Ese.
  - destruct (add_sink_spec s5 P_STDERR) as (s6 & s6' & E1 & E2 & K6 & NF6 & NB6 & B6 & F6 & D6 & N6 & LP6 & OV6).
    rewrite E1, E2.
    assert (K : sink s6' lw lf (p_log j) []) by (apply (sink_kept s5 s6' _ _ _ _ B6 F6); [lia | lia | exact K5]).
    constructor; try reflexivity.
    + cbn. now rewrite LP6.
    + cbn. now rewrite N6.
    + exists lw, lf, []. cbn. rewrite N6.
      split; [exact H1|]. split; [exact H2|]. split; [exact K|].
      split; [change (dsk A s6' (p_log j) ++ [] = []); rewrite app_nil_r, D6, D5; apply Hfut; lia|].
      split; [cbn; lia|]. split; [reflexivity|]. split.
      * destruct (c_stdout c) eqn:Eso.
        -- destruct Hout5 as (ow & of & O1 & O2 & O3 & O4 & O5 & O6). exists ow, of, [].
           split; [exact O1|]. split; [exact O2|]. split; [exact O3|].
           split; [apply (sink_kept s5 s6' _ _ _ _ B6 F6); [lia | lia | exact O4]|].
           split; [change (dsk A s6' P_STDOUT ++ [] = Oall ++ []); rewrite !app_nil_r, D6, D5; now apply Ho | cbn; lia].
        -- exact Hout5.
      * rewrite Ese. exists (nbuf A s5), (nfd A s5).
        split; [reflexivity|]. split; [lia|].
        split; [intros ow Hw; destruct (c_stdout c); [destruct Hout5 as (ow' & of & O1 & O2 & O3 & O4 & O5 & O6); assert (ow = ow') by congruence; lia | destruct Hout5 as [O1 _]; rewrite O1 in Hw; discriminate]|].
        split; [exact K6|].
        change (dsk A s6' P_STDERR = Eall ++ []). rewrite app_nil_r, D6, D5. now apply He.
    + intros i Hi. change (dsk A s6' (p_log i) = []). rewrite D6, D5. apply Hfut. lia.
  - constructor; try reflexivity; try assumption.
    + exists lw, lf, []. cbn.
      split; [exact H1|]. split; [exact H2|]. split; [exact K5|].
      split; [change (dsk A s5 (p_log j) ++ [] = []); rewrite app_nil_r, D5; apply Hfut; lia|].
      split; [cbn; lia|]. split; [reflexivity|]. split.
      * destruct (c_stdout c) eqn:Eso.
        -- destruct Hout5 as (ow & of & O1 & O2 & O3 & O4 & O5 & O6). exists ow, of, [].
           split; [exact O1|]. split; [exact O2|]. split; [exact O3|]. split; [exact O4|].
           split; [change (dsk A s5 P_STDOUT ++ [] = Oall ++ []); rewrite !app_nil_r, D5; now apply Ho | cbn; lia].
        -- exact Hout5.
      * rewrite Ese. rewrite H4. now apply HieW.
    + intros i Hi. change (dsk A s5 (p_log i) = []). rewrite D5. apply Hfut. lia.
Qed.

(* ---------------------------------------------------------------------------------------------------- *)
(* the end of an attempt: the capture is read, teardown flushes and closes                                *)
(* ---------------------------------------------------------------------------------------------------- *)
Lemma finish_idle j s L Opre Epre E : running j s L L L Opre Epre E ->
  let s' := teardown A (exec_end A c s) in
  idle (S j) s' (Opre ++ L) (Epre ++ E) /\ dsk A s' (p_log j) = L /\ logpath A s' = p_log j /\
  (c_output c = true -> outvar A s' = Some L).
Proof.
  intros Hr.
  (* reading the capture changes nothing else *)
  assert (He : exists s0, exec_end A c s = s0 /\ running j s0 L L L Opre Epre E /\ (c_output c = true -> outvar A s0 = Some L)).
  { unfold exec_end. destruct (c_output c) eqn:Eo.
    - eexists. split; [reflexivity|]. split; [|intros _; cbn; now rewrite (r_cap _ _ _ _ _ _ _ _ Hr Eo)].
      destruct Hr as [Hlp Hbo Hbe Hdn Hwo Hwe Hsh Hlog Hcap Hfut]. constructor; assumption.
    - exists s. split; [reflexivity|]. split; [exact Hr | discriminate]. }
  destruct He as (s0 & -> & Hr0 & Hov). clear Hr.
  destruct Hr0 as [Hlp Hbo Hbe Hdn Hwo Hwe Hsh (lw & lf & bl & HlW & HlF & Hsk & Hd & Hlen & Hdir & Hout & Herr) Hcap Hfut].
  unfold teardown. rewrite Hdn. rewrite HlW, HlF.
  set (s1 := set_nd A s0 _).
  assert (K1 : sink s1 lw lf (p_log j) bl) by exact Hsk.
  cbn [flush_opt].
  destruct (flush_spec s1 lw lf (p_log j) bl K1) as (FD1 & FK1 & FR1).
  set (s2 := fst (bw_flush A s1 lw)) in *.
  pose proof FR1 as (D1 & B1 & F1 & C1 & P1). use_core C1.
  assert (Hnd2 : nd A s2 = nd A s1) by exact N.
  (* the stdout: writer *)
  assert (Hs3 : exists s3, flush_opt A s2 (n_outW (nd A s0)) = s3 /\ nd A s3 = nd A s1 /\ logpath A s3 = logpath A s0 /\
                outvar A s3 = outvar A s0 /\
                dsk A s3 (p_log j) = L /\ (c_stdout c = true -> dsk A s3 P_STDOUT = Opre ++ L) /\
                (c_stderr c = true -> dsk A s3 P_STDERR = Epre ++ E) /\ (forall i, j < i -> dsk A s3 (p_log i) = [])).
  { destruct (c_stdout c) eqn:Eso.
    - destruct Hout as (ow & of & bo & H1 & H2 & H3 & H4 & H5 & H6). rewrite H1. cbn [flush_opt].
      assert (K2 : sink s2 ow of P_STDOUT bo) by (apply (frame_sink _ _ _ _ _ _ _ _ FR1 H3); exact H4).
      destruct (flush_spec s2 ow of P_STDOUT bo K2) as (FD2 & FK2 & FR2).
      pose proof FR2 as (D2 & B2' & F2 & C2 & P2).
      destruct (core_eq _ _ C2) as (N2 & _ & _ & _ & _ & _ & LP2).
      assert (OV2 : outvar A (fst (bw_flush A s2 ow)) = outvar A s2) by (unfold core in C2; injection C2; intros; assumption).
      assert (OV1 : outvar A s2 = outvar A s1) by (unfold core in C1; injection C1; intros; assumption).
      eexists. split; [reflexivity|].
      split; [now rewrite N2|]. split; [rewrite LP2, LP; reflexivity|]. split; [rewrite OV2, OV1; reflexivity|].
      split; [rewrite D2 by (unfold p_log, P_STDOUT; lia); rewrite FD1; exact Hd|].
      split; [intros _; rewrite FD2, D1 by (unfold p_log, P_STDOUT; lia); exact H5|].
      split.
      + intros Hs. rewrite Hs in Herr. destruct Herr as (ew & ef & E1 & E2 & E3 & E4 & E5).
        rewrite D2 by (unfold P_STDOUT, P_STDERR; lia). rewrite D1 by (unfold p_log, P_STDERR; lia). exact E5.
      + intros i Hi. rewrite D2 by (unfold p_log, P_STDOUT; lia). rewrite D1 by (unfold p_log; lia). now apply Hfut.
    - destruct Hout as [H1 H2]. rewrite H1. cbn [flush_opt].
      assert (OV1 : outvar A s2 = outvar A s1) by (unfold core in C1; injection C1; intros; assumption).
      exists s2. split; [reflexivity|]. split; [exact Hnd2|]. split; [rewrite LP; reflexivity|]. split; [rewrite OV1; reflexivity|].
      split; [rewrite FD1; exact Hd|]. split; [discriminate|].
      split.
      + intros Hs. rewrite Hs in Herr. destruct Herr as (ew & ef & E1 & E2 & E3 & E4 & E5).
        rewrite D1 by (unfold p_log, P_STDERR; lia). exact E5.
      + intros i Hi. rewrite D1 by (unfold p_log; lia). now apply Hfut. }
  destruct Hs3 as (s3 & -> & N3 & LP3 & OV3 & G1 & G2 & G3 & G4).
  (* closing descriptors does not touch the files *)
  set (s4 := close_opt A (close_opt A s3 (Some lf)) (n_outF (nd A s0))).
  assert (D4 : forall q, dsk A s4 q = dsk A s3 q) by (intros q; subst s4; destruct (n_outF (nd A s0)); reflexivity).
  assert (N4 : nd A s4 = nd A s3) by (subst s4; destruct (n_outF (nd A s0)); reflexivity).
  assert (LP4 : logpath A s4 = logpath A s3) by (subst s4; destruct (n_outF (nd A s0)); reflexivity).
  assert (OV4 : outvar A s4 = outvar A s3) by (subst s4; destruct (n_outF (nd A s0)); reflexivity).
  cbn zeta. rewrite !D4. split; [|split; [exact G1|split; [rewrite LP4, LP3; exact Hlp | intros Ho; rewrite OV4, OV3; now apply Hov]]].
  constructor.
  - intros Hs. rewrite N4, N3. rewrite Hs in Hout. exact Hout.
  - intros Hs. rewrite N4, N3. rewrite Hs in Herr. exact Herr.
  - intros Hs. rewrite D4. now apply G2.
  - intros Hs. rewrite D4. now apply G3.
  - intros i Hi. rewrite D4. apply G4. lia.
Qed.

(* ---------------------------------------------------------------------------------------------------- *)
(* teardown flushes each writer on its own                                                                *)
(* ---------------------------------------------------------------------------------------------------- *)
(* Flush of ANY writer - also one whose descriptor rejects writes (closed, or a target like /dev/full), or one that
   already carries a write error - touches nothing but that writer and the file behind its descriptor *)
Lemma flush_any_frame s b :
  let s' := fst (bw_flush A s b) in
  (forall q, q <> fd_path (fdd A s (bw_fd A (buf A s b))) -> dsk A s' q = dsk A s q) /\
  (forall b', b' <> b -> buf A s' b' = buf A s b') /\ (forall f', fdd A s' f' = fdd A s f') /\
  nd A s' = nd A s /\ logpath A s' = logpath A s.
Proof.
  unfold bw_flush. destruct (bw_err A (buf A s b)); [cbn; repeat split; reflexivity|].
  destruct (bw_buf A (buf A s b)) as [|x l] eqn:Eb; [cbn; repeat split; reflexivity|].
  unfold bw_raw, fd_write. destruct (fd_closed (fdd A s (bw_fd A (buf A s b)))) eqn:Ec.
  - cbn. unfold buf, put_buf, set_bufs, dsk, fdd. cbn. repeat split; try reflexivity.
    intros b' Hb'. now apply mget_mset_other.
  - cbn. unfold buf, put_buf, set_bufs, set_disk, dsk, fdd. cbn. repeat split; try reflexivity.
    + intros q Hq. now apply mget_mset_other.
    + intros b' Hb'. now apply mget_mset_other.
Qed.

(* Whatever the state of the stdout: writer (buffered bytes, a failing target, a sticky error): when the node is torn
   down, what the log writer still buffers reaches the log file.  (node.go flushes logWriter and stdoutWriter one by
   one and keeps the last error; it does not stop at the first.) *)
Theorem teardown_flushes_log : forall s lw lf path bl,
  n_done (nd A s) = false -> n_logW (nd A s) = Some lw -> sink s lw lf path bl ->
  (forall ow, n_outW (nd A s) = Some ow -> ow <> lw /\ fd_path (fdd A s (bw_fd A (buf A s ow))) <> path) ->
  dsk A (teardown A s) path = dsk A s path ++ bl.
Proof.
  intros s lw lf path bl Hd HlW Hsk Hout.
  unfold teardown. rewrite Hd, HlW. cbn [flush_opt].
  set (s1 := set_nd A s _).
  assert (K1 : sink s1 lw lf path bl) by exact Hsk.
  destruct (flush_spec s1 lw lf path bl K1) as (FD1 & FK1 & FR1).
  set (s2 := fst (bw_flush A s1 lw)) in *.
  destruct FR1 as (D1 & B1 & F1 & C1 & P1).
  assert (H3 : dsk A (flush_opt A s2 (n_outW (nd A s))) path = dsk A s path ++ bl).
  { destruct (n_outW (nd A s)) as [ow|] eqn:Eo; cbn [flush_opt]; [|exact FD1].
    destruct (Hout ow eq_refl) as [Hne Hp].
    destruct (flush_any_frame s2 ow) as (D2 & _).
    rewrite D2; [exact FD1|].
    rewrite (B1 ow Hne), F1. exact (not_eq_sym Hp). }
  destruct (n_logF (nd A s)), (n_outF (nd A s)); exact H3.
Qed.

(* ---------------------------------------------------------------------------------------------------- *)
(* the log gets everything, whatever happens to the stdout: redirect, at any point                        *)
(* ---------------------------------------------------------------------------------------------------- *)
(* a raw write / a Write through ANY writer (its descriptor may reject writes, it may carry an error) touches nothing
   but that writer - whose descriptor stays the same - and the file behind its descriptor *)
Definition wpath (s : st A) (b : nat) : nat := fd_path (fdd A s (bw_fd A (buf A s b))).

Definition any_frame (s s' : st A) (b : nat) : Prop :=
  (forall q, q <> wpath s b -> dsk A s' q = dsk A s q) /\ (forall b', b' <> b -> buf A s' b' = buf A s b') /\
  (forall f', fdd A s' f' = fdd A s f') /\ bw_fd A (buf A s' b) = bw_fd A (buf A s b) /\ core s' = core s /\ capbuf A s' = capbuf A s.

Lemma any_frame_refl s b : any_frame s s b.
Proof. repeat split; reflexivity. Qed.

Lemma any_frame_trans s s1 s2 b : any_frame s s1 b -> any_frame s1 s2 b -> any_frame s s2 b.
Proof.
  intros (D1 & B1 & F1 & W1 & C1 & P1) (D2 & B2 & F2 & W2 & C2 & P2).
  assert (Hp : wpath s1 b = wpath s b) by (unfold wpath; now rewrite W1, F1).
  repeat split.
  - intros q Hq. rewrite D2 by (now rewrite Hp). now apply D1.
  - intros b' Hb'. now rewrite B2, B1.
  - intros f'. now rewrite F2, F1.
  - now rewrite W2.
  - now rewrite C2.
  - now rewrite P2.
Qed.

Lemma raw_any_frame s b p keep : any_frame s (fst (bw_raw A s b p keep)) b.
Proof.
  unfold bw_raw, fd_write. destruct (fd_closed (fdd A s (bw_fd A (buf A s b)))) eqn:Ec.
  - cbn. unfold any_frame, wpath, buf, put_buf, set_bufs, dsk, fdd, core. cbn. repeat split; try reflexivity.
    + intros b' Hb'. now apply mget_mset_other.
    + now rewrite mget_mset_same.
  - cbn. unfold any_frame, wpath, buf, put_buf, set_bufs, set_disk, dsk, fdd, core. cbn. repeat split; try reflexivity.
    + intros q Hq. now apply mget_mset_other.
    + intros b' Hb'. now apply mget_mset_other.
    + now rewrite mget_mset_same.
Qed.

Lemma write_any_frame s b p : any_frame s (fst (bw_write A s b p)) b.
Proof.
  unfold bw_write. destruct (bw_err A (buf A s b)); [apply any_frame_refl|].
  destruct (length p <=? BUFSZ - length (bw_buf A (buf A s b))).
  - cbn [fst]. unfold any_frame, wpath, buf, put_buf, set_bufs, dsk, fdd, core. cbn. repeat split; try reflexivity.
    + intros b' Hb'. now apply mget_mset_other.
    + now rewrite mget_mset_same.
  - destruct (bw_buf A (buf A s b)) as [|x l]; [apply raw_any_frame|].
    destruct (length (skipn (BUFSZ - length (x :: l)) p) <=? BUFSZ); [apply raw_any_frame|].
    match goal with |- context [bw_raw A s b ?a []] =>
      pose proof (raw_any_frame s b a []) as H1; destruct (bw_raw A s b a []) as [s1 ok] end.
    cbn [fst] in H1. destruct ok; [|exact H1].
    eapply any_frame_trans; [exact H1 | apply raw_any_frame].
Qed.

Lemma any_frame_sink s s' b b2 f2 path2 bf2 : any_frame s s' b -> b2 <> b -> sink s b2 f2 path2 bf2 -> sink s' b2 f2 path2 bf2.
Proof. intros (_ & Hb & Hf & _) Hn [H1 H2]. split; [now rewrite Hb | now rewrite Hf]. Qed.

(* what can happen while the step prints: the MultiWriter [log; best-effort stdout; capture?] gets a chunk, or the
   stdout: target starts to reject writes (a volume runs full: modelled as its descriptor failing from then on) *)
Inductive mev := MWrite (p : bytes) | MFail.
Definition mstep (l : list leaf) (of : nat) (s : st A) (e : mev) : st A :=
  match e with MWrite p => fst (write_leaves A s l p) | MFail => close A s of end.
Definition written (evs : list mev) : bytes := flat_map (fun e => match e with MWrite p => p | MFail => [] end) evs.

Definition log_good (s : st A) (lw lf path ow : nat) (L : bytes) : Prop :=
  exists bl, sink s lw lf path bl /\ dsk A s path ++ bl = L /\ length bl <= BUFSZ /\ wpath s ow <> path.

Lemma mstep_log_good l_tail s lw lf path ow of L e :
  l_tail = [] \/ l_tail = [LCap] -> ow <> lw -> of <> lf -> log_good s lw lf path ow L ->
  log_good (mstep (LBuf lw :: LBest ow :: l_tail) of s e) lw lf path ow
           (L ++ match e with MWrite p => p | MFail => [] end).
Proof.
  intros Ht Hne Hf (bl & Hsk & Hd & Hlen & Hp).
  destruct e as [p|]; cbn [mstep].
  - cbn [write_leaves].
    destruct (write_spec s lw lf path bl p Hsk) as (s1 & W1 & D1 & K1 & FR1).
    rewrite W1.
    pose proof (write_any_frame s1 ow p) as AF. set (s2 := fst (bw_write A s1 ow p)) in *.
    pose proof FR1 as (FD & FB & FF & FC & FP).
    assert (Hp1 : wpath s1 ow = wpath s ow) by (unfold wpath; now rewrite (FB ow Hne), FF).
    destruct AF as (AD & AB & AFd & AW & AC & AP).
    destruct (bwp_spec (dsk A s path) bl p Hlen) as [Hb1 Hb2].
    assert (G : log_good s2 lw lf path ow (L ++ p)).
    { exists (snd (bwp (dsk A s path) bl p)).
      split; [apply (any_frame_sink s1 s2 ow); [repeat split; assumption | now apply not_eq_sym | exact K1]|].
      split; [rewrite AD by (rewrite Hp1; now apply not_eq_sym); rewrite D1, Hb1, <- Hd; now rewrite app_assoc|].
      split; [exact Hb2|]. unfold wpath. rewrite AW, AFd. fold (wpath s1 ow). now rewrite Hp1. }
    destruct Ht as [->| ->]; cbn [write_leaves fst]; [exact G|].
    destruct G as (bl' & K & D & Ln & P). exists bl'. split; [exact K|]. split; [exact D|]. split; [exact Ln | exact P].
  - rewrite app_nil_r. exists bl. destruct Hsk as [Hb Hfd].
    split; [split; [exact Hb|]|].
    + unfold close, fdd, set_fds. cbn. rewrite mget_mset_other by (now apply not_eq_sym). exact Hfd.
    + split; [exact Hd|]. split; [exact Hlen|].
      unfold wpath, close, fdd, set_fds, buf. cbn.
      unfold wpath, fdd, buf in Hp.
      destruct (Nat.eq_dec (bw_fd A (mget (no_buf A) (bufs A s) ow)) of) as [Heq|Hn].
      * rewrite Heq in *. rewrite mget_mset_same. cbn. exact Hp.
      * rewrite mget_mset_other by exact Hn. exact Hp.
Qed.

(* every chunk handed to the MultiWriter reaches the log sink (file ++ buffer), and - by teardown_flushes_log - the
   log file, whatever the stdout: redirect does and whenever it starts to fail; no write ever reports an error *)
Theorem log_gets_all : forall l_tail evs s lw lf path ow of L,
  l_tail = [] \/ l_tail = [LCap] -> ow <> lw -> of <> lf -> log_good s lw lf path ow L ->
  log_good (fold_left (mstep (LBuf lw :: LBest ow :: l_tail) of) evs s) lw lf path ow (L ++ written evs).
Proof.
  intros l_tail evs. induction evs as [|e evs IH]; intros s lw lf path ow of L Ht Hne Hf Hg.
  - cbn. now rewrite app_nil_r.
  - cbn [fold_left written flat_map]. rewrite app_assoc. apply IH; try assumption.
    now apply mstep_log_good.
Qed.

(* ---------------------------------------------------------------------------------------------------- *)
(* all attempts                                                                                           *)
(* ---------------------------------------------------------------------------------------------------- *)
Lemma chunks_running j cs : forall s L Opre Epre E, running j s L L L Opre Epre E ->
  running j (exec A c s (map (fun ch => AChunk A (fst ch) (snd ch)) cs))
    (L ++ log_of A c cs) (L ++ log_of A c cs) (L ++ log_of A c cs) Opre Epre (E ++ err_of A cs).
Proof.
  induction cs as [|[x p] cs IH]; intros s L Opre Epre E Hr.
  - cbn. now rewrite !app_nil_r.
  - unfold exec. cbn [map fold_left fst snd step].
    fold (exec A c (deliver A s x p) (map (fun ch => AChunk A (fst ch) (snd ch)) cs)).
    replace (L ++ log_of A c ((x, p) :: cs)) with ((L ++ lpart x p) ++ log_of A c cs).
    2:{ rewrite <- app_assoc. f_equal; try (unfold log_of, lpart, to_log; cbn [flat_map fst snd]; destruct x; [reflexivity|]; now destruct (c_stderr c)). }
    replace (E ++ err_of A ((x, p) :: cs)) with ((E ++ epart x p) ++ err_of A cs).
    2:{ rewrite <- app_assoc. f_equal; try (unfold err_of, epart; cbn [flat_map fst snd]; destruct x; reflexivity). }
    apply IH. now apply deliver_running.
Qed.

Lemma attempts_ok : forall atts j s Oall Eall, atts <> [] -> idle j s Oall Eall ->
  let s' := exec A c s (program A j atts) in
  dsk A s' (logpath A s') = log_of A c (last atts []) /\
  (c_stdout c = true -> is_suffix A (log_of A c (last atts [])) (dsk A s' P_STDOUT)) /\
  (c_stderr c = true -> is_suffix A (err_of A (last atts [])) (dsk A s' P_STDERR)) /\
  (c_output c = true -> outvar A s' = Some (log_of A c (last atts []))).
Proof.
  induction atts as [|cs rest IH]; intros j s Oall Eall Hne Hi; [contradiction|].
  cbn [program]. unfold body. cbn zeta.
  unfold exec. cbn [app fold_left step].
  rewrite <- app_assoc. rewrite fold_left_app.
  pose proof (start_running j s Oall Eall Hi) as Hr0.
  pose proof (chunks_running j cs _ _ _ _ _ Hr0) as Hr. cbn [app] in Hr. unfold exec in Hr.
  match type of Hr with running _ ?st _ _ _ _ _ _ => set (s2 := st) in * end.
  cbn [app fold_left step].
  destruct (finish_idle j s2 _ _ _ _ Hr) as (Hid & Hlog & Hlp & Hov).
  destruct rest as [|cs2 rest'].
  - cbn [program fold_left last]. split; [rewrite Hlp; exact Hlog|]. split; [|split].
    + intros Hs. exists Oall. now rewrite (i_o _ _ _ _ Hid Hs).
    + intros Hs. exists Eall. now rewrite (i_e _ _ _ _ Hid Hs).
    + exact Hov.
  - change (last (cs :: cs2 :: rest') []) with (last (cs2 :: rest') []).
    apply (IH (S j) _ _ _ ltac:(discriminate) Hid).
Qed.

Lemma idle_init : idle 0 (init (A := A)) [] [].
Proof. constructor; intros; try reflexivity. now split. Qed.

(* C12: every configuration, every number of attempts, every chunking / interleaving and every size *)
Theorem complete_all : forall atts, atts <> [] -> complete A c (last atts []) (run A c atts).
Proof.
  intros atts Hne. destruct (attempts_ok atts 0 _ [] [] Hne idle_init) as (H1 & H2 & H3 & _).
  unfold complete, run. auto.
Qed.

(* what the `output:` variable receives (before TrimSpace): everything of the last attempt that went towards the
   log - its stdout, and its stderr too unless a `stderr:` file is configured - whatever its size *)
Theorem capture_all : forall atts, atts <> [] -> c_output c = true ->
  outvar A (run A c atts) = Some (log_of A c (last atts [])).
Proof.
  intros atts Hne Ho. destruct (attempts_ok atts 0 _ [] [] Hne idle_init) as (_ & _ & _ & H4). now apply H4.
Qed.

(* the log stream is an order-preserving merge of the two streams (stderr only when it is not redirected) *)
Lemma merge_app_l x y z a : is_merge A x y z -> is_merge A (a ++ x) y (a ++ z).
Proof. intros H. induction a as [|e a IH]; [exact H | now constructor]. Qed.
Lemma merge_app_r x y z a : is_merge A x y z -> is_merge A x (a ++ y) (a ++ z).
Proof. intros H. induction a as [|e a IH]; [exact H | now constructor]. Qed.

Theorem log_of_merge : forall cs,
  is_merge A (out_of A cs) (if c_stderr c then [] else err_of A cs) (log_of A c cs).
Proof.
  intros cs. induction cs as [|[x p] cs IH]; [destruct (c_stderr c); constructor|].
  unfold out_of, err_of, log_of in *. cbn [flat_map fst snd]. destruct x.
  - rewrite app_nil_l. destruct (c_stderr c); now apply merge_app_l.
  - rewrite app_nil_l. destruct (c_stderr c); [exact IH | now apply merge_app_r].
Qed.

End Proofs.

(* ---------------------------------------------------------------------------------------------------- *)
(* What remains false (C11, F11d): the captured value also contains the step's stderr                     *)
(* ---------------------------------------------------------------------------------------------------- *)
Lemma capture_stdout_refuted : exists (c : cfg) (cs : list (chunk nat)),
  c_output c = true /\ outvar nat (run nat c [cs]) <> Some (out_of nat cs).
Proof.
  exists (mkc false false true false), [(Out, [1]); (Err, [2])].
  split; [reflexivity | vm_compute; discriminate].
Qed.

(* ---------------------------------------------------------------------------------------------------- *)
(* The former counter-examples, now instances of complete_all                                             *)
(* ---------------------------------------------------------------------------------------------------- *)
(* before fix 8880f0d (Node.done was never reset) the log of the second attempt stayed empty  [F12a] *)
Example retry_stdout_fixed :
  let r := run nat (mkc true false false false) [[(Out, [1])]; [(Out, [2])]] in
  dsk nat r (logpath nat r) = [2] /\ dsk nat r P_STDOUT = [1; 2].
Proof. vm_compute. split; reflexivity. Qed.

Example retry_output_fixed :
  let r := run nat (mkc false false true false) [[(Out, [1])]; [(Out, [2])]] in
  dsk nat r (logpath nat r) = [2] /\ outvar nat r = Some [2].
Proof. vm_compute. split; reflexivity. Qed.

(* before fix f5eca82 (the capture went through an undrained pipe) 65537 bytes blocked the step for good  [F12c] *)
Example big_output_fixed :
  let cs := [(Out, repeat 0 (N.to_nat 32768)); (Out, repeat 0 (N.to_nat 32768)); (Out, [0])] in
  let r := run nat (mkc false false true false) [cs] in
  N.of_nat (length (dsk nat r (logpath nat r))) = 65537%N /\
  match outvar nat r with Some v => N.of_nat (length v) = 65537%N | None => False end.
Proof. vm_compute. split; reflexivity. Qed.

(* every setting on, three attempts, chunks that exercise bypass and fill-flush *)
Example complete_all_example :
  let c := mkc true true true true in
  let atts := [[(Out, repeat 7 5000); (Err, [1; 2; 3]); (Out, repeat 8 3000)]; [(Out, [4])]; [(Err, [9]); (Out, repeat 5 4097); (Out, [6])]] in
  let r := run nat c atts in
  atts <> [] /\ dsk nat r (logpath nat r) = repeat 5 4097 ++ [6] /\ dsk nat r P_STDERR = [1; 2; 3; 9] /\
  outvar nat r = Some (repeat 5 4097 ++ [6]).
Proof. cbv zeta. split; [discriminate|]. vm_compute. repeat split; reflexivity. Qed.

(* a `stdout:` target that rejects every write (the descriptor of the stdout writer fails): the log still gets all *)
Example teardown_log_with_failing_stdout :
  let c := mkc true false false false in
  let s := exec nat c init (body nat 0 [(Out, [1; 2; 3]); (Err, [4])]) in
  let s' := match n_outF (nd nat s) with Some f => close nat s f | None => s end in   (* the target starts failing *)
  dsk nat (teardown nat s') (logpath nat s') = [1; 2; 3; 4] /\ dsk nat (teardown nat s') P_STDOUT = [].
Proof. vm_compute. split; reflexivity. Qed.

(* before fix 78722d0 the first failed write of the stdout: redirect ended the copy and the log lost what followed *)
Example failing_stdout_beyond_buffer_fixed :
  let c := mkc true false false false in
  let s0 := exec nat c init [ASetup nat 0; AStart nat] in
  let s1 := match n_outF (nd nat s0) with Some f => close nat s0 f | None => s0 end in     (* /dev/full *)
  let s2 := exec nat c s1 [AChunk nat Out (repeat 1 3000); AChunk nat Err (repeat 2 3000); AChunk nat Out [3]; AEnd nat; ATeardown nat] in
  dsk nat s2 (logpath nat s2) = repeat 1 3000 ++ repeat 2 3000 ++ [3] /\ dsk nat s2 P_STDOUT = [].
Proof. vm_compute. split; reflexivity. Qed.
