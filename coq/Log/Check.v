(* Entry point of the C12 correspondence.  A harness case is evaluated on the model with bytes = position codes
   (attempt, stream, offset), so that the predicted content of every file can be printed as a few runs of
   consecutive codes and compared with what the real run left on disk. *)
From Coq Require Import List Bool Arith NArith.
Import ListNotations.
From BD.Log Require Import Model.

Definition code (a : N) (x : stream) (i : N) : N :=
  (a * 2199023255552 + (match x with Err => 1099511627776 | Out => 0 end) + i)%N.

Fixpoint iota (n : nat) (start : N) : list N :=
  match n with 0 => [] | S k => start :: iota k (N.succ start) end.

(* the emitter alternates blocks of blk bytes on stdout and stderr; io.Copy reads at most 32 KiB at a time *)
Fixpoint blocks (fuel : nat) (a : N) (blk : nat) (od : N) (ol : nat) (ed : N) (el : nat) : list (chunk N) :=
  match fuel with
  | 0 => []
  | S f =>
      let ob := Nat.min blk ol in
      let eb := Nat.min blk el in
      (if ob =? 0 then [] else [(Out, iota ob (code a Out od))]) ++
      (if eb =? 0 then [] else [(Err, iota eb (code a Err ed))]) ++
      (if (ol - ob =? 0) && (el - eb =? 0) then []
       else blocks f a blk (od + N.of_nat ob)%N (ol - ob) (ed + N.of_nat eb)%N (el - eb))
  end.
Definition attempt_chunks (a : nat) (blk : nat) (osz esz : N) : list (chunk N) :=
  let o := N.to_nat osz in let e := N.to_nat esz in
  blocks (S (o / blk + e / blk)) (N.of_nat a) blk 0%N o 0%N e.

Fixpoint attempts (a : nat) (blk : nat) (sizes : list (N * N)) : list (list (chunk N)) :=
  match sizes with [] => [] | (o, e) :: r => attempt_chunks a blk o e :: attempts (S a) blk r end.

Fixpoint rle_aux (st len : N) (l : list N) : list (N * N) :=
  match l with
  | [] => [(st, len)]
  | x :: r => if (x =? st + len)%N then rle_aux st (len + 1)%N r else (st, len) :: rle_aux x 1%N r
  end.
Definition rle (l : list N) : list (N * N) := match l with [] => [] | x :: r => rle_aux x 1%N r end.

(* (stdout?, stderr?, output?, script?), block size, per attempt (stdout bytes, stderr bytes), lates *)
Definition lcase := (bool * bool * bool * bool * nat * list (N * N) * list nat)%type.

Definition tag (k kind : N) (l : list (N * N)) : list (N * N * N * N) := map (fun p => (k, kind, fst p, snd p)) l.

(* rows (case, kind, a, b): kind 0/1/2 = a run [a, a+b) of codes in the log / stdout: / stderr: file;
   3 = flags (a = blocked); 4 = run in the captured output; 5 = bytes left in a buffer of the last attempt *)
Definition eval_case (k : N) (c : lcase) : list (N * N * N * N) :=
  let '(so, se, ou, sc, blk, sizes, lates) := c in
  let cf := {| c_stdout := so; c_stderr := se; c_output := ou; c_script := sc |} in
  let s := run N cf (attempts 0 blk sizes) lates in
  tag k 0 (rle (disk N s (logpath N s))) ++ tag k 1 (rle (disk N s P_STDOUT)) ++ tag k 2 (rle (disk N s P_STDERR))
  ++ [(k, 3, if blocked N s then 1 else 0, 0)]%N
  ++ tag k 4 (match outvar N s with Some v => rle v | None => [] end).

Fixpoint eval_from (k : N) (cs : list lcase) : list (N * N * N * N) :=
  match cs with [] => [] | c :: r => eval_case k c ++ eval_from (N.succ k) r end.
Definition eval_cases := eval_from 0%N.
