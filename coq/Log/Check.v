(* Entry point of the C12 correspondence.  A harness case is evaluated on the model with bytes = position codes
   (attempt, stream, offset) - primitive 63-bit integers, used for this evaluation only - so that the predicted
   content of every file can be printed as a few runs of consecutive codes and compared with what the real run
   left on disk. *)
From Coq Require Import List Bool Arith NArith ZArith Uint63.
Import ListNotations.
From BD.Log Require Import Model.

Local Open Scope uint63_scope.

Definition code (a : int) (x : stream) (i : int) : int :=
  a * 2199023255552 + (match x with Err => 1099511627776 | Out => 0 end) + i.

Fixpoint iota (n : nat) (start : int) : list int :=
  match n with 0%nat => [] | S k => start :: iota k (start + 1) end.

(* the emitter alternates blocks of blk bytes on stdout and stderr; io.Copy reads at most 32 KiB at a time *)
Fixpoint blocks (fuel : nat) (a : int) (blk : nat) (od : int) (ol : nat) (ed : int) (el : nat) : list (chunk int) :=
  match fuel with
  | 0%nat => []
  | S f =>
      let ob := Nat.min blk ol in
      let eb := Nat.min blk el in
      (if (ob =? 0)%nat then [] else [(Out, iota ob (code a Out od))]) ++
      (if (eb =? 0)%nat then [] else [(Err, iota eb (code a Err ed))]) ++
      (if ((ol - ob =? 0) && (el - eb =? 0))%nat then []
       else blocks f a blk (od + of_Z (Z.of_nat ob)) (ol - ob)%nat (ed + of_Z (Z.of_nat eb)) (el - eb)%nat)
  end.
Definition attempt_chunks (a : nat) (blk : nat) (osz esz : N) : list (chunk int) :=
  let o := N.to_nat osz in let e := N.to_nat esz in
  blocks (S (o / blk + e / blk)) (of_Z (Z.of_nat a)) blk 0 o 0 e.

Fixpoint attempts (a : nat) (blk : nat) (sizes : list (N * N)) : list (list (chunk int)) :=
  match sizes with [] => [] | (o, e) :: r => attempt_chunks a blk o e :: attempts (S a) blk r end.

Fixpoint rle_aux (st len : int) (l : list int) : list (int * int) :=
  match l with
  | [] => [(st, len)]
  | x :: r => if x =? st + len then rle_aux st (len + 1) r else (st, len) :: rle_aux x 1 r
  end.
Definition rle (l : list int) : list (int * int) := match l with [] => [] | x :: r => rle_aux x 1 r end.

(* (stdout?, stderr?, output?, script?), block size, per attempt (stdout bytes, stderr bytes) *)
Definition lcase := (bool * bool * bool * bool * nat * list (N * N))%type.

Definition tag (k kind : int) (l : list (int * int)) : list (int * int * int * int) := map (fun p => (k, kind, fst p, snd p)) l.

(* rows (case, kind, a, b): kind 0/1/2 = a run [a, a+b) of codes in the log / stdout: / stderr: file;
   4 = run in the captured output *)
Definition eval_case (k : int) (c : lcase) : list (int * int * int * int) :=
  let '(so, se, ou, sc, blk, sizes) := c in
  let cf := {| c_stdout := so; c_stderr := se; c_output := ou; c_script := sc |} in
  let s := run int cf (attempts 0 blk sizes) in
  tag k 0 (rle (dsk int s (logpath int s))) ++ tag k 1 (rle (dsk int s P_STDOUT)) ++ tag k 2 (rle (dsk int s P_STDERR))
  ++ tag k 4 (match outvar int s with Some v => rle v | None => [] end).

Fixpoint eval_from (k : int) (cs : list lcase) : list (int * int * int * int) :=
  match cs with [] => [] | c :: r => eval_case k c ++ eval_from (k + 1) r end.
Definition eval_cases := eval_from 0.
