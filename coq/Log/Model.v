(* Log - executable model of how the bytes a step prints reach its files (C12).

   Anchors: internal/dag/scheduler/node.go  setup (:274-322), setupLog/setupStdout/setupStderr (:344-389),
   setupExec (:155-207), Execute (:117-147), teardown (:390-421, the `done` flag);
   scheduler.go:143-236 (the worker).
   The model describes the REPAIRED code: 8880f0d (setup resets `done`; the worker of an attempt tears down exactly
   once, through a worker-local closure, and BEFORE it hands the node back for a retry - no stale teardown can reach
   the next attempt's files) and f5eca82 (the output is captured into an in-memory buffer, a member of the
   MultiWriter, instead of an os.Pipe that nobody drains while the command runs) and 78722d0 (the `stdout:` writer is
   a best-effort member of the MultiWriter: a write error of the redirect does not end the copy).
   Library semantics reproduced (DESIGN.md Appendix B): bufio.Writer (4096 bytes) Write / Flush / ReadFrom,
   io.MultiWriter, io.Copy into a non-file writer, exec.Cmd sharing one pipe when Stdout == Stderr, bytes.Buffer.

   The model is polymorphic in the type A of bytes: it can only move bytes, never invent them. *)
From Coq Require Import List Bool Arith NArith.
Import ListNotations.

Definition BUFSZ : nat := N.to_nat 4096.      (* bufio default size *)
Inductive stream := Out | Err.

(* the four settings of a step that matter here *)
Record cfg := { c_stdout : bool; c_stderr : bool; c_output : bool; c_script : bool }.

(* finite maps with a default (association lists: an overwritten value is dropped, which keeps the evaluation of
   the model on megabyte-sized runs cheap) *)
Fixpoint mget {X} (d : X) (m : list (nat * X)) (k : nat) : X :=
  match m with [] => d | (k', v) :: r => if k =? k' then v else mget d r k end.
Fixpoint mset {X} (m : list (nat * X)) (k : nat) (v : X) : list (nat * X) :=
  match m with [] => [(k, v)] | (k', v') :: r => if k =? k' then (k, v) :: r else (k', v') :: mset r k v end.

(* paths: 0 = the `stdout:` file, 1 = the `stderr:` file, 2 + k = the log file of attempt k
   (its name carries the start time in milliseconds; attempts start in different milliseconds) *)
Definition P_STDOUT := 0.
Definition P_STDERR := 1.
Definition p_log (k : nat) := 2 + k.

(* a bufio writer; a bufio writer wrapped as bestEffortWriter (78722d0: its write errors do not stop the copy);
   the capture buffer of `output:` *)
Inductive leaf := LBuf (b : nat) | LBest (b : nat) | LCap.
(* what exec.Cmd copies a stream into: a lone bufio.Writer (io.Copy finds ReadFrom) or a MultiWriter *)
Inductive wire := WDirect (b : nat) | WMulti (l : list leaf).

Section Model.
Variable A : Type.
Notation bytes := (list A).

Record fdesc := { fd_path : nat; fd_closed : bool }.
Record bufw := { bw_buf : bytes; bw_fd : nat; bw_err : bool }.     (* bw_err: sticky write error *)

(* the fields of Node that setup / setupExec / teardown use *)
Record node := {
  n_logW : option nat; n_outW : option nat; n_errW : option nat;    (* logWriter, stdoutWriter, stderrWriter *)
  n_logF : option nat; n_outF : option nat;                         (* logFile, stdoutFile (stderrFile is never closed) *)
  n_done : bool }.

Record st := {
  disk : list (nat * bytes);      (* path -> content *)
  fds : list (nat * fdesc);  nfd : nat;
  bufs : list (nat * bufw);  nbuf : nat;
  nd : node;
  w_out : wire; w_err : wire;     (* wiring of the running attempt (setupExec) *)
  shared : bool;                  (* Stdout == Stderr: one pipe, one copying goroutine *)
  capbuf : bytes;                 (* capture buffer of the running attempt (bytes.Buffer: takes any amount) *)
  brk_o : bool; brk_e : bool;     (* the copying goroutine of the stream stopped on a write error *)
  logpath : nat;                  (* State.Log *)
  outvar : option bytes           (* bytes read from the capture pipe after the last finished attempt *)
}.

Definition no_fd : fdesc := {| fd_path := 0; fd_closed := true |}.
Definition no_buf : bufw := {| bw_buf := []; bw_fd := 0; bw_err := false |}.
Definition dsk (s : st) (p : nat) : bytes := mget [] (disk s) p.
Definition fdd (s : st) (f : nat) : fdesc := mget no_fd (fds s) f.
Definition buf (s : st) (b : nat) : bufw := mget no_buf (bufs s) b.

Definition init : st :=
  {| disk := []; fds := []; nfd := 0; bufs := []; nbuf := 0;
     nd := {| n_logW := None; n_outW := None; n_errW := None; n_logF := None; n_outF := None; n_done := false |};
     w_out := WMulti []; w_err := WMulti []; shared := true; capbuf := [];
     brk_o := false; brk_e := false; logpath := 0; outvar := None |}.

Definition set_disk (s : st) d := {| disk := d; fds := fds s; nfd := nfd s; bufs := bufs s; nbuf := nbuf s; nd := nd s;
  w_out := w_out s; w_err := w_err s; shared := shared s; capbuf := capbuf s; brk_o := brk_o s; brk_e := brk_e s;
  logpath := logpath s; outvar := outvar s |}.
Definition set_fds (s : st) f n := {| disk := disk s; fds := f; nfd := n; bufs := bufs s; nbuf := nbuf s; nd := nd s;
  w_out := w_out s; w_err := w_err s; shared := shared s; capbuf := capbuf s; brk_o := brk_o s; brk_e := brk_e s;
  logpath := logpath s; outvar := outvar s |}.
Definition set_bufs (s : st) f n := {| disk := disk s; fds := fds s; nfd := nfd s; bufs := f; nbuf := n; nd := nd s;
  w_out := w_out s; w_err := w_err s; shared := shared s; capbuf := capbuf s; brk_o := brk_o s; brk_e := brk_e s;
  logpath := logpath s; outvar := outvar s |}.
Definition set_nd (s : st) n := {| disk := disk s; fds := fds s; nfd := nfd s; bufs := bufs s; nbuf := nbuf s; nd := n;
  w_out := w_out s; w_err := w_err s; shared := shared s; capbuf := capbuf s; brk_o := brk_o s; brk_e := brk_e s;
  logpath := logpath s; outvar := outvar s |}.
Definition set_exec (s : st) wo we sh cb bo be := {| disk := disk s; fds := fds s; nfd := nfd s; bufs := bufs s; nbuf := nbuf s;
  nd := nd s; w_out := wo; w_err := we; shared := sh; capbuf := cb; brk_o := bo; brk_e := be;
  logpath := logpath s; outvar := outvar s |}.
Definition set_log (s : st) lp ov := {| disk := disk s; fds := fds s; nfd := nfd s; bufs := bufs s; nbuf := nbuf s; nd := nd s;
  w_out := w_out s; w_err := w_err s; shared := shared s; capbuf := capbuf s; brk_o := brk_o s; brk_e := brk_e s;
  logpath := lp; outvar := ov |}.

(* ---- files ---------------------------------------------------------------------------------------- *)
(* OpenOrCreateFile: the content of an existing file is kept and writes append *)
Definition open (s : st) (path : nat) : st * nat :=
  let s1 := set_disk s (mset (disk s) path (dsk s path)) in       (* the file exists from now on *)
  (set_fds s1 (mset (fds s1) (nfd s1) {| fd_path := path; fd_closed := false |}) (S (nfd s1)), nfd s1).
Definition close (s : st) (fd : nat) : st :=
  set_fds s (mset (fds s) fd {| fd_path := fd_path (fdd s fd); fd_closed := true |}) (nfd s).
(* write(2) on a descriptor: fails when it has been closed *)
Definition fd_write (s : st) (fd : nat) (p : bytes) : st * bool :=
  let d := fdd s fd in
  if fd_closed d then (s, false)
  else (set_disk s (mset (disk s) (fd_path d) (dsk s (fd_path d) ++ p)), true).

(* ---- bufio.Writer ---------------------------------------------------------------------------------- *)
Definition new_buf (s : st) (fd : nat) : st * nat :=
  (set_bufs s (mset (bufs s) (nbuf s) {| bw_buf := []; bw_fd := fd; bw_err := false |}) (S (nbuf s)), nbuf s).
Definition put_buf (s : st) (b : nat) (w : bufw) : st := set_bufs s (mset (bufs s) b w) (nbuf s).

(* write `p` straight to the underlying file of b, keeping `keep` as the new buffer content *)
Definition bw_raw (s : st) (b : nat) (p keep : bytes) : st * bool :=
  let w := buf s b in
  let '(s1, ok) := fd_write s (bw_fd w) p in
  if ok then (put_buf s1 b {| bw_buf := keep; bw_fd := bw_fd w; bw_err := false |}, true)
  else (put_buf s1 b {| bw_buf := bw_buf w; bw_fd := bw_fd w; bw_err := true |}, false).

(* Flush *)
Definition bw_flush (s : st) (b : nat) : st * bool :=
  let w := buf s b in
  if bw_err w then (s, false)
  else match bw_buf w with [] => (s, true) | _ => bw_raw s b (bw_buf w) [] end.

(* Write: while len(p) > Available: empty buffer => write p directly; else fill, flush, go on *)
Definition bw_write (s : st) (b : nat) (p : bytes) : st * bool :=
  let w := buf s b in
  if bw_err w then (s, false)
  else
    let avail := BUFSZ - length (bw_buf w) in
    if length p <=? avail then (put_buf s b {| bw_buf := bw_buf w ++ p; bw_fd := bw_fd w; bw_err := false |}, true)
    else match bw_buf w with
         | [] => bw_raw s b p []
         | _ =>
             let p1 := firstn avail p in
             let p2 := skipn avail p in
             if length p2 <=? BUFSZ then bw_raw s b (bw_buf w ++ p1) p2
             else let '(s1, ok) := bw_raw s b (bw_buf w ++ p1) [] in
                  if ok then bw_raw s1 b p2 [] else (s1, false)
         end.

(* ReadFrom, one chunk of the source: with an empty buffer the underlying *os.File reads from the source
   itself, i.e. the chunk goes straight to the file; otherwise the buffer is filled first (not reachable in
   the wiring of setupExec, kept for faithfulness) *)
Definition bw_readfrom (s : st) (b : nat) (p : bytes) : st * bool :=
  let w := buf s b in
  if bw_err w then (s, false)
  else match bw_buf w with [] => bw_raw s b p [] | _ => bw_write s b p end.

(* ---- MultiWriter: each leaf in order, stop at the first error ----------------------------------------------- *)
Fixpoint write_leaves (s : st) (l : list leaf) (p : bytes) : st * bool :=
  match l with
  | [] => (s, true)
  | LBuf b :: r => let '(s1, ok) := bw_write s b p in if ok then write_leaves s1 r p else (s1, false)
  | LBest b :: r => write_leaves (fst (bw_write s b p)) r p
  | LCap :: r => write_leaves (set_exec s (w_out s) (w_err s) (shared s) (capbuf s ++ p) (brk_o s) (brk_e s)) r p
  end.

Definition broken_of (s : st) (x : stream) : bool :=
  match x with Out => brk_o s | Err => if shared s then brk_o s else brk_e s end.
Definition set_broken (s : st) (x : stream) : st :=
  match x with
  | Out => set_exec s (w_out s) (w_err s) (shared s) (capbuf s) true (brk_e s)
  | Err => if shared s then set_exec s (w_out s) (w_err s) (shared s) (capbuf s) true (brk_e s)
           else set_exec s (w_out s) (w_err s) (shared s) (capbuf s) (brk_o s) true
  end.

(* one chunk read from the child's stream x is copied into its wiring *)
Definition deliver (s : st) (x : stream) (p : bytes) : st :=
  if broken_of s x then s
  else
    let w := match x with Out => w_out s | Err => w_err s end in
    let '(s1, ok) := match w with WDirect b => bw_readfrom s b p | WMulti l => write_leaves s l p end in
    if ok then s1 else set_broken s1 x.

(* ---- node.setup / setupExec / Execute / teardown ---------------------------------------------------- *)
Definition setup (c : cfg) (k : nat) (s : st) : st :=
  let '(s1, lf) := open s (p_log k) in
  let '(s2, lw) := new_buf s1 lf in
  let n2 := {| n_logW := Some lw; n_outW := n_outW (nd s2); n_errW := n_errW (nd s2);
               n_logF := Some lf; n_outF := n_outF (nd s2); n_done := false |} in       (* 8880f0d: n.done = false *)
  let s3 := set_log (set_nd s2 n2) (p_log k) (outvar s2) in
  let s5 :=
    if c_stdout c then
      let '(s4, f) := open s3 P_STDOUT in
      let '(s4', w) := new_buf s4 f in
      set_nd s4' {| n_logW := n_logW (nd s4'); n_outW := Some w; n_errW := n_errW (nd s4');
                    n_logF := n_logF (nd s4'); n_outF := Some f; n_done := n_done (nd s4') |}
    else s3 in
  if c_stderr c then
    let '(s6, f) := open s5 P_STDERR in
    let '(s6', w) := new_buf s6 f in
    set_nd s6' {| n_logW := n_logW (nd s6'); n_outW := n_outW (nd s6'); n_errW := Some w;
                  n_logF := n_logF (nd s6'); n_outF := n_outF (nd s6'); n_done := n_done (nd s6') |}
  else s5.

Definition wire_out (c : cfg) (n : node) : wire :=
  match n_logW n with
  | None => WMulti []
  | Some lw =>
      let base := match n_outW n with Some ow => [LBuf lw; LBest ow] | None => [LBuf lw] end in
      if c_output c then WMulti (base ++ [LCap])
      else match n_outW n with Some _ => WMulti base | None => WDirect lw end
  end.
Definition wire_err (c : cfg) (n : node) : wire :=
  match n_errW n with Some ew => WDirect ew | None => wire_out c n end.
Definition is_shared (n : node) : bool := match n_errW n with Some _ => false | None => true end.

Definition exec_start (c : cfg) (s : st) : st :=
  set_exec s (wire_out c (nd s)) (wire_err c (nd s)) (is_shared (nd s)) [] false false.

(* after cmd.Run (which has waited for the copying goroutines) the capture buffer is read *)
Definition exec_end (c : cfg) (s : st) : st :=
  if c_output c then set_log s (logpath s) (Some (capbuf s)) else s.

Definition flush_opt (s : st) (o : option nat) : st := match o with Some b => fst (bw_flush s b) | None => s end.
Definition close_opt (s : st) (o : option nat) : st := match o with Some f => close s f | None => s end.

Definition teardown (s : st) : st :=
  if n_done (nd s) then s
  else
    let n := nd s in
    let s1 := set_nd s {| n_logW := n_logW n; n_outW := n_outW n; n_errW := n_errW n;
                          n_logF := n_logF n; n_outF := n_outF n; n_done := true |} in
    let s2 := flush_opt (flush_opt s1 (n_logW n)) (n_outW n) in
    close_opt (close_opt s2 (n_logF n)) (n_outF n).

(* ---- executions -------------------------------------------------------------------------------------- *)
Definition chunk := (stream * bytes)%type.

Inductive act := ASetup (k : nat) | AStart | AChunk (x : stream) (p : bytes) | AEnd | ATeardown.

Definition step (c : cfg) (s : st) (a : act) : st :=
  match a with
  | ASetup k => setup c k s
  | AStart => exec_start c s
  | AChunk x p => deliver s x p
  | AEnd => exec_end c s
  | ATeardown => teardown s
  end.
Definition exec (c : cfg) (s : st) (acts : list act) : st := fold_left (step c) acts s.

Definition body (k : nat) (cs : list chunk) : list act :=
  ASetup k :: AStart :: map (fun ch => AChunk (fst ch) (snd ch)) cs ++ [AEnd].

(* attempts in order: the worker of every attempt tears down before the node can be launched again
   (scheduler.go: teardown() precedes setStatus(NodeStatusNone); its deferred second call is a no-op) *)
Fixpoint program (k : nat) (atts : list (list chunk)) : list act :=
  match atts with
  | [] => []
  | cs :: rest => body k cs ++ ATeardown :: program (S k) rest
  end.

Definition run (c : cfg) (atts : list (list chunk)) : st := exec c init (program 0 atts).

(* ---- what the property speaks of ------------------------------------------------------------------------ *)
Definition out_of (cs : list chunk) : bytes := flat_map (fun ch => match fst ch with Out => snd ch | Err => [] end) cs.
Definition err_of (cs : list chunk) : bytes := flat_map (fun ch => match fst ch with Err => snd ch | Out => [] end) cs.
(* bytes that go towards the log file, in arrival order: stdout, and stderr unless `stderr:` is configured *)
Definition log_of (c : cfg) (cs : list chunk) : bytes :=
  flat_map (fun ch => match fst ch with Out => snd ch | Err => if c_stderr c then [] else snd ch end) cs.

Definition is_suffix (x l : bytes) : Prop := exists pre, l = pre ++ x.

(* order-preserving merge *)
Inductive is_merge : bytes -> bytes -> bytes -> Prop :=
| merge_nil : is_merge [] [] []
| merge_l : forall a x y z, is_merge x y z -> is_merge (a :: x) y (a :: z)
| merge_r : forall a x y z, is_merge x y z -> is_merge x (a :: y) (a :: z).

(* When the worker of the last attempt is gone
   - the file named by State.Log holds exactly the bytes of the last attempt that go towards the log, in arrival
     order (an order-preserving merge of its stdout and - unless `stderr:` is set - its stderr, see log_of_merge);
   - the `stdout:` file ends with the same sequence (setupExec wires stderr into the same MultiWriter, so the
     file holds every stdout byte, in order, possibly interleaved with stderr bytes);
   - the `stderr:` file ends with every stderr byte.
   (In the model a worker always gets to its end: no write can block any more.) *)
Definition complete (c : cfg) (cs : list chunk) (s : st) : Prop :=
  dsk s (logpath s) = log_of c cs
  /\ (c_stdout c = true -> is_suffix (log_of c cs) (dsk s P_STDOUT))
  /\ (c_stderr c = true -> is_suffix (err_of cs) (dsk s P_STDERR)).

End Model.

Arguments init {A}.
