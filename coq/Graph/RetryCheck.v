(* Entry point of the C10 correspondence (graph part): cases written by the harness are
   (n, edges (dep, step), recorded status vector, indices the real NewExecutionGraphForRetry cleared). *)
From Coq Require Import List Arith Bool.
Import ListNotations.
From BD.Graph Require Import Kahn Retry.

Definition rcase := (nat * list (nat * nat) * list nat * list nat)%type.

Fixpoint list_eqb (a b : list nat) : bool :=
  match a, b with
  | [], [] => true
  | x :: a', y :: b' => Nat.eqb x y && list_eqb a' b'
  | _, _ => false
  end.

Definition model_cleared (c : rcase) : option (list nat) :=
  let '(n, E, st, _) := c in setup_retry n E (fun i => nth i st 0).

Definition agrees (c : rcase) : bool :=
  let '(_, _, _, obs) := c in
  match model_cleared c with Some m => list_eqb m obs | None => false end.

Fixpoint mismatches_from (k : nat) (cs : list rcase) : list nat :=
  match cs with
  | [] => []
  | c :: cs' => if agrees c then mismatches_from (S k) cs' else k :: mismatches_from (S k) cs'
  end.
Definition mismatches := mismatches_from 0.
