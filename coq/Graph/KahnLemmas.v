From Coq Require Import List Arith Bool Lia PeanoNat Relations.
Import ListNotations.
From BD.Graph Require Import Kahn.

Section Proofs.
Variable n : nat.
Variable E : list (nat * nat).
Hypothesis wfE : forall u v, In (u, v) E -> u < n /\ v < n.

Notation succs := (succs E).
Notation indeg := (indeg E).
Notation cnt := (cnt E).
Notation edge := (edge E).

Lemma memb_cons x u R : memb x (u :: R) = (x =? u) || memb x R.
Proof. reflexivity. Qed.

Definition cntL (L : list (nat*nat)) (R : list nat) (v : nat) : nat :=
  length (filter (fun e => (snd e =? v) && negb (memb (fst e) R)) L).
Definition multL (L : list (nat*nat)) (u v : nat) : nat :=
  count_occ Nat.eq_dec (map snd (filter (fun e => fst e =? u) L)) v.

Lemma cntL_cons_split L R u v : ~ In u R ->
  cntL L R v = cntL L (u :: R) v + multL L u v.
Proof.
  intros Hu. unfold cntL, multL. induction L as [|[a b] L IH]; [reflexivity|].
  cbn [filter fst snd]. rewrite memb_cons.
  assert (Hmu : memb u R = false) by (apply memb_nIn; auto).
  destruct (Nat.eqb_spec b v) as [->|Hb]; destruct (Nat.eqb_spec a u) as [->|Ha];
    cbn [andb orb negb map snd length count_occ].
  - rewrite Hmu. cbn [negb length map snd count_occ].
    destruct (Nat.eq_dec v v); [|congruence]. lia.
  - destruct (memb a R); cbn [negb length]; lia.
  - destruct (Nat.eq_dec b v); [congruence|]. exact IH.
  - exact IH.
Qed.

Lemma cnt_nil v : cnt [] v = indeg v.
Proof. unfold Kahn.cnt, Kahn.indeg. f_equal. apply filter_ext. intros [a b]. simpl. now rewrite andb_true_r. Qed.

Definition mult (u v : nat) := count_occ Nat.eq_dec (succs u) v.

Lemma cnt_pop R u v : ~ In u R -> cnt R v = cnt (u :: R) v + mult u v.
Proof. intros. apply (cntL_cons_split E R u v H). Qed.

Lemma cnt_zero_preds R v : cnt R v = 0 -> forall w, edge w v -> In w R.
Proof.
  unfold Kahn.cnt, Kahn.edge. intros H w Hw.
  apply length_zero_iff_nil in H.
  destruct (memb w R) eqn:Hm; [now apply memb_In|].
  exfalso. assert (In (w, v) (filter (fun e => (snd e =? v) && negb (memb (fst e) R)) E)) as Hin.
  { apply filter_In. split; auto. simpl. now rewrite Nat.eqb_refl, Hm. }
  rewrite H in Hin. inversion Hin.
Qed.

Lemma cnt_pos_pred R v : cnt R v <> 0 -> exists w, edge w v /\ ~ In w R.
Proof.
  unfold Kahn.cnt, Kahn.edge. intros H.
  destruct (filter (fun e => (snd e =? v) && negb (memb (fst e) R)) E) as [|[a b] l] eqn:Hf; [simpl in H; congruence|].
  assert (In (a, b) (filter (fun e => (snd e =? v) && negb (memb (fst e) R)) E)) as Hin by (rewrite Hf; left; auto).
  apply filter_In in Hin. destruct Hin as [HinE Hp]. simpl in Hp.
  apply andb_true_iff in Hp. destruct Hp as [Hb Hm]. apply Nat.eqb_eq in Hb. subst b.
  exists a. split; auto. apply memb_nIn. now apply negb_true_iff.
Qed.

Lemma mult_pos_In u v : mult u v <> 0 <-> In v (succs u).
Proof. unfold mult. rewrite (count_occ_In Nat.eq_dec). lia. Qed.

Lemma succs_edge u v : In v (succs u) <-> edge u v.
Proof.
  unfold Kahn.succs, Kahn.edge. rewrite in_map_iff. split.
  - intros [[a b] [Hb Hin]]. simpl in Hb. subst b. apply filter_In in Hin. destruct Hin as [Hin Ha].
    simpl in Ha. apply Nat.eqb_eq in Ha. now subst.
  - intros H. exists (u, v). split; auto. apply filter_In. split; auto. simpl. apply Nat.eqb_refl.
Qed.

(* ---------- the inner loop ---------- *)
Lemma count_cons_eq (v : nat) vs : count_occ Nat.eq_dec (v :: vs) v = S (count_occ Nat.eq_dec vs v).
Proof. simpl. destruct (Nat.eq_dec v v); [reflexivity|congruence]. Qed.
Lemma count_cons_neq (v w : nat) vs : v <> w -> count_occ Nat.eq_dec (v :: vs) w = count_occ Nat.eq_dec vs w.
Proof. intros. simpl. destruct (Nat.eq_dec v w); [congruence|reflexivity]. Qed.

Lemma dec_list_spec : forall vs deg acc,
  (forall w, count_occ Nat.eq_dec vs w <= deg w) ->
  exists deg' zs, dec_list deg vs acc = (deg', acc ++ zs)
    /\ (forall w, deg' w = deg w - count_occ Nat.eq_dec vs w)
    /\ NoDup zs
    /\ (forall z, In z zs <-> In z vs /\ deg z = count_occ Nat.eq_dec vs z).
Proof.
  induction vs as [|v vs IH]; intros deg acc Hle.
  - exists deg, []. cbn [dec_list]. rewrite app_nil_r. split; [reflexivity|]. split; [|split].
    + intros w. simpl. lia.
    + constructor.
    + intros z; split; [intros H; inversion H|intros [H _]; inversion H].
  - cbn [dec_list].
    assert (Hv : S (count_occ Nat.eq_dec vs v) <= deg v).
    { specialize (Hle v). rewrite count_cons_eq in Hle. lia. }
    assert (Hle' : forall w, count_occ Nat.eq_dec vs w <= upd deg v (pred (deg v)) w).
    { intros w. unfold upd. destruct (Nat.eqb_spec w v) as [->|Hw]; [lia|].
      specialize (Hle w). rewrite count_cons_neq in Hle by congruence. lia. }
    assert (Hdeg : forall deg', (forall w, deg' w = upd deg v (pred (deg v)) w - count_occ Nat.eq_dec vs w) ->
                   forall w, deg' w = deg w - count_occ Nat.eq_dec (v :: vs) w).
    { intros deg' Hd w. rewrite Hd. unfold upd. destruct (Nat.eqb_spec w v) as [->|Hw].
      - rewrite count_cons_eq. lia.
      - rewrite count_cons_neq by congruence. lia. }
    assert (Hother : forall z, z <> v ->
              (In z vs /\ upd deg v (pred (deg v)) z = count_occ Nat.eq_dec vs z) <->
              (In z (v :: vs) /\ deg z = count_occ Nat.eq_dec (v :: vs) z)).
    { intros z Hz. unfold upd. assert ((z =? v) = false) as -> by (apply Nat.eqb_neq; auto).
      rewrite count_cons_neq by congruence. simpl. intuition congruence. }
    destruct (Nat.eqb_spec (deg v) 1) as [H1|H1].
    + destruct (IH (upd deg v (pred (deg v))) (acc ++ [v]) Hle') as (deg' & zs & Heq & Hd & Hnd & Hz).
      exists deg', (v :: zs). rewrite Heq, <- app_assoc. split; [reflexivity|]. split; [|split]; auto.
      * constructor; auto. intros Hin. apply Hz in Hin. destruct Hin as [Hin _].
        apply (count_occ_In Nat.eq_dec) in Hin. lia.
      * intros z. destruct (Nat.eq_dec z v) as [->|Hzv].
        -- rewrite count_cons_eq. split; [intros _; split; [left; auto|lia]|intros _; left; auto].
        -- rewrite <- (Hother z Hzv), <- Hz. simpl. intuition congruence.
    + destruct (IH (upd deg v (pred (deg v))) acc Hle') as (deg' & zs & Heq & Hd & Hnd & Hz).
      exists deg', zs. rewrite Heq. split; [reflexivity|]. split; [|split]; auto.
      intros z. destruct (Nat.eq_dec z v) as [->|Hzv].
      * rewrite Hz, count_cons_eq. unfold upd. rewrite Nat.eqb_refl. split.
        -- intros [? ?]; split; [left; auto|lia].
        -- intros [_ ?]. split; [|lia]. apply (count_occ_In Nat.eq_dec). lia.
      * rewrite <- (Hother z Hzv). apply Hz.
Qed.
End Proofs.
