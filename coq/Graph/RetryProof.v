(* C10 (graph part): on an acyclic graph setupRetry clears exactly the nodes reachable (reflexively) from a
   node recorded failed or canceled, and never runs out of fuel. *)
From Coq Require Import List Arith Bool Lia PeanoNat Relations Relation_Operators Operators_Properties.
Import ListNotations.
From BD.Graph Require Import Kahn KahnLemmas KahnProof Retry.

Section RetryProof.
Variable n : nat.
Variable E : list (nat * nat).
Variable st : nat -> nat.
Hypothesis wfE : forall u v, In (u, v) E -> u < n /\ v < n.
Hypothesis acyc : forall x, ~ clos_trans nat (edge E) x x.

Notation succs := (succs E).
Notation edge := (edge E).
Notation bad := (bad st).
Notation visit := (visit E st).
Notation loop := (loop E st).
Notation nextF := (next_frontier E).
Notation sources := (sources n E).

Definition Good (x : nat) : Prop := exists w, bad w = true /\ clos_refl_trans nat edge w x.

(* ---- setb / fold ---- *)
Lemma fold_setb_keep l : forall f x, f x = true -> fold_left setb l f x = true.
Proof. induction l as [|a l IH]; simpl; intros f x H; auto. apply IH. unfold setb. destruct (x =? a); auto. Qed.
Lemma fold_setb_in l : forall f x, In x l -> fold_left setb l f x = true.
Proof.
  induction l as [|a l IH]; simpl; intros f x H; [contradiction|]. destruct H as [->|H]; [|now apply IH].
  apply fold_setb_keep. unfold setb. now rewrite Nat.eqb_refl.
Qed.
Lemma fold_setb_inv l : forall f x, fold_left setb l f x = true -> f x = true \/ In x l.
Proof.
  induction l as [|a l IH]; simpl; intros f x H; auto. apply IH in H. destruct H as [H|H]; auto.
  unfold setb in H. destruct (x =? a) eqn:Hx; auto. apply Nat.eqb_eq in Hx. auto.
Qed.

(* ---- one visit ---- *)
Lemma visit_rt_mono s u x : rt s x = true -> rt (visit s u) x = true.
Proof.
  intros H. unfold Retry.visit. destruct (rt s u || bad u); auto. simpl.
  apply fold_setb_keep. unfold setb. destruct (x =? u); auto.
Qed.
Lemma visit_cl_mono s u x : In x (cl s) -> In x (cl (visit s u)).
Proof. intros H. unfold Retry.visit. destruct (rt s u || bad u); auto. simpl. apply in_or_app. auto. Qed.
Lemma visit_marks s u : rt s u = true \/ bad u = true ->
  In u (cl (visit s u)) /\ forall v, In v (succs u) -> rt (visit s u) v = true.
Proof.
  intros H. unfold Retry.visit.
  assert (Hc : rt s u || bad u = true) by (destruct H as [-> | ->]; auto using orb_true_r).
  rewrite Hc. simpl. split; [apply in_or_app; simpl; auto|]. intros v Hv. now apply fold_setb_in.
Qed.
Lemma visit_sound s u : (forall x, rt s x = true -> Good x) -> (forall x, In x (cl s) -> Good x) ->
  (forall x, rt (visit s u) x = true -> Good x) /\ (forall x, In x (cl (visit s u)) -> Good x).
Proof.
  intros Hr Hc. unfold Retry.visit. destruct (rt s u || bad u) eqn:Hb; [|auto]. simpl.
  assert (Hu : Good u).
  { apply orb_true_iff in Hb. destruct Hb as [Hb|Hb]; [auto|]. exists u. split; auto. apply rt_refl. }
  split.
  - intros x Hx. apply fold_setb_inv in Hx. destruct Hx as [Hx|Hx].
    + unfold setb in Hx. destruct (x =? u) eqn:Hxu; [apply Nat.eqb_eq in Hxu; now subst|auto].
    + destruct Hu as (w & Hw & Hp). exists w. split; auto.
      eapply rt_trans; [exact Hp|]. apply rt_step. now apply succs_edge.
  - intros x Hx. apply in_app_or in Hx. destruct Hx as [Hx|[<-|[]]]; auto.
Qed.

(* ---- one level ---- *)
Lemma fold_visit_rt_mono F : forall s x, rt s x = true -> rt (fold_left visit F s) x = true.
Proof. induction F as [|a F IH]; simpl; intros s x H; auto. apply IH. now apply visit_rt_mono. Qed.
Lemma fold_visit_cl_mono F : forall s x, In x (cl s) -> In x (cl (fold_left visit F s)).
Proof. induction F as [|a F IH]; simpl; intros s x H; auto. apply IH. now apply visit_cl_mono. Qed.
Lemma level_marks F : forall s u, In u F -> rt s u = true \/ bad u = true ->
  In u (cl (fold_left visit F s)) /\ forall v, In v (succs u) -> rt (fold_left visit F s) v = true.
Proof.
  induction F as [|a F IH]; simpl; intros s u Hin H; [contradiction|]. destruct Hin as [->|Hin].
  - destruct (visit_marks s u H) as [H1 H2]. split.
    + now apply fold_visit_cl_mono.
    + intros v Hv. apply fold_visit_rt_mono. auto.
  - apply IH; auto. destruct H as [H|H]; auto. left. now apply visit_rt_mono.
Qed.
Lemma level_sound F : forall s, (forall x, rt s x = true -> Good x) -> (forall x, In x (cl s) -> Good x) ->
  (forall x, rt (fold_left visit F s) x = true -> Good x) /\ (forall x, In x (cl (fold_left visit F s)) -> Good x).
Proof.
  induction F as [|a F IH]; simpl; intros s Hr Hc; auto.
  destruct (visit_sound s a Hr Hc) as [Hr' Hc']. now apply IH.
Qed.

(* ---- the loop ---- *)
Lemma loop_cons fuel s a F : loop (S fuel) s (a :: F) = loop fuel (fold_left visit (a :: F) s) (nextF (a :: F)).
Proof. reflexivity. Qed.
Lemma loop_nil fuel s : loop fuel s [] = Some s.
Proof. destruct fuel; reflexivity. Qed.
Lemma loop_0 s a F : loop 0 s (a :: F) = None.
Proof. reflexivity. Qed.
Lemma loop_mono fuel : forall s F s', loop fuel s F = Some s' ->
  (forall x, rt s x = true -> rt s' x = true) /\ (forall x, In x (cl s) -> In x (cl s')).
Proof.
  induction fuel as [|fuel IH]; intros s F s' H.
  - destruct F; [rewrite loop_nil in H; injection H as <-; auto|rewrite loop_0 in H; discriminate].
  - destruct F as [|a F]; [rewrite loop_nil in H; injection H as <-; auto|rewrite loop_cons in H].
    apply IH in H. destruct H as [H1 H2]. split; intros x Hx.
    + apply H1. apply (fold_visit_rt_mono (a :: F)). exact Hx.
    + apply H2. apply (fold_visit_cl_mono (a :: F)). exact Hx.
Qed.
Lemma loop_sound fuel : forall s F s', loop fuel s F = Some s' ->
  (forall x, rt s x = true -> Good x) -> (forall x, In x (cl s) -> Good x) -> forall x, In x (cl s') -> Good x.
Proof.
  induction fuel as [|fuel IH]; intros s F s' H Hr Hc.
  - destruct F; [rewrite loop_nil in H; injection H as <-; auto|rewrite loop_0 in H; discriminate].
  - destruct F as [|a F]; [rewrite loop_nil in H; injection H as <-; auto|rewrite loop_cons in H].
    destruct (level_sound (a :: F) s Hr Hc) as [Hr' Hc']. eapply IH; eauto.
Qed.
(* a node visited while marked or bad drags its whole cone in *)
Lemma loop_cone fuel : forall s F s', loop fuel s F = Some s' ->
  forall x u, clos_refl_trans_1n nat edge x u -> In x F -> rt s x = true \/ bad x = true -> In u (cl s').
Proof.
  induction fuel as [|fuel IH]; intros s F s' H x u Hp Hin Hm.
  - destruct F; [contradiction|rewrite loop_0 in H; discriminate].
  - destruct F as [|a F]; [contradiction|]. rewrite loop_cons in H.
    destruct (level_marks (a :: F) s x Hin Hm) as [Hc Hs].
    inversion Hp as [|y ? He Hp']; subst.
    + apply (proj2 (loop_mono _ _ _ _ H)). exact Hc.
    + apply (IH _ _ _ H y u Hp').
      * unfold next_frontier. apply in_flat_map. exists x. split; auto. now apply succs_edge.
      * left. apply Hs. now apply succs_edge.
Qed.

(* ---- frontiers ---- *)
Fixpoint iter (k : nat) (F : list nat) : list nat := match k with 0 => F | S k' => iter k' (nextF F) end.
Lemma iter_succ k : forall F, iter (S k) F = nextF (iter k F).
Proof. induction k as [|k IH]; intros F; [reflexivity|]. change (iter (S (S k)) F) with (iter (S k) (nextF F)). rewrite IH. reflexivity. Qed.

Lemma loop_reaches fuel : forall k s F s', loop fuel s F = Some s' ->
  forall x u, In x (iter k F) -> bad x = true -> clos_refl_trans_1n nat edge x u -> In u (cl s').
Proof.
  induction fuel as [|fuel IH]; intros k s F s' H x u Hin Hb Hp.
  - destruct F as [|a F]; [|rewrite loop_0 in H; discriminate].
    exfalso. clear -Hin. revert Hin. induction k as [|k IHk]; simpl; auto.
  - destruct k as [|k].
    + simpl in Hin. eapply loop_cone; eauto.
    + destruct F as [|a F].
      * exfalso. clear -Hin. assert (forall j, iter j [] = [] :> list nat) as Hn by (induction j; simpl; auto).
        rewrite Hn in Hin. contradiction.
      * rewrite loop_cons in H. eapply (IH k); eauto.
Qed.

(* walks: an element of the k-th frontier ends a chain of k+1 nodes *)
Notation chain := (chain E).
Lemma src_lt x : In x sources -> x < n.
Proof. unfold Retry.sources. rewrite filter_In, in_seq. lia. Qed.
Lemma walk k : forall v, In v (iter k sources) ->
  exists l, length l = S k /\ hd_error l = Some v /\ chain l /\ Forall (fun x => x < n) l.
Proof.
  induction k as [|k IH]; intros v Hv.
  - simpl in Hv. exists [v]. simpl. repeat split; auto. constructor; auto. now apply src_lt.
  - rewrite iter_succ in Hv. unfold next_frontier in Hv. apply in_flat_map in Hv. destruct Hv as (u & Hu & Hv).
    apply succs_edge in Hv. destruct (IH u Hu) as (l & Hl & Hh & Hc & Hf).
    destruct l as [|u' l]; [discriminate|]. simpl in Hh. injection Hh as ->.
    exists (v :: u :: l). simpl. simpl in Hl. repeat split; auto.
    constructor; auto. apply wfE in Hv. tauto.
Qed.
Lemma frontier_n_empty : iter n sources = [].
Proof.
  destruct (iter n sources) as [|v F] eqn:HF; auto. exfalso.
  destruct (walk n v) as (l & Hl & _ & Hc & Hf); [rewrite HF; simpl; auto|].
  assert (Hnn : ~ NoDup l).
  { intros Hnd. assert (length l <= n); [|lia]. apply (NoDup_bounded_length n); auto.
    rewrite Forall_forall in Hf. auto. }
  destruct (not_NoDup_split l Hnn) as (a & l1 & l2 & l3 & ->).
  apply chain_app_r in Hc. apply (acyc a). eapply chain_clos; eauto.
Qed.
Lemma iter_nil j : iter j [] = [].
Proof. induction j; simpl; auto. Qed.
Lemma iter_add j : forall k F, iter (j + k) F = iter j (iter k F).
Proof. induction k as [|k IH]; intros F; [now rewrite Nat.add_0_r|]. rewrite Nat.add_succ_r. simpl. apply IH. Qed.
Lemma frontier_ge_empty k : n <= k -> iter k sources = [].
Proof. intros H. replace k with ((k - n) + n) by lia. rewrite iter_add, frontier_n_empty. apply iter_nil. Qed.

(* enough fuel *)
Lemma loop_fuel : forall fuel k s, n + 1 <= fuel + k -> exists s', loop fuel s (iter k sources) = Some s'.
Proof.
  induction fuel as [|fuel IH]; intros k s H.
  - rewrite frontier_ge_empty by lia. exists s. reflexivity.
  - destruct (iter k sources) as [|a F] eqn:HF; [exists s; reflexivity|].
    rewrite loop_cons. rewrite <- HF, <- iter_succ.
    apply IH. lia.
Qed.

(* every node sits on some frontier *)
Definition reachedb (v : nat) : bool := existsb (fun k => memb v (iter k sources)) (seq 0 (S n)).
Lemma reachedb_true v : reachedb v = true <-> exists k, In v (iter k sources).
Proof.
  unfold reachedb. rewrite existsb_exists. split.
  - intros (k & _ & Hk). exists k. now apply memb_In.
  - intros (k & Hk). exists k. split; [|now apply memb_In]. apply in_seq.
    destruct (Nat.lt_ge_cases k n); [lia|]. rewrite frontier_ge_empty in Hk by lia. contradiction.
Qed.
Lemma indeg_pos_pred v : indeg E v <> 0 -> exists w, edge w v.
Proof.
  unfold Kahn.indeg. destruct (filter (fun e => snd e =? v) E) as [|[w v'] l] eqn:Hf; [simpl; lia|]. intros _.
  assert (Hin : In (w, v') (filter (fun e => snd e =? v) E)) by (rewrite Hf; simpl; auto).
  apply filter_In in Hin. destruct Hin as [Hin Hv]. simpl in Hv. apply Nat.eqb_eq in Hv. subst. now exists w.
Qed.
Lemma all_reached v : v < n -> exists k, In v (iter k sources).
Proof.
  intros Hv. apply reachedb_true. destruct (reachedb v) eqn:Hr; auto. exfalso.
  destruct (pred_closed_cycle n E (fun v => v < n /\ reachedb v = false)) with (v := v) as (a & Ha); auto.
  - tauto.
  - intros y [Hy Hry]. destruct (Nat.eq_dec (indeg E y) 0) as [H0|H0].
    + exfalso. assert (reachedb y = true); [|congruence]. apply reachedb_true. exists 0. simpl.
      unfold Retry.sources. apply filter_In. split; [apply in_seq; lia|now apply Nat.eqb_eq].
    + destruct (indeg_pos_pred y H0) as (w & He). exists w. split; auto. split; [apply wfE in He; tauto|].
      destruct (reachedb w) eqn:Hw; auto. exfalso. apply reachedb_true in Hw. destruct Hw as (k & Hk).
      assert (reachedb y = true); [|congruence]. apply reachedb_true. exists (S k). rewrite iter_succ.
      unfold next_frontier. apply in_flat_map. exists w. split; auto. now apply succs_edge.
  - exact (acyc a Ha).
Qed.

(* ---- the theorem ---- *)
Theorem setup_retry_spec :
  exists cleared, setup_retry n E st = Some cleared /\
    forall u, In u cleared <-> u < n /\ exists w, w < n /\ bad w = true /\ clos_refl_trans nat edge w u.
Proof.
  unfold setup_retry. destruct (loop_fuel (S n) 0 (rinit)) as (s' & Hl); [lia|]. change (iter 0 sources) with sources in Hl. rewrite Hl.
  eexists. split; [reflexivity|]. intros u. rewrite filter_In, in_seq, memb_In. split.
  - intros [Hu Hc]. split; [lia|].
    destruct (loop_sound _ _ _ _ Hl) with (x := u) as (w & Hw & Hp); simpl; auto; try discriminate; try contradiction.
    exists w. split; auto.
    apply clos_rt_rt1n in Hp. inversion Hp as [|y ? He _]; subst; [lia|apply wfE in He; tauto].
  - intros [Hu (w & Hw & Hb & Hp)]. split; [lia|].
    destruct (all_reached w Hw) as (k & Hk).
    eapply (loop_reaches _ k _ _ _ Hl w u); auto. now apply clos_rt_rt1n.
Qed.

End RetryProof.

(* non-vacuity: a diamond whose left branch failed: the failed node and its dependent are cleared *)
Example retry_diamond :
  setup_retry 4 [(0,1);(0,2);(1,3);(2,3)] (fun i => nth i [4;2;4;4] 0) = Some [1;3].
Proof. vm_compute. reflexivity. Qed.
Example retry_diamond_premises :
  (forall u v, In (u, v) [(0,1);(0,2);(1,3);(2,3)] -> u < 4 /\ v < 4) /\ has_cycle 4 [(0,1);(0,2);(1,3);(2,3)] = false.
Proof. split; [|reflexivity]. simpl. intros u v H. repeat (destruct H as [H|H]; [injection H as <- <-; lia|]). contradiction. Qed.

(* F10a (repaired by the fix commit in /repo): a node recorded *running* - left by a killed process - is
   reset like a failed one, together with its dependents. *)
Example running_is_reset :
  setup_retry 3 [(0,1);(1,2)] (fun i => nth i [4;1;0] 0) = Some [1;2].
Proof. vm_compute. reflexivity. Qed.
