(* Calibration prototype for C14: the Kahn-style elimination of graph.go:230-264 decides acyclicity. *)
From Coq Require Import List Arith Bool Lia PeanoNat Relations.
Import ListNotations.

Section Kahn.
Variable n : nat.
Variable E : list (nat * nat).           (* (u,v): u is a dependency of v, edge u -> v; with multiplicity *)
Hypothesis wfE : forall u v, In (u, v) E -> u < n /\ v < n.

Definition memb (x : nat) (l : list nat) : bool := existsb (Nat.eqb x) l.
Lemma memb_In x l : memb x l = true <-> In x l.
Proof. unfold memb. rewrite existsb_exists. split.
  - intros [y [Hy He]]. apply Nat.eqb_eq in He. now subst.
  - intros H. exists x. split; auto. apply Nat.eqb_refl. Qed.
Lemma memb_nIn x l : memb x l = false <-> ~ In x l.
Proof. rewrite <- memb_In. destruct (memb x l); split; congruence. Qed.

Definition succs (u : nat) : list nat := map snd (filter (fun e => fst e =? u) E).
Definition indeg (v : nat) : nat := length (filter (fun e => snd e =? v) E).
(* number of edges into v whose source is not in R *)
Definition cnt (R : list nat) (v : nat) : nat :=
  length (filter (fun e => (snd e =? v) && negb (memb (fst e) R)) E).

Definition upd (f : nat -> nat) (v x : nat) : nat -> nat := fun y => if y =? v then x else f y.

(* inner loop: for to in from[f] { deg[to]--; if deg[to]==0 { q = append(q,to) } } *)
Fixpoint dec_list (deg : nat -> nat) (vs acc : list nat) : (nat -> nat) * list nat :=
  match vs with
  | [] => (deg, acc)
  | v :: vs' =>
      let d := deg v in
      let deg' := upd deg v (pred d) in
      if d =? 1 then dec_list deg' vs' (acc ++ [v]) else dec_list deg' vs' acc
  end.

Fixpoint kahn (fuel : nat) (deg : nat -> nat) (q : list nat) : option (nat -> nat) :=
  match q with
  | [] => Some deg
  | u :: q' =>
      match fuel with
      | 0 => None
      | S f => let '(deg', nq) := dec_list deg (succs u) [] in kahn f deg' (q' ++ nq)
      end
  end.

Definition nodes := seq 0 n.
Definition has_cycle : bool :=
  match kahn (S n) indeg (filter (fun v => indeg v =? 0) nodes) with
  | Some deg => existsb (fun v => 0 <? deg v) nodes
  | None => true
  end.

Definition edge (u v : nat) : Prop := In (u, v) E.
Definition acyclic : Prop := forall x, ~ clos_trans_1n nat edge x x.

End Kahn.
