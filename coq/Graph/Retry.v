(* setupRetry (graph.go:178-210): which recorded node states a retry clears.  Model only.
   Level-by-level walk from the steps without `depends`; a node is cleared when it is visited while
   already marked or recorded failed(2)/canceled(3)/running(1 - left by a killed process; since the repair of
   finding F10a); marks flow to its dependents; every dependent is
   enqueued for the next level (once per edge, so a node is visited once per path from a source). *)
From Coq Require Import List Arith Bool PeanoNat.
Import ListNotations.
From BD.Graph Require Import Kahn.

Section Retry.
Variable n : nat.
Variable E : list (nat * nat).          (* (u,v): u is a dependency of v *)
Variable st : nat -> nat.               (* recorded NodeStatus: 0 none 1 running 2 error 3 cancel 4 success 5 skipped *)

Definition bad (u : nat) : bool := (st u =? 2) || (st u =? 3) || (st u =? 1).
Definition setb (f : nat -> bool) (v : nat) : nat -> bool := fun y => if y =? v then true else f y.

Record rstate := { rt : nat -> bool;       (* retry[] *)
                   cl : list nat }.        (* clearState() calls, in order *)

Definition visit (s : rstate) (u : nat) : rstate :=
  if rt s u || bad u
  then {| rt := fold_left setb (succs E u) (setb (rt s) u); cl := cl s ++ [u] |}
  else s.

Definition next_frontier (F : list nat) : list nat := flat_map (succs E) F.

Fixpoint loop (fuel : nat) (s : rstate) (F : list nat) : option rstate :=
  match F with
  | [] => Some s
  | _ :: _ => match fuel with
              | 0 => None
              | S f => loop f (fold_left visit F s) (next_frontier F)
              end
  end.

Definition sources : list nat := filter (fun v => indeg E v =? 0) (seq 0 n).
Definition rinit : rstate := {| rt := fun _ => false; cl := [] |}.

(* the set of cleared nodes, as a sorted list of indices; None = out of fuel (unreachable on acyclic graphs) *)
Definition setup_retry : option (list nat) :=
  match loop (S n) rinit sources with
  | Some s => Some (filter (fun v => memb v (cl s)) (seq 0 n))
  | None => None
  end.
End Retry.
