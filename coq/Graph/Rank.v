(* Link between C14 (admission) and the step-scheduler model: a graph that passes the cycle check has a rank function
   that strictly decreases along dependency edges - the premise `wf_deps` of the scheduler's progress theorems
   (Sched/ProofsTerm.v) - so every accepted DAG satisfies it. *)
From Coq Require Import List Arith Bool Lia PeanoNat Relations.
Import ListNotations.
From BD.Graph Require Import Kahn KahnLemmas KahnProof.

Section Rank.
Variable n : nat.
Variable E : list (nat * nat).
Hypothesis wfE : forall u v, In (u, v) E -> u < n /\ v < n.

Notation edge := (edge E).

(* the elimination order of an acyclic graph: every node, each once, predecessors later in the list *)
Lemma topo_order : has_cycle n E = false ->
  exists R, NoDup R /\ topo E R /\ forall v, v < n -> In v R.
Proof.
  unfold has_cycle.
  destruct (kahn_spec n E wfE (S n) [] (indeg E) _ (inv_init n E)) as (R & deg & Hk & HI); [simpl; lia|].
  rewrite Hk. destruct HI as (Hnd & Hb & Hdeg & Hz & Ht). rewrite app_nil_r in *.
  intros Hex. exists R. split; [exact Hnd|]. split; [exact Ht|].
  intros v Hv. apply Hz; auto. rewrite <- Hdeg.
  destruct (deg v) eqn:Hd; auto. exfalso.
  assert (existsb (fun v => 0 <? deg v) (nodes n) = true); [|congruence].
  apply existsb_exists. exists v. split; [apply in_seq; lia|]. rewrite Hd. reflexivity.
Qed.

(* rank = number of nodes eliminated before it (= length of the tail behind it in the order) *)
Fixpoint rank_in (R : list nat) (x : nat) : nat :=
  match R with
  | [] => 0
  | u :: R0 => if Nat.eqb u x then length R0 else rank_in R0 x
  end.
Lemma rank_in_lt R x : In x R -> rank_in R x < length R.
Proof.
  induction R as [|u R0 IH]; simpl; intros H; [contradiction|].
  destruct (Nat.eqb_spec u x) as [->|Hne]; [lia|].
  destruct H as [H|H]; [congruence|]. specialize (IH H). lia.
Qed.
Lemma rank_in_edge R : NoDup R -> topo E R -> forall w v, In v R -> edge w v -> rank_in R w < rank_in R v.
Proof.
  induction R as [|u R0 IH]; simpl; intros Hnd Ht w v Hv He; [contradiction|].
  destruct Ht as [Hp Ht]. inversion Hnd as [|? ? HuR Hnd0]; subst.
  destruct (Nat.eqb_spec u v) as [->|Hne].
  - (* v is the head: w is one of its predecessors, hence in the tail *)
    pose proof (Hp w He) as Hw.
    destruct (Nat.eqb_spec v w) as [->|Hvw]; [contradiction|].
    now apply rank_in_lt.
  - destruct Hv as [Hv|Hv]; [congruence|].
    pose proof (topo_pred E R0 Ht v w Hv He) as Hw.
    destruct (Nat.eqb_spec u w) as [->|Huw]; [contradiction|].
    now apply IH.
Qed.

Theorem acyclic_rank : has_cycle n E = false ->
  exists rk : nat -> nat, forall w v, edge w v -> rk w < rk v.
Proof.
  intros Hc. destruct (topo_order Hc) as (R & Hnd & Ht & Hall).
  exists (rank_in R). intros w v He. apply rank_in_edge; auto.
  apply Hall. apply wfE in He. tauto.
Qed.
End Rank.
