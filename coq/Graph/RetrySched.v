(* C10, execution part: the step scheduler (Sched/Model.v) started from the table a retry hands it - the recorded
   table after setupRetry, in which every step that is not recorded finished/skipped has been reset or was never
   started - instead of from `init`.  Lifts the Sched invariant and measure (Sched/ProofsRetry.v). *)
From Coq Require Import List Arith Lia.
Import ListNotations.
From BD.Sched Require Import Model Proofs ProofsTerm ProofsRetry.

Section RetrySched.
Variable c : cfg.
Hypothesis Hnorep : norepeat c.
Variable tbl : nat -> nstatus.          (* the table after the reset: finished / skipped are kept, everything else runs afresh *)
Hypothesis Hcons : tbl_consistent c tbl.

(* A step whose recorded result is kept (finished or skipped and not reset) keeps it through every execution of the
   retry and its command is never started. *)
Lemma retry_keeps j ls s : tbl j = NSuccess \/ tbl j = NSkipped ->
  run c (init_from c tbl) ls = Some s -> kept s j /\ ~ In (WExecStart j) ls.
Proof.
  intros Hj Hr. eapply executes_only_reset; eauto.
  - apply inv_init_from; assumption.
  - apply kept_init_from; assumption.
Qed.

(* Contrapositive: a command that starts in the retry belongs to a step of the unfinished part. *)
Lemma retry_executes_only_unfinished j ls s : run c (init_from c tbl) ls = Some s -> In (WExecStart j) ls ->
  tbl j <> NSuccess /\ tbl j <> NSkipped.
Proof.
  intros Hr Hin. split; intros H; eapply (proj2 (retry_keeps j ls s (ltac:(tauto)) Hr)); exact Hin.
Qed.

(* Every execution of the retry is finite (bounded by the measure of its start state): it always terminates. *)
Lemma retry_finite ls s : run c (init_from c tbl) ls = Some s -> length ls <= measure c (init_from c tbl).
Proof. intros Hr. eapply finite_from; eauto. apply inv_init_from; assumption. Qed.
End RetrySched.

(* non-vacuity: the diamond a -> {b, c} -> d of Sched/Examples.v, recorded with b failed (b and d reset): the retry
   executes b and d once each, a and c keep their results untouched, and the run reaches Done. *)
From BD.Sched Require Import Examples.
Definition retry_tbl (i : nat) : nstatus := match i with 0 => NSuccess | 2 => NSuccess | _ => NNone end.
Definition retry_ls : list label :=
  launch 1 ++ [WExecEnd 1 true; WAfter 1 false; WFinish 1] ++ launch 3 ++
  [WExecEnd 3 true; WAfter 3 false; WFinish 3; LExit; HBegin; HFinish].
Lemma retry_example_consistent : tbl_consistent diamond retry_tbl /\ norepeat diamond.
Proof.
  split; [|exact (proj2 diamond_ok)].
  intros i Hi d Hd. destruct i as [|[|[|[|i]]]]; cbn in Hi; try discriminate; cbn in Hd.
  - contradiction.
  - destruct Hd as [<-|[]]. left. reflexivity.
Qed.
Definition retry_obs : option (lpc * list (nstatus * nat)) :=
  match run diamond (init_from diamond retry_tbl) retry_ls with
  | Some s => Some (pc s, map (fun i => (st (nd s i), att (nd s i))) [0;1;2;3])
  | None => None
  end.
Lemma retry_example_run :
  retry_obs = Some (LDone, [(NSuccess, 0); (NSuccess, 1); (NSuccess, 0); (NSuccess, 1)]).
Proof. vm_compute. reflexivity. Qed.
