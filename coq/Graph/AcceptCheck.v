(* Entry point of the C14 correspondence: cases written by the harness are (steps, verdict code of the
   real NewExecutionGraph); `mismatches` returns the indices where the model's verdict differs. *)
From Coq Require Import List Arith Bool String.
Import ListNotations.
From BD.Graph Require Import Kahn Accept.

Definition mk (n : string) (ds : list string) := {| gname := n; gdeps := ds |}.

Fixpoint mismatches_from (k : nat) (cs : list (list gstep * nat)) : list (nat * nat) :=
  match cs with
  | [] => []
  | (ss, v) :: cs' =>
      let m := verdict_code (gaccept ss) in
      if Nat.eqb m v then mismatches_from (S k) cs' else (k, m) :: mismatches_from (S k) cs'
  end.
Definition mismatches := mismatches_from 0.
