(* Entry point of the C14 correspondence: cases written by the harness are (steps, verdict code of the
   real NewExecutionGraph); `mismatches` returns the indices where the model's verdict differs. *)
From Coq Require Import List Arith Bool String.
Import ListNotations.
From BD.Graph Require Import Kahn Accept.

Definition mk (n : string) (ds : list string) := {| gname := n; gdeps := ds |}.

Fixpoint mismatches_from (k : nat) (cs : list (list gstep * nat)) : list (nat * nat) :=
  match cs with
  | [] => []
  | (ss, v) :: cs' =>
      let m := verdict_code (gaccept ss) in
      if Nat.eqb m v then mismatches_from (S k) cs' else (k, m) :: mismatches_from (S k) cs'
  end.
Definition mismatches := mismatches_from 0.

(* ---- compact sweeps: the graph of an edge mask is built in Gallina (the same enumeration as the driver's
   fromMask: for i, for j (i<>j unless loops): bit k set <=> step i depends on step j), so that a whole
   block of 2^16 graphs costs one number list in the cases file. ---- *)
From Coq Require Import NArith Ascii.
Definition sname (i : nat) : string := String "s" (String (ascii_of_nat (48 + i)) EmptyString).

Fixpoint deps_row (n i j : nat) (loops : bool) (m : N) (fuel : nat) : list string * N :=
  match fuel with
  | O => ([], m)
  | S f =>
      if Nat.eqb j n then ([], m)
      else if Nat.eqb i j && negb loops then deps_row n i (S j) loops m f
      else let '(ds, m') := deps_row n i (S j) loops (N.div2 m) f in
           (if N.odd m then sname j :: ds else ds, m')
  end.
Fixpoint mask_rows (n i : nat) (loops : bool) (m : N) (fuel : nat) : list gstep :=
  match fuel with
  | O => []
  | S f => if Nat.eqb i n then []
           else let '(ds, m') := deps_row n i 0 loops m (S n) in
                mk (sname i) ds :: mask_rows n (S i) loops m' f
  end.
Definition mask_graph (n : nat) (loops : bool) (m : N) : list gstep := mask_rows n 0 loops m (S n).

Fixpoint sweep_from (n : nat) (loops : bool) (m : N) (obs : list nat) : list (N * nat) :=
  match obs with
  | [] => []
  | v :: obs' =>
      let mv := verdict_code (gaccept (mask_graph n loops m)) in
      if Nat.eqb mv v then sweep_from n loops (N.succ m) obs' else (m, mv) :: sweep_from n loops (N.succ m) obs'
  end.
