(* Graph admission (graph.go:212-283): name resolution (findStep/addEdge) followed by the Kahn
   cycle check.  Model only; the theorem is in AcceptProof.v. *)
From Coq Require Import List Arith Bool PeanoNat String.
Import ListNotations.
From BD.Graph Require Import Kahn.

Record gstep := { gname : string; gdeps : list string }.

(* findStep: the step so named (names are distinct by the property's premise, so the Go map
   iteration order does not matter; the model takes the first). *)
Fixpoint index_of (ss : list gstep) (nm : string) : option nat :=
  match ss with
  | [] => None
  | s :: ss' => if String.eqb (gname s) nm then Some 0
                else match index_of ss' nm with Some k => Some (S k) | None => None end
  end.

(* setup: for node in nodes { for dep in node.Depends { findStep(dep) or fail; addEdge(dep,node) } } *)
Fixpoint dep_edges (all : list gstep) (i : nat) (ds : list string) : option (list (nat * nat)) :=
  match ds with
  | [] => Some []
  | d :: ds' =>
      match index_of all d with
      | None => None
      | Some j => match dep_edges all i ds' with Some E => Some ((j, i) :: E) | None => None end
      end
  end.

Fixpoint edges_from (all : list gstep) (i : nat) (ss : list gstep) : option (list (nat * nat)) :=
  match ss with
  | [] => Some []
  | s :: ss' =>
      match dep_edges all i (gdeps s) with
      | None => None
      | Some E1 => match edges_from all (S i) ss' with Some E2 => Some (E1 ++ E2) | None => None end
      end
  end.

Definition edges (ss : list gstep) : option (list (nat * nat)) := edges_from ss 0 ss.

Inductive verdict := VOk | VMissing | VCycle.

Definition gaccept (ss : list gstep) : verdict :=
  match edges ss with
  | None => VMissing
  | Some E => if has_cycle (List.length ss) E then VCycle else VOk
  end.

Definition verdict_code (v : verdict) : nat := match v with VOk => 0 | VMissing => 1 | VCycle => 2 end.
