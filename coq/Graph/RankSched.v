(* Every DAG that passes graph admission (C14: names resolve, Kahn check finds no cycle) satisfies the premise
   `wf_deps` of the step scheduler's progress theorems (C15_progress, C15_can_complete, C05_can_complete). *)
From Coq Require Import List Arith Bool Lia PeanoNat.
Import ListNotations.
From BD.Graph Require Import Kahn KahnLemmas KahnProof Rank.
From BD.Sched Require Import Model Proofs ProofsTerm.

Definition cfg_edges (c : cfg) : list (nat * nat) :=
  flat_map (fun i => map (fun d => (d, i)) (deps (steps c i))) (seq 0 (nsteps c)).

Lemma cfg_edges_in c d i : In (d, i) (cfg_edges c) <-> i < nsteps c /\ In d (deps (steps c i)).
Proof.
  unfold cfg_edges. rewrite in_flat_map. split.
  - intros (j & Hj & Hin). apply in_seq in Hj. apply in_map_iff in Hin. destruct Hin as (d' & Heq & Hd).
    injection Heq as <- <-. split; [lia|exact Hd].
  - intros [Hi Hd]. exists i. split; [apply in_seq; lia|]. apply in_map_iff. exists d. auto.
Qed.

Theorem accepted_graph_wf_deps (c : cfg) :
  (forall i d, i < nsteps c -> In d (deps (steps c i)) -> d < nsteps c) ->     (* every depends entry resolves *)
  has_cycle (nsteps c) (cfg_edges c) = false ->                                  (* the code's cycle check passes *)
  wf_deps c.
Proof.
  intros Hres Hc.
  assert (HwfE : forall u v, In (u, v) (cfg_edges c) -> u < nsteps c /\ v < nsteps c).
  { intros u v H. apply cfg_edges_in in H. destruct H as [Hv Hu]. split; [eapply Hres; eauto|exact Hv]. }
  destruct (acyclic_rank (nsteps c) (cfg_edges c) HwfE Hc) as (rk & Hrk).
  exists rk. intros i d Hi Hd. split; [eapply Hres; eauto|].
  apply Hrk. unfold edge. apply cfg_edges_in. auto.
Qed.

(* non-vacuity: the diamond of Sched/Examples.v *)
From BD.Sched Require Import Examples.
Example diamond_accepted : has_cycle (nsteps diamond) (cfg_edges diamond) = false /\
  (forall i d, i < nsteps diamond -> In d (deps (steps diamond i)) -> d < nsteps diamond).
Proof.
  split; [vm_compute; reflexivity|].
  intros i d Hi Hd. change (nsteps diamond) with 4 in *.
  destruct i as [|[|[|[|i]]]]; cbn in Hd; try lia; intuition lia.
Qed.

(* ... hence every run of an accepted DAG can be driven to completion from any reachable state, and is never stuck:
   the scheduler model needs no other guard against non-termination than graph admission (the property's remark
   "if a cyclic graph were accepted the run would never terminate"). *)
Theorem accepted_graph_completes (c : cfg) : norepeat c ->
  (forall i d, i < nsteps c -> In d (deps (steps c i)) -> d < nsteps c) ->
  has_cycle (nsteps c) (cfg_edges c) = false ->
  forall s, Reach c s -> exists ls s', run c s ls = Some s' /\ pc s' = LDone.
Proof. intros Hn Hres Hc s Hr. eapply can_complete; eauto. now apply accepted_graph_wf_deps. Qed.
