From Coq Require Import List Arith Bool Lia PeanoNat Relations Permutation Relation_Operators Operators_Properties.
Import ListNotations.
From BD.Graph Require Import Kahn KahnLemmas.

Section Main.
Variable n : nat.
Variable E : list (nat * nat).
Hypothesis wfE : forall u v, In (u, v) E -> u < n /\ v < n.

Notation succs := (succs E).
Notation indeg := (indeg E).
Notation cnt := (cnt E).
Notation edge := (edge E).
Notation mult := (mult E).

Fixpoint topo (R : list nat) : Prop :=
  match R with [] => True | u :: R0 => (forall w, edge w u -> In w R0) /\ topo R0 end.

Definition Inv (R : list nat) (deg : nat -> nat) (q : list nat) : Prop :=
  NoDup (R ++ q) /\ (forall x, In x (R ++ q) -> x < n) /\ (forall v, deg v = cnt R v)
  /\ (forall v, v < n -> (cnt R v = 0 <-> In v (R ++ q))) /\ topo R.

Lemma NoDup_app_intro (l1 l2 : list nat) :
  NoDup l1 -> NoDup l2 -> (forall x, In x l1 -> ~ In x l2) -> NoDup (l1 ++ l2).
Proof.
  induction l1 as [|a l1 IH]; simpl; intros H1 H2 Hd; auto.
  inversion H1; subst. constructor.
  - rewrite in_app_iff. intros [?|?]; [auto|]. eapply Hd; eauto.
  - apply IH; auto.
Qed.

Lemma step_inv R deg u q :
  Inv R deg (u :: q) ->
  exists deg' nq, dec_list deg (succs u) [] = (deg', nq) /\ Inv (u :: R) deg' (q ++ nq).
Proof.
  intros (Hnd & Hb & Hdeg & Hz & Ht).
  assert (HuR : ~ In u R).
  { intros Hin. apply NoDup_remove_2 in Hnd. apply Hnd. apply in_or_app. now left. }
  assert (Hle : forall w, count_occ Nat.eq_dec (succs u) w <= deg w).
  { intros w. rewrite Hdeg, (cnt_pop E R u w HuR). unfold KahnLemmas.mult. lia. }
  destruct (dec_list_spec (succs u) deg [] Hle) as (deg' & zs & Heq & Hd & Hndz & Hzs).
  exists deg', zs. split; [exact Heq|].
  assert (Hun : u < n) by (apply Hb, in_or_app; right; left; auto).
  assert (Hcnt' : forall v, cnt (u :: R) v = cnt R v - mult u v).
  { intros v. rewrite (cnt_pop E R u v HuR). lia. }
  assert (Hzs' : forall z, In z zs -> z < n /\ cnt R z <> 0 /\ cnt (u :: R) z = 0).
  { intros z Hin. apply Hzs in Hin. destruct Hin as [Hin Hdz].
    assert (mult u z <> 0) by (apply mult_pos_In; auto).
    split; [|split].
    - apply succs_edge in Hin. apply wfE in Hin. tauto.
    - rewrite <- Hdeg, Hdz. exact H.
    - rewrite Hcnt', <- Hdeg, Hdz. unfold KahnLemmas.mult. lia. }
  assert (Hperm : Permutation ((u :: R) ++ q ++ zs) ((R ++ u :: q) ++ zs)).
  { rewrite <- app_assoc. simpl. apply Permutation_middle. }
  split; [|split; [|split; [|split]]].
  - eapply Permutation_NoDup; [symmetry; exact Hperm|].
    apply NoDup_app_intro; auto.
    intros x Hx Hxz. destruct (Hzs' x Hxz) as (Hxn & Hc & _). apply Hc. apply Hz; auto.
  - intros x Hx. apply (Permutation_in _ Hperm) in Hx. apply in_app_or in Hx. destruct Hx as [Hx|Hx]; auto.
    now apply Hzs'.
  - intros v. rewrite Hd, Hcnt', Hdeg. reflexivity.
  - intros v Hv. split.
    + intros H0. apply (Permutation_in _ (Permutation_sym Hperm)). apply in_or_app.
      destruct (Nat.eq_dec (cnt R v) 0) as [Hc|Hc].
      * left. apply Hz; auto.
      * right. apply Hzs. rewrite Hcnt' in H0.
        assert (mult u v <> 0) by lia. split.
        -- now apply mult_pos_In.
        -- rewrite Hdeg. pose proof (cnt_pop E R u v HuR). unfold KahnLemmas.mult in *. lia.
    + intros Hin. apply (Permutation_in _ Hperm) in Hin. apply in_app_or in Hin. destruct Hin as [Hin|Hin].
      * apply Hz in Hin; auto. rewrite Hcnt'. lia.
      * now apply Hzs'.
  - simpl. split; auto. intros w Hw. apply (cnt_zero_preds E R u); auto.
    apply Hz; auto. apply in_or_app. right. now left.
Qed.

Lemma NoDup_bounded_length (l : list nat) : NoDup l -> (forall x, In x l -> x < n) -> length l <= n.
Proof.
  intros Hnd Hb. rewrite <- (seq_length n 0). apply NoDup_incl_length; auto.
  intros x Hx. apply in_seq. specialize (Hb x Hx). lia.
Qed.

Lemma kahn_spec : forall fuel R deg q,
  Inv R deg q -> n + 1 <= fuel + length R ->
  exists R' deg', kahn E fuel deg q = Some deg' /\ Inv R' deg' [].
Proof.
  induction fuel as [|fuel IH]; intros R deg q HI Hf.
  - destruct q as [|u q]; [exists R, deg; split; auto|].
    exfalso. destruct HI as (Hnd & Hb & _). pose proof (NoDup_bounded_length _ Hnd Hb) as Hl.
    rewrite app_length in Hl. simpl in *. lia.
  - destruct q as [|u q]; [exists R, deg; split; auto|].
    cbn [kahn]. destruct (step_inv R deg u q HI) as (deg' & nq & Heq & HI'). rewrite Heq.
    apply (IH (u :: R)); auto. simpl. lia.
Qed.

Lemma inv_init : Inv [] indeg (filter (fun v => indeg v =? 0) (nodes n)).
Proof.
  unfold Inv, nodes. simpl. split; [|split; [|split; [|split]]]; auto.
  - apply NoDup_filter, seq_NoDup.
  - intros x Hx. apply filter_In in Hx. destruct Hx as [Hx _]. apply in_seq in Hx. lia.
  - intros v. now rewrite cnt_nil.
  - intros v Hv. rewrite cnt_nil, filter_In, in_seq, Nat.eqb_eq. intuition lia.
Qed.

(* ---- topological order => no cycle through its nodes ---- *)
Lemma topo_pred R : topo R -> forall v w, In v R -> edge w v -> In w R.
Proof.
  induction R as [|u R0 IH]; simpl; intros Ht v w Hv He; [contradiction|].
  destruct Ht as [Hp Ht]. destruct Hv as [->|Hv]; [right; now apply Hp|right; eapply IH; eauto].
Qed.

Lemma topo_anc R : topo R -> forall w v, clos_trans_1n nat edge w v -> In v R -> In w R.
Proof.
  intros Ht w v H. induction H as [w v He|w y v He Hc IH]; intros Hv.
  - exact (topo_pred R Ht v w Hv He).
  - exact (topo_pred R Ht y w (IH Hv) He).
Qed.

Lemma topo_acyc R : topo R -> NoDup R -> forall x, In x R -> ~ clos_trans_n1 nat edge x x.
Proof.
  induction R as [|u R0 IH]; simpl; intros Ht Hnd x Hx Hc; [contradiction|].
  destruct Ht as [Hp Ht]. inversion Hnd as [|? ? HuR Hnd0]; subst.
  destruct Hx as [->|Hx]; [|eapply IH; eauto].
  inversion Hc as [He|y ? He Hc']; subst.
  - apply HuR. now apply Hp.
  - apply HuR. apply (topo_anc R0 Ht x y); [|now apply Hp].
    now apply clos_trans_t1n_iff, clos_trans_tn1_iff.
Qed.

(* ---- a non-empty set in which everybody has a predecessor contains a cycle ---- *)
Fixpoint chain (l : list nat) : Prop :=
  match l with
  | a :: ((b :: _) as t) => edge b a /\ chain t
  | _ => True
  end.

Lemma chain_app_r l1 l2 : chain (l1 ++ l2) -> chain l2.
Proof.
  induction l1 as [|a l1 IH]; simpl; auto.
  destruct (l1 ++ l2) eqn:Heq; intros H.
  - destruct l2; [exact I|]. destruct l1; discriminate.
  - apply IH. tauto.
Qed.

Lemma chain_clos : forall m a b t, chain (a :: m ++ b :: t) -> clos_trans nat edge b a.
Proof.
  induction m as [|c m IH]; intros a b t H.
  - simpl in H. apply t_step. tauto.
  - simpl app in H. cbn [chain] in H. destruct H as [He Hc].
    eapply t_trans; [eapply IH; exact Hc|apply t_step; exact He].
Qed.

Lemma not_NoDup_split (l : list nat) : ~ NoDup l -> exists a l1 l2 l3, l = l1 ++ a :: l2 ++ a :: l3.
Proof.
  induction l as [|x l IH]; intros H; [exfalso; apply H; constructor|].
  destruct (in_dec Nat.eq_dec x l) as [Hin|Hnin].
  - apply in_split in Hin. destruct Hin as (l2 & l3 & ->). exists x, [], l2, l3. reflexivity.
  - destruct IH as (a & l1 & l2 & l3 & ->).
    + intros Hnd. apply H. constructor; auto.
    + exists a, (x :: l1), l2, l3. reflexivity.
Qed.

Section Cyc.
Variable C : nat -> Prop.
Hypothesis Cbound : forall v, C v -> v < n.
Hypothesis Cpred : forall v, C v -> exists w, edge w v /\ C w.

Lemma build_chain : forall k v, C v -> exists l, length l = S k /\ hd_error l = Some v /\ chain l /\ Forall C l.
Proof.
  induction k as [|k IH]; intros v Hv.
  - exists [v]. simpl. repeat split; auto.
  - destruct (Cpred v Hv) as (w & He & Hw). destruct (IH w Hw) as (l & Hl & Hh & Hc & Hf).
    destruct l as [|w' l]; [discriminate|]. simpl in Hh. injection Hh as ->.
    exists (v :: w :: l). simpl. simpl in Hl. repeat split; auto.
Qed.

Lemma pred_closed_cycle v : C v -> exists a, clos_trans nat edge a a.
Proof.
  intros Hv. destruct (build_chain n v Hv) as (l & Hl & _ & Hc & Hf).
  assert (Hnn : ~ NoDup l).
  { intros Hnd. assert (length l <= n); [|lia]. apply NoDup_bounded_length; auto.
    intros x Hx. apply Cbound. rewrite Forall_forall in Hf. auto. }
  destruct (not_NoDup_split l Hnn) as (a & l1 & l2 & l3 & ->).
  exists a. apply chain_app_r in Hc. eapply chain_clos; eauto.
Qed.
End Cyc.

(* ---- main theorem ---- *)
Definition acyclic' : Prop := forall x, ~ clos_trans nat edge x x.

Theorem has_cycle_correct : has_cycle n E = false <-> acyclic'.
Proof.
  unfold has_cycle.
  destruct (kahn_spec (S n) [] indeg _ inv_init) as (R & deg & Hk & HI); [simpl; lia|].
  rewrite Hk. destruct HI as (Hnd & Hb & Hdeg & Hz & Ht). rewrite app_nil_r in *.
  split.
  - intros Hex x Hc.
    assert (Hall : forall v, v < n -> In v R).
    { intros v Hv. apply Hz; auto. rewrite <- Hdeg.
      destruct (deg v) eqn:Hd; auto. exfalso.
      assert (existsb (fun v => 0 <? deg v) (nodes n) = true); [|congruence].
      apply existsb_exists. exists v. split; [apply in_seq; lia|]. rewrite Hd. reflexivity. }
    assert (Hx : x < n).
    { apply clos_trans_t1n in Hc. inversion Hc as [? He|? ? He _]; subst; apply wfE in He; tauto. }
    eapply (topo_acyc R Ht Hnd x (Hall x Hx)). now apply clos_trans_tn1_iff.
  - intros Hac. apply not_true_is_false. intros Hex. apply existsb_exists in Hex.
    destruct Hex as (v & Hv & Hpos). apply in_seq in Hv. apply Nat.ltb_lt in Hpos.
    destruct (pred_closed_cycle (fun v => v < n /\ ~ In v R)) with (v := v) as (a & Ha).
    + tauto.
    + intros y [Hy HyR]. destruct (cnt_pos_pred E R y) as (w & He & Hw).
      * intros H0. apply HyR. apply Hz; auto.
      * exists w. split; auto. split; auto. apply wfE in He. tauto.
    + split; [lia|]. intros Hin. apply Hz in Hin; [|lia]. rewrite <- Hdeg in Hin. lia.
    + exact (Hac a Ha).
Qed.

(* constructive half: a positive verdict comes with a cycle *)
Theorem has_cycle_true_witness : has_cycle n E = true -> exists a, clos_trans nat edge a a.
Proof.
  unfold has_cycle.
  destruct (kahn_spec (S n) [] indeg _ inv_init) as (R & deg & Hk & HI); [simpl; lia|].
  rewrite Hk. destruct HI as (Hnd & Hb & Hdeg & Hz & Ht). rewrite app_nil_r in *.
  intros Hex. apply existsb_exists in Hex.
  destruct Hex as (v & Hv & Hpos). apply in_seq in Hv. apply Nat.ltb_lt in Hpos.
  apply (pred_closed_cycle (fun v => v < n /\ ~ In v R)) with (v := v).
  - tauto.
  - intros y [Hy HyR]. destruct (cnt_pos_pred E R y) as (w & He & Hw).
    + intros H0. apply HyR. apply Hz; auto.
    + exists w. split; auto. split; auto. apply wfE in He. tauto.
  - split; [lia|]. intros Hin. apply Hz in Hin; [|lia]. rewrite <- Hdeg in Hin. lia.
Qed.

End Main.

