(* C10 corollary: retrying a run in which every step had finished (or been skipped) executes no command at all -
   for every configuration and every execution of the retry. *)
From Coq Require Import List Bool Arith.
Import ListNotations.
From BD.Sched Require Import Model Proofs ProofsRetry.
From BD.Graph Require Import RetrySched.

Theorem retry_of_finished_run_executes_nothing (c : cfg) : norepeat c ->
  forall tbl : nat -> nstatus, tbl_consistent c tbl -> (forall j, tbl j = NSuccess \/ tbl j = NSkipped) ->
  forall ls s, run c (init_from c tbl) ls = Some s -> forall j, ~ In (WExecStart j) ls.
Proof.
  intros Hn tbl Hc Hall ls s Hr j Hin.
  destruct (retry_executes_only_unfinished c Hn tbl Hc j ls s Hr Hin) as [A B].
  destruct (Hall j); contradiction.
Qed.

(* the premises are met: a table that records every step as finished is consistent *)
Lemma all_finished_consistent (c : cfg) : tbl_consistent c (fun _ => NSuccess) /\ (forall j : nat, (fun _ : nat => NSuccess) j = NSuccess \/ (fun _ : nat => NSuccess) j = NSkipped).
Proof. split; [intros i _ d _; left; reflexivity | intros j; left; reflexivity]. Qed.
