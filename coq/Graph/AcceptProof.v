(* C14: gaccept ss = VOk  <->  every depends entry names a step  /\  the dependency relation on names is acyclic. *)
From Coq Require Import List Arith Bool Lia PeanoNat String Relations Relation_Operators Operators_Properties.
Import ListNotations.
From BD.Graph Require Import Kahn KahnLemmas KahnProof Accept.

(* ---- the specification, over step names ---- *)
Definition dep_rel (ss : list gstep) (a b : string) : Prop :=
  exists s, In s ss /\ gname s = b /\ In a (gdeps s).      (* a is listed in the depends of the step named b *)
Definition all_resolve (ss : list gstep) : Prop :=
  forall s d, In s ss -> In d (gdeps s) -> exists s', In s' ss /\ gname s' = d.
Definition acyclic_names (ss : list gstep) : Prop :=
  forall x, ~ clos_trans string (dep_rel ss) x x.

(* ---- index_of ---- *)
Lemma index_of_some ss nm j : index_of ss nm = Some j ->
  exists s, nth_error ss j = Some s /\ gname s = nm.
Proof.
  revert j. induction ss as [|s ss IH]; simpl; intros j H; [discriminate|].
  destruct (String.eqb_spec (gname s) nm) as [He|He].
  - injection H as <-. exists s. auto.
  - destruct (index_of ss nm) as [k|] eqn:Hk; [|discriminate]. injection H as <-.
    destruct (IH k eq_refl) as (s' & Hn & Hg). exists s'. auto.
Qed.

Lemma index_of_none ss nm : index_of ss nm = None -> forall s, In s ss -> gname s <> nm.
Proof.
  induction ss as [|s ss IH]; simpl; intros H s' Hin; [contradiction|].
  destruct (String.eqb_spec (gname s) nm) as [He|He]; [discriminate|].
  destruct (index_of ss nm) eqn:Hk; [discriminate|].
  destruct Hin as [<-|Hin]; auto.
Qed.

Lemma index_of_in ss nm : (exists s, In s ss /\ gname s = nm) -> exists j, index_of ss nm = Some j.
Proof.
  intros (s & Hin & Hg). destruct (index_of ss nm) as [j|] eqn:H; [eauto|].
  exfalso. exact (index_of_none ss nm H s Hin Hg).
Qed.

Lemma index_of_nth ss j s : NoDup (map gname ss) -> nth_error ss j = Some s -> index_of ss (gname s) = Some j.
Proof.
  revert j. induction ss as [|s0 ss IH]; intros j Hnd Hn; [destruct j; discriminate|].
  simpl in Hnd. inversion Hnd as [|? ? Hnin Hnd']; subst.
  destruct j as [|j]; simpl in *.
  - injection Hn as ->. now rewrite String.eqb_refl.
  - destruct (String.eqb_spec (gname s0) (gname s)) as [He|He].
    + exfalso. apply Hnin. rewrite He. apply in_map. eapply nth_error_In; eauto.
    + now rewrite (IH j Hnd' Hn).
Qed.

(* ---- edges ---- *)
Lemma dep_edges_some all i ds E : dep_edges all i ds = Some E ->
  forall j i', In (j, i') E <-> i' = i /\ exists d, In d ds /\ index_of all d = Some j.
Proof.
  revert E. induction ds as [|d ds IH]; simpl; intros E H j i'.
  - injection H as <-. simpl. split; [contradiction|intros (_ & d & [] & _)].
  - destruct (index_of all d) as [k|] eqn:Hk; [|discriminate].
    destruct (dep_edges all i ds) as [E'|] eqn:HE; [|discriminate]. injection H as <-.
    simpl. rewrite (IH E' eq_refl). split.
    + intros [Heq|(-> & d' & Hin & Hd')].
      * injection Heq as <- <-. split; auto. exists d. auto.
      * split; auto. exists d'. auto.
    + intros (-> & d' & [<-|Hin] & Hd').
      * left. congruence.
      * right. split; auto. exists d'. auto.
Qed.

Lemma dep_edges_none all i ds : dep_edges all i ds = None <-> exists d, In d ds /\ index_of all d = None.
Proof.
  induction ds as [|d ds IH]; simpl.
  - split; [discriminate|intros (d & [] & _)].
  - destruct (index_of all d) as [k|] eqn:Hk.
    + destruct (dep_edges all i ds) as [E'|] eqn:HE.
      * split; [discriminate|]. intros (d' & [<-|Hin] & Hd'); [congruence|].
        destruct IH as [_ IH]. assert (Some E' = None) by (apply IH; eauto). discriminate.
      * split; auto. intros _. destruct IH as [IH _]. destruct (IH eq_refl) as (d' & Hin & Hd'). eauto.
    + split; auto. intros _. exists d. auto.
Qed.

Lemma edges_from_some all k ss E : edges_from all k ss = Some E ->
  forall j i, In (j, i) E <->
    k <= i /\ exists s, nth_error ss (i - k) = Some s /\ exists d, In d (gdeps s) /\ index_of all d = Some j.
Proof.
  revert k E. induction ss as [|s ss IH]; simpl; intros k E H j i.
  - injection H as <-. simpl. split; [contradiction|]. intros (_ & s & Hn & _). destruct (i - k); discriminate.
  - destruct (dep_edges all k (gdeps s)) as [E1|] eqn:H1; [|discriminate].
    destruct (edges_from all (S k) ss) as [E2|] eqn:H2; [|discriminate]. injection H as <-.
    rewrite in_app_iff, (dep_edges_some _ _ _ _ H1), (IH _ _ H2). split.
    + intros [(-> & d & Hin & Hd)|(Hle & s' & Hn & Hd)].
      * split; [lia|]. exists s. rewrite Nat.sub_diag. simpl. eauto.
      * split; [lia|]. exists s'. replace (i - k) with (S (i - S k)) by lia. simpl. eauto.
    + intros (Hle & s' & Hn & Hd). destruct (Nat.eq_dec i k) as [->|Hne].
      * left. split; auto. rewrite Nat.sub_diag in Hn. simpl in Hn. injection Hn as ->. exact Hd.
      * right. split; [lia|]. exists s'. replace (i - k) with (S (i - S k)) in Hn by lia. simpl in Hn. eauto.
Qed.

Lemma edges_from_none all k ss : edges_from all k ss = None <->
  exists s d, In s ss /\ In d (gdeps s) /\ index_of all d = None.
Proof.
  revert k. induction ss as [|s ss IH]; simpl; intros k.
  - split; [discriminate|intros (s & d & [] & _)].
  - destruct (dep_edges all k (gdeps s)) as [E1|] eqn:H1.
    + destruct (edges_from all (S k) ss) as [E2|] eqn:H2.
      * split; [discriminate|]. intros (s' & d & [<-|Hin] & Hd & Hi).
        -- assert (dep_edges all k (gdeps s) = None) by (apply dep_edges_none; eauto). congruence.
        -- assert (edges_from all (S k) ss = None) by (apply IH; eauto). congruence.
      * split; auto. intros _. destruct (IH (S k)) as [IH1 _]. destruct (IH1 H2) as (s' & d & Hin & Hd & Hi).
        exists s', d. auto.
    + split; auto. intros _. apply dep_edges_none in H1. destruct H1 as (d & Hd & Hi). exists s, d. auto.
Qed.

(* ---- missing names ---- *)
Lemma edges_none_iff ss : edges ss = None <-> ~ all_resolve ss.
Proof.
  unfold edges. rewrite edges_from_none. split.
  - intros (s & d & Hin & Hd & Hi) Hall. destruct (Hall s d Hin Hd) as (s' & Hin' & Hg).
    exact (index_of_none ss d Hi s' Hin' Hg).
  - intros Hn. destruct (edges_from ss 0 ss) as [E|] eqn:HE.
    + exfalso. apply Hn. intros s d Hin Hd.
      destruct (index_of ss d) as [j|] eqn:Hj.
      * destruct (index_of_some _ _ _ Hj) as (s' & Hn' & Hg). exists s'. split; auto. eapply nth_error_In; eauto.
      * assert (edges_from ss 0 ss = None) by (apply edges_from_none; eauto). congruence.
    + apply (proj1 (edges_from_none ss 0 ss)). exact HE.
Qed.

Section Transfer.
Variable ss : list gstep.
Variable E : list (nat * nat).
Hypothesis Hnd : NoDup (map gname ss).
Hypothesis HE : edges ss = Some E.

Lemma edge_spec j i : In (j, i) E <->
  exists s, nth_error ss i = Some s /\ exists d, In d (gdeps s) /\ index_of ss d = Some j.
Proof.
  unfold edges in HE. rewrite (edges_from_some _ _ _ _ HE). rewrite Nat.sub_0_r. split.
  - intros (_ & H). exact H.
  - intros H. split; [lia|exact H].
Qed.

Lemma edges_wf u v : In (u, v) E -> u < List.length ss /\ v < List.length ss.
Proof.
  intros H. apply edge_spec in H. destruct H as (s & Hn & d & Hd & Hi). split.
  - destruct (index_of_some _ _ _ Hi) as (s' & Hn' & _). apply nth_error_Some. congruence.
  - apply nth_error_Some. congruence.
Qed.

Lemma edge_to_rel j i : In (j, i) E ->
  exists sj si, nth_error ss j = Some sj /\ nth_error ss i = Some si /\ dep_rel ss (gname sj) (gname si).
Proof.
  intros H. apply edge_spec in H. destruct H as (si & Hn & d & Hd & Hi).
  destruct (index_of_some _ _ _ Hi) as (sj & Hnj & Hg). exists sj, si. repeat split; auto.
  exists si. repeat split; auto.
  - eapply nth_error_In; eauto.
  - now rewrite Hg.
Qed.

Lemma rel_to_edge a b : dep_rel ss a b ->
  exists j i, index_of ss a = Some j /\ index_of ss b = Some i /\ In (j, i) E.
Proof.
  intros (s & Hin & Hg & Hd).
  destruct (In_nth_error _ _ Hin) as (i & Hi).
  assert (Hib : index_of ss b = Some i) by (rewrite <- Hg; now apply index_of_nth).
  destruct (index_of ss a) as [j|] eqn:Hj.
  - exists j, i. repeat split; auto. apply edge_spec. exists s. split; auto. exists a. auto.
  - exfalso. unfold edges in HE.
    assert (edges_from ss 0 ss = None) by (apply edges_from_none; exists s, a; auto). congruence.
Qed.

Lemma clos_edge_to_rel j i : clos_trans nat (edge E) j i ->
  exists sj si, nth_error ss j = Some sj /\ nth_error ss i = Some si /\ clos_trans string (dep_rel ss) (gname sj) (gname si).
Proof.
  induction 1 as [j i He|j k i _ IH1 _ IH2].
  - destruct (edge_to_rel j i He) as (sj & si & ? & ? & ?). exists sj, si. repeat split; auto. now apply t_step.
  - destruct IH1 as (sj & sk & Hj & Hk & H1). destruct IH2 as (sk' & si & Hk' & Hi & H2).
    assert (sk' = sk) by congruence. subst sk'. exists sj, si. repeat split; auto. eapply t_trans; eauto.
Qed.

Lemma clos_rel_to_edge a b : clos_trans string (dep_rel ss) a b ->
  exists j i, index_of ss a = Some j /\ index_of ss b = Some i /\ clos_trans nat (edge E) j i.
Proof.
  induction 1 as [a b Hr|a c b _ IH1 _ IH2].
  - destruct (rel_to_edge a b Hr) as (j & i & ? & ? & ?). exists j, i. repeat split; auto. now apply t_step.
  - destruct IH1 as (j & k & Hj & Hk & H1). destruct IH2 as (k' & i & Hk' & Hi & H2).
    assert (k' = k) by congruence. subst k'. exists j, i. repeat split; auto. eapply t_trans; eauto.
Qed.

Lemma acyclic_transfer : (forall x, ~ clos_trans nat (edge E) x x) <-> acyclic_names ss.
Proof.
  split.
  - intros Hac x Hc. destruct (clos_rel_to_edge x x Hc) as (j & i & Hj & Hi & Hc').
    assert (i = j) by congruence. subst i. exact (Hac j Hc').
  - intros Hac x Hc. destruct (clos_edge_to_rel x x Hc) as (sj & si & Hj & Hi & Hc').
    assert (si = sj) by congruence. subst si. exact (Hac _ Hc').
Qed.
End Transfer.

(* ---- the three verdicts ---- *)
Theorem gaccept_ok_iff ss : NoDup (map gname ss) ->
  (gaccept ss = VOk <-> all_resolve ss /\ acyclic_names ss).
Proof.
  intros Hnd. unfold gaccept. destruct (edges ss) as [E|] eqn:HE.
  - assert (Hres : all_resolve ss).
    { destruct (edges_none_iff ss) as [_ H]. intros s d Hin Hd.
      destruct (index_of ss d) as [j|] eqn:Hj.
      - destruct (index_of_some _ _ _ Hj) as (s' & Hn' & Hg). exists s'. split; auto. eapply nth_error_In; eauto.
      - exfalso. unfold edges in HE. assert (edges_from ss 0 ss = None) by (apply edges_from_none; eauto). congruence. }
    pose proof (has_cycle_correct (List.length ss) E (edges_wf ss E HE)) as Hk.
    pose proof (acyclic_transfer ss E Hnd HE) as Ht. unfold acyclic' in Hk.
    destruct (has_cycle (List.length ss) E) eqn:Hc.
    + split; [discriminate|]. intros [_ Hac]. pose proof (proj2 Hk (proj2 Ht Hac)). discriminate.
    + split; auto. intros _. split; auto. apply (proj1 Ht). now apply (proj1 Hk).
  - split; [discriminate|]. intros [Hres _]. exfalso. apply (proj1 (edges_none_iff ss)); auto.
Qed.

Theorem gaccept_missing_iff ss : gaccept ss = VMissing <-> ~ all_resolve ss.
Proof.
  unfold gaccept. rewrite <- edges_none_iff. destruct (edges ss) as [E|]; [|tauto].
  destruct (has_cycle (List.length ss) E); split; discriminate.
Qed.

Theorem gaccept_cycle_witness ss : NoDup (map gname ss) -> gaccept ss = VCycle ->
  all_resolve ss /\ exists x, clos_trans string (dep_rel ss) x x.
Proof.
  intros Hnd. unfold gaccept. destruct (edges ss) as [E|] eqn:HE; [|discriminate].
  destruct (has_cycle (List.length ss) E) eqn:Hc; [|discriminate]. intros _. split.
  - intros s d Hin Hd. destruct (index_of ss d) as [j|] eqn:Hj.
    + destruct (index_of_some _ _ _ Hj) as (s' & Hn' & Hg). exists s'. split; auto. eapply nth_error_In; eauto.
    + exfalso. unfold edges in HE. assert (edges_from ss 0 ss = None) by (apply edges_from_none; eauto). congruence.
  - destruct (has_cycle_true_witness (List.length ss) E (edges_wf ss E HE) Hc) as (a & Ha).
    destruct (clos_edge_to_rel ss E HE a a Ha) as (sj & si & Hj & Hi & Hc').
    assert (si = sj) by congruence. subst si. eauto.
Qed.

(* non-vacuity: a diamond is accepted, a self-dependency and a 2-cycle are not, a dangling name is missing *)
Open Scope string_scope.
Definition mk (n : string) (ds : list string) := {| gname := n; gdeps := ds |}.
Example gaccept_diamond : gaccept [mk "a" []; mk "b" ["a"]; mk "c" ["a"]; mk "d" ["b"; "c"]] = VOk /\
  NoDup (map gname [mk "a" []; mk "b" ["a"]; mk "c" ["a"]; mk "d" ["b"; "c"]]).
Proof. split; [reflexivity|]. repeat constructor; simpl; intuition discriminate. Qed.
Example gaccept_self : gaccept [mk "a" ["a"]] = VCycle. Proof. reflexivity. Qed.
Example gaccept_two : gaccept [mk "a" ["b"]; mk "b" ["a"]] = VCycle. Proof. reflexivity. Qed.
Example gaccept_dangling : gaccept [mk "a" ["zz"]; mk "b" ["a"]] = VMissing. Proof. reflexivity. Qed.
