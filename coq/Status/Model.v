(* Status: what blackdagger reports about a run (C08).  Executable definitions only (no proofs).

   Modelled code (pinned tree):
     internal/dag/scheduler/scheduler.go:323-337   Scheduler.Status           -> overall
     internal/agent/agent.go:213-253               Agent.Status (snapshot)     -> snap_of
     internal/agent/agent.go:98-226                Agent.Run: history Open, S0, socket bind, the two snapshot
                                                   goroutines, Schedule, final status + finished flag (writeStatus, under
                                                   statusLock), deferred socket shutdown and history Close   -> astep
     internal/persistence/jsondb/jsondb.go         Write (append a line), Close/Compact (read last line, write the twin as
                                                   _c.dat.tmp, rename it to _c.dat, unlink the original),
                                                   ReadStatusToday/ParseFile/dropCompacted                   -> persisted
     internal/client/client.go:198-222             GetLatestStatus             -> reported
     internal/agent/agent.go:270-280               live answer: Status forced to running
     internal/persistence/model/status.go:92-97    CorrectRunningStatus        -> correct
     internal/scheduler/job.go:51-73               the daemon's Start guard    -> job_guard
     internal/sock/server.go:47-60                 Serve: os.Remove(addr) then Listen -> new_agent_bind

   The step scheduler is ABSTRACT here: nodes move none -> running -> {finished, failed, canceled, skipped}
   (and back to none with one more retry) under arbitrary interleaving; which node may move when is Sched's
   business (C01-C05), not needed for C08.  What C08 needs from it is kept: the order of status write and
   done-notification, `wg.Wait`, and that a failed / canceled node implies lastError or the cancel flag
   (DESIGN.md section 7: sc.lastError is modelled as written atomically with the node status).

   The model follows /repo after the repairs
     b9e9fa2  Scheduler.Status answers running, not finished, while some node has not finished (finding F8a), and
     3aa388e  history readers skip a newest file that holds no parseable status (finding F7a).
   Not repaired (still in the model): the snapshot goroutines evaluate Agent.Status before they take the writer's
   lock (F8b/F8c). *)
From Coq Require Import List Arith Bool PeanoNat.
Import ListNotations.

Inductive nstatus := NNone | NRunning | NError | NCancel | NSuccess | NSkipped.
Inductive ostatus := ONone | ORunning | OError | OCancel | OSuccess.

Record node := mkNode { nst : nstatus; nrc : nat }.
Definition table := list node.

Definition is_succ (s : nstatus) : bool := match s with NSuccess | NSkipped => true | _ => false end.
Definition is_running (s : nstatus) : bool := match s with NRunning => true | _ => false end.
Definition is_none (s : nstatus) : bool := match s with NNone => true | _ => false end.
Definition is_bad (s : nstatus) : bool := match s with NError | NCancel => true | _ => false end.

(* scheduler.go:481-492 isSucceed, graph.go IsRunning, scheduler.go:471-479 isFinished (negated) *)
Definition all_succeed (t : table) : bool := forallb (fun n => is_succ (nst n)) t.
Definition any_running (t : table) : bool := existsb (fun n => is_running (nst n)) t.
Definition any_pending (t : table) : bool := existsb (fun n => is_none (nst n) || is_running (nst n)) t.

(* Scheduler.Status, clause by clause (scheduler.go:323-337) *)
Definition overall (canceled started err : bool) (t : table) : ostatus :=
  if canceled && negb (all_succeed t) then OCancel            (* :324 *)
  else if negb started then ONone                             (* :327 *)
  else if any_running t then ORunning                         (* :330 *)
  else if err then OError                                     (* :333 *)
  else if any_pending t then ORunning                         (* :336-340, since b9e9fa2: some node has not finished *)
  else OSuccess.                                              (* :341 *)

(* ---- the abstract step scheduler ------------------------------------------------------------------ *)
Inductive sphase := SInit | SLoop | SHandlers | SReturned.

Record sched := mkSched {
  tbl : table;
  canc : bool;        (* sc.canceled *)
  serr : bool;        (* sc.lastError != nil *)
  sph : sphase;
  workers : nat;      (* goroutines that will still send on `done` (worker goroutines; a handler's send by the loop thread) *)
  pend : nat }.       (* of those: blocked in `done <- node` *)

Definition started (s : sched) : bool := match sph s with SInit => false | _ => true end.

Inductive slabel :=
| AStart                         (* g.Start() *)
| ALaunch (i : nat)              (* loop: none -> running, worker goroutine created (:141) *)
| AMark (i : nat) (skip : bool)  (* loop: none -> skipped (precondition / upstream skipped) | canceled (upstream failed or canceled) *)
| AEnd (i : nat) (ok : bool)     (* worker: running -> finished (:214) | failed + lastError (:190-192) *)
| ARetryInc (i : nat)            (* worker: retryCount+1, still running (:178); then it sleeps for the retry interval *)
| ARetry (i : nat)               (* worker: status := none, UNCONDITIONALLY (the loop will launch the step again): running -> none, and
                                    canceled -> none when a stop request flipped the node while the worker was tearing down *)
| ASignal (i : nat)              (* Signal: running -> canceled (node.go:244-259); needs the cancel flag *)
| ATimeout (i : nat)             (* worker after the DAG deadline: running -> canceled + lastError (:166-173) *)
| ACancel                        (* the cancel flag is set (Signal / Cancel) *)
| ADoneSend                      (* a worker reaches `done <- node` (:206,:220) and blocks *)
| AWait                          (* the loop has ended and wg.Wait() returned (:228) *)
| AHandler                       (* a handler has run; the loop thread blocks in `done <- n` (:253) *)
| AReturn.                       (* Schedule returns *)

Fixpoint upd {A : Type} (l : list A) (i : nat) (x : A) : list A :=
  match l, i with
  | [], _ => []
  | _ :: t, O => x :: t
  | h :: t, S j => h :: upd t j x
  end.

Definition st_at (t : table) (i : nat) : option node := nth_error t i.

Definition set_st (s : sched) (i : nat) (n : node) : sched :=
  mkSched (upd (tbl s) i n) (canc s) (serr s) (sph s) (workers s) (pend s).

Definition sstep (s : sched) (l : slabel) : option sched :=
  match l with
  | AStart => match sph s with SInit => Some (mkSched (tbl s) (canc s) (serr s) SLoop (workers s) (pend s)) | _ => None end
  | ALaunch i =>
      match sph s, st_at (tbl s) i with
      | SLoop, Some n => if is_none (nst n)
                         then Some (mkSched (upd (tbl s) i (mkNode NRunning (nrc n))) (canc s) (serr s) SLoop (S (workers s)) (pend s))
                         else None
      | _, _ => None
      end
  | AMark i skip =>
      match sph s, st_at (tbl s) i with
      | SLoop, Some n => if is_none (nst n) && (skip || serr s || canc s)
                         then Some (set_st s i (mkNode (if skip then NSkipped else NCancel) (nrc n)))
                         else None
      | _, _ => None
      end
  | AEnd i ok =>
      match sph s, st_at (tbl s) i with
      | SLoop, Some n => if is_running (nst n)
                         then Some (mkSched (upd (tbl s) i (mkNode (if ok then NSuccess else NError) (nrc n)))
                                            (canc s) (if ok then serr s else true) SLoop (workers s) (pend s))
                         else None
      | _, _ => None
      end
  | ARetryInc i =>
      match sph s, st_at (tbl s) i with
      | SLoop, Some n => if is_running (nst n) then Some (set_st s i (mkNode NRunning (S (nrc n)))) else None
      | _, _ => None
      end
  | ARetry i =>
      match sph s, st_at (tbl s) i with
      | SLoop, Some n => if is_running (nst n) || (match nst n with NCancel => canc s | _ => false end)
                         then Some (set_st s i (mkNode NNone (nrc n))) else None
      | _, _ => None
      end
  | ASignal i =>
      match sph s, st_at (tbl s) i with
      | SLoop, Some n => if is_running (nst n) && canc s then Some (set_st s i (mkNode NCancel (nrc n))) else None
      | _, _ => None
      end
  | ATimeout i =>
      match sph s, st_at (tbl s) i with
      | SLoop, Some n => if is_running (nst n)
                         then Some (mkSched (upd (tbl s) i (mkNode NCancel (nrc n))) (canc s) true SLoop (workers s) (pend s))
                         else None
      | _, _ => None
      end
  | ACancel => match sph s with
               | SReturned => None
               | _ => Some (mkSched (tbl s) true (serr s) (sph s) (workers s) (pend s))
               end
  | ADoneSend => match sph s with
                 | SLoop => if pend s <? workers s then Some (mkSched (tbl s) (canc s) (serr s) SLoop (workers s) (S (pend s))) else None
                 | _ => None
                 end
  | AWait => match sph s with
             | SLoop => if (workers s =? 0) && negb (any_running (tbl s)) && (canc s || negb (any_pending (tbl s)))
                        then Some (mkSched (tbl s) (canc s) (serr s) SHandlers 0 0) else None
             | _ => None
             end
  | AHandler => match sph s with
                | SHandlers => if workers s =? 0 then Some (mkSched (tbl s) (canc s) (serr s) SHandlers 1 1) else None
                | _ => None
                end
  | AReturn => match sph s with
               | SHandlers => if workers s =? 0 then Some (mkSched (tbl s) (canc s) (serr s) SReturned 0 0) else None
               | _ => None
               end
  end.

(* the consumer of `done` receives one notification: the sender goes on (and is gone) *)
Definition recv (s : sched) : option sched :=
  match pend s, workers s with
  | S p, S w => Some (mkSched (tbl s) (canc s) (serr s) (sph s) w p)
  | _, _ => None
  end.

(* ---- the agent --------------------------------------------------------------------------------------- *)
Record snap := mkSnap { s_ov : ostatus; s_tbl : table }.

(* Agent.Status (agent.go:213-253); the arm at :219-222 (none while the graph is started => running) is kept *)
Definition ov_of (s : sched) : ostatus :=
  let o := overall (canc s) (started s) (serr s) (tbl s) in
  match o with ONone => if started s then ORunning else ONone | _ => o end.
Definition snap_of (s : sched) : snap := mkSnap (ov_of s) (tbl s).

Inductive sockst := SockAbsent | SockStale | SockLive.

(* Agent.writeStatus (since 7f2c2d0): lock statusLock; Status(); if finished { unlock; return }; if final { finished = true };
   historyStore.Write; unlock.  Agent.Status itself is NOT atomic: it first asks the scheduler for the overall status, later
   copies the node table; the scheduler may move in between (also while statusLock is held - it does not stop the scheduler).
   A snapshot thread therefore passes through  ...Locked (lock taken)  ->  ...Ov o (overall read)  ->  ...Computed s (table
   copied)  and then appends (or not, if the finished flag is set) and releases the lock.  The finished flag is set by the main
   thread together with its final append, i.e. it is `5 <= mrank`. *)
Inductive mphase :=
| MInit | MOpened | MS0 | MBound
| MFinalLocked | MFinalComputed (s : snap) | MFinalWritten | MFinished | MUnbound
| MCompactRead (s : snap) | MCompactCreated (s : snap) | MCompactWritten | MCompactRenamed | MCompactDone | MClosed.

Inductive fsphase := FSleep | FLocked | FOv (o : ostatus) | FComputed (s : snap) | FGone.
Inductive cphase := CIdle | CGot | CLocked | COv (o : ostatus) | CComputed (s : snap).

Record astate := mkA {
  sc : sched;
  mp : mphase;
  fs : fsphase;            (* the "first status" goroutine *)
  cp : cphase;             (* the goroutine ranging over `done` *)
  file : list snap;        (* lines of the run's .dat, oldest first *)
  orig : bool;             (* the .dat exists *)
  cfile : option (list snap);  (* the compaction twin _c.dat *)
  tmp : option (list snap);    (* _c.dat.tmp: the twin before it is published (since eb925d1); no reader pattern matches it *)
  dlock : bool;            (* this process holds the exclusive flock on the start lock file <socket address>.lock (a924e5c, fc081bb) *)
  wclosed : bool;          (* the writer has been closed *)
  sock : sockst }.

Definition mrank (m : mphase) : nat :=
  match m with
  | MInit => 0 | MOpened => 1 | MS0 => 2 | MBound => 3 | MFinalLocked => 4 | MFinalComputed _ => 4 | MFinalWritten => 5 | MFinished => 6
  | MUnbound => 7 | MCompactRead _ => 8 | MCompactCreated _ => 9 | MCompactWritten => 10 | MCompactRenamed => 11
  | MCompactDone => 12 | MClosed => 13
  end.

Inductive alabel :=
| LLockDag | LOpen | LWriteS0 | LBind
| LSched (l : slabel)
| LFsWake | LFsOv | LFsTbl | LFsAppend
| LNotify | LCLock | LCOv | LCTbl | LCAppend
| LFinalLock | LFinalCompute | LFinalAppend | LFinish | LUnbind
| LCompactRead | LCompactSkip | LCompactCreate | LCompactWrite | LCompactRename | LCompactUnlink | LCloseWriter.

(* writer.write under the writer's lock (writer.go:52-80): refused once closed; after Compact has unlinked the original
   the bytes go to an unlinked inode *)
Definition append (st : astate) (s : snap) : list snap :=
  if wclosed st then file st else if orig st then file st ++ [s] else file st.

Definition with_sc (st : astate) (s : sched) : astate :=
  mkA s (mp st) (fs st) (cp st) (file st) (orig st) (cfile st) (tmp st) (dlock st) (wclosed st) (sock st).
Definition with_mp (st : astate) (m : mphase) : astate :=
  mkA (sc st) m (fs st) (cp st) (file st) (orig st) (cfile st) (tmp st) (dlock st) (wclosed st) (sock st).
Definition with_fs (st : astate) (f : fsphase) : astate :=
  mkA (sc st) (mp st) f (cp st) (file st) (orig st) (cfile st) (tmp st) (dlock st) (wclosed st) (sock st).
Definition with_cp (st : astate) (c : cphase) : astate :=
  mkA (sc st) (mp st) (fs st) c (file st) (orig st) (cfile st) (tmp st) (dlock st) (wclosed st) (sock st).
Definition with_file (st : astate) (f : list snap) : astate :=
  mkA (sc st) (mp st) (fs st) (cp st) f (orig st) (cfile st) (tmp st) (dlock st) (wclosed st) (sock st).
Definition with_orig (st : astate) (o : bool) : astate :=
  mkA (sc st) (mp st) (fs st) (cp st) (file st) o (cfile st) (tmp st) (dlock st) (wclosed st) (sock st).
Definition with_twin (st : astate) (c t : option (list snap)) : astate :=
  mkA (sc st) (mp st) (fs st) (cp st) (file st) (orig st) c t (dlock st) (wclosed st) (sock st).
Definition with_dlock (st : astate) (d : bool) : astate :=
  mkA (sc st) (mp st) (fs st) (cp st) (file st) (orig st) (cfile st) (tmp st) d (wclosed st) (sock st).
Definition with_wclosed (st : astate) (w : bool) : astate :=
  mkA (sc st) (mp st) (fs st) (cp st) (file st) (orig st) (cfile st) (tmp st) (dlock st) w (sock st).
Definition with_sock (st : astate) (k : sockst) : astate :=
  mkA (sc st) (mp st) (fs st) (cp st) (file st) (orig st) (cfile st) (tmp st) (dlock st) (wclosed st) k.

(* statusLock is held by the thread that is inside writeStatus *)
Definition locked (st : astate) : bool :=
  match fs st with FLocked | FOv _ | FComputed _ => true | _ => false end ||
  match cp st with CLocked | COv _ | CComputed _ => true | _ => false end ||
  match mp st with MFinalLocked | MFinalComputed _ => true | _ => false end.
(* a.finished: set by the main thread's final writeStatus *)
Definition finished (st : astate) : bool := 5 <=? mrank (mp st).

Definition last_line (l : list snap) : option snap :=
  match rev l with [] => None | x :: _ => Some x end.

Definition astep (st : astate) (l : alabel) : option astate :=
  match l with
  (* agent.Run (a924e5c, fc081bb): flock(LOCK_EX) on <socket address>.lock before the already-running check, released when the
     socket listens *)
  | LLockDag => match mp st with
                | MInit => if dlock st then None else Some (with_dlock st true)
                | _ => None end
  | LOpen => match mp st with
             | MInit => if dlock st then Some (with_mp (with_wclosed (with_orig (with_file st []) true) false) MOpened) else None
             | _ => None end
  | LWriteS0 => match mp st with
                | MOpened => Some (with_mp (with_file st (append st (snap_of (sc st)))) MS0)
                | _ => None end
  | LBind => match mp st with
             | MS0 => Some (with_mp (with_dlock (with_sock st SockLive) false) MBound)
             | _ => None end
  | LSched a => match mp st with
                | MBound => match sstep (sc st) a with Some s' => Some (with_sc st s') | None => None end
                | _ => None end
  (* the first-status goroutine: sleep 100 ms; writeStatus(false) *)
  | LFsWake => match fs st with
               | FSleep => if (3 <=? mrank (mp st)) && negb (locked st) then Some (with_fs st FLocked) else None
               | _ => None end
  | LFsOv => match fs st with FLocked => Some (with_fs st (FOv (ov_of (sc st)))) | _ => None end
  | LFsTbl => match fs st with FOv o => Some (with_fs st (FComputed (mkSnap o (tbl (sc st))))) | _ => None end
  | LFsAppend => match fs st with
                 | FComputed s => Some (with_fs (if finished st then st else with_file st (append st s)) FGone)
                 | _ => None end
  (* for node := range done { writeStatus(false); ... } *)
  | LNotify => match cp st, recv (sc st) with
               | CIdle, Some s' => if 3 <=? mrank (mp st) then Some (with_cp (with_sc st s') CGot) else None
               | _, _ => None end
  | LCLock => match cp st with CGot => if negb (locked st) then Some (with_cp st CLocked) else None | _ => None end
  | LCOv => match cp st with CLocked => Some (with_cp st (COv (ov_of (sc st)))) | _ => None end
  | LCTbl => match cp st with COv o => Some (with_cp st (CComputed (mkSnap o (tbl (sc st))))) | _ => None end
  | LCAppend => match cp st with
                | CComputed s => Some (with_cp (if finished st then st else with_file st (append st s)) CIdle)
                | _ => None end
  (* the main thread after Schedule has returned: writeStatus(true) *)
  | LFinalLock => match mp st, sph (sc st) with
                  | MBound, SReturned => if negb (locked st) then Some (with_mp st MFinalLocked) else None
                  | _, _ => None end
  | LFinalCompute => match mp st with
                     | MFinalLocked => Some (with_mp st (MFinalComputed (snap_of (sc st))))
                     | _ => None end
  | LFinalAppend => match mp st with
                    | MFinalComputed s => Some (with_mp (with_file st (append st s)) MFinalWritten)   (* finished := true; Write *)
                    | _ => None end
  | LFinish => match mp st with MFinalWritten => Some (with_mp st MFinished) | _ => None end      (* report, mail *)
  | LUnbind => match mp st with
               | MFinished => Some (with_mp (with_sock st SockAbsent) MUnbound)
               | _ => None end
  (* Close -> Compact (since eb925d1): ParseFile(original); remove a stale tmp and create <twin>.tmp; write the status read; close;
     rename tmp -> <twin> (the twin appears complete, atomically); unlink the original; close the writer *)
  | LCompactRead => match mp st, last_line (file st) with
                    | MUnbound, Some s => Some (with_mp st (MCompactRead s))
                    | _, _ => None end
  | LCompactSkip => match mp st, last_line (file st) with
                    | MUnbound, None => Some (with_mp st MCompactDone)        (* io.EOF: nothing to compact *)
                    | _, _ => None end
  | LCompactCreate => match mp st with
                      | MCompactRead s => Some (with_mp (with_twin st (cfile st) (Some [])) (MCompactCreated s))
                      | _ => None end
  | LCompactWrite => match mp st with
                     | MCompactCreated s => Some (with_mp (with_twin st (cfile st) (Some [s])) MCompactWritten)
                     | _ => None end
  | LCompactRename => match mp st, tmp st with
                      | MCompactWritten, Some l => Some (with_mp (with_twin st (Some l) None) MCompactRenamed)
                      | _, _ => None end
  | LCompactUnlink => match mp st with
                      | MCompactRenamed => Some (with_mp (with_orig st false) MCompactDone)
                      | _ => None end
  | LCloseWriter => match mp st with
                    | MCompactDone => Some (with_mp (with_wclosed st true) MClosed)
                    | _ => None end
  end.

Definition init_table (n : nat) : table := repeat (mkNode NNone 0) n.
Definition init_sched (n : nat) : sched := mkSched (init_table n) false false SInit 0 0.
(* s0: what the socket path holds when the agent starts (absent, or a stale file of a killed predecessor) *)
Definition init (n : nat) (s0 : sockst) : astate :=
  mkA (init_sched n) MInit FSleep CIdle [] false None None false false s0.

Fixpoint exec (st : astate) (ls : list alabel) : option astate :=
  match ls with
  | [] => Some st
  | l :: r => match astep st l with Some st' => exec st' r | None => None end
  end.

(* ---- what is reported ------------------------------------------------------------------------------- *)
(* SIGKILL: the process is gone at once; files stay as they are (a stray tmp included); a bound socket becomes a stale file;
   the kernel releases the flock on the start lock file *)
Definition after_kill (st : astate) : astate :=
  with_dlock (with_sock st (match sock st with SockLive => SockStale | x => x end)) false.

Inductive pres := PNoData | PErr | PSnap (s : snap).

(* ReadStatusToday (since 3aa388e / eb925d1): the files matching <run>*.dat - the tmp file matches no reader pattern -; an
   original whose published twin is among the matches is dropped (dropCompacted); each remaining file is parsed with
   ParseFile = last line, a file without a parseable status is skipped; nothing left => ErrNoStatusData, which
   GetLatestStatus turns into the default status without an error.  (History of earlier runs is not part of this model: a run
   killed before its first line leaves no trace, as a run killed before Open does.)
   PErr stays in the result type because client.GetLatestStatus still has the arm; jsondb no longer produces it. *)
Definition persisted (st : astate) : pres :=
  match cfile st with
  | Some l => match last_line l with Some s => PSnap s | None => PNoData end
  | None => match (if orig st then last_line (file st) else None) with Some s => PSnap s | None => PNoData end
  end.

(* status.go:92-97 *)
Definition correct (s : snap) : snap :=
  match s_ov s with ORunning => mkSnap OError (s_tbl s) | _ => s end.

Definition default_status (n : nat) : snap := mkSnap ONone (init_table n).

(* client.GetLatestStatus (client.go:198-222): (status, error?) *)
Definition reported (n : nat) (alive : bool) (live : snap) (p : pres) : snap * bool :=
  if alive then (mkSnap ORunning (s_tbl live), false)        (* agent.go:272-273: Status forced to running *)
  else match p with
       | PSnap s => (correct s, false)
       | PNoData => (default_status n, false)
       | PErr => (default_status n, true)
       end.

(* the socket answers iff a live process is bound to it *)
Definition alive (st : astate) : bool := match sock st with SockLive => true | _ => false end.
Definition live_answer (st : astate) : snap := snap_of (sc st).
Definition report (n : nat) (st : astate) : snap * bool :=
  reported n (alive st) (live_answer st) (persisted st).

(* job.go:51-73: the daemon's Start *)
Inductive guard := GRefusedErr | GRefusedRunning | GMinuteGuard.
Definition job_guard (r : snap * bool) : guard :=
  if snd r then GRefusedErr
  else match s_ov (fst r) with ORunning => GRefusedRunning | _ => GMinuteGuard end.

(* a new agent on the same DAG: flock on the start lock file (blocks while a LIVE process holds it), probe (client.GetCurrentStatus: a refused connection means "not running"), then
   sock.Server.Serve: os.Remove(addr); net.Listen *)
Definition probe_running (s : sockst) : bool := match s with SockLive => true | _ => false end.
Definition bind_ok (unlink_first : bool) (s : sockst) : bool :=
  if unlink_first then true else match s with SockAbsent => true | _ => false end.

(* ---- decidable premises of the partial theorems ------------------------------------------------------ *)
Definition all_done_ok (t : table) : bool := all_succeed t.

(* the window of finding F8a (closed by b9e9fa2, see Proofs.no_gap): Status says finished although a step is neither
   finished nor skipped *)
Definition gap (s : sched) : bool :=
  match s_ov (snap_of s) with OSuccess => negb (all_succeed (tbl s)) | _ => false end.

Definition computes (l : alabel) : bool :=
  match l with LWriteS0 | LFsOv | LCOv | LFinalCompute => true | _ => false end.      (* where Scheduler.Status is evaluated *)

(* Scheduler.Status is never evaluated for a snapshot inside the window *)
Fixpoint no_gap_snapshot (st : astate) (ls : list alabel) : bool :=
  match ls with
  | [] => true
  | l :: r => (negb (computes l) || negb (gap (sc st))) &&
              match astep st l with Some st' => no_gap_snapshot st' r | None => true end
  end.
