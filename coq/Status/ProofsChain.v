(* Status: since 7f2c2d0 snapshots are collected and appended under statusLock.  Mutual exclusion of the three snapshot threads,
   and its consequence: the lines of the history file form ONE chain of scheduler states, in file order (check 4 of
   Status/Check.v applies to all lines, whoever wrote them). *)
From Coq Require Import List Arith Bool PeanoNat Lia.
Import ListNotations.
From BD.Status Require Import Model Proofs Check ProofsCheck.

Arguments snap_of : simpl never.
Arguments ov_of : simpl never.

Definition crit_fs (st : astate) : bool := match fs st with FLocked | FOv _ | FComputed _ => true | _ => false end.
Definition crit_cp (st : astate) : bool := match cp st with CLocked | COv _ | CComputed _ => true | _ => false end.
Definition crit_mp (st : astate) : bool := match mp st with MFinalLocked | MFinalComputed _ => true | _ => false end.

Lemma locked_eq : forall st, locked st = crit_fs st || crit_cp st || crit_mp st.
Proof. reflexivity. Qed.

(* at most one thread is inside writeStatus; the goroutines exist only once the socket is bound *)
Definition Mutex (st : astate) : Prop :=
  crit_fs st && crit_cp st = false /\ crit_fs st && crit_mp st = false /\ crit_cp st && crit_mp st = false /\
  (mrank (mp st) < 3 -> fs st = FSleep /\ cp st = CIdle).

Lemma Mutex_step : forall st l st', Mutex st -> astep st l = Some st' -> Mutex st'.
Proof.
  intros st l st' (M1 & M2 & M3 & M4) H.
  astep_cases H; unfold Mutex, crit_fs, crit_cp, crit_mp, locked in *; simpl in *;
    repeat match goal with
           | H : mp _ = _ |- _ => rewrite H in *
           | H : fs _ = _ |- _ => rewrite H in *
           | H : cp _ = _ |- _ => rewrite H in *
           end; simpl in *;
    repeat match goal with
           | H : _ && _ = true |- _ => apply andb_true_iff in H; destruct H
           | H : negb _ = true |- _ => apply negb_true_iff in H
           | H : _ || _ = false |- _ => apply orb_false_iff in H; destruct H
           | H : (_ <=? _) = true |- _ => apply Nat.leb_le in H
           end;
    repeat split; intros; try lia; try congruence; auto;
    try (destruct M4 as [A B]; [lia|]; congruence);
    try (destruct (fs st); destruct (cp st); simpl in *; congruence).
  all: try solve [exfalso; match goal with K : match mrank ?m with _ => _ end = true |- _ =>
         destruct (mrank m) as [|[|[|k]]]; simpl in K; try discriminate; lia end].
Qed.

Lemma Mutex_init : forall n s0, Mutex (init n s0).
Proof. intros. unfold Mutex; simpl. repeat split; auto. Qed.

(* snapshots whose table has been copied and that are waiting to be appended *)
Definition computed (st : astate) : list snap :=
  (match fs st with FComputed s => [s] | _ => [] end) ++ (match cp st with CComputed s => [s] | _ => [] end) ++
  (match mp st with MFinalComputed s => [s] | _ => [] end).

Lemma computed_nil : forall st, computed st = [] <->
  (forall s, fs st <> FComputed s) /\ (forall s, cp st <> CComputed s) /\ (forall s, mp st <> MFinalComputed s).
Proof.
  intros st. unfold computed. destruct (fs st); destruct (cp st); destruct (mp st); simpl; split; intros H;
    try discriminate; try (repeat split; intros; discriminate); try reflexivity;
    destruct H as (A & B & C); try (exfalso; eapply A; reflexivity); try (exfalso; eapply B; reflexivity);
    try (exfalso; eapply C; reflexivity).
Qed.

(* how the file changes in one step: not at all, emptied by Open, or one line appended - S0, or a computed snapshot of the one
   thread inside writeStatus, after which no computed snapshot is left *)
Lemma file_step : forall st l st', Mutex st -> astep st l = Some st' ->
  file st' = file st \/ file st' = [] \/
  exists s, file st' = file st ++ [s] /\ computed st' = [] /\ (s = snap_of (sc st) \/ In s (computed st)).
Proof.
  intros st l st' (M1 & M2 & M3 & M4) H.
  astep_cases H; unfold append, finished in *; simpl in *; auto;
    repeat match goal with
           | |- context [if ?b then _ else _] => destruct b eqn:?
           end; simpl; auto;
    right; right; eexists; (split; [reflexivity|]); unfold computed, crit_fs, crit_cp, crit_mp in *; simpl;
    repeat match goal with
           | H : mp _ = _ |- _ => rewrite H in *
           | H : fs _ = _ |- _ => rewrite H in *
           | H : cp _ = _ |- _ => rewrite H in *
           end; simpl in *.
  all: try (destruct M4 as [A B]; [lia|]; rewrite A, B; simpl; auto).
  all: try (destruct (fs st); destruct (cp st); simpl in *; try discriminate; auto).
  all: try (destruct (cp st); destruct (mp st); simpl in *; try discriminate; auto).
  all: try (destruct (fs st); destruct (mp st); simpl in *; try discriminate; auto).
Qed.

(* a snapshot that has just been computed carries the current table *)
Lemma computed_step : forall st l st' s, astep st l = Some st' -> In s (computed st') ->
  In s (computed st) \/ s_tbl s = tbl (sc st).
Proof.
  intros st l st' s H Hin. unfold computed in *.
  astep_cases H; simpl in *;
    repeat match goal with
           | H : mp _ = _ |- _ => rewrite H in *
           | H : fs _ = _ |- _ => rewrite H in *
           | H : cp _ = _ |- _ => rewrite H in *
           end; simpl in *;
    repeat (rewrite in_app_iff in Hin; simpl in Hin); repeat (rewrite in_app_iff; simpl);
    repeat match goal with
           | H : _ \/ _ |- _ => destruct H
           | H : False |- _ => destruct H
           end; subst; simpl; auto 10.
Qed.

Lemma chainb_snoc : forall l t, chainb l = true -> (forall x, In x l -> tbl_reachb x t = true) -> chainb (l ++ [t]) = true.
Proof.
  induction l as [|a l IH]; intros t Hc Hr; simpl; auto.
  destruct l as [|b l']; simpl in *.
  - assert (E : tbl_reachb a t = true) by (apply Hr; left; reflexivity). rewrite E. reflexivity.
  - apply andb_true_iff in Hc. destruct Hc as [Hab Hc]. rewrite Hab. simpl. apply IH; auto.
Qed.

Lemma file_in_snaps : forall st x, In x (file st) -> In x (snaps st).
Proof. intros. unfold snaps. apply in_app_iff; auto. Qed.

(* the lines of the history file, in file order, are one chain of scheduler states; every computed snapshot waiting for its
   append is reachable from every line *)
Definition Chain (st : astate) : Prop :=
  chainb (map s_tbl (file st)) = true /\
  (forall s x, In s (computed st) -> In x (file st) -> tbl_reachb (s_tbl x) (s_tbl s) = true).

Lemma Chain_step : forall st l st', Mutex st -> InvR st -> Chain st -> astep st l = Some st' -> Chain st'.
Proof.
  intros st l st' M R [C1 C2] H.
  destruct (file_step _ _ _ M H) as [E|[E|[s [E [Ec Hs]]]]]; unfold Chain; rewrite E.
  - split; auto. intros s x Hs Hx.
    destruct (computed_step _ _ _ _ H Hs) as [Ho|Ht]; auto.
    rewrite Ht. apply R. apply file_in_snaps; auto.
  - split; simpl; auto; intros s x _ [].
  - split.
    + rewrite map_app. simpl. apply chainb_snoc; auto.
      intros t Ht. apply in_map_iff in Ht. destruct Ht as [x [<- Hx]].
      destruct Hs as [Hs|Hs]; [subst s; simpl; apply R; apply file_in_snaps; auto | apply C2; auto].
    + rewrite Ec. intros s1 x [].
Qed.

Theorem file_is_a_chain : forall n s0 ls st,
  exec (init n s0) ls = Some st -> chainb (map s_tbl (file st)) = true.
Proof.
  intros n s0 ls. assert (G : forall ls st st', Mutex st /\ InvR st /\ Chain st -> exec st ls = Some st' -> Mutex st' /\ InvR st' /\ Chain st').
  { clear. intros ls; induction ls as [|l r IH]; intros st st' I He; simpl in *.
    - inversion He; subst; auto.
    - destruct (astep st l) as [st1|] eqn:Hs; [|discriminate]. eapply IH; [|eauto].
      destruct I as (M & R & C). split; [|split].
      + eapply Mutex_step; eauto. + eapply InvR_step; eauto. + eapply Chain_step; eauto. }
  intros st He. destruct (G ls (init n s0) st) as (_ & _ & [C _]); auto.
  split; [apply Mutex_init | split].
  - intros x H. cbv in H. destruct H.
  - split; [reflexivity|]. intros s x H. cbv in H. destruct H.
Qed.

(* mutual exclusion: at most one thread is inside writeStatus *)
Theorem status_lock_exclusive : forall n s0 ls st,
  exec (init n s0) ls = Some st ->
  crit_fs st && crit_cp st = false /\ crit_fs st && crit_mp st = false /\ crit_cp st && crit_mp st = false.
Proof.
  intros n s0 ls. assert (G : forall ls st st', Mutex st -> exec st ls = Some st' -> Mutex st').
  { clear. intros ls; induction ls as [|l r IH]; intros st st' I He; simpl in *.
    - inversion He; subst; auto.
    - destruct (astep st l) as [st1|] eqn:Hs; [|discriminate]. eapply IH; [|eauto]. eapply Mutex_step; eauto. }
  intros st He. destruct (G ls (init n s0) st (Mutex_init n s0) He) as (A & B & C & _). auto.
Qed.
