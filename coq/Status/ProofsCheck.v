(* Status: the acceptance conditions of Status/Check.v are necessary for executions of the model - a case the
   check rejects is not a behaviour of the model (so a rejection is a genuine difference between model and code):
   every state the abstract scheduler passes through is reachable, node by node, from every earlier one (`tbl_reachb`),
   hence every snapshot that exists anywhere reaches the current state, successive snapshots of one thread form a
   chain, and everything reaches the final state. *)
From Coq Require Import List Arith Bool PeanoNat Lia.
Import ListNotations.
From BD.Status Require Import Model Proofs Check.

Lemma nst_eqb_refl : forall a, nst_eqb a a = true.
Proof. destruct a; reflexivity. Qed.
Lemma nst_eqb_eq : forall a b, nst_eqb a b = true -> a = b.
Proof. destruct a, b; simpl; congruence. Qed.

Lemma node_reachb_refl : forall a, node_reachb a a = true.
Proof.
  intros [s r]; unfold node_reachb; simpl. destruct s; simpl; rewrite ?Nat.leb_refl, ?Nat.eqb_refl; auto.
Qed.

Lemma node_reachb_trans : forall a b c, node_reachb a b = true -> node_reachb b c = true -> node_reachb a c = true.
Proof.
  intros [sa ra] [sb rb] [sc rc]; unfold node_reachb; simpl.
  destruct sa, sb, sc; simpl; intros H1 H2;
    repeat match goal with
           | H : _ && _ = true |- _ => apply andb_true_iff in H; destruct H
           | H : (_ <=? _) = true |- _ => apply Nat.leb_le in H
           | H : (_ =? _) = true |- _ => apply Nat.eqb_eq in H
           end; try discriminate;
    rewrite ?andb_true_iff, ?Nat.leb_le, ?Nat.ltb_lt, ?Nat.eqb_eq; try split; auto; try lia.
Qed.

Lemma tbl_reachb_refl : forall t, tbl_reachb t t = true.
Proof. induction t; simpl; auto. rewrite node_reachb_refl, IHt. reflexivity. Qed.

Lemma tbl_reachb_trans : forall a b c, tbl_reachb a b = true -> tbl_reachb b c = true -> tbl_reachb a c = true.
Proof.
  induction a; intros b c H1 H2; destruct b, c; simpl in *; try discriminate; auto.
  apply andb_true_iff in H1. apply andb_true_iff in H2. destruct H1, H2.
  apply andb_true_iff; split; [eapply node_reachb_trans; eauto | eapply IHa; eauto].
Qed.

Lemma upd_reach : forall t i n n', nth_error t i = Some n -> node_reachb n n' = true -> tbl_reachb t (upd t i n') = true.
Proof.
  induction t; intros i n n' Hn Hr; destruct i; simpl in *; try discriminate.
  - inversion Hn; subst. rewrite Hr, tbl_reachb_refl. reflexivity.
  - rewrite node_reachb_refl. simpl. eapply IHt; eauto.
Qed.

Lemma sstep_reach : forall s l s', sstep s l = Some s' -> tbl_reachb (tbl s) (tbl s') = true.
Proof.
  intros s l s' H. sstep_cases H; simpl; try apply tbl_reachb_refl;
    repeat match goal with
           | H : _ && _ = true |- _ => apply andb_true_iff in H; destruct H
           end;
    (eapply upd_reach; [eassumption|]);
    match goal with n : node |- _ => destruct n as [sn rn]; simpl in * end;
    destruct sn; simpl in *; try discriminate; unfold node_reachb; simpl;
    rewrite ?Nat.leb_refl; auto;
    try (apply Nat.leb_le; lia);
    try (match goal with |- context [if ?b then _ else _] => destruct b; simpl; rewrite ?Nat.leb_refl; auto end).
Qed.

Lemma astep_reach : forall st l st', astep st l = Some st' -> tbl_reachb (tbl (sc st)) (tbl (sc st')) = true.
Proof.
  intros st l st' H. astep_cases H; simpl; try apply tbl_reachb_refl.
  - eapply sstep_reach; eauto.
  - match goal with H : recv _ = Some _ |- _ => apply recv_tbl in H; destruct H as (Ht & _) end.
    rewrite Ht. apply tbl_reachb_refl.
Qed.

(* every snapshot that exists anywhere (history file, twin, computed and not yet written) reaches the current state *)
Definition InvR (st : astate) : Prop := forall x, In x (snaps st) -> tbl_reachb (s_tbl x) (tbl (sc st)) = true.

Lemma InvR_step : forall st l st', InvR st -> astep st l = Some st' -> InvR st'.
Proof.
  intros st l st' I H x Hx. pose proof (astep_reach _ _ _ H) as Hle.
  destruct (new_snap _ _ _ _ H Hx) as [Hold|[[_ Hnew]|[o [_ Hnew]]]].
  - eapply tbl_reachb_trans; [apply I; exact Hold | exact Hle].
  - subst. simpl. exact Hle.
  - subst. simpl. exact Hle.
Qed.

Theorem snapshots_reach_current : forall n s0 ls st,
  exec (init n s0) ls = Some st -> InvR st.
Proof.
  intros n s0 ls. assert (G : forall ls st st', InvR st -> exec st ls = Some st' -> InvR st').
  { clear. intros ls; induction ls as [|l r IH]; intros st st' I He; simpl in *.
    - inversion He; subst; auto.
    - destruct (astep st l) as [st1|] eqn:Hs; [|discriminate]. eapply IH; [|eauto]. eapply InvR_step; eauto. }
  intros st He. eapply G; [|exact He]. intros x H. cbv in H. destruct H.
Qed.

(* later states are reachable from earlier ones *)
Theorem exec_reach : forall ls st st', exec st ls = Some st' -> tbl_reachb (tbl (sc st)) (tbl (sc st')) = true.
Proof.
  intros ls; induction ls as [|l r IH]; intros st st' He; simpl in *.
  - inversion He; subst. apply tbl_reachb_refl.
  - destruct (astep st l) as [st1|] eqn:Hs; [|discriminate].
    eapply tbl_reachb_trans; [eapply astep_reach; eauto | eapply IH; eauto].
Qed.

(* every snapshot carries Scheduler.Status (as Agent.Status reads it) of an EARLIER OR EQUAL scheduler state: one from which
   the snapshot's table is reachable (check 1 of Status/Check.v searches exactly these) *)
Definition InvO (st : astate) : Prop :=
  (forall x, In x (snaps st) -> exists s1, s_ov x = ov_of s1 /\ tbl_reachb (tbl s1) (s_tbl x) = true) /\
  (forall o, In o (ovs st) -> exists s1, o = ov_of s1 /\ tbl_reachb (tbl s1) (tbl (sc st)) = true).

Lemma InvO_step : forall st l st', InvO st -> astep st l = Some st' -> InvO st'.
Proof.
  intros st l st' [IA IB] H. pose proof (astep_reach _ _ _ H) as Hle. split.
  - intros x Hx. destruct (new_snap _ _ _ _ H Hx) as [Hold|[[_ Hnew]|[o [Ho Hnew]]]].
    + apply IA; auto.
    + subst. exists (sc st). split; [reflexivity | apply tbl_reachb_refl].
    + subst. simpl. destruct (IB o Ho) as [s1 [E R]]. exists s1. split; auto.
  - intros o Ho. destruct (new_ov _ _ _ _ H Ho) as [Hold|[_ Hnew]].
    + destruct (IB o Hold) as [s1 [E R]]. exists s1. split; auto. eapply tbl_reachb_trans; eauto.
    + subst. exists (sc st). split; auto.
Qed.

Theorem snapshot_overall : forall n s0 ls st,
  exec (init n s0) ls = Some st ->
  forall x, In x (snaps st) -> exists s1, s_ov x = ov_of s1 /\ tbl_reachb (tbl s1) (s_tbl x) = true.
Proof.
  intros n s0 ls. assert (G : forall ls st st', InvO st -> exec st ls = Some st' -> InvO st').
  { clear. intros ls; induction ls as [|l r IH]; intros st st' I He; simpl in *.
    - inversion He; subst; auto.
    - destruct (astep st l) as [st1|] eqn:Hs; [|discriminate]. eapply IH; [|eauto]. eapply InvO_step; eauto. }
  intros st He. apply (G ls (init n s0) st); auto. split; intros x H; cbv in H; destruct H.
Qed.

(* check 9: once the final status has been written it is, and stays, the last line of the history file *)
Theorem final_line_is_last : forall n s0 ls st,
  exec (init n s0) ls = Some st -> 5 <= mrank (mp st) <= 11 -> last_line (file st) = Some (snap_of (sc st)).
Proof.
  intros n s0 ls st He Hr.
  pose proof (InvF_exec _ _ _ (InvF_init n s0) He) as (P4 & OW & CN & FC & LL & CR & CC & TW & CF & OF).
  apply LL. exact Hr.
Qed.
