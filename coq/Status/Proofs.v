(* Status: theorems about the model of Status/Model.v (C08).  stdlib style.

   For ALL table sizes n, socket pre-states s0, label sequences ls (= every interleaving of the agent's threads with the
   abstract step scheduler) and ALL prefixes (= a SIGKILL anywhere):
     live_in_progress        while the run is in progress the socket is bound and the reported status is the live table
     crash                   after a kill the reported status is never `running`, and `finished` only if every step is
                             finished or skipped (full statement since fix b9e9fa2; before it: finding F8a)
     daemon                  after a kill the daemon's Start guard reaches its minute guard: neither "already running" nor an
                             error (full statement since fix 3aa388e; before it: finding F7a)
     restartable             after a kill the probe says not running and the bind (after unlink) succeeds
     final                   a complete run persists - and is afterwards reported with - its final state (full statement since
                             fix 7f2c2d0; before it: findings F8b/F8c) *)
From Coq Require Import List Arith Bool PeanoNat Lia.
Import ListNotations.
From BD.Status Require Import Model.

Arguments snap_of : simpl never.
Arguments ov_of : simpl never.

(* ---- lists --------------------------------------------------------------------------------------------- *)
Lemma last_line_in : forall l s, last_line l = Some s -> In s l.
Proof.
  unfold last_line; intros l s H. destruct (rev l) eqn:E; [discriminate|].
  inversion H; subst. apply in_rev. rewrite E. left; reflexivity.
Qed.

Lemma last_line_app : forall l s, last_line (l ++ [s]) = Some s.
Proof. intros. unfold last_line. rewrite rev_app_distr. reflexivity. Qed.

Lemma last_line_nil_iff : forall l, last_line l = None <-> l = [].
Proof.
  intros l; unfold last_line; split; intro H.
  - destruct (rev l) eqn:E; [|discriminate]. apply (f_equal (@rev snap)) in E. rewrite rev_involutive in E. exact E.
  - subst; reflexivity.
Qed.

(* ---- finished / skipped are stable ------------------------------------------------------------------- *)
Definition node_le (a b : node) : Prop := is_succ (nst a) = true -> b = a.
Definition tbl_le (t t' : table) : Prop := Forall2 node_le t t'.

Lemma tbl_le_refl : forall t, tbl_le t t.
Proof. induction t; constructor; auto. intro; reflexivity. Qed.

Lemma tbl_le_trans : forall a b c, tbl_le a b -> tbl_le b c -> tbl_le a c.
Proof.
  intros a b c H; revert c; induction H as [|x y l l' Hxy Hl IH]; intros c Hc; inversion Hc; subst.
  - constructor.
  - constructor.
    + intro Hs. pose proof (Hxy Hs) as E. subst y. match goal with K : node_le x _ |- _ => exact (K Hs) end.
    + apply IH; assumption.
Qed.

Lemma upd_le : forall t i n n', nth_error t i = Some n -> is_succ (nst n) = false -> tbl_le t (upd t i n').
Proof.
  induction t; intros i n n' Hn Hs; destruct i; simpl in *; try discriminate.
  - inversion Hn; subst. constructor; [|apply tbl_le_refl]. intro H; congruence.
  - constructor; [intro; reflexivity|]. eapply IHt; eauto.
Qed.

Lemma tbl_le_all_succeed : forall t t', tbl_le t t' -> all_succeed t = true -> all_succeed t' = true.
Proof.
  unfold all_succeed; intros t t' H; induction H; simpl; auto.
  intro Hb. apply andb_true_iff in Hb. destruct Hb as [Hx Hl].
  rewrite (H Hx), Hx. simpl. auto.
Qed.

Lemma none_not_succ : forall s, is_none s = true -> is_succ s = false.
Proof. destruct s; simpl; congruence. Qed.
Lemma running_not_succ : forall s, is_running s = true -> is_succ s = false.
Proof. destruct s; simpl; congruence. Qed.

Ltac sstep_cases H :=
  match type of H with sstep ?s ?l = Some _ => destruct l; simpl in H end;
  repeat match type of H with
         | context [match sph ?s with _ => _ end] => destruct (sph s) eqn:?; try discriminate
         | context [match st_at ?t ?i with _ => _ end] => destruct (st_at t i) eqn:?; try discriminate
         | context [if ?x then _ else _] => destruct x eqn:?; try discriminate
         end;
  inversion H; subst; clear H.

Lemma sstep_le : forall s l s', sstep s l = Some s' -> tbl_le (tbl s) (tbl s').
Proof.
  intros s l s' H. sstep_cases H; simpl; try apply tbl_le_refl;
    repeat match goal with
           | H : _ && _ = true |- _ => apply andb_true_iff in H; destruct H
           end;
    (eapply upd_le; [eassumption|];
     first [apply none_not_succ; assumption | apply running_not_succ; assumption
           | match goal with n : node |- _ => destruct (nst n); simpl in *; try discriminate; reflexivity end]).
Qed.

Lemma recv_tbl : forall s s', recv s = Some s' -> tbl s' = tbl s /\ canc s' = canc s /\ serr s' = serr s /\ sph s' = sph s.
Proof.
  unfold recv; intros s s' H. destruct (pend s); try discriminate. destruct (workers s); try discriminate.
  inversion H; subst; simpl; auto.
Qed.

Lemma recv_snap : forall s s', recv s = Some s' -> snap_of s' = snap_of s.
Proof.
  intros s s' H. apply recv_tbl in H. destruct H as (Ht & Hc & He & Hp).
  unfold snap_of, ov_of, started. rewrite Ht, Hc, He, Hp. reflexivity.
Qed.

Lemma recv_ov : forall s s', recv s = Some s' -> ov_of s' = ov_of s.
Proof. intros s s' H. pose proof (recv_snap _ _ H) as E. unfold snap_of in E. congruence. Qed.

(* ---- one step of the agent ------------------------------------------------------------------------------ *)
Ltac astep_cases H :=
  match type of H with astep ?st ?l = Some _ => destruct l; simpl in H end;
  repeat match type of H with
         | context [match mp ?s with _ => _ end] => destruct (mp s) eqn:?; try discriminate
         | context [match fs ?s with _ => _ end] => destruct (fs s) eqn:?; try discriminate
         | context [match cp ?s with _ => _ end] => destruct (cp s) eqn:?; try discriminate
         | context [match sph ?s with _ => _ end] => destruct (sph s) eqn:?; try discriminate
         | context [match sstep ?s ?a with _ => _ end] => destruct (sstep s a) eqn:?; try discriminate
         | context [match recv ?s with _ => _ end] => destruct (recv s) eqn:?; try discriminate
         | context [match last_line ?s with _ => _ end] => destruct (last_line s) eqn:?; try discriminate
         | context [match tmp ?s with _ => _ end] => destruct (tmp s) eqn:?; try discriminate
         | context [if ?x then _ else _] => destruct x eqn:?; try discriminate
         end;
  inversion H; subst; clear H.

Lemma astep_le : forall st l st', astep st l = Some st' -> tbl_le (tbl (sc st)) (tbl (sc st')).
Proof.
  intros st l st' H. astep_cases H; simpl; try apply tbl_le_refl.
  - eapply sstep_le; eauto.
  - match goal with H : recv _ = Some _ |- _ => apply recv_tbl in H; destruct H as (Ht & _) end.
    rewrite Ht. apply tbl_le_refl.
Qed.

(* every snapshot that exists anywhere: in the file, in the twin, or computed and not yet written *)
Definition inflight (st : astate) : list snap :=
  (match fs st with FComputed s => [s] | _ => [] end) ++
  (match cp st with CComputed s => [s] | _ => [] end) ++
  (match mp st with MFinalComputed s | MCompactRead s | MCompactCreated s => [s] | _ => [] end).
Definition snaps (st : astate) : list snap :=
  file st ++ (match cfile st with Some l => l | None => [] end) ++ (match tmp st with Some l => l | None => [] end) ++ inflight st.

Lemma in_append : forall st s x, In x (append st s) -> In x (file st) \/ x = s.
Proof.
  unfold append; intros st s x H. destruct (wclosed st); auto. destruct (orig st); auto.
  apply in_app_iff in H. destruct H as [H|[H|[]]]; auto.
Qed.

(* overall statuses read and not yet paired with a table *)
Definition ovs (st : astate) : list ostatus :=
  (match fs st with FOv o => [o] | _ => [] end) ++ (match cp st with COv o => [o] | _ => [] end).

(* a snapshot that exists after a step existed before it, or was computed by this step from the current state, or pairs an
   overall status read earlier with the current table *)
Lemma new_snap : forall st l st' x,
  astep st l = Some st' -> In x (snaps st') ->
  In x (snaps st) \/ (computes l = true /\ x = snap_of (sc st)) \/
  (exists o, In o (ovs st) /\ x = mkSnap o (tbl (sc st))).
Proof.
  intros st l st' x H Hin. unfold snaps, inflight, ovs in *.
  astep_cases H; simpl in *;
    repeat match goal with
           | H : mp _ = _ |- _ => rewrite H in *
           | H : fs _ = _ |- _ => rewrite H in *
           | H : cp _ = _ |- _ => rewrite H in *
           end; simpl in *;
    repeat (rewrite in_app_iff in Hin; simpl in Hin);
    repeat (rewrite in_app_iff; simpl);
    try (match goal with H : last_line _ = Some _ |- _ => apply last_line_in in H end);
    repeat match goal with
           | H : _ \/ _ |- _ => destruct H
           | H : In _ (append _ _) |- _ => apply in_append in H
           | H : False |- _ => destruct H
           end; subst; auto 10.
  all: right; right; eexists; split; try reflexivity; repeat (rewrite in_app_iff; simpl); auto.
Qed.

Lemma new_ov : forall st l st' o,
  astep st l = Some st' -> In o (ovs st') ->
  In o (ovs st) \/ (computes l = true /\ o = ov_of (sc st)).
Proof.
  intros st l st' o H Hin. unfold ovs in *.
  astep_cases H; simpl in *;
    repeat match goal with
           | H : fs _ = _ |- _ => rewrite H in *
           | H : cp _ = _ |- _ => rewrite H in *
           end; simpl in *;
    repeat (rewrite in_app_iff in Hin; simpl in Hin);
    repeat (rewrite in_app_iff; simpl);
    repeat match goal with
           | H : _ \/ _ |- _ => destruct H
           | H : False |- _ => destruct H
           end; subst; auto 10.
Qed.

(* ---- invariant 1: every snapshot is a past state ------------------------------------------------------- *)
Definition Inv1 (st : astate) : Prop := forall x, In x (snaps st) -> tbl_le (s_tbl x) (tbl (sc st)).

Lemma Inv1_init : forall n s0, Inv1 (init n s0).
Proof. intros n s0 x H. cbv in H. destruct H. Qed.

Lemma Inv1_step : forall st l st', Inv1 st -> astep st l = Some st' -> Inv1 st'.
Proof.
  intros st l st' I H x Hx. pose proof (astep_le _ _ _ H) as Hle.
  destruct (new_snap _ _ _ _ H Hx) as [Hold|[[_ Hnew]|[o [_ Hnew]]]].
  - eapply tbl_le_trans; [apply I; exact Hold | exact Hle].
  - subst. simpl. exact Hle.
  - subst. simpl. exact Hle.
Qed.

(* ---- invariant 2: no snapshot says `finished` with a step pending, if none is taken inside the window -- *)
Definition Inv2 (st : astate) : Prop :=
  (forall x, In x (snaps st) -> s_ov x = OSuccess -> all_succeed (s_tbl x) = true) /\
  (forall o, In o (ovs st) -> o = OSuccess -> all_succeed (tbl (sc st)) = true).

Lemma Inv2_step : forall st l st',
  Inv2 st -> (computes l = true -> gap (sc st) = false) -> astep st l = Some st' -> Inv2 st'.
Proof.
  intros st l st' [IA IB] Hg H. pose proof (astep_le _ _ _ H) as Hle. split.
  - intros x Hx Hov.
    destruct (new_snap _ _ _ _ H Hx) as [Hold|[[Hc Hnew]|[o [Ho Hnew]]]].
    + apply IA; auto.
    + subst. specialize (Hg Hc). unfold gap in Hg. rewrite Hov in Hg.
      simpl. apply negb_false_iff in Hg. exact Hg.
    + subst. simpl in *. apply IB with (o := o); auto.
  - intros o Ho Hov. eapply tbl_le_all_succeed; [exact Hle|].
    destruct (new_ov _ _ _ _ H Ho) as [Hold|[Hc Hnew]].
    + apply IB with (o := o); auto.
    + rewrite Hnew in Hov. specialize (Hg Hc). unfold gap in Hg. simpl in Hg. rewrite Hov in Hg. apply negb_false_iff in Hg. exact Hg.
Qed.

Lemma inv12_exec : forall ls st st',
  Inv1 st -> Inv2 st -> no_gap_snapshot st ls = true -> exec st ls = Some st' -> Inv1 st' /\ Inv2 st'.
Proof.
  intros ls; induction ls as [|l r IH]; intros st st' I1 I2 Hng He; simpl in *.
  - inversion He; subst; auto.
  - destruct (astep st l) as [st1|] eqn:Hs; [|discriminate].
    apply andb_true_iff in Hng. destruct Hng as [Hh Hr].
    apply IH with (st := st1); auto.
    + eapply Inv1_step; eauto.
    + eapply Inv2_step; eauto. intro Hc. rewrite Hc in Hh. simpl in Hh. apply negb_true_iff in Hh. exact Hh.
Qed.

Lemma Inv1_exec : forall ls st st', Inv1 st -> exec st ls = Some st' -> Inv1 st'.
Proof.
  intros ls; induction ls as [|l r IH]; intros st st' I1 He; simpl in *.
  - inversion He; subst; auto.
  - destruct (astep st l) as [st1|] eqn:Hs; [|discriminate]. eapply IH; [|eauto]. eapply Inv1_step; eauto.
Qed.

(* ---- what is reported after a kill ---------------------------------------------------------------------- *)
Lemma correct_not_running : forall s, s_ov (correct s) <> ORunning.
Proof. intros s. unfold correct. destruct (s_ov s) eqn:E; simpl; congruence. Qed.

Lemma correct_success : forall s, s_ov (correct s) = OSuccess -> s_ov s = OSuccess /\ correct s = s.
Proof. intros s. unfold correct. destruct (s_ov s) eqn:E; simpl; try congruence; auto. Qed.

Lemma alive_after_kill : forall st, alive (after_kill st) = false.
Proof. intros st. unfold alive, after_kill; simpl. destruct (sock st); reflexivity. Qed.

Lemma persisted_after_kill : forall st, persisted (after_kill st) = persisted st.
Proof. reflexivity. Qed.

Lemma persisted_in_snaps : forall st s, persisted st = PSnap s -> In s (snaps st).
Proof.
  unfold persisted, snaps; intros st s H.
  destruct (cfile st) as [l|].
  - destruct (last_line l) eqn:E2; inversion H; subst. apply last_line_in in E2.
    apply in_app_iff; right. apply in_app_iff; auto.
  - destruct (if orig st then last_line (file st) else None) as [x|] eqn:E; inversion H; subst.
    destruct (orig st); [|discriminate]. apply last_line_in in E. apply in_app_iff; auto.
Qed.

(* since 3aa388e the history never makes GetLatestStatus fail *)
Lemma persisted_no_err : forall st, persisted st <> PErr.
Proof.
  intros st. unfold persisted. destruct (cfile st) as [l|].
  - destruct (last_line l); discriminate.
  - destruct (if orig st then last_line (file st) else None); discriminate.
Qed.

(* C08_crash, first half: for every prefix of every execution, the status reported after the kill is not `running` *)
Theorem crash_not_running : forall n s0 ls st,
  exec (init n s0) ls = Some st ->
  s_ov (fst (report n (after_kill st))) <> ORunning.
Proof.
  intros n s0 ls st _. unfold report, reported. rewrite alive_after_kill.
  destruct (persisted (after_kill st)); simpl; try congruence. apply correct_not_running.
Qed.

(* ... and is `finished` only if every step is finished or skipped, provided no snapshot was taken while Scheduler.Status
   was inside the window of F8a - which, since b9e9fa2, never happens (no_gap below) *)
Lemma crash_under_no_gap : forall n s0 ls st,
  exec (init n s0) ls = Some st ->
  no_gap_snapshot (init n s0) ls = true ->
  s_ov (fst (report n (after_kill st))) = OSuccess ->
  all_succeed (tbl (sc st)) = true.
Proof.
  intros n s0 ls st He Hng Hr.
  destruct (inv12_exec ls (init n s0) st) as [I1 I2]; auto.
  { apply Inv1_init. } { split; intros x H; cbv in H; destruct H. }
  unfold report, reported in Hr. rewrite alive_after_kill, persisted_after_kill in Hr.
  destruct (persisted st) as [| |s] eqn:Hp; simpl in Hr; try discriminate.
  apply correct_success in Hr. destruct Hr as [Hov _].
  apply persisted_in_snaps in Hp.
  eapply tbl_le_all_succeed; [apply I1; exact Hp | apply (proj1 I2); auto].
Qed.

(* ---- Scheduler.Status (since b9e9fa2) never is inside the window --------------------------------------- *)
Definition flags_ok (s : sched) : Prop :=
  forall x, In x (tbl s) -> is_bad (nst x) = true -> serr s || canc s = true.

Lemma in_upd : forall (t : table) i n x, In x (upd t i n) -> In x t \/ x = n.
Proof.
  induction t; intros i n x H; destruct i; simpl in *; auto.
  - destruct H; auto.
  - destruct H; auto. apply IHt in H. destruct H; auto.
Qed.

Lemma flags_ok_sstep : forall s l s', flags_ok s -> sstep s l = Some s' -> flags_ok s'.
Proof.
  intros s l s' F H. sstep_cases H; unfold flags_ok, set_st in *; simpl; intros x Hx Hb;
    repeat match goal with
           | H : _ && _ = true |- _ => apply andb_true_iff in H; destruct H
           | H : _ || _ = true |- _ => apply orb_true_iff in H
           end;
    try (apply in_upd in Hx; destruct Hx as [Hx|Hx]; [|subst; simpl in *; try discriminate]);
    try (specialize (F _ Hx Hb));
    repeat match goal with
           | H : _ || _ = true |- _ => apply orb_true_iff in H
           end;
    try (apply orb_true_iff); intuition (try congruence);
    repeat match goal with
           | b : bool |- _ => destruct b; simpl in *; try discriminate; auto
           end.
Qed.

Lemma flags_ok_recv : forall s s', flags_ok s -> recv s = Some s' -> flags_ok s'.
Proof.
  intros s s' F H. apply recv_tbl in H. destruct H as (Ht & Hc & He & _).
  unfold flags_ok in *. rewrite Ht, Hc, He. exact F.
Qed.

Lemma flags_ok_astep : forall st l st', flags_ok (sc st) -> astep st l = Some st' -> flags_ok (sc st').
Proof.
  intros st l st' F H. astep_cases H; simpl; auto.
  - eapply flags_ok_sstep; eauto.
  - eapply flags_ok_recv; eauto.
Qed.

Lemma flags_ok_init : forall n, flags_ok (init_sched n).
Proof.
  intros n x H. unfold init_sched, init_table in H; simpl in H. apply repeat_spec in H. subst. simpl. discriminate.
Qed.

Lemma forallb_intro : forall (A : Type) (f : A -> bool) l, (forall x, In x l -> f x = true) -> forallb f l = true.
Proof. intros. apply forallb_forall. assumption. Qed.

Lemma existsb_false : forall (A : Type) (f : A -> bool) l x, existsb f l = false -> In x l -> f x = false.
Proof.
  intros A f l x H Hin. destruct (f x) eqn:E; auto.
  assert (existsb f l = true) by (apply existsb_exists; exists x; auto). congruence.
Qed.

Lemma no_gap_fixed : forall s, flags_ok s -> gap s = false.
Proof.
  intros s F. unfold gap, snap_of, ov_of, overall. simpl.
  destruct (canc s && negb (all_succeed (tbl s))) eqn:E1; simpl; auto.
  destruct (started s) eqn:E2; simpl; auto.
  destruct (any_running (tbl s)) eqn:E3; simpl; auto.
  destruct (serr s) eqn:E4; simpl; auto.
  destruct (any_pending (tbl s)) eqn:E5; simpl; auto.
  apply negb_false_iff.
  destruct (canc s) eqn:E6; simpl in E1.
  - apply negb_false_iff in E1. exact E1.
  - apply forallb_intro. intros x Hx.
    pose proof (existsb_false _ _ _ _ E5 Hx) as Hp. simpl in Hp.
    specialize (F x Hx). rewrite E4, E6 in F. simpl in F.
    destruct (nst x); simpl in *; try discriminate; auto; exfalso; apply diff_false_true; apply F; reflexivity.
Qed.

Lemma no_gap_snapshot_fixed : forall ls st, flags_ok (sc st) -> no_gap_snapshot st ls = true.
Proof.
  induction ls as [|l r IH]; intros st F; simpl; auto.
  rewrite (no_gap_fixed _ F). simpl. rewrite orb_true_r. simpl.
  destruct (astep st l) eqn:E; auto. apply IH. eapply flags_ok_astep; eauto.
Qed.

(* C08_crash: for every prefix of every execution (= a kill anywhere) the status reported afterwards is not `running`,
   and is `finished` only if every step is finished or skipped.  No premise. *)
Theorem crash : forall n s0 ls st,
  exec (init n s0) ls = Some st ->
  s_ov (fst (report n (after_kill st))) <> ORunning /\
  (s_ov (fst (report n (after_kill st))) = OSuccess -> all_succeed (tbl (sc st)) = true).
Proof.
  intros n s0 ls st He. split.
  - eapply crash_not_running; eauto.
  - apply crash_under_no_gap with (s0 := s0) (ls := ls); auto.
    apply no_gap_snapshot_fixed. simpl. apply flags_ok_init.
Qed.

(* before fix b9e9fa2 this execution (chain of two steps, kill after the snapshot that follows the first) was the witness of
   finding F8a: the history said `finished`, the second step never started.  Now the snapshot says `running`, shown as failed. *)
Definition f8a_trace : list alabel :=
  [LLockDag; LOpen; LWriteS0; LBind; LSched AStart; LSched (ALaunch 0); LSched (AEnd 0 true); LSched ADoneSend;
   LNotify; LCLock; LCOv; LCTbl; LCAppend].

Example f8a_trace_now_failed : exists st,
  exec (init 2 SockAbsent) f8a_trace = Some st /\ s_ov (fst (report 2 (after_kill st))) = OError /\
  map nst (s_tbl (fst (report 2 (after_kill st)))) = [NSuccess; NNone].
Proof. eexists. split; [vm_compute; reflexivity|]. vm_compute. auto. Qed.

(* a torn snapshot (overall status read between two steps, table copied after the next step was launched): before b9e9fa2
   `finished` with a running step; now `running`, shown as failed *)
Example torn_snapshot_now_failed : exists st,
  exec (init 2 SockAbsent)
    [LLockDag; LOpen; LWriteS0; LBind; LSched AStart; LSched (ALaunch 0); LSched (AEnd 0 true); LSched ADoneSend;
     LNotify; LCLock; LCOv; LSched (ALaunch 1); LCTbl; LCAppend] = Some st /\
  s_ov (fst (report 2 (after_kill st))) = OError /\
  map nst (s_tbl (fst (report 2 (after_kill st)))) = [NSuccess; NRunning].
Proof. eexists. split; [vm_compute; reflexivity|]. vm_compute. auto. Qed.

(* the theorem is not vacuous: a kill after the last step's snapshot reports `finished`, and every step is finished *)
Example crash_nonvacuous :
  exists ls st, exec (init 2 SockAbsent) ls = Some st /\
                s_ov (fst (report 2 (after_kill st))) = OSuccess /\ all_succeed (tbl (sc st)) = true.
Proof.
  exists [LLockDag; LOpen; LWriteS0; LBind; LSched AStart; LSched (ALaunch 0); LSched (ALaunch 1); LSched (AEnd 0 true);
          LSched (AEnd 1 true); LSched ADoneSend; LNotify; LCLock; LCOv; LCTbl; LCAppend].
  eexists. split; [vm_compute; reflexivity|]. vm_compute. auto.
Qed.

(* ---- live ------------------------------------------------------------------------------------------------ *)
Definition in_progress (st : astate) : bool :=
  match sph (sc st) with SLoop | SHandlers => true | _ => false end.

Definition InvL (st : astate) : Prop :=
  (3 <= mrank (mp st) <= 6 -> sock st = SockLive) /\
  (sph (sc st) <> SInit -> 3 <= mrank (mp st)) /\
  (sph (sc st) <> SReturned -> mrank (mp st) <= 3).

Lemma InvL_step : forall st l st', InvL st -> astep st l = Some st' -> InvL st'.
Proof.
  intros st l st' (A & B & C) H.
  astep_cases H; unfold InvL; simpl in *;
    repeat match goal with
           | H : mp _ = _ |- _ => rewrite H in *
           | H : sph _ = _ |- _ => rewrite H in *
           end; simpl in *;
    try (match goal with H : recv _ = Some _ |- _ => apply recv_tbl in H; destruct H as (_ & _ & _ & Hph); rewrite Hph in * end);
    repeat split; intros; try lia; try congruence; auto;
    try (apply A; lia);
    try (exfalso; apply C; [congruence|]; lia);
    try (assert (3 <= 2) by (apply B; congruence); lia);
    try (assert (3 <= 1) by (apply B; congruence); lia);
    try (assert (3 <= 0) by (apply B; congruence); lia).
  all: try (match goal with K : sph _ <> SReturned |- _ => specialize (C K); lia end).
Qed.

Lemma InvL_init : forall n s0, InvL (init n s0).
Proof. intros; unfold InvL; simpl. repeat split; intros; try lia; congruence. Qed.

Lemma InvL_exec : forall ls st st', InvL st -> exec st ls = Some st' -> InvL st'.
Proof.
  intros ls; induction ls as [|l r IH]; intros st st' I He; simpl in *.
  - inversion He; subst; auto.
  - destruct (astep st l) as [st1|] eqn:Hs; [|discriminate]. eapply IH; [|eauto]. eapply InvL_step; eauto.
Qed.

(* C08_live: in every reachable state in which the run is in progress (Schedule has started and not returned), the
   socket is bound and the reported status is `running` with the node table of the current state *)
Theorem live_in_progress : forall n s0 ls st,
  exec (init n s0) ls = Some st ->
  in_progress st = true ->
  alive st = true /\ report n st = (mkSnap ORunning (tbl (sc st)), false).
Proof.
  intros n s0 ls st He Hp.
  pose proof (InvL_exec _ _ _ (InvL_init n s0) He) as (A & B & C).
  assert (Hs : sock st = SockLive).
  { apply A. unfold in_progress in Hp. destruct (sph (sc st)) eqn:E; try discriminate.
    - split; [apply B; congruence | assert (mrank (mp st) <= 3) by (apply C; congruence); lia].
    - split; [apply B; congruence | assert (mrank (mp st) <= 3) by (apply C; congruence); lia]. }
  unfold report, reported, alive. rewrite Hs. split; reflexivity.
Qed.

(* whenever the socket answers, what is reported is the live table, whatever the history holds *)
Theorem live_when_bound : forall n st,
  alive st = true -> report n st = (mkSnap ORunning (tbl (sc st)), false).
Proof. intros n st H. unfold report, reported. rewrite H. reflexivity. Qed.

Example live_nonvacuous : exists st,
  exec (init 2 SockStale) [LLockDag; LOpen; LWriteS0; LBind; LSched AStart; LSched (ALaunch 0); LSched (AEnd 0 true)] = Some st /\
  in_progress st = true /\ map nst (s_tbl (fst (report 2 st))) = [NSuccess; NNone] /\ s_ov (fst (report 2 st)) = ORunning.
Proof. eexists. split; [vm_compute; reflexivity|]. vm_compute. auto. Qed.

(* ---- final ------------------------------------------------------------------------------------------------- *)
(* once Schedule has returned the scheduler state is frozen *)
Lemma sstep_returned : forall s l, sph s = SReturned -> sstep s l = None.
Proof. intros s l H. destruct l; simpl; rewrite H; try reflexivity; destruct (st_at (tbl s) i); reflexivity. Qed.

Definition cur (st : astate) : snap := snap_of (sc st).

(* since 7f2c2d0: the main thread's final snapshot is taken after Schedule returned, and nothing is appended after it *)
Definition InvF (st : astate) : Prop :=
  (4 <= mrank (mp st) -> sph (sc st) = SReturned) /\
  (1 <= mrank (mp st) <= 11 -> orig st = true /\ wclosed st = false) /\
  (mrank (mp st) <= 10 -> cfile st = None) /\
  (forall s, mp st = MFinalComputed s -> s = cur st) /\
  (5 <= mrank (mp st) <= 11 -> last_line (file st) = Some (cur st)) /\
  (forall s, mp st = MCompactRead s -> s = cur st) /\
  (forall s, mp st = MCompactCreated s -> s = cur st) /\
  (mp st = MCompactWritten -> tmp st = Some [cur st]) /\
  (11 <= mrank (mp st) -> cfile st = Some [cur st]) /\
  (12 <= mrank (mp st) -> orig st = false).

Lemma InvF_init : forall n s0, InvF (init n s0).
Proof.
  intros. unfold InvF; simpl. repeat split; intros; try lia; try congruence; try discriminate.
Qed.

Lemma append_last : forall st s, orig st = true -> wclosed st = false -> last_line (append st s) = Some s.
Proof. intros st s Ho Hw. unfold append. rewrite Ho, Hw. apply last_line_app. Qed.

Lemma InvF_step : forall st l st', InvF st -> astep st l = Some st' -> InvF st'.
Proof.
  intros st l st' (P4 & OW & CN & FC & LL & CR & CC & TW & CF & OF) H.
  astep_cases H; unfold InvF, cur, finished in *; simpl in *;
    repeat match goal with
           | H : mp _ = _ |- _ => rewrite H in *
           | H : fs _ = _ |- _ => rewrite H in *
           | H : cp _ = _ |- _ => rewrite H in *
           end; simpl in *.
  all: try (match goal with H : recv _ = Some _ |- _ =>
              pose proof (recv_snap _ _ H) as Hsn; apply recv_tbl in H; destruct H as (_ & _ & _ & Hph);
              rewrite ?Hsn, ?Hph in * end).
  all: try (match goal with H : sstep ?s ?a = Some ?s' |- _ =>
              assert (Hnr : sph s <> SReturned) by (intro Hx; rewrite (sstep_returned _ a Hx) in H; discriminate) end).
  all: try (match goal with H : (_ <=? _) = true |- _ => apply Nat.leb_le in H end).
  all: try (match goal with H : (_ <=? _) = false |- _ => apply Nat.leb_gt in H end).
  all: try (pose proof (LL ltac:(lia)) as HLL).
  all: try (destruct (OW ltac:(lia)) as [Ho Hw]).
  all: try (pose proof (CF ltac:(lia)) as HCF).
  all: try (pose proof (OF ltac:(lia)) as HOF).
  all: try (pose proof (CN ltac:(lia)) as HCN).
  all: try (pose proof (FC _ eq_refl) as HFC).
  all: try (pose proof (CR _ eq_refl) as HCR).
  all: try (pose proof (CC _ eq_refl) as HCC).
  all: try (pose proof (TW eq_refl) as HTW).
  all: repeat split; intros; subst; try lia; try congruence; try discriminate; auto.
  all: try solve [rewrite append_last; congruence].
  all: try solve [apply P4; lia].
  all: try solve [apply OW; lia].
  all: try solve [exfalso; match goal with K : 4 <= _ |- _ => specialize (P4 K); congruence end].
  all: try solve [exfalso; match goal with K : match mrank ?m with _ => _ end = false |- _ =>
                    destruct (mrank m) as [|[|[|[|[|k]]]]]; simpl in K; try discriminate; lia end].
Qed.

Lemma InvF_exec : forall ls st st', InvF st -> exec st ls = Some st' -> InvF st'.
Proof.
  intros ls; induction ls as [|l r IH]; intros st st' I He; simpl in *.
  - inversion He; subst; auto.
  - destruct (astep st l) as [st1|] eqn:Hs; [|discriminate]. eapply IH; [|exact He]. eapply InvF_step; eauto.
Qed.

Lemma sock_down_exec : forall ls st0 st1,
  (7 <= mrank (mp st0) -> sock st0 <> SockLive) -> exec st0 ls = Some st1 ->
  (7 <= mrank (mp st1) -> sock st1 <> SockLive).
Proof.
  intros ls; induction ls as [|l r IH]; intros st0 st1 I He; simpl in He.
  - inversion He; subst; auto.
  - destruct (astep st0 l) as [st2|] eqn:Hs; [|discriminate]. eapply IH; [|exact He].
    clear - I Hs. astep_cases Hs; simpl in *;
      repeat match goal with H : mp _ = _ |- _ => rewrite H in * end; simpl in *; intros; try lia; try congruence; auto;
      apply I; lia.
Qed.

(* C08_final - the full statement (since fix 7f2c2d0; before it false when a snapshot computed earlier was appended after the
   final status: findings F8b/F8c).  After a complete run (the writer has been closed) the persisted status is the final state
   of the run, and that is what is reported.  No premise. *)
Theorem final : forall n s0 ls st,
  exec (init n s0) ls = Some st ->
  mp st = MClosed ->
  persisted st = PSnap (snap_of (sc st)) /\
  report n st = (correct (snap_of (sc st)), false).
Proof.
  intros n s0 ls st He Hm.
  pose proof (InvF_exec _ _ _ (InvF_init n s0) He) as (P4 & OW & CN & FC & LL & CR & CC & TW & CF & OF).
  rewrite Hm in *. simpl in *.
  assert (Hc : cfile st = Some [cur st]) by (apply CF; lia).
  assert (Hp : persisted st = PSnap (snap_of (sc st))).
  { unfold persisted. rewrite Hc. reflexivity. }
  split; auto.
  unfold report, reported. rewrite Hp.
  destruct (alive st) eqn:Ha; auto.
  exfalso. unfold alive in Ha. destruct (sock st) eqn:E; try discriminate.
  eapply (sock_down_exec ls (init n s0) st); eauto; simpl; try lia. rewrite Hm; simpl; lia.
Qed.

(* before fix 7f2c2d0 the witness of F8b: the "first status" goroutine computed its snapshot (`running`) while the second step
   ran, the run finished, the final status was written, then the stale snapshot was appended and compacted as the status of
   the run.  Now the goroutine holds statusLock from before its Status() until after its Write: the main thread cannot take
   its final snapshot in between ... *)
Definition f8b_prefix : list alabel :=
  [LLockDag; LOpen; LWriteS0; LBind; LSched AStart; LSched (ALaunch 0); LSched (AEnd 0 true); LSched ADoneSend; LNotify; LCLock; LCOv; LCTbl; LCAppend;
   LSched (ALaunch 1); LFsWake; LFsOv; LFsTbl;
   LSched (AEnd 1 true); LSched ADoneSend; LNotify; LSched AWait; LSched AReturn].

Example f8b_main_must_wait :
  (exists st, exec (init 2 SockAbsent) f8b_prefix = Some st /\ locked st = true) /\
  exec (init 2 SockAbsent) (f8b_prefix ++ [LFinalLock]) = None /\
  exec (init 2 SockAbsent) (f8b_prefix ++ [LCLock]) = None.
Proof. split; [eexists; split; vm_compute; reflexivity|]. split; vm_compute; reflexivity. Qed.

(* ... and the run ends with its final state persisted and reported *)
Example f8b_trace_now_final : exists st,
  exec (init 2 SockAbsent)
    (f8b_prefix ++ [LFsAppend; LCLock; LCOv; LCTbl; LCAppend; LFinalLock; LFinalCompute; LFinalAppend; LFinish; LUnbind;
                    LCompactRead; LCompactCreate; LCompactWrite; LCompactRename; LCompactUnlink; LCloseWriter]) = Some st /\
  mp st = MClosed /\ persisted st = PSnap (snap_of (sc st)) /\ s_ov (fst (report 2 st)) = OSuccess /\
  map (fun x => s_ov x) (file st) = [ONone; ORunning; ORunning; OSuccess; OSuccess].
Proof. eexists. split; [vm_compute; reflexivity|]. vm_compute. auto. Qed.

(* a snapshot goroutine that comes after the final status (finished flag set) appends nothing *)
Example late_snapshot_not_appended : exists st st',
  exec (init 1 SockAbsent)
    [LLockDag; LOpen; LWriteS0; LBind; LSched AStart; LSched (ALaunch 0); LSched (AEnd 0 true); LSched ADoneSend; LNotify; LSched AWait;
     LSched AReturn; LFinalLock; LFinalCompute; LFinalAppend] = Some st /\
  exec st [LCLock; LCOv; LCTbl; LCAppend; LFsWake; LFsOv; LFsTbl; LFsAppend] = Some st' /\ file st' = file st /\ length (file st) = 2.
Proof. eexists. eexists. split; [vm_compute; reflexivity|]. vm_compute. auto. Qed.

(* ---- the daemon's Start guard and restart ---------------------------------------------------------------- *)
(* C08_daemon: after a kill anywhere the daemon's Start neither takes the DAG for running nor fails on the history: it reaches
   its minute guard.  No premise (before fix 3aa388e: only when the kill did not fall between the creation of the history file
   and its first line - finding F7a). *)
Theorem daemon : forall n s0 ls st,
  exec (init n s0) ls = Some st -> job_guard (report n (after_kill st)) = GMinuteGuard.
Proof.
  intros n s0 ls st He.
  pose proof (crash_not_running n s0 ls st He) as Hnr.
  unfold job_guard. unfold report, reported in *. rewrite alive_after_kill, persisted_after_kill in *.
  pose proof (persisted_no_err st) as Hp.
  destruct (persisted st) as [| |s]; simpl in *; try congruence.
  destruct (s_ov (correct s)); try reflexivity. congruence.
Qed.

(* before fix 3aa388e this was the witness of finding F7a (guard = refused with EOF): kill right after the history file was created *)
Example daemon_after_open : exists st,
  exec (init 2 SockAbsent) [LLockDag; LOpen] = Some st /\ mp st = MOpened /\ job_guard (report 2 (after_kill st)) = GMinuteGuard.
Proof. eexists. split; [vm_compute; reflexivity|]. split; vm_compute; reflexivity. Qed.

(* kills inside Close's compaction (since eb925d1: tmp, rename, unlink).  A stray tmp - empty or written - is invisible to the
   reader: the complete original is reported; once the twin is published it is read and the original next to it is dropped;
   after the unlink the twin alone is read.  Always the final state, never an error. *)
Definition run1_to_unbind : list alabel :=
  [LLockDag; LOpen; LWriteS0; LBind; LSched AStart; LSched (ALaunch 0); LSched (AEnd 0 true); LSched ADoneSend; LNotify; LCLock; LCOv; LCTbl; LCAppend;
   LSched AWait; LSched AReturn; LFinalLock; LFinalCompute; LFinalAppend; LFinish; LUnbind].

Definition reports_final_after_kill (k : list alabel) : Prop :=
  exists st, exec (init 1 SockAbsent) (run1_to_unbind ++ k) = Some st /\
             report 1 (after_kill st) = (snap_of (sc st), false) /\ s_ov (snap_of (sc st)) = OSuccess.

Example kill_inside_compaction :
  reports_final_after_kill [LCompactRead] /\
  reports_final_after_kill [LCompactRead; LCompactCreate] /\
  reports_final_after_kill [LCompactRead; LCompactCreate; LCompactWrite] /\
  reports_final_after_kill [LCompactRead; LCompactCreate; LCompactWrite; LCompactRename] /\
  reports_final_after_kill [LCompactRead; LCompactCreate; LCompactWrite; LCompactRename; LCompactUnlink].
Proof.
  unfold reports_final_after_kill.
  split; [|split; [|split; [|split]]]; (eexists; split; [vm_compute; reflexivity | split; vm_compute; reflexivity]).
Qed.

Example stray_tmp_states :
  (exists st, exec (init 1 SockAbsent) (run1_to_unbind ++ [LCompactRead; LCompactCreate]) = Some st /\
              tmp st = Some [] /\ cfile st = None /\ orig st = true) /\
  (exists st, exec (init 1 SockAbsent) (run1_to_unbind ++ [LCompactRead; LCompactCreate; LCompactWrite]) = Some st /\
              tmp st = Some [snap_of (sc st)] /\ cfile st = None /\ orig st = true) /\
  (exists st, exec (init 1 SockAbsent) (run1_to_unbind ++ [LCompactRead; LCompactCreate; LCompactWrite; LCompactRename]) = Some st /\
              tmp st = None /\ cfile st = Some [snap_of (sc st)] /\ orig st = true).
Proof.
  split; [|split]; (eexists; split; [vm_compute; reflexivity | split; [|split]; vm_compute; reflexivity]).
Qed.

(* C08_restartable: after a kill at any point the flock on the start lock file is free (released by the kernel at process death), a new
   agent's probe says "not running", and its bind - preceded by the unlink of sock/server.go - succeeds, whatever the kill left at
   the socket path *)
Theorem restartable : forall n s0 ls st,
  exec (init n s0) ls = Some st ->
  dlock (after_kill st) = false /\
  probe_running (sock (after_kill st)) = false /\ bind_ok true (sock (after_kill st)) = true.
Proof. intros. unfold after_kill; simpl. destruct (sock st); auto. Qed.

(* the flock is held during start-up only (from before the already-running check until the socket listens): a live run does not
   keep later starts waiting - they get to the probe and are refused there *)
Theorem flock_only_during_startup : forall n s0 ls st,
  exec (init n s0) ls = Some st -> dlock st = true -> mrank (mp st) <= 2.
Proof.
  intros n s0 ls. assert (G : forall ls st st', (dlock st = true -> mrank (mp st) <= 2) -> exec st ls = Some st' ->
                                                (dlock st' = true -> mrank (mp st') <= 2)).
  { clear. intros ls; induction ls as [|l r IH]; intros st st' I He; simpl in He.
    - inversion He; subst; auto.
    - destruct (astep st l) as [st1|] eqn:Hs; [|discriminate]. eapply IH; [|exact He].
      clear - I Hs. astep_cases Hs; simpl in *;
        repeat match goal with H : mp _ = _ |- _ => rewrite H in * end; simpl in *; intros; try lia; try congruence; auto;
        try (match goal with K : dlock _ = true |- _ => specialize (I K); lia end). }
  intros st He. eapply G; [|exact He]. simpl. intros; lia.
Qed.

(* ... and the unlink is what makes it so: without it a kill while the socket is bound blocks every later start *)
Theorem unlink_needed : exists ls st,
  exec (init 2 SockAbsent) ls = Some st /\ bind_ok false (sock (after_kill st)) = false.
Proof. exists [LLockDag; LOpen; LWriteS0; LBind]. eexists. split; vm_compute; reflexivity. Qed.

(* a kill while the flock is held (between the lock and the bind) *)
Example kill_holding_flock : exists st,
  exec (init 2 SockStale) [LLockDag; LOpen; LWriteS0] = Some st /\ dlock st = true /\ dlock (after_kill st) = false.
Proof. eexists. repeat split; vm_compute; reflexivity. Qed.
