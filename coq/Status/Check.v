(* Status: entry points evaluated on the cases of harness/cmd/status (C08 correspondence).
   A case = what one in-process run of the real agent did:
     (number of steps,
      the status lines in the order they reached the history file, each with the thread that wrote it
        (0 = main thread: S0 and the final status; 1 = the goroutine ranging over `done`; 2 = the "first status" goroutine)
        and with hints for the two scheduler flags a status does not show (0 = false, 1 = true, 2 = unknown),
      the live answers obtained through the socket, in time order).
   `case_errors` lists what the model does not allow:
     1  a line's overall status is not Scheduler.Status of its node table (for any admissible value of the hidden flags)
     2  the first line is not S0 (written by the main thread, every step not started, overall not started)
     3  more than two lines by the main thread / more than one by the first-status goroutine
     4  the lines, in file order, are not ONE chain of scheduler states (since 7f2c2d0 every snapshot is collected and appended
        under statusLock: ProofsChain.file_is_a_chain)
     5  a line is not a state from which the final state is reachable
     6  a live answer does not carry the forced status `running`
     7  the live answers are not a chain of scheduler states
     8  a live answer is not a state from which the final state is reachable
     9  a line follows the main thread's final status (since 7f2c2d0 nothing is appended after it) *)
From Coq Require Import List Arith Bool PeanoNat.
Import ListNotations.
From BD.Status Require Import Model.

Definition nst_of (k : nat) : nstatus :=
  match k with 0 => NNone | 1 => NRunning | 2 => NError | 3 => NCancel | 4 => NSuccess | _ => NSkipped end.
Definition ost_of (k : nat) : ostatus :=
  match k with 0 => ONone | 1 => ORunning | 2 => OError | 3 => OCancel | _ => OSuccess end.
Definition ost_eqb (a b : ostatus) : bool :=
  match a, b with ONone, ONone | ORunning, ORunning | OError, OError | OCancel, OCancel | OSuccess, OSuccess => true | _, _ => false end.
Definition nst_eqb (a b : nstatus) : bool :=
  match a, b with
  | NNone, NNone | NRunning, NRunning | NError, NError | NCancel, NCancel | NSuccess, NSuccess | NSkipped, NSkipped => true
  | _, _ => false end.

Definition tbl_of (l : list (nat * nat)) : table := map (fun p => mkNode (nst_of (fst p)) (snd p)) l.
Definition hint (h : nat) : list bool := match h with 0 => [false] | 1 => [true] | _ => [false; true] end.

(* (overall, (cancel-flag hint, lastError hint), node table as (status, retry count), pins);  pins: for each node, true = the
   executor's ground truth says the node held this status for a while when the snapshot was taken (no in-flight transition) *)
Definition snapc := (nat * (nat * nat) * list (nat * nat) * list bool)%type.
Definition livec := (nat * list (nat * nat))%type.
Definition ccase := (nat * list (nat * snapc) * list livec)%type.

(* one node: can the abstract scheduler take it from a to b (in zero or more steps)? *)
Definition node_reachb (a b : node) : bool :=
  match nst a with
  | NNone => nrc a <=? nrc b
  | NRunning => nrc a <=? nrc b
  | NCancel => nrc a <=? nrc b      (* not final: a retrying worker resets a canceled node to none *)
  | _ => nst_eqb (nst a) (nst b) && (nrc a =? nrc b)
  end.
Fixpoint tbl_reachb (t t' : table) : bool :=
  match t, t' with
  | [], [] => true
  | a :: r, b :: r' => node_reachb a b && tbl_reachb r r'
  | _, _ => false
  end.

Fixpoint chainb (l : list table) : bool :=
  match l with
  | a :: ((b :: _) as r) => tbl_reachb a b && chainb r
  | _ => true
  end.

(* Agent.Status reads the overall status first and copies the table later: the overall status of a line is Scheduler.Status
   of an earlier-or-equal table.  For one node, the statuses an earlier state may have held (the retry count does not enter
   Scheduler.Status): *)
Definition preds (a : node) : list node :=
  match nst a with
  | NNone => match nrc a with 0 => [a] | _ => [a; mkNode NRunning 0] end
  | NRunning => [a; mkNode NNone 0]
  | _ => [a; mkNode NRunning 0; mkNode NNone 0]
  end.
Fixpoint earlier (t : table) (pins : list bool) : list table :=
  match t with
  | [] => [[]]
  | a :: r => let here := match pins with true :: _ => [a] | _ => preds a end in
              flat_map (fun r' => map (fun a' => a' :: r') here) (earlier r (tl pins))
  end.

(* hc: the cancel flag (0 false, 1 true, 2 unknown).  he: lastError - 0 = as the model has it (set together with the first
   failed node), 2 = unknown (a stop request or a timeout may have set it; or it is being written this instant) *)
Definition ov_allowed (started : bool) (s : snapc) : bool :=
  let '(ov, (hc, he), t, pins) := s in
  existsb (fun t1 =>
    let errs := match he with 0 => [existsb (fun n => match nst n with NError => true | _ => false end) t1] | _ => [false; true] end in
    existsb (fun c => existsb (fun e =>
      ost_eqb (ov_of (mkSched t1 c e (if started then SLoop else SInit) 0 0)) (ost_of ov)) errs) (hint hc))
  (earlier (tbl_of t) pins).

Definition tbl_of_snapc (s : snapc) : table := tbl_of (snd (fst s)).

Definition case_errors (c : ccase) : list nat :=
  let '(n, ws, lives) := c in
  let mains := filter (fun w => fst w =? 0) ws in
  let cons := filter (fun w => fst w =? 1) ws in
  let fss := filter (fun w => fst w =? 2) ws in
  let final := match mains with [_; f] => Some (tbl_of_snapc (snd f)) | _ => None end in
  let e1 := match ws with
            | [] => []
            | w0 :: r => (if ov_allowed false (snd w0) then [] else [1]) ++
                         (if forallb (fun w => ov_allowed true (snd w)) r then [] else [1])
            end in
  let e2 := match ws with
            | (0, (0, _, t, _)) :: _ => if forallb (fun p => (fst p =? 0) && (snd p =? 0)) t && (length t =? n) then [] else [2]
            | _ => [2]
            end in
  let e3 := if (length mains <=? 2) && (length fss <=? 1) then [] else [3] in
  let e4 := if chainb (map (fun w => tbl_of_snapc (snd w)) ws) then [] else [4] in
  let e5 := match final with
            | Some f => if forallb (fun w => tbl_reachb (tbl_of_snapc (snd w)) f) ws then [] else [5]
            | None => []
            end in
  let e6 := if forallb (fun l => fst l =? 1) lives then [] else [6] in
  let e7 := if chainb (map (fun l => tbl_of (snd l)) lives) then [] else [7] in
  let e8 := match final with
            | Some f => if forallb (fun l => tbl_reachb (tbl_of (snd l)) f) lives then [] else [8]
            | None => []
            end in
  let e9 := match mains with
            | [_; _] => match rev ws with (0, _) :: _ => [] | _ => [9] end
            | _ => []
            end in
  e1 ++ e2 ++ e3 ++ e4 ++ e5 ++ e6 ++ e7 ++ e8 ++ e9.

Fixpoint mism_from (k : nat) (cs : list ccase) : list (nat * nat) :=
  match cs with
  | [] => []
  | c :: r => map (fun e => (k, e)) (case_errors c) ++ mism_from (S k) r
  end.
Definition mismatches (cs : list ccase) : list (nat * nat) := mism_from 0 cs.

(* a run of the model, as a case: the lines its execution leaves in the file are accepted *)
Example accept_model_run :
  case_errors (2, [(0, (0, (0, 0), [(0,0);(0,0)], [])); (1, (1, (0, 0), [(4,0);(0,0)], [])); (2, (1, (0, 0), [(4,0);(1,0)], []));
                   (1, (4, (0, 0), [(4,0);(4,0)], [])); (0, (4, (0, 0), [(4,0);(4,0)], []))],
               [(1, [(0,0);(0,0)]); (1, [(1,0);(0,0)]); (1, [(4,0);(1,0)])]) = [].
Proof. vm_compute. reflexivity. Qed.

(* a torn snapshot (overall read while the second step was running, table copied after it had finished) is a model behaviour *)
Example accept_torn :
  case_errors (2, [(0, (0, (0, 0), [(0,0);(0,0)], [])); (1, (1, (0, 0), [(4,0);(4,0)], []))], []) = [].
Proof. vm_compute. reflexivity. Qed.

(* ... but not when the executor knows that the second step had ended long before *)
Example reject_torn_when_pinned :
  case_errors (2, [(0, (0, (0, 0), [(0,0);(0,0)], [])); (1, (1, (0, 0), [(4,0);(4,0)], [true; true]))], []) = [1].
Proof. vm_compute. reflexivity. Qed.

(* since b9e9fa2 `finished` between two steps is not Scheduler.Status any more (before: accepted - finding F8a) *)
Example reject_finished_between_steps :
  case_errors (2, [(0, (0, (0, 0), [(0,0);(0,0)], [])); (1, (4, (0, 0), [(4,0);(0,0)], []))], []) = [1].
Proof. vm_compute. reflexivity. Qed.

(* since 7f2c2d0 a line after the final status is not a model behaviour (before: accepted - findings F8b/F8c) *)
Example reject_line_after_final :
  case_errors (1, [(0, (0, (0, 0), [(0,0)], [])); (1, (4, (0, 0), [(4,0)], [])); (0, (4, (0, 0), [(4,0)], []));
                   (2, (1, (0, 0), [(1,0)], []))], []) = [4; 9].
Proof. vm_compute. reflexivity. Qed.

(* other deviations: an overall status that is not Scheduler.Status of any earlier table; a snapshot going backwards *)
Example reject_wrong_overall :
  case_errors (1, [(0, (0, (0, 0), [(0,0)], [])); (1, (2, (0, 0), [(4,0)], []))], []) = [1].
Proof. vm_compute. reflexivity. Qed.
Example reject_backwards :
  case_errors (1, [(0, (0, (0, 0), [(0,0)], [])); (1, (4, (0, 0), [(4,0)], [])); (2, (1, (0, 0), [(1,0)], []))], []) = [4].
Proof. vm_compute. reflexivity. Qed.
