(* C16 - the "only one run of a DAG file at a time" protocol between agents, at the granularity of the actions that
   touch shared state (each is one or a few system calls; the strace replay of tools/props/C16.py checks the order).
   Code: internal/agent/agent.go:98-210 (Run), :486-497 (checkIsAlreadyRunning), internal/sock/server.go:48-62 (Serve:
   os.Remove, net.Listen, deferred Shutdown + os.Remove), :86-99 (Shutdown), net.UnixListener.close (unlink, then close),
   internal/client/client.go:169-179 (probe = GET /status over the socket; a refused connection means "not running").
   Every start / retry of the file is a process running `program`; any number of processes interleave.
   Executable definitions only - the proofs are in Proofs.v. *)
From Coq Require Import List Bool Arith.
Import ListNotations.

Inductive act :=
| BuildGraph   (* setup (agent.go:99)                                                          *)
| EvalPre      (* checkPreconditions (:104)                                                    *)
| Probe        (* checkIsAlreadyRunning (:114): connect + GET /status                          *)
| RemoveOld    (* setupDatabase: retention (:449)                                              *)
| OpenHist     (* historyStore.Open (:453): the run is recorded from here on                   *)
| WriteS0      (* first status (:130)                                                          *)
| UnlinkSock   (* Serve: os.Remove(addr) - removes the path WHOEVER bound it (server.go:49)    *)
| Bind         (* net.Listen("unix", addr) (server.go:50): fails if the path exists            *)
| Steps        (* Schedule: the steps (:190)                                                   *)
| Handlers     (* Schedule: the lifecycle handlers                                             *)
| WriteFinal   (* final status (:195)                                                          *)
| ShutUnlink   (* deferred Shutdown -> UnixListener.close: unlink(path) - whoever's file it is *)
| ShutClose    (* ... then close(fd): the endpoint stops answering                             *)
| CloseHist    (* deferred historyStore.Close (:124-128)                                       *)
| LateUnlink.  (* Serve's deferred os.Remove(addr) (server.go:61), racing with process exit    *)

Definition program : list act :=
  [BuildGraph; EvalPre; Probe; RemoveOld; OpenHist; WriteS0; UnlinkSock; Bind; Steps; Handlers; WriteFinal;
   ShutUnlink; ShutClose; CloseHist; LateUnlink].

(* program counters of interest *)
Definition pcProbe := 2.
Definition pcOpen := 4.
Definition pcUnlink := 6.
Definition pcBind := 7.
Definition pcSteps := 8.
Definition pcShutUnlink := 11.
Definition pcShutClose := 12.
Definition pcCloseHist := 13.
Definition pcLate := 14.
Definition pcEnd := 15.

(* what is at the socket path *)
Inductive sockst :=
| Absent
| Bound (p : nat)   (* the socket file created by p's bind; it answers iff p is still listening *)
| Stale.            (* a file nobody listens on (left by a killed run) *)

Record proc := { pc : nat; refused : bool; bindfail : bool }.

Record world := {
  sock : sockst;
  listening : nat -> bool;       (* p holds an open listener *)
  hist : list nat;               (* runs recorded in the history, by process, in order *)
  execd : list nat;              (* processes that executed their steps, in order *)
  procs : nat -> proc }.

Definition proc0 : proc := {| pc := 0; refused := false; bindfail := false |}.
Definition init (s0 : sockst) : world :=
  {| sock := s0; listening := fun _ => false; hist := []; execd := []; procs := fun _ => proc0 |}.

Definition upd {A} (f : nat -> A) (p : nat) (v : A) : nat -> A := fun q => if q =? p then v else f q.

Definition set_proc (w : world) (p : nat) (s : proc) : world :=
  {| sock := sock w; listening := listening w; hist := hist w; execd := execd w; procs := upd (procs w) p s |}.
Definition set_pc (w : world) (p n : nat) : world :=
  set_proc w p {| pc := n; refused := refused (procs w p); bindfail := bindfail (procs w p) |}.
Definition adv (w : world) (p : nat) : world := set_pc w p (S (pc (procs w p))).
Definition set_sock (w : world) (s : sockst) : world :=
  {| sock := s; listening := listening w; hist := hist w; execd := execd w; procs := procs w |}.
Definition set_listening (w : world) (p : nat) (b : bool) : world :=
  {| sock := sock w; listening := upd (listening w) p b; hist := hist w; execd := execd w; procs := procs w |}.
Definition add_hist (w : world) (p : nat) : world :=
  {| sock := sock w; listening := listening w; hist := hist w ++ [p]; execd := execd w; procs := procs w |}.
Definition add_exec (w : world) (p : nat) : world :=
  {| sock := sock w; listening := listening w; hist := hist w; execd := execd w ++ [p]; procs := procs w |}.

(* does the probe get a "running" answer?  Only a bound socket whose owner still listens answers *)
Definition answering (w : world) : bool :=
  match sock w with Bound q => listening w q | _ => false end.

Definition cur (w : world) (p : nat) : option act := nth_error program (pc (procs w p)).

Inductive label :=
| Do (p : nat)      (* p performs its next action *)
| Exit (p : nat).   (* p's process exits before the late unlink is executed *)

Definition step (l : label) (w : world) : option world :=
  match l with
  | Exit p => match cur w p with Some LateUnlink => Some (set_pc w p pcEnd) | _ => None end
  | Do p =>
      match cur w p with
      | None => None
      | Some a =>
          match a with
          | BuildGraph | EvalPre | RemoveOld | WriteS0 | Handlers | WriteFinal => Some (adv w p)
          | Probe =>
              if answering w
              then Some (set_proc w p {| pc := pcEnd; refused := true; bindfail := false |})   (* errDAGIsAlreadyRunning *)
              else Some (adv w p)
          | OpenHist => Some (adv (add_hist w p) p)
          | UnlinkSock | ShutUnlink | LateUnlink => Some (adv (set_sock w Absent) p)
          | Bind =>
              match sock w with
              | Absent => Some (adv (set_listening (set_sock w (Bound p)) p true) p)
              | _ => (* errFailedSetupUnixSocket: only the deferred history Close remains *)
                     Some (set_proc w p {| pc := pcCloseHist; refused := false; bindfail := true |})
              end
          | Steps => Some (adv (add_exec w p) p)
          | ShutClose => Some (adv (set_listening w p false) p)
          | CloseHist => if bindfail (procs w p) then Some (set_pc w p pcEnd) else Some (adv w p)
          end
      end
  end.

Fixpoint run (sched : list label) (w : world) : option world :=
  match sched with
  | [] => Some w
  | l :: r => match step l w with Some w' => run r w' | None => None end
  end.

(* ---- state predicates ---- *)
(* p passed its probe and has not terminated *)
Definition busy (s : proc) : bool := (3 <=? pc s) && (pc s <=? 14).
(* p's steps or handlers may be running: bound, not yet shutting down *)
Definition active (s : proc) : bool := (pcSteps <=? pc s) && (pc s <=? pcShutUnlink) && negb (bindfail s).
(* the dangerous phases for somebody else's probe: probed but not yet bound; shutting down with unlinks pending *)
Definition in_danger (s : proc) : bool :=
  ((3 <=? pc s) && (pc s <=? pcBind)) || ((pcShutClose <=? pc s) && (pc s <=? pcLate)).

(* the guarded semantics of the _partial theorem: among the processes 0..n-1, no Probe is taken while another process
   is in a dangerous phase *)
Definition others_in_danger (n : nat) (w : world) (p : nat) : bool :=
  existsb (fun r => negb (r =? p) && in_danger (procs w r)) (seq 0 n).

Definition label_pid (l : label) : nat := match l with Do p | Exit p => p end.

Definition gstep (n : nat) (l : label) (w : world) : option world :=
  if negb (label_pid l <? n) then None
  else match l, cur w (label_pid l) with
       | Do p, Some Probe => if others_in_danger n w p then None else step l w
       | _, _ => step l w
       end.

Fixpoint grun (n : nat) (sched : list label) (w : world) : option world :=
  match sched with
  | [] => Some w
  | l :: r => match gstep n l w with Some w' => grun n r w' | None => None end
  end.

(* ---- what the replay on the real binaries compares ---- *)
(* per process: 0 still running, 1 finished normally, 2 refused ("already running"), 3 failed to bind;
   did it execute its steps; is a run of it recorded *)
Definition mem (p : nat) (l : list nat) : bool := existsb (Nat.eqb p) l.
Definition outcome (w : world) (p : nat) : nat * bool * bool :=
  let s := procs w p in
  ((if refused s then 2 else if bindfail s then 3 else if pc s =? pcEnd then 1 else 0), mem p (execd w), mem p (hist w)).
Definition outcomes (n : nat) (w : world) : list (nat * bool * bool) := map (outcome w) (seq 0 n).

(* convenience for writing schedules: p performs k actions *)
Definition does (p k : nat) : list label := repeat (Do p) k.
