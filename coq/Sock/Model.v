(* C16 - the "only one run of a DAG file at a time" protocol between agents, at the granularity of the actions that
   touch shared state (each is one or a few system calls; the strace replay of tools/props/C16.py checks the order).
   Code: internal/agent/agent.go:98-210 (Run), :486-497 (checkIsAlreadyRunning), internal/sock/server.go:48-62 (Serve:
   os.Remove, net.Listen, deferred Shutdown + os.Remove), :86-99 (Shutdown), net.UnixListener.close (unlink, then close),
   internal/client/client.go:169-179 (probe = GET /status over the socket; a refused connection means "not running").
   Every start / retry of the file is a process running `program`; any number of processes interleave.
   Repaired protocol (fix a924e5c): the probe, the history open, the unlink and the bind are done under an exclusive
   advisory lock (flock LOCK_EX on the DAG definition file, agent.go lockSocket); the lock is released when the socket
   listens, or when the run is refused / fails; Serve no longer removes the path a second time after the shutdown.
   flock is a modelled primitive: at most one holder, a Lock action is enabled only while nobody holds it, released by
   Unlock (close of the descriptor).  A DAG whose definition file cannot be opened is NOT locked by the code
   (lockSocket returns a no-op); every start / retry of the command line loads that file, so the model locks always.
   F16b: since the definition file is REPLACED by a save (new inode), the lock is taken on a dedicated file next to the socket
   address that is created on demand and never removed; assumption: nothing else removes or replaces that file.
   Executable definitions only - the proofs are in Proofs.v. *)
From Coq Require Import List Bool Arith.
Import ListNotations.

Inductive act :=
| BuildGraph   (* setup (agent.go:99)                                                          *)
| EvalPre      (* checkPreconditions (:104)                                                    *)
| Lock         (* lockSocket: flock(LOCK_EX) on the DAG definition file - blocks while another holds it *)
| Probe        (* checkIsAlreadyRunning (:114): connect + GET /status                          *)
| RemoveOld    (* setupDatabase: retention (:449)                                              *)
| OpenHist     (* historyStore.Open (:453): the run is recorded from here on                   *)
| WriteS0      (* first status (:130)                                                          *)
| UnlinkSock   (* Serve: os.Remove(addr) - removes the path WHOEVER bound it (server.go:49)    *)
| Bind         (* net.Listen("unix", addr) (server.go:50): fails if the path exists            *)
| Unlock       (* the socket listens: unlock() - close of the locked descriptor                *)
| Steps        (* Schedule: the steps (:190)                                                   *)
| Handlers     (* Schedule: the lifecycle handlers                                             *)
| WriteFinal   (* final status (:195)                                                          *)
| ShutUnlink   (* deferred Shutdown -> UnixListener.close: unlink(path) - whoever's file it is *)
| ShutClose    (* ... then close(fd): the endpoint stops answering                             *)
| CloseHist.   (* deferred historyStore.Close                                                  *)

Definition program : list act :=
  [BuildGraph; EvalPre; Lock; Probe; RemoveOld; OpenHist; WriteS0; UnlinkSock; Bind; Unlock; Steps; Handlers; WriteFinal;
   ShutUnlink; ShutClose; CloseHist].

(* program counters of interest *)
Definition pcLock := 2.
Definition pcProbe := 3.
Definition pcOpen := 5.
Definition pcUnlink := 7.
Definition pcBind := 8.
Definition pcUnlock := 9.
Definition pcSteps := 10.
Definition pcShutUnlink := 13.
Definition pcShutClose := 14.
Definition pcCloseHist := 15.
Definition pcEnd := 16.

(* what is at the socket path *)
Inductive sockst :=
| Absent
| Bound (p : nat)   (* the socket file created by p's bind; it answers iff p is still listening *)
| Stale.            (* a file nobody listens on (left by a killed run) *)

Record proc := { pc : nat; refused : bool; bindfail : bool }.

Record world := {
  lock : option nat;             (* holder of the flock on the DAG definition file *)
  sock : sockst;
  listening : nat -> bool;       (* p holds an open listener *)
  hist : list nat;               (* runs recorded in the history, by process, in order *)
  execd : list nat;              (* processes that executed their steps, in order *)
  procs : nat -> proc }.

Definition proc0 : proc := {| pc := 0; refused := false; bindfail := false |}.
Definition init (s0 : sockst) : world :=
  {| lock := None; sock := s0; listening := fun _ => false; hist := []; execd := []; procs := fun _ => proc0 |}.

Definition upd {A} (f : nat -> A) (p : nat) (v : A) : nat -> A := fun q => if q =? p then v else f q.

Definition set_proc (w : world) (p : nat) (s : proc) : world :=
  {| lock := lock w; sock := sock w; listening := listening w; hist := hist w; execd := execd w; procs := upd (procs w) p s |}.
Definition set_pc (w : world) (p n : nat) : world :=
  set_proc w p {| pc := n; refused := refused (procs w p); bindfail := bindfail (procs w p) |}.
Definition adv (w : world) (p : nat) : world := set_pc w p (S (pc (procs w p))).
Definition set_sock (w : world) (s : sockst) : world :=
  {| lock := lock w; sock := s; listening := listening w; hist := hist w; execd := execd w; procs := procs w |}.
Definition set_listening (w : world) (p : nat) (b : bool) : world :=
  {| lock := lock w; sock := sock w; listening := upd (listening w) p b; hist := hist w; execd := execd w; procs := procs w |}.
Definition add_hist (w : world) (p : nat) : world :=
  {| lock := lock w; sock := sock w; listening := listening w; hist := hist w ++ [p]; execd := execd w; procs := procs w |}.
Definition add_exec (w : world) (p : nat) : world :=
  {| lock := lock w; sock := sock w; listening := listening w; hist := hist w; execd := execd w ++ [p]; procs := procs w |}.
Definition set_lock (w : world) (l : option nat) : world :=
  {| lock := l; sock := sock w; listening := listening w; hist := hist w; execd := execd w; procs := procs w |}.

(* does the probe get a "running" answer?  Only a bound socket whose owner still listens answers *)
Definition answering (w : world) : bool :=
  match sock w with Bound q => listening w q | _ => false end.

Definition cur (w : world) (p : nat) : option act := nth_error program (pc (procs w p)).

Inductive label :=
| Do (p : nat)      (* p performs its next action *)
| Save.             (* somebody saves the DAG definition (DAGStore.UpdateSpec: temp file + rename = a NEW inode at the path) *)

(* None = the label is not enabled (the process has ended, or it waits for the lock) *)
Definition step (l : label) (w : world) : option world :=
  match l with
  | Save => Some w    (* F16b: the lock lives on a file of its own (<socket address>.lock) that no action replaces *)
  | Do p =>
      match cur w p with
      | None => None
      | Some a =>
          match a with
          | BuildGraph | EvalPre | RemoveOld | WriteS0 | Handlers | WriteFinal => Some (adv w p)
          | Lock => match lock w with
                    | None => Some (adv (set_lock w (Some p)) p)
                    | Some _ => None                      (* flock blocks *)
                    end
          | Probe =>
              if answering w
              then (* errDAGIsAlreadyRunning: Run returns, the deferred unlock releases the lock *)
                   Some (set_proc (set_lock w None) p {| pc := pcEnd; refused := true; bindfail := false |})
              else Some (adv w p)
          | OpenHist => Some (adv (add_hist w p) p)
          | UnlinkSock | ShutUnlink => Some (adv (set_sock w Absent) p)
          | Bind =>
              match sock w with
              | Absent => Some (adv (set_listening (set_sock w (Bound p)) p true) p)
              | _ => (* errFailedSetupUnixSocket: the deferred history Close and unlock remain *)
                     Some (set_proc w p {| pc := pcCloseHist; refused := false; bindfail := true |})
              end
          | Unlock => Some (adv (set_lock w None) p)
          | Steps => Some (adv (add_exec w p) p)
          | ShutClose => Some (adv (set_listening w p false) p)
          | CloseHist => if bindfail (procs w p) then Some (set_pc (set_lock w None) p pcEnd) else Some (adv w p)
          end
      end
  end.

Definition label_pid (l : label) : nat := match l with Do p => p | Save => 0 end.

(* the protocol as of a924e5c, BEFORE F16b: the flock was taken on the DAG definition file itself, and a save gives that
   path a new, unlocked inode - whoever locks next gets the lock at once although the old holder is still inside its
   section.  (Only used to state what F16b repaired; the old holder's later unlock is not refined.) *)
Definition step_a924 (l : label) (w : world) : option world :=
  match l with
  | Save => Some (set_lock w None)
  | _ => step l w
  end.
Fixpoint run_a924 (sched : list label) (w : world) : option world :=
  match sched with
  | [] => Some w
  | l :: r => match step_a924 l w with Some w' => run_a924 r w' | None => None end
  end.

Fixpoint run (sched : list label) (w : world) : option world :=
  match sched with
  | [] => Some w
  | l :: r => match step l w with Some w' => run r w' | None => None end
  end.

(* ---- state predicates ---- *)
(* p holds the lock: between its Lock and its Unlock (or its refusal / failure) *)
Definition in_section (s : proc) : bool := (pcProbe <=? pc s) && (pc s <=? pcUnlock).
(* p is past its probe-and-bind section, un-refused, and has not yet removed its socket: it owns the socket path *)
Definition owner (s : proc) : bool := (pcUnlock <=? pc s) && (pc s <=? pcShutUnlink) && negb (bindfail s).
(* p's steps or handlers may be running *)
Definition active (s : proc) : bool := (pcSteps <=? pc s) && (pc s <=? pcShutUnlink) && negb (bindfail s).

(* ---- what the replay on the real binaries compares ---- *)
(* per process: 0 still running, 1 finished normally, 2 refused ("already running"), 3 failed to bind;
   did it execute its steps; is a run of it recorded *)
Definition mem (p : nat) (l : list nat) : bool := existsb (Nat.eqb p) l.
Definition outcome (w : world) (p : nat) : nat * bool * bool :=
  let s := procs w p in
  ((if refused s then 2 else if bindfail s then 3 else if pc s =? pcEnd then 1 else 0), mem p (execd w), mem p (hist w)).
Definition outcomes (n : nat) (w : world) : list (nat * bool * bool) := map (outcome w) (seq 0 n).

(* convenience for writing schedules: p performs k actions *)
Definition does (p k : nat) : list label := repeat (Do p) k.
