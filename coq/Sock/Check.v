(* C16 - entry points evaluated on the replay cases of tools/props/C16.py: a schedule of the protocol model
   (the interleaving a scenario on the real binaries or on in-process agents realised) and what was observed. *)
From Coq Require Import List Bool Arith.
Import ListNotations.
From BD.Sock Require Import Model.

Definition sock_of (c : nat) : sockst := match c with 0 => Absent | 1 => Stale | S (S p) => Bound p end.

(* per process: (0 still running | 1 finished | 2 refused | 3 bind failed, executed its steps, run recorded) *)
Definition obs : Type := list (nat * bool * bool).

(* initial socket, number of processes, schedule, observed outcomes, observed "the endpoint answers at the end" (2 = not observed) *)
Definition rcase : Type := nat * nat * list (nat * nat) * obs * nat.

Fixpoint obs_eqb (a b : obs) : bool :=
  match a, b with
  | [], [] => true
  | (k1, e1, h1) :: a', (k2, e2, h2) :: b' => (k1 =? k2) && Bool.eqb e1 e2 && Bool.eqb h1 h2 && obs_eqb a' b'
  | _, _ => false
  end.

(* schedule items: (0, p) = Do p (must be enabled: a Lock taken while another process holds the lock is NOT);
   (3, _) = the DAG definition is saved; (2, p) = p runs to its end (the process has exited: every remaining enabled action is taken) *)
Definition finish1 (p : nat) (w : world) : world :=
  match step (Do p) w with Some w' => w' | None => w end.
Fixpoint finish (fuel p : nat) (w : world) : world :=
  match fuel with O => w | S f => finish f p (finish1 p w) end.

Fixpoint run_items (l : list (nat * nat)) (w : world) : option world :=
  match l with
  | [] => Some w
  | (k, p) :: r =>
      match k with
      | 0 => match step (Do p) w with Some w' => run_items r w' | None => None end
      | 3 => match step Save w with Some w' => run_items r w' | None => None end   (* the DAG definition is saved *)
      | _ => run_items r (finish 17 p w)
      end
  end.

(* 0 agrees; 1 the schedule is not an execution of the model; 2 outcomes differ; 4 endpoint answer differs *)
Definition disagreement (c : rcase) : nat :=
  let '(s0, n, sched, o, ans) := c in
  match run_items sched (init (sock_of s0)) with
  | None => 1
  | Some w =>
      (if obs_eqb (outcomes n w) o then 0 else 2)
      + (if (ans =? 2) || Bool.eqb (answering w) (ans =? 1) then 0 else 4)
  end.

Fixpoint mism (i : nat) (l : list rcase) : list (nat * nat) :=
  match l with
  | [] => []
  | c :: r => let d := disagreement c in (if d =? 0 then [] else [(i, d)]) ++ mism (S i) r
  end.
Definition mismatches (l : list rcase) : list (nat * nat) := mism 0 l.
