(* C16 - entry points evaluated on the replay cases of tools/props/C16.py: a schedule of the protocol model
   (the interleaving a scenario on the real binaries or on in-process agents realises) and what was observed. *)
From Coq Require Import List Bool Arith.
Import ListNotations.
From BD.Sock Require Import Model.

(* schedule items: (0, p) = Do p ; (1, p) = Exit p ; (2, p) = p runs to its end (the process has exited: every
   remaining action is taken, except that a late unlink the trace does not show was cut off by the exit) *)
Definition finish1 (p : nat) (w : world) : world :=
  match cur w p with
  | None => w
  | Some LateUnlink => match step (Exit p) w with Some w' => w' | None => w end
  | Some _ => match step (Do p) w with Some w' => w' | None => w end
  end.
Fixpoint finish (fuel p : nat) (w : world) : world :=
  match fuel with O => w | S f => finish f p (finish1 p w) end.

Fixpoint run_items (l : list (nat * nat)) (w : world) : option world :=
  match l with
  | [] => Some w
  | (k, p) :: r =>
      match k with
      | 0 => match step (Do p) w with Some w' => run_items r w' | None => None end
      | 1 => match step (Exit p) w with Some w' => run_items r w' | None => None end
      | _ => run_items r (finish 16 p w)
      end
  end.

(* the same items as labels of the transition system (Finish unfolded along the run) - used for the guard *)
Fixpoint labels_of (l : list (nat * nat)) (w : world) : list label :=
  match l with
  | [] => []
  | (k, p) :: r =>
      match k with
      | 0 => Do p :: match step (Do p) w with Some w' => labels_of r w' | None => [] end
      | 1 => Exit p :: match step (Exit p) w with Some w' => labels_of r w' | None => [] end
      | _ => (fix go (fuel : nat) (w0 : world) : list label :=
                match fuel with
                | O => labels_of r w0
                | S f => match cur w0 p with
                         | None => labels_of r w0
                         | Some LateUnlink => Exit p :: go f (finish1 p w0)
                         | Some _ => Do p :: go f (finish1 p w0)
                         end
                end) 16 w
      end
  end.
Definition sock_of (c : nat) : sockst := match c with 0 => Absent | 1 => Stale | S (S p) => Bound p end.
Definition sock_code (s : sockst) : nat := match s with Absent => 0 | Stale => 1 | Bound p => S (S p) end.

(* per process: (0 still running | 1 finished | 2 refused | 3 bind failed, executed its steps, run recorded) *)
Definition obs : Type := list (nat * bool * bool).

(* initial socket, number of processes, schedule, observed outcomes, observed "the endpoint answers at the end" (2 = not observed) *)
Definition rcase : Type := nat * nat * list (nat * nat) * obs * nat.

Fixpoint obs_eqb (a b : obs) : bool :=
  match a, b with
  | [], [] => true
  | (k1, e1, h1) :: a', (k2, e2, h2) :: b' => (k1 =? k2) && Bool.eqb e1 e2 && Bool.eqb h1 h2 && obs_eqb a' b'
  | _, _ => false
  end.

(* 0 agrees; 1 the schedule is not executable in the model; 2 outcomes differ; 4 endpoint answer differs *)
Definition disagreement (c : rcase) : nat :=
  let '(s0, n, sched, o, ans) := c in
  match run_items sched (init (sock_of s0)) with
  | None => 1
  | Some w =>
      (if obs_eqb (outcomes n w) o then 0 else 2)
      + (if (ans =? 2) || Bool.eqb (answering w) (ans =? 1) then 0 else 4)
  end.

(* does the schedule satisfy the premise of C16_mutual_exclusion_partial? *)
Definition guarded (c : rcase) : bool :=
  let '(s0, n, sched, _, _) := c in
  match grun n (labels_of sched (init (sock_of s0))) (init (sock_of s0)) with Some _ => true | None => false end.

(* model outcomes, for the report *)
Definition predicted (c : rcase) : option (obs * bool) :=
  let '(s0, n, sched, _, _) := c in
  match run_items sched (init (sock_of s0)) with
  | Some w => Some (outcomes n w, answering w)
  | None => None
  end.

Fixpoint mism (i : nat) (l : list rcase) : list (nat * nat) :=
  match l with
  | [] => []
  | c :: r => let d := disagreement c in (if d =? 0 then [] else [(i, d)]) ++ mism (S i) r
  end.
Definition mismatches (l : list rcase) : list (nat * nat) := mism 0 l.

Fixpoint unguarded_from (i : nat) (l : list rcase) : list nat :=
  match l with
  | [] => []
  | c :: r => (if guarded c then [] else [i]) ++ unguarded_from (S i) r
  end.
(* indices of the cases whose schedule is outside the premise of the _partial theorem (racing) *)
Definition unguarded (l : list rcase) : list nat := unguarded_from 0 l.
