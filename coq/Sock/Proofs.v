(* C16 - proofs about the (repaired, a924e5c) protocol model Sock/Model.v, over ALL interleavings of any number of processes. *)
From Coq Require Import List Bool Arith Lia.
Import ListNotations.
From BD.Sock Require Import Model.

(* ---------------------------------------------------------------------------------------------
   one step, by cases on the program counter of the moving process *)
Lemma upd_same {A} (f : nat -> A) p v : upd f p v p = v.
Proof. unfold upd. now rewrite Nat.eqb_refl. Qed.
Lemma upd_other {A} (f : nat -> A) p v q : q <> p -> upd f p v q = f q.
Proof. intros H. unfold upd. destruct (Nat.eqb_spec q p); [contradiction|reflexivity]. Qed.

Lemma in_snoc (x p : nat) l : In x (l ++ [p]) <-> In x l \/ x = p.
Proof. rewrite in_app_iff. simpl. intuition. Qed.

(* destructs the moving process' state and program counter and computes the step *)
Ltac pc_cases n Hs k :=
  lazymatch k with
  | O => destruct n; cbn in Hs; try discriminate Hs
  | S ?k' => destruct n as [|n]; [cbn in Hs | pc_cases n Hs k']
  end.
Ltac use_le :=
  repeat match goal with
         | H : ?a <= ?b -> _ |- _ => let X := fresh in assert (X : a <= b) by lia; specialize (H X); clear X
         | H : ?a = ?a -> _ |- _ => specialize (H eq_refl)
         end.
Ltac split_step Hs w :=
  repeat match type of Hs with
         | context [answering w] => destruct (answering w) eqn:An
         | context [match sock w with _ => _ end] => destruct (sock w) eqn:Sk
         | context [match lock w with _ => _ end] => destruct (lock w) eqn:Lk
         | context [if ?b then _ else _] => destruct b
         end.
Ltac step_cases Hs p w :=
  unfold step, cur in Hs;
  destruct (procs w p) as [pcv rf bf] eqn:Es; cbn [pc refused bindfail] in *;
  pc_cases pcv Hs 16.

(* ---------------------------------------------------------------------------------------------
   the per-process bookkeeping invariant *)
Definition Lp (w : world) (p : nat) : Prop :=
  let s := procs w p in
  pc s <= pcEnd /\
  (pc s <= pcOpen -> ~ In p (hist w)) /\
  (pc s <= pcSteps -> ~ In p (execd w)) /\
  (pc s <= pcBind -> listening w p = false /\ sock w <> Bound p) /\
  (refused s = true -> pc s = pcEnd /\ ~ In p (hist w) /\ ~ In p (execd w) /\ listening w p = false /\ sock w <> Bound p) /\
  (bindfail s = true -> pcCloseHist <= pc s /\ ~ In p (execd w) /\ listening w p = false /\ sock w <> Bound p /\ refused s = false).
Definition L (w : world) : Prop := forall p, Lp w p.

Lemma L_init s0 : (forall p, s0 <> Bound p) -> L (init s0).
Proof.
  intros H p. unfold Lp, init; cbn. unfold pcEnd. repeat split; try lia; auto; try discriminate; intros; try discriminate.
Qed.

Ltac fin :=
  cbn [lock sock listening hist execd procs pc refused bindfail set_proc set_pc adv set_sock set_listening add_hist add_exec set_lock] in *;
  unfold pcEnd, pcOpen, pcSteps, pcBind, pcCloseHist, pcProbe, pcUnlink, pcShutUnlink, pcShutClose, pcLock, pcUnlock in *.

Lemma L_step l w w' : L w -> step l w = Some w' -> L w'.
Proof.
  intros HL Hs q. pose proof (HL q) as Hq.
  destruct l as [p|]; [|cbn in Hs; injection Hs as <-; exact Hq].
  pose proof (HL p) as Hp; unfold Lp in Hp, Hq |- *.
  step_cases Hs p w; fin; split_step Hs w; try discriminate Hs; injection Hs as <-; fin; rewrite ?Es in *; fin;
      (destruct (Nat.eq_dec q p) as [E|Nq];
       [ subst q; rewrite ?Es in *; rewrite ?upd_same; fin; rewrite ?in_snoc;
         use_le; repeat split; intros; use_le; try lia; try discriminate; try congruence; intuition (use_le; intuition (try lia; try discriminate; try congruence))
       | rewrite ?upd_other by exact Nq; fin; rewrite ?in_snoc;
         use_le; repeat split; intros; use_le; try lia; try discriminate; intuition (use_le; intuition (try lia; try discriminate; try congruence)) ]).
Qed.

Lemma L_run sched : forall w w', L w -> run sched w = Some w' -> L w'.
Proof.
  induction sched as [|l r IH]; simpl; intros w w' HL H.
  - now injection H as <-.
  - destruct (step l w) as [w1|] eqn:S; [|discriminate]. eapply IH; [|exact H]. eapply L_step; eauto.
Qed.

Lemma L_reachable s0 sched w : (forall p, s0 <> Bound p) -> run sched (init s0) = Some w -> L w.
Proof. intros H R. exact (L_run sched _ _ (L_init s0 H) R). Qed.

(* C16_refused_silent: whatever the interleaving, a process whose probe was answered "running" has terminated,
   recorded no run, executed nothing and never touched the socket *)
Theorem refused_silent s0 sched w p :
  (forall q, s0 <> Bound q) -> run sched (init s0) = Some w -> refused (procs w p) = true ->
  pc (procs w p) = pcEnd /\ ~ In p (hist w) /\ ~ In p (execd w) /\ listening w p = false /\ sock w <> Bound p.
Proof.
  intros H0 HR Hr. pose proof (L_run sched _ _ (L_init s0 H0) HR p) as (_ & _ & _ & _ & H & _). exact (H Hr).
Qed.

(* ... and the refusal itself changes nothing but the refused process' own state (and releases the lock it held) *)
Lemma refusal_step w p w' : cur w p = Some Probe -> answering w = true -> step (Do p) w = Some w' ->
  sock w' = sock w /\ hist w' = hist w /\ execd w' = execd w /\ (forall q, listening w' q = listening w q) /\
  (forall q, q <> p -> procs w' q = procs w q) /\ refused (procs w' p) = true /\ pc (procs w' p) = pcEnd /\ lock w' = None.
Proof.
  intros Hc Ha Hs. unfold step in Hs. rewrite Hc, Ha in Hs. injection Hs as <-. cbn.
  repeat split; auto. - intros q Hq. now apply upd_other. - now rewrite upd_same. - now rewrite upd_same.
Qed.

(* ---------------------------------------------------------------------------------------------
   generic facts about steps *)
Lemma pc_mono_step l w w' q : L w -> step l w = Some w' -> pc (procs w q) <= pc (procs w' q).
Proof.
  intros HL Hs. destruct l as [p|]; [|cbn in Hs; injection Hs as <-; lia].
  pose proof (HL p) as Hp; unfold Lp in Hp.
  step_cases Hs p w; fin; split_step Hs w; try discriminate Hs; injection Hs as <-; fin;
      (destruct (Nat.eq_dec q p) as [E|Nq]; [subst q; rewrite upd_same, ?Es; fin; lia | rewrite upd_other by exact Nq; lia]).
Qed.

Lemma pc_mono_run sched : forall w w' q, L w -> run sched w = Some w' -> pc (procs w q) <= pc (procs w' q).
Proof.
  induction sched as [|l r IH]; simpl; intros w w' q HL H.
  - injection H as <-. lia.
  - destruct (step l w) as [w1|] eqn:S; [|discriminate].
    pose proof (pc_mono_step _ _ _ q HL S). pose proof (IH _ _ q (L_step _ _ _ HL S) H). lia.
Qed.

(* a step changes the process record of the moving process only *)
Lemma step_other l w w' r : step l w = Some w' -> label_pid l <> r -> procs w' r = procs w r.
Proof.
  intros Hs Hn. destruct l as [p|]; [|cbn in Hs; injection Hs as <-; reflexivity]. cbn [label_pid] in Hn.
  step_cases Hs p w; fin; split_step Hs w; try discriminate Hs; injection Hs as <-; fin; apply upd_other; congruence.
Qed.

(* a refused process never moves again *)
Lemma refused_stable_step l w w' r : L w -> refused (procs w r) = true -> step l w = Some w' -> refused (procs w' r) = true.
Proof.
  intros HL Rf Hs. destruct l as [p|]; [|cbn in Hs; injection Hs as <-; exact Rf].
  destruct (Nat.eq_dec p r) as [E|N].
  - exfalso. pose proof (HL r) as (_ & _ & _ & _ & Hrf & _). destruct (Hrf Rf) as (Hend & _). unfold pcEnd in Hend.
    subst p; unfold step, cur in Hs; rewrite Hend in Hs; cbn in Hs; discriminate.
  - now rewrite (step_other (Do p) _ _ _ Hs N).
Qed.
Lemma refused_stable_run sched : forall w w' r, L w -> refused (procs w r) = true -> run sched w = Some w' -> refused (procs w' r) = true.
Proof.
  induction sched as [|l rest IH]; simpl; intros w w' r HL Rf HR.
  - now injection HR as <-.
  - destruct (step l w) as [w1|] eqn:S; [|discriminate].
    eapply IH; [eapply L_step; eauto | eapply refused_stable_step; eauto | exact HR].
Qed.

(* a process at or before its probe moves past the probe position only by taking the probe *)
Lemma pass_probe l w w' r : step l w = Some w' -> pc (procs w r) <= pcProbe -> pcProbe < pc (procs w' r) ->
  l = Do r /\ pc (procs w r) = pcProbe.
Proof.
  intros Hs H1 H2. destruct l as [p|]; [|cbn in Hs; injection Hs as <-; lia].
  destruct (Nat.eq_dec p r) as [E|N].
  - subst p.
    split; [reflexivity|]. step_cases Hs r w; fin; try lia; split_step Hs w; try discriminate Hs; injection Hs as <-; fin; rewrite upd_same in H2; rewrite ?Es in *; fin; lia.
  - rewrite (step_other (Do p) _ _ _ Hs N) in H2. lia.
Qed.

(* ---------------------------------------------------------------------------------------------
   the protocol invariant of the repaired code *)
Definition I (w : world) : Prop :=
  (forall p, pcProbe <= pc (procs w p) <= pcUnlock -> lock w = Some p) /\
  (forall p, lock w = Some p -> pcProbe <= pc (procs w p) <= pcUnlock) /\
  (forall p, pcUnlock <= pc (procs w p) <= pcShutUnlink -> sock w = Bound p /\ listening w p = true) /\
  (forall p q, p <> q -> pcProbe < pc (procs w p) <= pcBind -> pcUnlock <= pc (procs w q) <= pcShutUnlink -> False) /\
  (forall p, pc (procs w p) = pcBind -> sock w = Absent) /\
  (forall p, bindfail (procs w p) = false).

Lemma I_init s0 : I (init s0).
Proof.
  unfold I, init; cbn. unfold pcProbe, pcUnlock, pcShutUnlink, pcBind. repeat split; intros; try lia; try discriminate; auto.
Qed.

Lemma answering_of w q : sock w = Bound q -> listening w q = true -> answering w = true.
Proof. intros S Lq. unfold answering. now rewrite S. Qed.

Lemma I_step l w w' : L w -> I w -> step l w = Some w' -> I w'.
Proof.
  intros HL HI Hs. destruct l as [p0|]; [|cbn in Hs; injection Hs as <-; exact HI].
  destruct HI as (Ia & Ib & Ic & Id & Ie & If_).
  pose proof (HL p0) as Hp. unfold Lp in Hp.
  pose proof (Ia p0) as Ia0. pose proof (Ib p0) as Ib0. pose proof (Ic p0) as Ic0. pose proof (Ie p0) as Ie0. pose proof (If_ p0) as If0.
  step_cases Hs p0 w; fin; rewrite ?Es in *; fin; split_step Hs w; try discriminate Hs;
    try (exfalso; specialize (Ie0 eq_refl); congruence);
    try discriminate If0;
    injection Hs as <-; unfold I; fin; rewrite ?Es in *; fin;
    (split; [|split; [|split; [|split; [|split]]]];
    [ (* Ia *)
      intros p Hr; destruct (Nat.eq_dec p p0) as [E|N];
      [ subst p; rewrite ?upd_same in Hr; fin; first [ reflexivity | lia | apply Ia0; lia ]
      | rewrite ?upd_other in Hr by exact N; pose proof (Ia p Hr) as X;
        first [ exact X | congruence | (assert (Y : lock w = Some p0) by (apply Ia0; lia); congruence) ] ]
    | (* Ib *)
      intros p Hl; destruct (Nat.eq_dec p p0) as [E|N];
      [ subst p; rewrite ?upd_same; fin; first [ lia | discriminate Hl | (specialize (Ib0 Hl); lia) ]
      | rewrite ?upd_other by exact N; first [ discriminate Hl | (apply Ib; exact Hl) | (injection Hl as Hl; congruence) ] ]
    | (* Ic *)
      intros p Hr; destruct (Nat.eq_dec p p0) as [E|N];
      [ subst p; rewrite ?upd_same in *; fin; first [ lia | (split; reflexivity) | (apply Ic0; lia) ]
      | rewrite ?upd_other in * by exact N; pose proof (Ic p Hr) as [X1 X2];
        first [ (split; assumption)
              | (exfalso; apply (Id p0 p (fun E => N (eq_sym E))); rewrite ?Es; fin; lia)
              | (exfalso; assert (Y : sock w = Bound p0 /\ listening w p0 = true) by (apply Ic0; lia); destruct Y as [Y _]; congruence) ] ]
    | (* Id *)
      intros p q Npq Hp1 Hq1;
      destruct (Nat.eq_dec p p0) as [Ep|Np]; destruct (Nat.eq_dec q p0) as [Eq|Nq]; try congruence; try subst p; try subst q;
      try rewrite upd_same in Hp1; try rewrite upd_same in Hq1; try rewrite upd_other in Hp1 by assumption; try rewrite upd_other in Hq1 by assumption; fin;
      first [ lia
            | (apply (Id p q Npq); assumption)
            | (apply (Id p0 q Npq); rewrite ?Es; fin; [lia | assumption])
            | (apply (Id p p0 Npq); rewrite ?Es; fin; [assumption | lia])
            | (destruct (Ic q Hq1) as [S1 S2]; rewrite (answering_of w q S1 S2) in An; discriminate An)
            | (assert (Y : lock w = Some p0) by (apply Ia0; lia); assert (Z : lock w = Some p) by (apply Ia; lia); congruence) ]
    | (* Ie *)
      intros p Hr; destruct (Nat.eq_dec p p0) as [E|N];
      [ subst p; rewrite ?upd_same in Hr; fin; first [ lia | reflexivity ]
      | rewrite ?upd_other in Hr by exact N;
        first [ reflexivity | (apply (Ie p); exact Hr)
              | (exfalso; assert (Y : lock w = Some p0) by (apply Ia0; lia); assert (Z : lock w = Some p) by (apply Ia; lia); congruence) ] ]
    | (* If *)
      intros p; destruct (Nat.eq_dec p p0) as [E|N];
      [ subst p; rewrite upd_same; fin; first [ reflexivity | exact If0 ]
      | rewrite upd_other by exact N; apply If_ ] ]).
Qed.

Lemma I_run sched : forall w w', L w -> I w -> run sched w = Some w' -> L w' /\ I w'.
Proof.
  induction sched as [|l r IH]; simpl; intros w w' HL HI H.
  - injection H as <-. auto.
  - destruct (step l w) as [w1|] eqn:S; [|discriminate].
    apply (IH w1); auto; [eapply L_step | eapply I_step]; eauto.
Qed.

Lemma owner_spec s : owner s = true <-> pcUnlock <= pc s <= pcShutUnlink /\ bindfail s = false.
Proof. unfold owner. rewrite !andb_true_iff, !Nat.leb_le, negb_true_iff. tauto. Qed.
Lemma active_spec s : active s = true <-> pcSteps <= pc s <= pcShutUnlink /\ bindfail s = false.
Proof. unfold active. rewrite !andb_true_iff, !Nat.leb_le, negb_true_iff. tauto. Qed.
Lemma in_section_spec s : in_section s = true <-> pcProbe <= pc s <= pcUnlock.
Proof. unfold in_section. rewrite !andb_true_iff, !Nat.leb_le. tauto. Qed.

(* C16_mutual_exclusion - the FULL statement, for any number of processes and every interleaving *)
Theorem mutual_exclusion s0 sched w :
  (forall q, s0 <> Bound q) -> run sched (init s0) = Some w ->
  (* at most one process holds the lock, i.e. is inside its probe-and-bind section *)
  (forall p q, in_section (procs w p) = true -> in_section (procs w q) = true -> p = q) /\
  (* at most one process is past that section un-refused and has not yet given up the socket path *)
  (forall p q, owner (procs w p) = true -> owner (procs w q) = true -> p = q) /\
  (* ... hence two starts never execute steps at the same time *)
  (forall p q, active (procs w p) = true -> active (procs w q) = true -> p = q) /\
  (* its endpoint answers: the path is its own socket and it listens *)
  (forall p, owner (procs w p) = true -> sock w = Bound p /\ listening w p = true) /\
  (* whoever executed steps earlier has removed its socket before the currently active run passed its probe *)
  (forall p q, p <> q -> In p (execd w) -> active (procs w q) = true -> pcShutUnlink < pc (procs w p)) /\
  (* nobody fails to bind, and the loser (refused) recorded and executed nothing *)
  (forall p, bindfail (procs w p) = false) /\
  (forall p, refused (procs w p) = true -> ~ In p (hist w) /\ ~ In p (execd w)).
Proof.
  intros H0 HR.
  destruct (I_run sched _ _ (L_init s0 H0) (I_init s0) HR) as (HL & Ia & Ib & Ic & Id & Ie & If_).
  assert (OW : forall p q, owner (procs w p) = true -> owner (procs w q) = true -> p = q).
  { intros p q Op Oq. apply owner_spec in Op, Oq. destruct (Ic p (proj1 Op)) as [S1 _]. destruct (Ic q (proj1 Oq)) as [S2 _]. congruence. }
  assert (AO : forall p, active (procs w p) = true -> owner (procs w p) = true).
  { intros p A. apply active_spec in A. apply owner_spec. unfold pcSteps, pcUnlock, pcShutUnlink in *. split; [lia|tauto]. }
  split; [|split; [|split; [|split; [|split; [|split]]]]].
  - intros p q Sp Sq. apply in_section_spec in Sp, Sq. pose proof (Ia p Sp). pose proof (Ia q Sq). congruence.
  - exact OW.
  - intros p q Ap Aq. apply OW; apply AO; assumption.
  - intros p Op. apply owner_spec in Op. apply Ic. tauto.
  - intros p q N Ip Aq. destruct (le_lt_dec (pc (procs w p)) pcShutUnlink) as [Hle|Hgt]; [|exact Hgt]. exfalso.
    pose proof (HL p) as (_ & _ & He & _). unfold pcSteps, pcShutUnlink, pcUnlock in *.
    assert (Op : owner (procs w p) = true).
    { apply owner_spec. unfold pcUnlock, pcShutUnlink. split; [|apply If_].
      destruct (le_lt_dec (pc (procs w p)) 10) as [X|X]; [exfalso; exact (He X Ip)|lia]. }
    apply N. apply OW; [exact Op | apply AO; exact Aq].
  - exact If_.
  - intros p Rf. pose proof (HL p) as (_ & _ & _ & _ & Hrf & _). apply Hrf in Rf. tauto.
Qed.

(* ---------------------------------------------------------------------------------------------
   C16_after_bind, from ANY reachable state: while q owns the socket path (bound, shutdown not begun) *)
Lemma owner_step q l w w' : L w -> I w -> owner (procs w q) = true -> step l w = Some w' ->
  hist w' = hist w /\ (forall r, r <> q -> (In r (execd w') <-> In r (execd w))) /\
  (forall r, r <> q -> pc (procs w r) = pcProbe -> l = Do r -> refused (procs w' r) = true).
Proof.
  intros HL (Ia & Ib & Ic & Id & Ie & If_) Oq Hs. apply owner_spec in Oq. destruct Oq as [Oq _].
  destruct (Ic q Oq) as [S1 S2]. pose proof (answering_of w q S1 S2) as An.
  destruct l as [p0|]; [|cbn in Hs; injection Hs as <-; split; [reflexivity|split; [tauto|intros; discriminate]]].
  destruct (Nat.eq_dec p0 q) as [E|N].
  - subst p0. step_cases Hs q w; fin; try lia; split_step Hs w; try discriminate Hs; injection Hs as <-; fin;
      (split; [reflexivity|]); (split; [intros r Hr; rewrite ?in_snoc; intuition congruence|]);
      intros r Hr _ E; injection E as ->; contradiction.
  - pose proof (Id p0 q N) as Idq.
    step_cases Hs p0 w; fin; rewrite ?Es in *; fin; try rewrite An in Hs; split_step Hs w; try discriminate Hs;
      try (exfalso; apply Idq; lia);
      try (exfalso; assert (Y : sock w = Bound p0 /\ listening w p0 = true) by (apply (Ic p0); rewrite Es; fin; lia); destruct Y; congruence);
      injection Hs as <-; fin;
      (split; [reflexivity|]); (split; [intros; reflexivity|]);
      intros r Hr Hpc E; injection E as <-; rewrite ?upd_same; fin; try reflexivity; rewrite ?Es in Hpc; fin; lia.
Qed.

Theorem after_bind q sched : forall w w', L w -> I w -> owner (procs w q) = true -> run sched w = Some w' ->
  pc (procs w' q) <= pcShutUnlink ->
  (owner (procs w' q) = true /\ sock w' = Bound q /\ listening w' q = true) /\
  hist w' = hist w /\ (forall r, r <> q -> (In r (execd w') <-> In r (execd w))) /\
  (forall r, r <> q -> pc (procs w r) <= pcProbe -> pcProbe < pc (procs w' r) -> refused (procs w' r) = true).
Proof.
  induction sched as [|l rest IH]; simpl; intros w w' HL HI Oq HR Hle.
  - injection HR as <-. split.
    + split; [exact Oq|]. destruct HI as (_ & _ & Ic & _). apply owner_spec in Oq. apply Ic. tauto.
    + split; [reflexivity|]. split; [tauto|]. intros r _ H1 H2. lia.
  - destruct (step l w) as [w1|] eqn:S; [|discriminate].
    pose proof (L_step _ _ _ HL S) as HL1. pose proof (I_step _ _ _ HL HI S) as HI1.
    assert (Oq1 : owner (procs w1 q) = true).
    { apply owner_spec. apply owner_spec in Oq. destruct HI1 as (_ & _ & _ & _ & _ & If1).
      pose proof (pc_mono_step _ _ _ q HL S). pose proof (pc_mono_run rest _ _ q HL1 HR). split; [lia|apply If1]. }
    destruct (owner_step q l w w1 HL HI Oq S) as (Hh1 & He1 & Hr1).
    destruct (IH w1 w' HL1 HI1 Oq1 HR Hle) as (HK' & Hh' & He' & Hr').
    split; [exact HK'|]. split; [congruence|]. split; [intros r Hr; rewrite (He' r Hr); apply He1; exact Hr|].
    intros r Hr Hpc Hpc'.
    destruct (le_lt_dec (pc (procs w1 r)) pcProbe) as [Hle2|Hgt2].
    + apply Hr'; auto.
    + destruct (pass_probe l w w1 r S Hpc Hgt2) as [-> E2].
      pose proof (Hr1 r Hr E2 eq_refl) as Rf.
      exact (refused_stable_run rest _ _ r HL1 Rf HR).
Qed.

(* every state reachable from a clean or stale socket path satisfies both invariants *)
Lemma reachable_inv s0 sched w : (forall p, s0 <> Bound p) -> run sched (init s0) = Some w -> L w /\ I w.
Proof. intros H R. exact (I_run sched _ _ (L_init s0 H) (I_init s0) R). Qed.

(* the premise is what a solo start reaches after its bind, from a clean or stale socket path *)
Example owner_reached :
  (exists w, run (does 0 9) (init Absent) = Some w /\ owner (procs w 0) = true) /\
  (exists w, run (does 0 9) (init Stale) = Some w /\ owner (procs w 0) = true).
Proof. split; (eexists; split; [vm_compute; reflexivity|reflexivity]). Qed.

(* ---------------------------------------------------------------------------------------------
   the schedules that refuted mutual exclusion before the repair (F16a), replayed on the repaired protocol *)
Definition mem_all (w : world) (n : nat) := outcomes n w.

(* 1. both probe before either binds: the second Lock is not enabled while the first is inside its section ... *)
Example race_not_executable : run (does 0 4 ++ does 1 3) (init Absent) = None.
Proof. vm_compute. reflexivity. Qed.
(* ... the second start waits, probes after the first's bind and is refused; the first is untouched *)
Example race_repaired :
  exists w, run (does 0 4 ++ does 1 2 ++ does 0 7 ++ does 1 2 ++ does 0 5) (init Absent) = Some w /\
            outcomes 2 w = [(1, true, true); (2, false, false)] /\ hist w = [0] /\ execd w = [0].
Proof. eexists. split; [vm_compute; reflexivity|]. vm_compute. auto. Qed.
(* 2. a third start while the first serves is refused too *)
Example third_start_repaired :
  exists w, run (does 0 11 ++ does 1 4 ++ does 2 4) (init Absent) = Some w /\
            outcomes 3 w = [(0, true, true); (2, false, false); (2, false, false)] /\ answering w = true.
Proof. eexists. split; [vm_compute; reflexivity|]. vm_compute. auto. Qed.
(* 3. nobody can bind between another's unlink and bind: the would-be loser never records a run *)
Example bind_first_not_executable : run (does 0 8 ++ does 1 3) (init Absent) = None.
Proof. vm_compute. reflexivity. Qed.
(* 4. no late unlink: a run started after the first's shutdown unlink keeps its endpoint, a third start is refused *)
Example late_unlink_repaired :
  exists w, run (does 0 14 ++ does 1 11 ++ does 0 2 ++ does 2 4) (init Absent) = Some w /\
            outcomes 3 w = [(1, true, true); (0, true, true); (2, false, false)] /\ sock w = Bound 1 /\ answering w = true.
Proof. eexists. split; [vm_compute; reflexivity|]. vm_compute. auto. Qed.

(* ---------------------------------------------------------------------------------------------
   F16b: a save of the DAG definition between one start's lock and its bind *)
(* before F16b (lock on the definition file): the save hands the second start a fresh unlocked inode - both execute *)
Example save_race_refuted_before_F16b :
  exists w, run_a924 (does 0 4 ++ [Save] ++ does 1 11 ++ does 0 7) (init Absent) = Some w /\
            active (procs w 0) = true /\ active (procs w 1) = true /\ mem 0 (execd w) = true /\ mem 1 (execd w) = true /\
            sock w = Bound 0 /\ listening w 1 = true.
Proof. eexists. split; [vm_compute; reflexivity|]. vm_compute. repeat split. Qed.
(* since F16b (lock on a file of its own): the same schedule is not an execution - the second Lock is not enabled ... *)
Example save_race_not_executable : run (does 0 4 ++ [Save] ++ does 1 3) (init Absent) = None.
Proof. vm_compute. reflexivity. Qed.
(* ... the second start waits for the first's bind and is refused *)
Example save_race_repaired :
  exists w, run (does 0 4 ++ [Save] ++ does 1 2 ++ does 0 7 ++ does 1 2 ++ does 0 5) (init Absent) = Some w /\
            outcomes 2 w = [(1, true, true); (2, false, false)] /\ hist w = [0] /\ execd w = [0].
Proof. eexists. split; [vm_compute; reflexivity|]. vm_compute. auto. Qed.
