(* C16 - proofs about the protocol model Sock/Model.v, over ALL interleavings of any number of processes. *)
From Coq Require Import List Bool Arith Lia.
Import ListNotations.
From BD.Sock Require Import Model.

(* ---------------------------------------------------------------------------------------------
   one step, by cases on the program counter of the moving process *)
Lemma upd_same {A} (f : nat -> A) p v : upd f p v p = v.
Proof. unfold upd. now rewrite Nat.eqb_refl. Qed.
Lemma upd_other {A} (f : nat -> A) p v q : q <> p -> upd f p v q = f q.
Proof. intros H. unfold upd. destruct (Nat.eqb_spec q p); [contradiction|reflexivity]. Qed.

Lemma in_snoc (x p : nat) l : In x (l ++ [p]) <-> In x l \/ x = p.
Proof. rewrite in_app_iff. simpl. intuition. Qed.

(* destructs the moving process' state and program counter and computes the step *)
Ltac pc_cases n Hs k :=
  lazymatch k with
  | O => destruct n; cbn in Hs; try discriminate Hs
  | S ?k' => destruct n as [|n]; [cbn in Hs | pc_cases n Hs k']
  end.
Ltac use_le :=
  repeat match goal with
         | H : ?a <= ?b -> _ |- _ => let X := fresh in assert (X : a <= b) by lia; specialize (H X); clear X
         | H : ?a = ?a -> _ |- _ => specialize (H eq_refl)
         end.
Ltac split_step Hs w :=
  repeat match type of Hs with
         | context [answering w] => destruct (answering w) eqn:An
         | context [match sock w with _ => _ end] => destruct (sock w) eqn:Sk
         | context [if ?b then _ else _] => destruct b
         end.
Ltac step_cases Hs p w :=
  unfold step, cur in Hs;
  destruct (procs w p) as [pcv rf bf] eqn:Es; cbn [pc refused bindfail] in *;
  pc_cases pcv Hs 15.

(* ---------------------------------------------------------------------------------------------
   the per-process bookkeeping invariant *)
Definition Lp (w : world) (p : nat) : Prop :=
  let s := procs w p in
  pc s <= pcEnd /\
  (pc s <= pcOpen -> ~ In p (hist w)) /\
  (pc s <= pcSteps -> ~ In p (execd w)) /\
  (pc s <= pcBind -> listening w p = false /\ sock w <> Bound p) /\
  (refused s = true -> pc s = pcEnd /\ ~ In p (hist w) /\ ~ In p (execd w) /\ listening w p = false /\ sock w <> Bound p) /\
  (bindfail s = true -> pcCloseHist <= pc s /\ ~ In p (execd w) /\ listening w p = false /\ sock w <> Bound p /\ refused s = false).
Definition L (w : world) : Prop := forall p, Lp w p.

Lemma L_init s0 : (forall p, s0 <> Bound p) -> L (init s0).
Proof.
  intros H p. unfold Lp, init; cbn. unfold pcEnd. repeat split; try lia; auto; try discriminate; intros; try discriminate.
Qed.

Ltac fin :=
  cbn [sock listening hist execd procs pc refused bindfail set_proc set_pc adv set_sock set_listening add_hist add_exec] in *;
  unfold pcEnd, pcOpen, pcSteps, pcBind, pcCloseHist, pcLate, pcProbe, pcUnlink, pcShutUnlink, pcShutClose in *.

Lemma L_step l w w' : L w -> step l w = Some w' -> L w'.
Proof.
  intros HL Hs q. pose proof (HL q) as Hq.
  destruct l as [p|p]; pose proof (HL p) as Hp; unfold Lp in Hp, Hq |- *.
  - step_cases Hs p w; fin; split_step Hs w; injection Hs as <-; fin; rewrite ?Es in *; fin;
      (destruct (Nat.eq_dec q p) as [E|Nq];
       [ subst q; rewrite ?Es in *; rewrite ?upd_same; fin; rewrite ?in_snoc;
         use_le; repeat split; intros; use_le; try lia; try discriminate; try congruence; intuition (use_le; intuition (try lia; try discriminate; try congruence))
       | rewrite ?upd_other by exact Nq; fin; rewrite ?in_snoc;
         use_le; repeat split; intros; use_le; try lia; try discriminate; intuition (use_le; intuition (try lia; try discriminate; try congruence)) ]).
  - step_cases Hs p w; try discriminate Hs; fin; injection Hs as <-; fin; rewrite ?Es in *; fin;
      (destruct (Nat.eq_dec q p) as [E|Nq];
       [ subst q; rewrite ?Es in *; rewrite ?upd_same; fin; use_le; repeat split; intros; use_le; try lia; try discriminate; intuition (use_le; intuition (try lia; try discriminate; try congruence))
       | rewrite ?upd_other by exact Nq; fin; use_le; repeat split; intros; use_le; try lia; intuition (use_le; intuition (try lia; try discriminate; try congruence)) ]).
Qed.

Lemma L_run sched : forall w w', L w -> run sched w = Some w' -> L w'.
Proof.
  induction sched as [|l r IH]; simpl; intros w w' HL H.
  - now injection H as <-.
  - destruct (step l w) as [w1|] eqn:S; [|discriminate]. eapply IH; [|exact H]. eapply L_step; eauto.
Qed.

Lemma L_reachable s0 sched w : (forall p, s0 <> Bound p) -> run sched (init s0) = Some w -> L w.
Proof. intros H R. exact (L_run sched _ _ (L_init s0 H) R). Qed.

(* C16_refused_silent: whatever the interleaving, a process whose probe was answered "running" has terminated,
   recorded no run, executed nothing and never touched the socket *)
Theorem refused_silent s0 sched w p :
  (forall q, s0 <> Bound q) -> run sched (init s0) = Some w -> refused (procs w p) = true ->
  pc (procs w p) = pcEnd /\ ~ In p (hist w) /\ ~ In p (execd w) /\ listening w p = false /\ sock w <> Bound p.
Proof.
  intros H0 HR Hr. pose proof (L_run sched _ _ (L_init s0 H0) HR p) as (_ & _ & _ & _ & H & _). exact (H Hr).
Qed.

(* ... and the refusal itself changes nothing but the refused process' own state *)
Lemma refusal_step w p w' : cur w p = Some Probe -> answering w = true -> step (Do p) w = Some w' ->
  sock w' = sock w /\ hist w' = hist w /\ execd w' = execd w /\ (forall q, listening w' q = listening w q) /\
  (forall q, q <> p -> procs w' q = procs w q) /\ refused (procs w' p) = true /\ pc (procs w' p) = pcEnd.
Proof.
  intros Hc Ha Hs. unfold step in Hs. rewrite Hc, Ha in Hs. injection Hs as <-. cbn.
  repeat split; auto. - intros q Hq. now apply upd_other. - now rewrite upd_same. - now rewrite upd_same.
Qed.

(* ---------------------------------------------------------------------------------------------
   C16_after_bind *)
Lemma pc_mono_step l w w' q : L w -> step l w = Some w' -> pc (procs w q) <= pc (procs w' q).
Proof.
  intros HL Hs. destruct l as [p|p]; pose proof (HL p) as Hp; unfold Lp in Hp.
  - step_cases Hs p w; rewrite ?Es in Hp; fin;
      split_step Hs w;
      injection Hs as <-; fin;
      (destruct (Nat.eq_dec q p) as [->|Nq]; [rewrite upd_same, ?Es; fin; lia | rewrite upd_other by exact Nq; lia]).
  - step_cases Hs p w; try discriminate Hs; rewrite ?Es in Hp; fin; injection Hs as <-; fin;
      (destruct (Nat.eq_dec q p) as [->|Nq]; [rewrite upd_same, ?Es; fin; lia | rewrite upd_other by exact Nq; lia]).
Qed.

Lemma pc_mono_run sched : forall w w' q, L w -> run sched w = Some w' -> pc (procs w q) <= pc (procs w' q).
Proof.
  induction sched as [|l r IH]; simpl; intros w w' q HL H.
  - injection H as <-. lia.
  - destruct (step l w) as [w1|] eqn:S; [|discriminate].
    pose proof (pc_mono_step _ _ _ q HL S). pose proof (IH _ _ q (L_step _ _ _ HL S) H). lia.
Qed.

(* a step changes the process record of the moving process only *)
Lemma step_other l w w' r : step l w = Some w' -> label_pid l <> r -> procs w' r = procs w r.
Proof.
  intros Hs Hn. destruct l as [p|p]; cbn [label_pid] in Hn.
  - step_cases Hs p w; fin; split_step Hs w; injection Hs as <-; fin; apply upd_other; congruence.
  - step_cases Hs p w; try discriminate Hs; fin; injection Hs as <-; fin; apply upd_other; congruence.
Qed.

(* a refused process never moves again *)
Lemma refused_stable_step l w w' r : L w -> refused (procs w r) = true -> step l w = Some w' -> refused (procs w' r) = true.
Proof.
  intros HL Rf Hs. destruct (Nat.eq_dec (label_pid l) r) as [E|N].
  - exfalso. pose proof (HL r) as (_ & _ & _ & _ & Hrf & _). destruct (Hrf Rf) as (Hend & _). unfold pcEnd in Hend.
    destruct l as [p|p]; cbn [label_pid] in E; subst p; unfold step, cur in Hs; rewrite Hend in Hs; cbn in Hs; discriminate.
  - now rewrite (step_other _ _ _ _ Hs N).
Qed.
Lemma refused_stable_run sched : forall w w' r, L w -> refused (procs w r) = true -> run sched w = Some w' -> refused (procs w' r) = true.
Proof.
  induction sched as [|l rest IH]; simpl; intros w w' r HL Rf HR.
  - now injection HR as <-.
  - destruct (step l w) as [w1|] eqn:S; [|discriminate].
    eapply IH; [eapply L_step; eauto | eapply refused_stable_step; eauto | exact HR].
Qed.

(* a process at or before its probe moves past the probe position only by taking the probe *)
Lemma pass_probe l w w' r : step l w = Some w' -> pc (procs w r) <= pcProbe -> pcProbe < pc (procs w' r) ->
  l = Do r /\ pc (procs w r) = pcProbe.
Proof.
  intros Hs H1 H2. destruct (Nat.eq_dec (label_pid l) r) as [E|N].
  - destruct l as [p|p]; cbn [label_pid] in E; subst p.
    + split; [reflexivity|]. step_cases Hs r w; fin; try lia; split_step Hs w; injection Hs as <-; fin; rewrite upd_same in H2; rewrite ?Es in *; fin; lia.
    + exfalso. step_cases Hs r w; try discriminate Hs; fin; lia.
  - rewrite (step_other _ _ _ _ Hs N) in H2. lia.
Qed.

(* q is serving and nobody else is past its probe *)
Definition K (q : nat) (w : world) : Prop :=
  sock w = Bound q /\ listening w q = true /\
  pcSteps <= pc (procs w q) <= pcShutUnlink /\ bindfail (procs w q) = false /\
  forall r, r <> q -> pc (procs w r) <= pcProbe \/ pc (procs w r) = pcEnd.

Lemma K_step q l w w' : L w -> K q w -> step l w = Some w' -> pc (procs w' q) <= pcShutUnlink ->
  K q w' /\ hist w' = hist w /\ (forall r, r <> q -> (In r (execd w') <-> In r (execd w))) /\
  (forall r, r <> q -> pc (procs w r) = pcProbe -> l = Do r -> refused (procs w' r) = true).
Proof.
  intros HL (Ks & Kl & Kpc & Kbf & Ko) Hs Hle.
  assert (An : answering w = true) by (unfold answering; now rewrite Ks).
  destruct l as [p|p].
  - destruct (Nat.eq_dec p q) as [->|Npq].
    + (* the serving process itself moves: Steps, Handlers, WriteFinal (ShutUnlink is excluded by the premise) *)
      step_cases Hs q w; fin; try lia; try (rewrite An in Hs); try (rewrite Ks in Hs); split_step Hs w; try discriminate Kbf; injection Hs as <-;
        unfold K; fin; rewrite ?upd_same in *; rewrite ?Es in *; fin; try lia;
        repeat split; auto; try lia;
        try (intros r Hr; rewrite upd_other by exact Hr; now auto);
        try (rewrite ?in_snoc; intuition congruence);
        try (intros r Hr _ E; injection E as ->; contradiction).
    + (* another process moves: it is before or at its probe (refused there), or finished *)
      destruct (Ko p Npq) as [Hp|Hp]; unfold pcProbe, pcEnd in Hp.
      * step_cases Hs p w; fin; try lia; try (rewrite An in Hs); injection Hs as <-;
          unfold K; fin; rewrite ?Es in *; fin; rewrite ?(upd_other _ _ _ q) by (intros E; apply Npq; now rewrite E);
          repeat split; auto; try tauto;
          try (intros r Hr; destruct (Nat.eq_dec r p) as [->|Nr]; [rewrite upd_same; fin; lia | rewrite upd_other by exact Nr; now auto]);
          try (intros r Hr Hpc E; injection E as <-; rewrite ?upd_same; fin; rewrite ?Es in Hpc; fin; try reflexivity; lia).
      * unfold step, cur in Hs. rewrite Hp in Hs. cbn in Hs. discriminate.
  - (* Exit p: only at the late unlink *)
    destruct (Nat.eq_dec p q) as [->|Npq].
    + step_cases Hs q w; try discriminate Hs; fin; lia.
    + destruct (Ko p Npq) as [Hp|Hp]; unfold pcProbe, pcEnd in Hp;
        step_cases Hs p w; try discriminate Hs; fin; lia.
Qed.

(* C16_after_bind: from a state where q serves and nobody else is past its probe, in EVERY continuation in which q has
   not begun its shutdown: q still serves, the history is unchanged, no other process executed anything, and every
   other process that moved past its probe position was refused *)
Theorem after_bind q sched : forall w w', L w -> K q w -> run sched w = Some w' -> pc (procs w' q) <= pcShutUnlink ->
  K q w' /\ hist w' = hist w /\ (forall r, r <> q -> (In r (execd w') <-> In r (execd w))) /\
  (forall r, r <> q -> pc (procs w r) <= pcProbe -> pcProbe < pc (procs w' r) -> refused (procs w' r) = true).
Proof.
  induction sched as [|l rest IH]; simpl; intros w w' HL HK HR Hle.
  - injection HR as <-. split; [exact HK|]. split; [reflexivity|]. split; [tauto|]. intros r _ H1 H2. lia.
  - destruct (step l w) as [w1|] eqn:S; [|discriminate].
    pose proof (L_step _ _ _ HL S) as HL1.
    assert (Hle1 : pc (procs w1 q) <= pcShutUnlink) by (pose proof (pc_mono_run rest _ _ q HL1 HR); lia).
    destruct (K_step q l w w1 HL HK S Hle1) as (HK1 & Hh1 & He1 & Hr1).
    destruct (IH w1 w' HL1 HK1 HR Hle) as (HK' & Hh' & He' & Hr').
    split; [exact HK'|]. split; [congruence|]. split; [intros r Hr; rewrite (He' r Hr); apply He1; exact Hr|].
    intros r Hr Hpc Hpc'.
    destruct (le_lt_dec (pc (procs w1 r)) pcProbe) as [Hle2|Hgt2].
    + apply Hr'; auto.
    + (* r moved past its probe position in this very step: it took its probe, was refused, and stays so *)
      destruct (pass_probe l w w1 r S Hpc Hgt2) as [-> E2].
      pose proof (Hr1 r Hr E2 eq_refl) as Rf.
      exact (refused_stable_run rest _ _ r HL1 Rf HR).
Qed.

(* the premise K is what a solo start reaches after its bind, from a clean or stale socket path *)
Example K_reached : K 0 (match run (does 0 8) (init Absent) with Some w => w | None => init Absent end)
                 /\ K 0 (match run (does 0 8) (init Stale) with Some w => w | None => init Absent end).
Proof.
  split; (unfold K, pcSteps, pcShutUnlink, pcProbe, pcEnd; cbn; repeat split; auto; try lia;
          try (intros r Hr; destruct r; [contradiction|cbn; lia])).
Qed.

(* ---------------------------------------------------------------------------------------------
   C16_mutual_exclusion is FALSE of the faithful model (F16a): witnesses by evaluation *)
Definition both_active (w : world) (p q : nat) : bool := active (procs w p) && active (procs w q).

(* the racing schedule: both probe before either binds; the second binder unlinks the first one's socket *)
Definition race_sched : list label := does 0 3 ++ does 1 3 ++ does 0 5 ++ does 1 6.

Lemma mutual_exclusion_refuted :
  exists sched w, run sched (init Absent) = Some w /\
    both_active w 0 1 = true /\ mem 0 (execd w) = true /\ mem 1 (execd w) = true /\
    (* process 0 still runs but its endpoint is gone: the path now belongs to process 1 *)
    sock w = Bound 1 /\ listening w 0 = true.
Proof. exists (race_sched ++ [Do 0]). eexists. split; [vm_compute; reflexivity|]. vm_compute. repeat split. Qed.

(* ... after which process 0's own shutdown removes process 1's endpoint, and a third start is let in as well *)
Lemma third_start_admitted :
  exists sched w, run sched (init Absent) = Some w /\
    active (procs w 1) = true /\ active (procs w 2) = true /\ mem 2 (execd w) = true /\ mem 1 (execd w) = true /\ mem 0 (execd w) = true.
Proof. exists (race_sched ++ does 0 4 ++ does 2 9). eexists. split; [vm_compute; reflexivity|]. vm_compute. repeat split. Qed.

(* the variant where the second binds first: the first fails with "failed to start the unix socket" although it has
   already recorded a run - the loser is NOT silent *)
Lemma loser_records_refuted :
  exists sched w, run sched (init Absent) = Some w /\
    bindfail (procs w 0) = true /\ mem 0 (hist w) = true /\ mem 0 (execd w) = false /\ active (procs w 1) = true.
Proof. exists (does 0 3 ++ does 1 3 ++ does 0 4 ++ does 1 5 ++ does 0 1). eexists. split; [vm_compute; reflexivity|]. vm_compute. repeat split. Qed.

(* a finishing run's late unlink deletes the endpoint of its successor: a third start is admitted while the
   successor is active, although no probe raced with a bind *)
Lemma late_unlink_refuted :
  exists sched w, run sched (init Absent) = Some w /\
    active (procs w 1) = true /\ active (procs w 2) = true /\ mem 1 (execd w) = true /\ mem 2 (execd w) = true.
Proof. exists (does 0 14 ++ does 1 9 ++ [Do 0] ++ does 2 9). eexists. split; [vm_compute; reflexivity|]. vm_compute. repeat split. Qed.

(* ---------------------------------------------------------------------------------------------
   C16_mutual_exclusion_partial: the guarded semantics (no probe while another process is between its own probe and
   bind, or between its shutdown unlink and its exit) *)
Definition G (n : nat) (w : world) : Prop :=
  (forall p, n <= p -> procs w p = proc0) /\
  (forall p q, p <> q -> busy (procs w p) = true -> busy (procs w q) = true -> False) /\
  (forall r, pcSteps <= pc (procs w r) <= pcShutUnlink -> sock w = Bound r /\ listening w r = true) /\
  (forall r, bindfail (procs w r) = false) /\
  (forall r, pc (procs w r) = pcBind -> sock w = Absent).

Lemma G_init n s0 : G n (init s0).
Proof.
  unfold G, init; cbn. repeat split; auto; intros; try discriminate; unfold pcSteps, pcBind in *; try lia.
Qed.

Lemma busy_spec s : busy s = true <-> 3 <= pc s <= 14.
Proof. unfold busy. rewrite andb_true_iff, !Nat.leb_le. tauto. Qed.
Lemma in_danger_false s : in_danger s = false -> ~ (3 <= pc s <= 7) /\ ~ (12 <= pc s <= 14).
Proof.
  unfold in_danger, pcBind, pcShutClose, pcLate. rewrite orb_false_iff, !andb_false_iff, !Nat.leb_gt. lia.
Qed.

Lemma others_safe n w p : others_in_danger n w p = false -> forall r, r < n -> r <> p -> in_danger (procs w r) = false.
Proof.
  unfold others_in_danger. intros H r Hr Np.
  destruct (in_danger (procs w r)) eqn:E; [|reflexivity]. exfalso.
  assert (X : existsb (fun r0 => negb (r0 =? p) && in_danger (procs w r0)) (seq 0 n) = true).
  { apply existsb_exists. exists r. split; [apply in_seq; lia|]. rewrite E. destruct (Nat.eqb_spec r p); [contradiction|reflexivity]. }
  congruence.
Qed.

Lemma G_step n l w w' : L w -> G n w -> gstep n l w = Some w' -> G n w' /\ step l w = Some w'.
Proof.
  intros HL (Gn & Gx & Gs & Gb & Ga) Hg. unfold gstep in Hg.
  destruct (label_pid l <? n) eqn:Hlt; [|discriminate]. cbn [negb] in Hg. apply Nat.ltb_lt in Hlt.
  (* the plain step, plus the guard when it is a probe *)
  assert (Hs : step l w = Some w' /\
               (forall p, l = Do p -> pc (procs w p) = pcProbe -> forall r, r <> p -> in_danger (procs w r) = false)).
  { destruct l as [p|p]; cbn [label_pid] in *.
    - destruct (cur w p) as [a|] eqn:C.
      + destruct a; try (split; [exact Hg| intros p0 E Hpc r Hr; injection E as <-; unfold cur in C; rewrite Hpc in C; cbn in C; discriminate]).
        destruct (others_in_danger n w p) eqn:O; [discriminate|]. split; [exact Hg|].
        intros p0 E _ r Hr. injection E as <-.
        destruct (lt_dec r n) as [Hrn|Hrn]; [eapply others_safe; eauto|]. rewrite Gn by lia. reflexivity.
      + split; [exact Hg|]. intros p0 E Hpc. injection E as <-. unfold cur in C. rewrite Hpc in C. cbn in C. discriminate.
    - destruct (cur w p); (split; [exact Hg|intros; discriminate]). }
  destruct Hs as [Hs Hguard]. split; [|exact Hs]. clear Hg.
  set (p := label_pid l) in *.
  (* facts about every other process when p is busy *)
  assert (Other : busy (procs w p) = true -> forall r, r <> p -> ~ (3 <= pc (procs w r) <= 14)).
  { intros Bp r Hr Br. apply (Gx p r); auto. now apply busy_spec. }
  pose proof (HL p) as Hp. unfold Lp in Hp.
  destruct l as [p0|p0]; cbn [label_pid] in p; subst p.
  - (* Do p0 *)
    pose proof (Hguard p0 eq_refl) as Hgd.
    step_cases Hs p0 w; fin;
      split_step Hs w;
      try (specialize (Gb p0); rewrite Es in Gb; discriminate Gb);
      try (specialize (Ga p0); rewrite Es in Ga; cbn in Ga; specialize (Ga eq_refl); congruence);
      injection Hs as <-; unfold G; fin; rewrite ?Es in *; fin;
      (* everybody else is before its probe or finished, whenever p0 is busy before or after the step *)
      try (assert (Bp : forall r, r <> p0 -> ~ (3 <= pc (procs w r) <= 14))
            by first [ apply Other; reflexivity
                     | intros r Nr Br; specialize (Hgd eq_refl r Nr); apply in_danger_false in Hgd; destruct Hgd as [D1 D2];
                       assert (R : 8 <= pc (procs w r) <= 11) by lia;
                       destruct (Gs r R) as [S1 S2]; unfold answering in An; rewrite S1, S2 in An; discriminate An ]);
      (split; [|split; [|split; [|split]]];
      [ intros r Hr; rewrite ?upd_other by lia; apply Gn; exact Hr
      | intros a b Nab Ba Bb; apply busy_spec in Ba; apply busy_spec in Bb;
        destruct (Nat.eq_dec a p0) as [Ea|Na]; destruct (Nat.eq_dec b p0) as [Eb|Nb]; try congruence; try subst a; try subst b;
        try rewrite upd_same in Ba; try rewrite upd_same in Bb; try rewrite upd_other in Ba by assumption; try rewrite upd_other in Bb by assumption; fin;
        first [ lia | apply (Bp b Nb); assumption | apply (Bp a Na); assumption
              | apply (Gx a b Nab); apply busy_spec; assumption ]
      | intros r Hr; destruct (Nat.eq_dec r p0) as [Er|Nr];
        [ subst r; rewrite ?upd_same in *; fin; first [ lia | split; reflexivity | apply Gs; rewrite Es; fin; lia ]
        | rewrite ?upd_other in * by exact Nr;
          first [ exfalso; apply (Bp r Nr); lia | apply Gs; exact Hr ] ]
      | intros r; destruct (Nat.eq_dec r p0) as [Er|Nr];
        [ subst r; rewrite upd_same; fin; first [ reflexivity | specialize (Gb p0); rewrite Es in Gb; exact Gb ]
        | rewrite upd_other by exact Nr; apply Gb ]
      | intros r Hr; destruct (Nat.eq_dec r p0) as [Er|Nr];
        [ subst r; rewrite upd_same in Hr; fin; first [ lia | reflexivity ]
        | rewrite upd_other in Hr by exact Nr;
          first [ exfalso; apply (Bp r Nr); lia
                | apply (Ga r); exact Hr
                | (* a probe (refused) while r sits before its bind: excluded by the guard *)
                  exfalso; specialize (Hgd eq_refl r Nr); apply in_danger_false in Hgd; lia ] ] ]).
  - (* Exit p0: only at the late unlink; p0 stops being busy *)
    step_cases Hs p0 w; try discriminate Hs; fin; injection Hs as <-; unfold G; fin; rewrite ?Es in *; fin.
    assert (Bp : forall r, r <> p0 -> ~ (3 <= pc (procs w r) <= 14)) by (apply Other; reflexivity).
    split; [|split; [|split; [|split]]].
    + intros r Hr. rewrite upd_other by lia. apply Gn. exact Hr.
    + intros a b Nab Ba Bb. apply busy_spec in Ba. apply busy_spec in Bb.
      destruct (Nat.eq_dec a p0) as [Ea|Na]; [subst a; rewrite upd_same in Ba; fin; lia|].
      destruct (Nat.eq_dec b p0) as [Eb|Nb]; [subst b; rewrite upd_same in Bb; fin; lia|].
      rewrite upd_other in Ba by assumption. rewrite upd_other in Bb by assumption. apply (Gx a b Nab); apply busy_spec; assumption.
    + intros r Hr. destruct (Nat.eq_dec r p0) as [Er|Nr]; [subst r; rewrite upd_same in Hr; fin; lia|].
      rewrite upd_other in Hr by exact Nr. apply Gs; exact Hr.
    + intros r. destruct (Nat.eq_dec r p0) as [Er|Nr]; [subst r; rewrite upd_same; fin; specialize (Gb p0); rewrite Es in Gb; exact Gb|].
      rewrite upd_other by exact Nr. apply Gb.
    + intros r Hr. destruct (Nat.eq_dec r p0) as [Er|Nr]; [subst r; rewrite upd_same in Hr; fin; lia|].
      rewrite upd_other in Hr by exact Nr. apply (Ga r); exact Hr.
Qed.

Lemma G_run n sched : forall w w', L w -> G n w -> grun n sched w = Some w' -> G n w' /\ L w' /\ run sched w = Some w'.
Proof.
  induction sched as [|l r IH]; simpl; intros w w' HL HG H.
  - injection H as <-. auto.
  - destruct (gstep n l w) as [w1|] eqn:S; [|discriminate].
    destruct (G_step n l w w1 HL HG S) as [HG1 S1]. rewrite S1. apply IH; auto. eapply L_step; eauto.
Qed.

(* C16_mutual_exclusion_partial *)
Theorem mutual_exclusion_partial n s0 sched w :
  (forall q, s0 <> Bound q) -> grun n sched (init s0) = Some w ->
  (* at most one process is between its passed probe and its exit - hence at most one executes steps at a time *)
  (forall p q, p <> q -> ~ (busy (procs w p) = true /\ busy (procs w q) = true)) /\
  (forall p q, p <> q -> ~ (active (procs w p) = true /\ active (procs w q) = true)) /\
  (* the active process is reachable: its endpoint answers *)
  (forall p, active (procs w p) = true -> sock w = Bound p /\ listening w p = true) /\
  (* nobody fails to bind, and whoever was refused recorded and executed nothing *)
  (forall p, bindfail (procs w p) = false) /\
  (forall p, refused (procs w p) = true -> ~ In p (hist w) /\ ~ In p (execd w)).
Proof.
  intros H0 HR.
  destruct (G_run n sched _ _ (L_init s0 H0) (G_init n s0) HR) as ((Gn & Gx & Gs & Gb & Ga) & HL & Hrun).
  assert (AB : forall p, active (procs w p) = true -> pcSteps <= pc (procs w p) <= pcShutUnlink).
  { intros p. unfold active. rewrite !andb_true_iff, !Nat.leb_le. tauto. }
  repeat split.
  - intros p q N [B1 B2]. exact (Gx p q N B1 B2).
  - intros p q N [A1 A2]. apply AB in A1, A2. unfold pcSteps, pcShutUnlink in *.
    apply (Gx p q N); apply busy_spec; lia.
  - apply Gs, AB. assumption.
  - apply Gs, AB. assumption.
  - exact Gb.
  - pose proof (HL p) as (_ & _ & _ & _ & Hrf & _). apply Hrf. assumption.
  - pose proof (HL p) as (_ & _ & _ & _ & Hrf & _). apply Hrf. assumption.
Qed.

(* the guard is satisfiable by non-trivial schedules: a second start while the first serves (refused), and a second
   start after the first has exited (both execute, one after the other) *)
Example guard_sat_refused :
  exists w, grun 2 (does 0 9 ++ does 1 3 ++ does 0 6) (init Absent) = Some w /\
            outcomes 2 w = [(1, true, true); (2, false, false)].
Proof. eexists. split; vm_compute; reflexivity. Qed.
Example guard_sat_sequential :
  exists w, grun 2 (does 0 15 ++ does 1 15) (init Stale) = Some w /\
            outcomes 2 w = [(1, true, true); (1, true, true)] /\ execd w = [0; 1].
Proof. eexists. split; [vm_compute; reflexivity|]. vm_compute. auto. Qed.
(* ... and it really excludes the racing schedule *)
Example guard_rejects_race : grun 2 race_sched (init Absent) = None.
Proof. vm_compute. reflexivity. Qed.
