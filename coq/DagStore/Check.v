(* Entry points of the C18 correspondence.  A case is a sequence of (operation, what the implementation showed
   after it): result class, output, every definition file, every history file, every flag.  `mismatches`
   replays the sequence on the model and returns (case index, operation index, code) of the first difference
   of each case; code 1 result, 2 output, 3 definitions, 4 history, 5 flags, 6 error count of List. *)
From Coq Require Import List String Ascii Bool ZArith Arith.
Import ListNotations.
From BD.DagStore Require Import Model.
From BD.Api Require Import Model.

Record obs := mkObs {
  o_res : nat; o_out : list string; o_errs : nat;
  o_defs : list (string * string); o_hist : list (string * list run); o_flags : list string }.

Definition res_code (r : res) : nat :=
  match r with ROk => 0 | RExists => 1 | RNotExist => 2 | RInvalid => 3 end.

Section Eq.
  Context {A : Type} (eqb : A -> A -> bool).
  Fixpoint list_eqb (l1 l2 : list A) : bool :=
    match l1, l2 with
    | [], [] => true
    | x :: r1, y :: r2 => eqb x y && list_eqb r1 r2
    | _, _ => false
    end.
  Definition set_eqb (l1 l2 : list A) : bool :=
    Nat.eqb (List.length l1) (List.length l2) &&
    forallb (fun x => existsb (eqb x) l2) l1 && forallb (fun y => existsb (eqb y) l1) l2.
End Eq.

Definition node_eqb (a b : node) := String.eqb (n_name a) (n_name b) && Nat.eqb (n_st a) (n_st b).
Definition status_eqb (a b : status) :=
  String.eqb (s_req a) (s_req b) && Nat.eqb (s_st a) (s_st b) && list_eqb node_eqb (s_nodes a) (s_nodes b).
Definition run_eqb (a b : run) := Z.eqb (r_stamp a) (r_stamp b) && list_eqb status_eqb (r_lines a) (r_lines b).
Definition pair_eqb (a b : string * string) := String.eqb (fst a) (fst b) && String.eqb (snd a) (snd b).
Definition hent_eqb (a b : string * list run) := String.eqb (fst a) (fst b) && set_eqb run_eqb (snd a) (snd b).

Definition live_hist (h : hist) : hist :=
  filter (fun e => match snd e with [] => false | _ => true end) h.

Definition world_diff (w : world) (o : obs) : nat :=
  if negb (set_eqb pair_eqb (w_defs w) (o_defs o)) then 3
  else if negb (set_eqb hent_eqb (live_hist (w_hist w)) (o_hist o)) then 4
  else if negb (set_eqb String.eqb (w_flags w) (o_flags o)) then 5
  else 0.

(* the operations of a case: the client / store level ones, and the same through the API handler
   (DELETE /dags/{id}; POST action rename / save; GET details) - result = HTTP code there *)
Inductive xop :=
| XOp (o : op)
| XADelete (id : string)
| XARename (id value : string)
| XASave (id text : string)
| XADetails (id : string).

Section Replay.
  Variable valid : bytes -> bool.
  Variable graph_ok : bytes -> bool.
  Variable meta_ok : bytes -> bool.
  Variable dir : string.

  Definition is_list (o : xop) : bool := match o with XOp OList => true | _ => false end.

  Definition xstep (w : world) (x : xop) : world * nat * list string :=
    match x with
    | XOp o => let '(w', rs, out) := step valid meta_ok dir w o in (w', res_code rs, out)
    | XADelete id => let '(c, a') := delete valid graph_ok meta_ok dir (mkA w []) id in (a_w a', c, [])
    | XARename id v =>
        let '(c, a', _) := post valid graph_ok meta_ok dir true (mkA w []) id (mkBody (Some "rename"%string) v "" "" "") in (a_w a', c, [])
    | XASave id t =>
        let '(c, a', _) := post valid graph_ok meta_ok dir true (mkA w []) id (mkBody (Some "save"%string) t "" "" "") in (a_w a', c, [])
    | XADetails _ => (w, 200, [])
    end.

  Fixpoint replay (w : world) (i : nat) (l : list (xop * obs)) : option (nat * nat) :=
    match l with
    | [] => None
    | (o, ob) :: r =>
        let '(w', code, out) := xstep w o in
        if negb (Nat.eqb code (o_res ob)) then Some (i, 1)
        else if negb (set_eqb String.eqb out (o_out ob)) then Some (i, 2)
        else if is_list o && negb (Nat.eqb (list_errs meta_ok dir w) (o_errs ob)) then Some (i, 6)
        else match world_diff w' ob with
             | 0 => replay w' (S i) r
             | c => Some (i, c)
             end
    end.
End Replay.

Definition in_ids (ids : list string) (t : bytes) : bool := existsb (String.eqb t) ids.

Fixpoint mismatches_from (valid_ids graph_ids meta_ids : list string) (dir : string) (k : nat)
         (cs : list (list (xop * obs))) : list (nat * nat * nat) :=
  match cs with
  | [] => []
  | c :: r =>
      match replay (in_ids valid_ids) (in_ids graph_ids) (in_ids meta_ids) dir empty_world 0 c with
      | None => mismatches_from valid_ids graph_ids meta_ids dir (S k) r
      | Some (i, code) => (k, i, code) :: mismatches_from valid_ids graph_ids meta_ids dir (S k) r
      end
  end.
Definition mismatches valid_ids graph_ids meta_ids dir := mismatches_from valid_ids graph_ids meta_ids dir 0.

(* save-crash: what the model leaves after a kill before primitive step number n of UpdateSpec
   (0 = nothing done), as seen in the victim file: 0 old text, 1 empty, 2 new text, 3 something else;
   second component: the DAG files List shows in that crash state *)
Definition crash_code (valid : bytes -> bool) (dir name old new : string) (n : nat) : nat :=
  let f := [(file_loc dir name, old)] in
  match fs_get (file_loc dir name) (crash_fs valid dir f name new "123456" n (S (String.length new))) with
  | Some b => if String.eqb b old then 0 else if String.eqb b "" then 1 else if String.eqb b new then 2 else 3
  | None => 3
  end.

Definition crash_listed (valid meta_ok : bytes -> bool) (dir name old new : string) (n : nat) : list string :=
  let f := [(file_loc dir name, old)] in
  snd (step valid meta_ok dir (mkW (crash_fs valid dir f name new "123456" n (S (String.length new))) [] []) OList).
