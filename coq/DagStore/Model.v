(* DagStore - executable model of the definition store and of the client operations on it (C18, reused by C20).

   Code modelled: internal/persistence/local/dag_store.go (Create, UpdateSpec, Rename, Delete, GetSpec, List,
   fileLocation, Find/resolve/find), internal/util/utils.go (AddYamlExtension), internal/dag/loader.go
   (craftFilePath), internal/client/client.go (CreateDAG, UpdateDAG, Rename, DeleteDAG, ToggleSuspend),
   internal/persistence/local/flag_store.go (fileName / normalizeFilename) and, at the abstract level of
   DESIGN.md section 5.1, the history store (jsondb.go Open/Write/Close, Update, Rename, RemoveAll).

   The file system is a finite list of (path, bytes).  Names are real strings: the three different
   name -> path rules of the code (fileLocation, craftFilePath, find) are re-implemented on strings,
   because that is where the hazards are.  The verdict of the loader on a text (dag.LoadYAML) is a Section
   variable `valid` (the harness supplies it per text; C13 is about that function).
   Executable definitions only; the proofs are in Proofs.v. *)
From Coq Require Import List String Ascii Bool ZArith Arith.
Import ListNotations.
Open Scope string_scope.

Definition bytes := string.

(* ------------------------------------------------------------------------------------------- *)
(* strings                                                                                      *)
(* ------------------------------------------------------------------------------------------- *)

Definition ch_slash : ascii := "/"%char.
Definition ch_dot : ascii := "."%char.

(* filepath.Ext / path.Ext: the suffix beginning at the final dot of the final element, else "" *)
Fixpoint ext_go (s : string) (cur : option string) : string :=
  match s with
  | EmptyString => match cur with Some e => e | None => "" end
  | String c r =>
      if Ascii.eqb c ch_slash then ext_go r None
      else if Ascii.eqb c ch_dot then ext_go r (Some ".")
      else ext_go r (match cur with Some e => Some (e ++ String c EmptyString) | None => None end)
  end.
Definition ext (s : string) : string := ext_go s None.

Definition has_suffix (suf s : string) : bool :=
  let n := String.length s in let k := String.length suf in
  (k <=? n)%nat && String.eqb (substring (n - k) k s) suf.

Definition trim_suffix (s suf : string) : string :=
  if has_suffix suf s then substring 0 (String.length s - String.length suf) s else s.

Fixpoint has_slash (s : string) : bool :=
  match s with
  | EmptyString => false
  | String c r => Ascii.eqb c ch_slash || has_slash r
  end.

Definition is_abs (s : string) : bool :=
  match s with String c _ => Ascii.eqb c ch_slash | EmptyString => false end.

(* util.AddYamlExtension (utils.go, since fe0ec16): .yaml stays, .yml becomes .yaml, any other suffix
   (none, or a foreign one such as v1.2) is part of the name and .yaml is appended *)
Definition add_yaml_ext (f : string) : string :=
  let e := ext f in
  if String.eqb e ".yaml" then f
  else if String.eqb e ".yml" then trim_suffix f e ++ ".yaml"
  else f ++ ".yaml".

(* dagStoreImpl.fileLocation (dag_store.go:133-139); path.Join(dir, name) = dir/name for a clean dir and a
   name that is a single non-empty path element other than . and .. *)
Definition file_loc (dir name : string) : string :=
  if has_slash name then name else add_yaml_ext (dir ++ "/" ++ name).

(* dag.craftFilePath (loader.go:172-183) on an absolute clean path *)
Definition craft (f : string) : string :=
  if has_suffix ".yaml" f || has_suffix ".yml" f then f else f ++ ".yaml".

(* the Location of the DAG that client.GetStatus(name) / DAGStore.GetDetails(name) loads *)
Definition dag_loc (dir name : string) : string := craft (file_loc dir name).

(* the candidates of dag_store.go `find` for one directory (the current directory, searched first by
   `resolve`, is assumed to hold no definition) *)
Definition cands (p : string) : list string :=
  if String.eqb (ext p) "" then [p ++ ".yaml"; p ++ ".yml"] else [p].

(* ------------------------------------------------------------------------------------------- *)
(* file system: finite map path -> bytes                                                        *)
(* ------------------------------------------------------------------------------------------- *)

Definition fs := list (string * bytes).

Fixpoint fs_get (p : string) (f : fs) : option bytes :=
  match f with
  | [] => None
  | (q, b) :: r => if String.eqb q p then Some b else fs_get p r
  end.

Definition fs_mem (p : string) (f : fs) : bool :=
  match fs_get p f with Some _ => true | None => false end.

Fixpoint fs_set (p : string) (b : bytes) (f : fs) : fs :=
  match f with
  | [] => [(p, b)]
  | (q, c) :: r => if String.eqb q p then (q, b) :: r else (q, c) :: fs_set p b r
  end.

Definition fs_del (p : string) (f : fs) : fs :=
  filter (fun qb => negb (String.eqb (fst qb) p)) f.

Fixpoint find_first (f : fs) (ps : list string) : option string :=
  match ps with
  | [] => None
  | p :: r => if fs_mem p f then Some p else find_first f r
  end.

(* ------------------------------------------------------------------------------------------- *)
(* abstract history: location -> recorded runs (DESIGN.md 5.1, spec level)                       *)
(* ------------------------------------------------------------------------------------------- *)

Record node := mkNode { n_name : string; n_st : nat }.
Record status := mkStatus { s_req : string; s_st : nat; s_nodes : list node }.
(* one run = one history file: its start stamp (file name) and the status lines it holds *)
Record run := mkRun { r_stamp : Z; r_lines : list status }.

Definition hist := list (string * list run).

Fixpoint h_get (l : string) (h : hist) : list run :=
  match h with
  | [] => []
  | (k, rs) :: r => if String.eqb k l then rs else h_get l r
  end.

Fixpoint h_set (l : string) (rs : list run) (h : hist) : hist :=
  match h with
  | [] => [(l, rs)]
  | (k, old) :: r => if String.eqb k l then (k, rs) :: r else (k, old) :: h_set l rs r
  end.

(* jsondb.Rename (jsondb.go:226-261): every file of the old location moves into the directory of the new one
   (a file of the same name there would be replaced; run stamps are assumed distinct) *)
Definition h_rename (old new : string) (h : hist) : hist :=
  if String.eqb old new then h
  else h_set old [] (h_set new (h_get old h ++ h_get new h) h).

(* jsondb.RemoveAll = RemoveOld(_, 0): every file of the location is unlinked *)
Definition h_remove_all (l : string) (h : hist) : hist := h_set l [] h.

Definition last_line (r : run) : option status :=
  match rev (r_lines r) with s :: _ => Some s | [] => None end.

(* ------------------------------------------------------------------------------------------- *)
(* suspend flags (flag_store.go): file <normalizeFilename(id)>.suspend                           *)
(* ------------------------------------------------------------------------------------------- *)

Definition reserved_char (c : ascii) : bool :=
  let n := nat_of_ascii c in
  (n <? 32)%nat || existsb (Nat.eqb n) [60; 62; 58; 34; 47; 92; 124; 63; 42]%nat.

Fixpoint map_chars (f : ascii -> ascii) (s : string) : string :=
  match s with EmptyString => EmptyString | String c r => String (f c) (map_chars f r) end.

Definition lower (c : ascii) : ascii :=
  let n := nat_of_ascii c in if (65 <=? n)%nat && (n <=? 90)%nat then ascii_of_nat (n + 32) else c.

Definition windows_names : list string :=
  ["con"; "prn"; "aux"; "nul"; "com0"; "com1"; "com2"; "com3"; "com4"; "com5"; "com6"; "com7"; "com8"; "com9";
   "lpt0"; "lpt1"; "lpt2"; "lpt3"; "lpt4"; "lpt5"; "lpt6"; "lpt7"; "lpt8"; "lpt9"].

Definition normalize (id : string) : string :=
  let s := map_chars (fun c => if reserved_char c then "-"%char else c) id in
  let s := if existsb (String.eqb (map_chars lower s)) windows_names then "-" else s in
  map_chars (fun c => if Ascii.eqb c " "%char then "-"%char else c) s.

Definition flag_name (id : string) : string := normalize id ++ ".suspend".

Definition flag_mem (f : string) (fl : list string) : bool := existsb (String.eqb f) fl.
Definition flag_add (f : string) (fl : list string) : list string := if flag_mem f fl then fl else fl ++ [f].
Definition flag_del (f : string) (fl : list string) : list string := filter (fun g => negb (String.eqb g f)) fl.

(* ------------------------------------------------------------------------------------------- *)
(* the world and the operations                                                                 *)
(* ------------------------------------------------------------------------------------------- *)

Record world := mkW { w_defs : fs; w_hist : hist; w_flags : list string }.

Definition set_defs (w : world) (d : fs) := mkW d (w_hist w) (w_flags w).
Definition set_hist (w : world) (h : hist) := mkW (w_defs w) h (w_flags w).
Definition set_flags (w : world) (f : list string) := mkW (w_defs w) (w_hist w) f.

Inductive res := ROk | RExists | RNotExist | RInvalid.

Inductive op :=
| OCreate (name : string) (spec : bytes)      (* DAGStore.Create; client.CreateDAG passes the template text *)
| OSave (name : string) (spec : bytes)        (* client.UpdateDAG = DAGStore.UpdateSpec *)
| ORename (old new : string)                  (* client.Rename *)
| OStoreRename (old new : string)             (* DAGStore.Rename alone *)
| ODelete (name loc : string)                 (* client.DeleteDAG(name, loc) *)
| OSuspend (id : string) (on : bool)          (* client.ToggleSuspend *)
| ORun (loc : string) (stamp : Z) (lines : list status) (closed : bool)
                                              (* a run recorded by an agent: Open, Write each line, Close (compaction) *)
| OList
| OGet (name : string).

(* primitive steps of UpdateSpec, for the crash states.  Since e29932b the new text goes to a temporary file
   in the same directory (os.CreateTemp = open with O_CREAT|O_EXCL), write, chmod, fsync, close, and the
   temporary file is renamed over the definition (dag_store.go writeFileAtomic). *)
Inductive prim :=
| PValidate
| PExists (p : string)
| PCreateTemp (p : string)
| PAppend (p : string) (chunk : bytes)
| PChmod (p : string)
| PSync (p : string)
| PClose (p : string)
| PRenameFile (src dst : string).

Fixpoint take_str (n : nat) (s : string) : string :=
  match n, s with
  | S k, String c r => String c (take_str k r)
  | _, _ => EmptyString
  end.

Fixpoint strip_prefix (pre s : string) : option string :=
  match pre with
  | EmptyString => Some s
  | String c r => match s with
                  | String d t => if Ascii.eqb c d then strip_prefix r t else None
                  | EmptyString => None
                  end
  end.

Section Store.
  Variable valid : bytes -> bool.     (* dag.LoadYAML / dag.LoadWithoutEval accept the text *)
  Variable meta_ok : bytes -> bool.   (* dag.LoadMetadata accepts the text *)
  Variable dir : string.              (* the DAGs directory *)

  (* dag.LoadWithoutEval(p): craftFilePath, read, build; result = the Location *)
  Definition load_at (f : fs) (p : string) : res * string :=
    let q := craft p in
    match fs_get q f with
    | None => (RNotExist, q)
    | Some t => if valid t then (ROk, q) else (RInvalid, q)
    end.

  (* DAGStore.Find(name) *)
  Definition find_dag (f : fs) (name : string) : res * string :=
    let c := if has_slash name then [name] else cands (dir ++ "/" ++ name) in
    match find_first f c with
    | None => (RNotExist, "")
    | Some p => load_at f p
    end.

  (* DAGStore.Rename (since 87dde6e): refused when another file already has the target name, else
     os.Rename(oldLoc, newLoc).  The result is (ROk, new file system) or (error, unchanged file system). *)
  Definition store_rename (f : fs) (old new : string) : res * fs :=
    let src := file_loc dir old in let dst := file_loc dir new in
    if negb (String.eqb src dst) && fs_mem dst f then (RExists, f)
    else match fs_get src f with
         | None => (RNotExist, f)
         | Some b => (ROk, if String.eqb src dst then f else fs_set dst b (fs_del src f))
         end.

  (* jsondb.Rename applies AddYamlExtension to both locations and insists on absolute paths *)
  Definition hist_rename (h : hist) (oldloc newloc : string) : option hist :=
    let o := add_yaml_ext oldloc in let n := add_yaml_ext newloc in
    if is_abs o && is_abs n then Some (h_rename o n h) else None.

  Definition is_yaml_file (b : string) : bool :=
    let e := ext b in String.eqb e ".yaml" || String.eqb e ".yml".

  (* the base name of a path directly inside dir *)
  Definition base_in_dir (p : string) : option string :=
    match strip_prefix (dir ++ "/") p with
    | Some b => if has_slash b || String.eqb b "" then None else Some b
    | None => None
    end.

  Definition list_entry (f : fs) (p : string) : option (string * bool) :=
    match base_in_dir p with
    | None => None
    | Some b => if is_yaml_file b
                then Some (b, match fs_get (file_loc dir b) f with Some t => meta_ok t | None => false end)
                else None
    end.

  Fixpoint filter_map {A B} (g : A -> option B) (l : list A) : list B :=
    match l with [] => [] | x :: r => match g x with Some y => y :: filter_map g r | None => filter_map g r end end.

  Definition step (w : world) (o : op) : world * res * list string :=
    match o with
    | OCreate name spec =>
        let p := file_loc dir name in
        if fs_mem p (w_defs w) then (w, RExists, [])
        else (set_defs w (fs_set p spec (w_defs w)), ROk, [])
    | OSave name spec =>
        if negb (valid spec) then (w, RInvalid, [])
        else let p := file_loc dir name in
             if fs_mem p (w_defs w) then (set_defs w (fs_set p spec (w_defs w)), ROk, [])
             else (w, RNotExist, [])
    | OStoreRename old new =>
        match store_rename (w_defs w) old new with
        | (ROk, d) => (set_defs w d, ROk, [])
        | (e, _) => (w, e, [])
        end
    | ORename old new =>
        (* client.Rename (since fe0ec16) resolves both names through GetDetails = LoadWithoutEval(fileLocation) *)
        match load_at (w_defs w) (file_loc dir old) with
        | (ROk, oldloc) =>
            match store_rename (w_defs w) old new with
            | (ROk, d) =>
                let w1 := set_defs w d in
                match load_at d (file_loc dir new) with
                | (ROk, newloc) =>
                    match hist_rename (w_hist w) oldloc newloc with
                    | Some h => (set_hist w1 h, ROk, [])
                    | None => (w1, RInvalid, [])
                    end
                | (e, _) => (w1, e, [])
                end
            | (e, _) => (w, e, [])
            end
        | (e, _) => (w, e, [])
        end
    | ODelete name loc =>
        let w1 := set_hist w (h_remove_all loc (w_hist w)) in
        let p := file_loc dir name in
        if fs_mem p (w_defs w) then (set_defs w1 (fs_del p (w_defs w)), ROk, [])
        else (w1, RNotExist, [])
    | OSuspend id on =>
        let f := flag_name id in
        (set_flags w (if on then flag_add f (w_flags w) else flag_del f (w_flags w)), ROk, [])
    | ORun loc stamp lines closed =>
        let kept := if closed then match rev lines with s :: _ => [s] | [] => [] end else lines in
        (set_hist w (h_set loc (h_get loc (w_hist w) ++ [mkRun stamp kept]) (w_hist w)), ROk, [])
    | OList =>
        let es := filter_map (fun pb => list_entry (w_defs w) (fst pb)) (w_defs w) in
        (w, ROk, map fst (filter (fun e => snd e) es))
    | OGet name =>
        match fs_get (file_loc dir name) (w_defs w) with
        | Some t => (w, ROk, [t])
        | None => (w, RNotExist, [])
        end
    end.

  Definition step_w (w : world) (o : op) : world := fst (fst (step w o)).
  Definition step_res (w : world) (o : op) : res := snd (fst (step w o)).

  Definition run_ops (w : world) (ops : list op) : world := fold_left step_w ops w.

  Definition list_errs (w : world) : nat :=
    List.length (filter (fun e => negb (snd e)) (filter_map (fun pb => list_entry (w_defs w) (fst pb)) (w_defs w))).

  (* ---- crash states of UpdateSpec ---- *)

  (* the temporary file: <definition>.tmp-<random>; rnd is what os.CreateTemp chose (a name not in use) *)
  Definition tmp_of (p rnd : string) : string := p ++ ".tmp-" ++ rnd.

  Definition save_prims (f : fs) (name : string) (spec : bytes) (rnd : string) : list prim :=
    if negb (valid spec) then [PValidate]
    else let p := file_loc dir name in
         if fs_mem p f
         then let t := tmp_of p rnd in
              [PValidate; PExists p; PCreateTemp t; PAppend t spec; PChmod t; PSync t; PClose t; PRenameFile t p]
         else [PValidate; PExists p].

  Definition run_prim (f : fs) (pr : prim) : fs :=
    match pr with
    | PValidate | PExists _ | PChmod _ | PSync _ | PClose _ => f
    | PCreateTemp p => fs_set p "" f
    | PAppend p c => fs_set p (match fs_get p f with Some b => b | None => "" end ++ c) f
    | PRenameFile s d => match fs_get s f with Some b => fs_set d b (fs_del s f) | None => f end
    end.

  Definition run_prims (f : fs) (ps : list prim) : fs := fold_left run_prim ps f.

  (* the file system left by a kill after n complete primitive steps; if the next step is a write it may
     additionally have transferred the first t bytes of its chunk *)
  Definition crash_fs (f : fs) (name : string) (spec : bytes) (rnd : string) (n t : nat) : fs :=
    let ps := save_prims f name spec rnd in
    let f1 := run_prims f (firstn n ps) in
    match nth_error ps n with
    | Some (PAppend p c) => if (t <=? String.length c)%nat then run_prim f1 (PAppend p (take_str t c)) else f1
    | _ => f1
    end.

  (* a FAULT instead of a kill: primitive step number k+1 of the save returns an error (disk full, quota, file size
     limit, directory not writable, I/O error) after k completed steps.  writeFileAtomic then closes and removes the
     temporary file and UpdateSpec returns the error - there is no second attempt on the definition itself. *)
  Definition fault_fs (f : fs) (name : string) (spec : bytes) (rnd : string) (k : nat) : fs :=
    fs_del (tmp_of (file_loc dir name) rnd) (run_prims f (firstn k (save_prims f name spec rnd))).

End Store.

Definition empty_world : world := mkW [] [] [].

Definition nl : string := String (ascii_of_nat 10) EmptyString.
Definition template : bytes := "steps:" ++ nl ++ "  - name: step1" ++ nl ++ "    command: echo hello" ++ nl.

(* the standing assumption on DAG ids: a single path element *)
Definition id_ok (name : string) : bool := negb (has_slash name).
