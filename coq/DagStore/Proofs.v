(* DagStore - theorems for C18 (stdlib style).  Every statement is about `step` in an ARBITRARY world (hence in
   every world reached by any sequence of operations interleaved with recorded runs - see `reach_*` at the end,
   and the invariant `defs_always_valid`, which is by induction over the sequence). *)
From Coq Require Import List String Ascii Bool ZArith Arith Lia.
Import ListNotations.
From BD.DagStore Require Import Model.
Open Scope string_scope.

(* ------------------------------------------------------------------------------------------- *)
(* finite maps                                                                                  *)
(* ------------------------------------------------------------------------------------------- *)

Lemma fs_get_set_eq : forall p b f, fs_get p (fs_set p b f) = Some b.
Proof.
  induction f as [|[q c] r IH]; simpl.
  - now rewrite String.eqb_refl.
  - destruct (String.eqb q p) eqn:E; simpl; rewrite E; auto.
Qed.

Lemma fs_get_set_neq : forall p q b f, q <> p -> fs_get q (fs_set p b f) = fs_get q f.
Proof.
  induction f as [|[k c] r IH]; simpl; intros.
  - destruct (String.eqb p q) eqn:E; auto. apply String.eqb_eq in E. congruence.
  - destruct (String.eqb k p) eqn:E; simpl.
    + apply String.eqb_eq in E. subst k.
      destruct (String.eqb p q) eqn:E2; auto. apply String.eqb_eq in E2. congruence.
    + destruct (String.eqb k q); auto.
Qed.

Lemma fs_get_del_eq : forall p f, fs_get p (fs_del p f) = None.
Proof.
  induction f as [|[k c] r IH]; simpl; auto.
  destruct (String.eqb k p) eqn:E; simpl; auto. now rewrite E.
Qed.

Lemma fs_get_del_neq : forall p q f, q <> p -> fs_get q (fs_del p f) = fs_get q f.
Proof.
  induction f as [|[k c] r IH]; simpl; intros; auto.
  destruct (String.eqb k p) eqn:E; simpl.
  - apply String.eqb_eq in E. subst k.
    destruct (String.eqb p q) eqn:E2; auto. apply String.eqb_eq in E2. congruence.
  - destruct (String.eqb k q); auto.
Qed.

Lemma fs_get_set_inv : forall p q b f t, fs_get q (fs_set p b f) = Some t -> (q = p /\ t = b) \/ fs_get q f = Some t.
Proof.
  intros. destruct (string_dec q p) as [->|N].
  - rewrite fs_get_set_eq in H. left. split; congruence.
  - rewrite fs_get_set_neq in H; auto.
Qed.

Lemma fs_get_del_inv : forall p q f t, fs_get q (fs_del p f) = Some t -> fs_get q f = Some t.
Proof.
  intros. destruct (string_dec q p) as [->|N].
  - rewrite fs_get_del_eq in H. discriminate.
  - rewrite fs_get_del_neq in H; auto.
Qed.

Lemma fs_mem_true : forall p f, fs_mem p f = true <-> fs_get p f <> None.
Proof. unfold fs_mem. intros. destruct (fs_get p f); split; intros; try congruence; auto. Qed.

Lemma fs_mem_false : forall p f, fs_mem p f = false <-> fs_get p f = None.
Proof. unfold fs_mem. intros. destruct (fs_get p f); split; intros; try congruence; auto. Qed.

Lemma h_get_set_eq : forall l rs h, h_get l (h_set l rs h) = rs.
Proof.
  induction h as [|[k c] r IH]; simpl.
  - now rewrite String.eqb_refl.
  - destruct (String.eqb k l) eqn:E; simpl; rewrite E; auto.
Qed.

Lemma h_get_set_neq : forall l m rs h, m <> l -> h_get m (h_set l rs h) = h_get m h.
Proof.
  induction h as [|[k c] r IH]; simpl; intros.
  - destruct (String.eqb l m) eqn:E; auto. apply String.eqb_eq in E. congruence.
  - destruct (String.eqb k l) eqn:E; simpl.
    + apply String.eqb_eq in E. subst k.
      destruct (String.eqb l m) eqn:E2; auto. apply String.eqb_eq in E2. congruence.
    + destruct (String.eqb k m); auto.
Qed.

Lemma h_rename_new : forall o n h, o <> n -> h_get n (h_rename o n h) = (h_get o h ++ h_get n h)%list.
Proof.
  intros. unfold h_rename. destruct (String.eqb o n) eqn:E.
  - apply String.eqb_eq in E. congruence.
  - rewrite h_get_set_neq by congruence. apply h_get_set_eq.
Qed.

Lemma h_rename_old : forall o n h, o <> n -> h_get o (h_rename o n h) = [].
Proof.
  intros. unfold h_rename. destruct (String.eqb o n) eqn:E.
  - apply String.eqb_eq in E. congruence.
  - apply h_get_set_eq.
Qed.

Lemma h_rename_other : forall o n l h, l <> o -> l <> n -> h_get l (h_rename o n h) = h_get l h.
Proof.
  intros. unfold h_rename. destruct (String.eqb o n); auto.
  rewrite h_get_set_neq by auto. apply h_get_set_neq; auto.
Qed.

Lemma h_rename_same : forall o h, h_rename o o h = h.
Proof. intros. unfold h_rename. now rewrite String.eqb_refl. Qed.

(* ------------------------------------------------------------------------------------------- *)
(* strings: the name -> path rules agree on every name (since fe0ec16)                           *)
(* ------------------------------------------------------------------------------------------- *)

Lemma app_nil_r_s : forall s : string, s ++ "" = s.
Proof. induction s; simpl; congruence. Qed.

Lemma app_assoc_s : forall a b c : string, (a ++ b) ++ c = a ++ (b ++ c).
Proof. induction a; simpl; intros; congruence. Qed.

Lemma length_app_s : forall a b, String.length (a ++ b) = (String.length a + String.length b)%nat.
Proof. induction a; simpl; intros; auto. Qed.

(* filepath.Ext returns a suffix of its argument *)
Lemma ext_go_suf : forall s pre cur,
  match cur with Some c => exists y, pre = y ++ c | None => True end ->
  exists x, pre ++ s = x ++ ext_go s cur.
Proof.
  induction s as [|a r IH]; intros pre cur H.
  - simpl. destruct cur as [c|].
    + destruct H as [y ->]. exists y. now rewrite !app_nil_r_s.
    + exists pre. reflexivity.
  - replace (pre ++ String a r) with ((pre ++ String a "") ++ r) by (rewrite app_assoc_s; reflexivity).
    cbn [ext_go]. destruct (Ascii.eqb a ch_slash) eqn:E1.
    + apply IH. exact I.
    + destruct (Ascii.eqb a ch_dot) eqn:E2.
      * apply IH. apply Ascii.eqb_eq in E2. subst a. exists pre. reflexivity.
      * apply IH. destruct cur as [c|]; [|exact I]. destruct H as [y ->]. exists y. now rewrite app_assoc_s.
Qed.

Lemma ext_suffix : forall f, exists x, f = x ++ ext f.
Proof. intros. destruct (ext_go_suf f "" None I) as [x H]. exists x. exact H. Qed.

Lemma ext_go_app_dot0 : forall x y cur, ext_go (x ++ String ch_dot y) cur = ext_go y (Some ".").
Proof.
  induction x as [|c x IH]; intros y cur.
  - reflexivity.
  - change ((String c x ++ String ch_dot y)) with (String c (x ++ String ch_dot y)).
    cbn [ext_go]. destruct (Ascii.eqb c ch_slash); [apply IH|]. destruct (Ascii.eqb c ch_dot); apply IH.
Qed.

Lemma ext_yaml : forall x, ext (x ++ ".yaml") = ".yaml".
Proof. intros. unfold ext. change ".yaml" with (String ch_dot "yaml"). rewrite ext_go_app_dot0. reflexivity. Qed.

Lemma substring_skip : forall x y, substring (String.length x) (String.length y) (x ++ y) = y.
Proof.
  induction x as [|c x IH]; intros y; simpl.
  - induction y as [|d y IHy]; simpl; [reflexivity|]. now rewrite IHy.
  - apply IH.
Qed.

Lemma substring_take : forall x y, substring 0 (String.length x) (x ++ y) = x.
Proof.
  induction x as [|c x IH]; intros y; simpl.
  - destruct y; reflexivity.
  - now rewrite IH.
Qed.

Lemma has_suffix_app : forall x suf, has_suffix suf (x ++ suf) = true.
Proof.
  intros. unfold has_suffix. rewrite length_app_s.
  replace (String.length x + String.length suf - String.length suf)%nat with (String.length x) by lia.
  rewrite substring_skip. rewrite String.eqb_refl. rewrite andb_true_r. apply Nat.leb_le. lia.
Qed.

Lemma trim_suffix_app : forall x suf, trim_suffix (x ++ suf) suf = x.
Proof.
  intros. unfold trim_suffix. rewrite has_suffix_app. rewrite length_app_s.
  replace (String.length x + String.length suf - String.length suf)%nat with (String.length x) by lia.
  apply substring_take.
Qed.

(* AddYamlExtension always yields <something>.yaml and keeps the first character (unless that is a dot) *)
Lemma add_yaml_shape : forall f, exists x, add_yaml_ext f = x ++ ".yaml" /\
  (forall c r, f = String c r -> c <> ch_dot -> exists r', x = String c r').
Proof.
  intros f. unfold add_yaml_ext. destruct (ext_suffix f) as [x0 E].
  destruct (String.eqb (ext f) ".yaml") eqn:E1.
  - apply String.eqb_eq in E1. rewrite E1 in E. exists x0. split; auto.
    intros c r F N. subst f. destruct x0 as [|d x0].
    + simpl in F. injection F as Fc _. exfalso. apply N. unfold ch_dot. congruence.
    + injection F as -> _. eauto.
  - destruct (String.eqb (ext f) ".yml") eqn:E2.
    + apply String.eqb_eq in E2. rewrite E2 in *.
      assert (T : trim_suffix f ".yml" = x0) by (rewrite E; apply trim_suffix_app). rewrite T. exists x0. split; auto.
      intros c r F N. rewrite F in E. destruct x0 as [|d x0].
      * simpl in E. injection E as Fc _. exfalso. apply N. unfold ch_dot. congruence.
      * injection E as <- _. eauto.
    + exists f. split; auto. intros c r -> _. eauto.
Qed.

Lemma craft_yaml : forall x, craft (x ++ ".yaml") = x ++ ".yaml".
Proof. intros. unfold craft. now rewrite has_suffix_app. Qed.

Lemma add_yaml_idem : forall x, add_yaml_ext (x ++ ".yaml") = x ++ ".yaml".
Proof. intros. unfold add_yaml_ext. rewrite ext_yaml. reflexivity. Qed.

(* for every id that is a single path element: the file of the definition is also the Location the loader gives
   the DAG, AddYamlExtension leaves it alone, and it is absolute when the DAGs directory is *)
Lemma loc_facts : forall dir n, has_slash n = false ->
  craft (file_loc dir n) = file_loc dir n /\ add_yaml_ext (file_loc dir n) = file_loc dir n /\
  (is_abs dir = true -> is_abs (file_loc dir n) = true).
Proof.
  intros dir n H. unfold file_loc. rewrite H.
  destruct (add_yaml_shape (dir ++ "/" ++ n)) as (x & E & A). rewrite E.
  split; [apply craft_yaml|]. split; [apply add_yaml_idem|].
  intros AB. destruct dir as [|c d]; [discriminate|]. simpl in AB. apply Ascii.eqb_eq in AB. subst c.
  destruct (A ch_slash (d ++ "/" ++ n) eq_refl) as [r' ->]; [discriminate|]. reflexivity.
Qed.

Lemma dag_loc_is_loc : forall dir n, has_slash n = false -> dag_loc dir n = file_loc dir n.
Proof. intros. unfold dag_loc. now apply loc_facts. Qed.

(* ------------------------------------------------------------------------------------------- *)

Section Proofs.
  Variable valid : bytes -> bool.
  Variable meta_ok : bytes -> bool.
  Variable dir : string.

  Notation step := (step valid meta_ok dir).
  Notation step_w := (step_w valid meta_ok dir).
  Notation step_res := (step_res valid meta_ok dir).
  Notation loc := (file_loc dir).

  (* ---- create ---- *)

  (* Create on a name whose file exists fails and changes nothing. *)
  Theorem create_fresh : forall w n s,
    fs_get (loc n) (w_defs w) <> None -> step w (OCreate n s) = (w, RExists, []).
  Proof.
    intros. simpl. apply fs_mem_true in H. now rewrite H.
  Qed.

  (* ... and on a free name it writes exactly that file. *)
  Theorem create_new : forall w n s,
    fs_get (loc n) (w_defs w) = None ->
    step_res w (OCreate n s) = ROk /\
    fs_get (loc n) (w_defs (step_w w (OCreate n s))) = Some s /\
    (forall q, q <> loc n -> fs_get q (w_defs (step_w w (OCreate n s))) = fs_get q (w_defs w)) /\
    w_hist (step_w w (OCreate n s)) = w_hist w /\ w_flags (step_w w (OCreate n s)) = w_flags w.
  Proof.
    intros. apply fs_mem_false in H. unfold Model.step_res, Model.step_w. simpl. rewrite H. simpl.
    repeat split; auto using fs_get_set_eq. intros. now apply fs_get_set_neq.
  Qed.

  (* ---- save ---- *)

  Theorem save_invalid : forall w n s, valid s = false -> step w (OSave n s) = (w, RInvalid, []).
  Proof. intros. simpl. now rewrite H. Qed.

  Theorem save_missing : forall w n s, valid s = true -> fs_get (loc n) (w_defs w) = None ->
    step w (OSave n s) = (w, RNotExist, []).
  Proof. intros. simpl. rewrite H. simpl. apply fs_mem_false in H0. now rewrite H0. Qed.

  Theorem save_valid_ok : forall w n s, valid s = true -> fs_get (loc n) (w_defs w) <> None ->
    step w (OSave n s) = (set_defs w (fs_set (loc n) s (w_defs w)), ROk, []).
  Proof. intros. simpl. rewrite H. simpl. apply fs_mem_true in H0. now rewrite H0. Qed.

  (* After UpdateSpec name s: the file holds s if s is valid (and the file existed), and the whole world is
     unchanged otherwise; no other file, no history, no flag is touched in any case. *)
  Theorem save_valid : forall w n s,
    let w' := step_w w (OSave n s) in
    ((valid s = true /\ fs_get (loc n) (w_defs w) <> None /\ step_res w (OSave n s) = ROk /\
      fs_get (loc n) (w_defs w') = Some s)
     \/ (w' = w /\ step_res w (OSave n s) <> ROk)) /\
    (forall q, q <> loc n -> fs_get q (w_defs w') = fs_get q (w_defs w)) /\
    w_hist w' = w_hist w /\ w_flags w' = w_flags w.
  Proof.
    intros. subst w'. unfold Model.step_w, Model.step_res.
    destruct (valid s) eqn:V.
    - destruct (fs_get (loc n) (w_defs w)) eqn:G.
      + rewrite save_valid_ok by (auto; congruence). simpl. split; [left|].
        * repeat split; auto; try congruence. apply fs_get_set_eq.
        * repeat split; auto. intros. now apply fs_get_set_neq.
      + rewrite save_missing by auto. simpl. split; [right; split; congruence|auto].
    - rewrite save_invalid by auto. simpl. split; [right; split; congruence|auto].
  Qed.

  (* ---- crash states of UpdateSpec ---- *)

  Lemma length_append : forall a b, String.length (a ++ b) = (String.length a + String.length b)%nat.
  Proof. induction a; simpl; intros; auto. Qed.

  (* the temporary file is never the definition itself *)
  Lemma tmp_ne : forall p rnd, tmp_of p rnd <> p.
  Proof.
    unfold tmp_of. intros p rnd E. apply (f_equal String.length) in E.
    rewrite length_append in E. simpl in E. lia.
  Qed.

  Lemma save_prims_len : forall f n s rnd, (List.length (save_prims valid dir f n s rnd) <= 8)%nat.
  Proof. intros. unfold save_prims. destruct (valid s); simpl; [|lia]. destruct (fs_mem (loc n) f); simpl; lia. Qed.

  Lemma crash_fs_ge : forall f n s rnd cut t, (8 <= cut)%nat ->
    crash_fs valid dir f n s rnd cut t = run_prims f (save_prims valid dir f n s rnd).
  Proof.
    intros. unfold crash_fs. pose proof (save_prims_len f n s rnd).
    rewrite firstn_all2 by lia. rewrite (proj2 (nth_error_None _ _)) by lia. reflexivity.
  Qed.

  Ltac cut_cases cut :=
    destruct (le_lt_dec 8 cut) as [?L|?L];
    [ rewrite crash_fs_ge by auto
    | destruct cut as [|[|[|[|[|[|[|[|cut]]]]]]]]; [ | | | | | | | | exfalso; lia] ].

  (* a text the loader rejects: every crash state is the old file system *)
  Theorem crash_invalid : forall f n s rnd cut t, valid s = false -> crash_fs valid dir f n s rnd cut t = f.
  Proof.
    intros f n s rnd cut t H. cut_cases cut; unfold crash_fs, save_prims; rewrite H; simpl; auto.
  Qed.

  (* the name is free: nothing happens either *)
  Theorem crash_missing : forall f n s rnd cut t, fs_get (loc n) f = None -> crash_fs valid dir f n s rnd cut t = f.
  Proof.
    intros f n s rnd cut t H. apply fs_mem_false in H.
    cut_cases cut; unfold crash_fs, save_prims; destruct (valid s); simpl; auto; rewrite H; simpl; auto.
  Qed.

  (* files other than the definition and the temporary file are never touched, in no crash state *)
  Theorem crash_others_untouched : forall f n s rnd cut t q,
    q <> loc n -> q <> tmp_of (loc n) rnd -> fs_get q (crash_fs valid dir f n s rnd cut t) = fs_get q f.
  Proof.
    intros f n s rnd cut t q N NT.
    destruct (valid s) eqn:V; [|now rewrite crash_invalid].
    destruct (fs_mem (loc n) f) eqn:E; [|apply fs_mem_false in E; now rewrite crash_missing].
    cut_cases cut; unfold crash_fs, save_prims; rewrite V, E; simpl;
      try destruct (t <=? String.length s)%nat; simpl;
      repeat (rewrite ?fs_get_set_eq; simpl); repeat rewrite fs_get_set_neq by auto; auto;
      rewrite fs_get_del_neq by auto; repeat rewrite fs_get_set_neq by auto; auto.
  Qed.

  (* until the final rename the definition is the old one *)
  Theorem crash_before_rename : forall f n s rnd cut t, (cut <= 7)%nat ->
    fs_get (loc n) (crash_fs valid dir f n s rnd cut t) = fs_get (loc n) f.
  Proof.
    intros f n s rnd cut t H. pose proof (tmp_ne (loc n) rnd) as NE.
    destruct (valid s) eqn:V; [|now rewrite crash_invalid].
    destruct (fs_mem (loc n) f) eqn:E; [|apply fs_mem_false in E; now rewrite crash_missing].
    destruct cut as [|[|[|[|[|[|[|[|cut]]]]]]]]; try lia; unfold crash_fs, save_prims; rewrite V, E; simpl;
      try destruct (t <=? String.length s)%nat; simpl; repeat rewrite fs_get_set_neq by auto; auto.
  Qed.

  (* after it, the new one *)
  Theorem crash_after_rename : forall f n s rnd cut t,
    valid s = true -> fs_get (loc n) f <> None -> (8 <= cut)%nat ->
    fs_get (loc n) (crash_fs valid dir f n s rnd cut t) = Some s.
  Proof.
    intros f n s rnd cut t V E C. apply fs_mem_true in E. rewrite crash_fs_ge by auto.
    unfold save_prims. rewrite V, E. simpl.
    repeat (rewrite fs_get_set_eq; simpl). reflexivity.
  Qed.

  (* C18_save_atomic (full statement, true since e29932b): in EVERY crash state - any number of completed
     primitive steps, any number of bytes of a torn write - the definition holds the complete old or the
     complete new text. *)
  Theorem save_atomic : forall f n s rnd cut t,
    fs_get (loc n) (crash_fs valid dir f n s rnd cut t) = fs_get (loc n) f \/
    fs_get (loc n) (crash_fs valid dir f n s rnd cut t) = Some s.
  Proof.
    intros. destruct (le_lt_dec cut 7) as [L|L]; [left; now apply crash_before_rename|].
    destruct (valid s) eqn:V; [|left; now rewrite crash_invalid].
    destruct (fs_get (loc n) f) eqn:G; [|left; rewrite crash_missing; auto].
    right. apply crash_after_rename; auto; try lia. congruence.
  Qed.

  (* all primitive steps done = the effect of the operation (the temporary name was not in use) *)
  Theorem crash_complete : forall w n s rnd cut t q, (8 <= cut)%nat ->
    fs_get (tmp_of (loc n) rnd) (w_defs w) = None ->
    fs_get q (crash_fs valid dir (w_defs w) n s rnd cut t) = fs_get q (w_defs (step_w w (OSave n s))).
  Proof.
    intros w n s rnd cut t q C T. pose proof (tmp_ne (loc n) rnd) as NE.
    rewrite crash_fs_ge by auto. unfold save_prims, Model.step_w. simpl.
    destruct (valid s); simpl; auto.
    destruct (fs_mem (loc n) (w_defs w)) eqn:E; simpl; auto.
    repeat (rewrite fs_get_set_eq; simpl).
    destruct (string_dec q (loc n)) as [->|N1]; [now rewrite !fs_get_set_eq|].
    rewrite !fs_get_set_neq by auto.
    destruct (string_dec q (tmp_of (loc n) rnd)) as [->|N2]; [rewrite fs_get_del_eq; auto|].
    rewrite fs_get_del_neq by auto. now rewrite !fs_get_set_neq by auto.
  Qed.

  (* ---- a fault (error) on the save path: the save is rejected and the definition is the old one ---- *)

  Lemma fault_is_crash : forall f n s rnd k,
    run_prims f (firstn k (save_prims valid dir f n s rnd)) = crash_fs valid dir f n s rnd k (S (String.length s)).
  Proof.
    intros. unfold crash_fs.
    destruct (nth_error (save_prims valid dir f n s rnd) k) as [[]|] eqn:E; auto.
    assert (C : chunk = s).
    { unfold save_prims in E. destruct (valid s); simpl in E.
      - destruct (fs_mem (loc n) f); simpl in E.
        + destruct k as [|[|[|[|[|[|[|[|k]]]]]]]]; simpl in E; try discriminate; try (injection E; congruence).
          destruct k; discriminate.
        + destruct k as [|[|k]]; simpl in E; try discriminate. destruct k; discriminate.
      - destruct k as [|k]; simpl in E; try discriminate. destruct k; discriminate. }
    subst chunk. assert (L : (S (String.length s) <=? String.length s)%nat = false) by (apply Nat.leb_gt; lia).
    now rewrite L.
  Qed.

  (* whichever step of the save fails (the 8th, the rename, included): the definition is the old one, the temporary
     file is gone, every other file is untouched *)
  Theorem save_fault_old : forall f n s rnd k, (k <= 7)%nat ->
    fs_get (loc n) (fault_fs valid dir f n s rnd k) = fs_get (loc n) f /\
    fs_get (tmp_of (loc n) rnd) (fault_fs valid dir f n s rnd k) = None /\
    (forall q, q <> loc n -> q <> tmp_of (loc n) rnd -> fs_get q (fault_fs valid dir f n s rnd k) = fs_get q f).
  Proof.
    intros f n s rnd k K. unfold fault_fs. rewrite fault_is_crash. pose proof (tmp_ne (loc n) rnd) as NE.
    split; [|split].
    - rewrite fs_get_del_neq by auto. now apply crash_before_rename.
    - apply fs_get_del_eq.
    - intros. rewrite fs_get_del_neq by auto. now apply crash_others_untouched.
  Qed.

  (* ---- a stray temporary file is not a DAG ---- *)

  Fixpoint plain_str (s : string) : bool :=
    match s with
    | EmptyString => true
    | String c r => negb (Ascii.eqb c ch_slash) && negb (Ascii.eqb c ch_dot) && plain_str r
    end.

  Lemma ext_go_plain : forall r e, plain_str r = true -> ext_go r (Some e) = e ++ r.
  Proof.
    induction r as [|c r IH]; simpl; intros e H.
    - clear H. induction e; simpl; congruence.
    - apply andb_true_iff in H. destruct H as [H H3]. apply andb_true_iff in H. destruct H as [H1 H2].
      apply negb_true_iff in H1, H2. rewrite H1, H2. rewrite IH by auto.
      clear. induction e; simpl; congruence.
  Qed.

  Lemma ext_go_app_dot : forall x y cur, ext_go (x ++ String ch_dot y) cur = ext_go y (Some ".").
  Proof.
    induction x as [|c x IH]; intros y cur.
    - reflexivity.
    - change ((String c x ++ String ch_dot y)) with (String c (x ++ String ch_dot y)).
      cbn [ext_go]. destruct (Ascii.eqb c ch_slash); [apply IH|]. destruct (Ascii.eqb c ch_dot); apply IH.
  Qed.

  Lemma ext_tmp : forall x rnd, plain_str rnd = true -> ext (x ++ ".tmp-" ++ rnd) = ".tmp-" ++ rnd.
  Proof.
    intros. unfold ext. change (".tmp-" ++ rnd) with (String ch_dot ("tmp-" ++ rnd)).
    rewrite ext_go_app_dot. rewrite ext_go_plain; auto.
  Qed.

  Lemma strip_prefix_some : forall pre s0 b, strip_prefix pre s0 = Some b -> s0 = pre ++ b.
  Proof.
    induction pre as [|c r IH]; simpl; intros s0 b H; [congruence|].
    destruct s0 as [|d t]; [discriminate|]. destruct (Ascii.eqb c d) eqn:E; [|discriminate].
    apply Ascii.eqb_eq in E. subst d. f_equal. auto.
  Qed.

  Lemma ext_go_after_slash : forall x b cur, ext_go (x ++ String ch_slash b) cur = ext_go b None.
  Proof.
    induction x as [|c x IH]; intros b cur.
    - reflexivity.
    - change ((String c x ++ String ch_slash b)) with (String c (x ++ String ch_slash b)).
      cbn [ext_go]. destruct (Ascii.eqb c ch_slash); [apply IH|]. destruct (Ascii.eqb c ch_dot); apply IH.
  Qed.

  Lemma append_assoc_s : forall a b c : string, (a ++ b) ++ c = a ++ (b ++ c).
  Proof. induction a; simpl; intros; congruence. Qed.

  (* whatever the file system: the temporary file of a save is not an entry of the DAG listing *)
  Theorem tmp_never_listed : forall g p rnd, plain_str rnd = true -> list_entry meta_ok dir g (tmp_of p rnd) = None.
  Proof.
    intros g p rnd H. unfold list_entry, base_in_dir.
    destruct (strip_prefix (dir ++ "/") (tmp_of p rnd)) as [b|] eqn:S; auto.
    destruct (has_slash b || String.eqb b ""); auto.
    apply strip_prefix_some in S.
    assert (E : ext b = ".tmp-" ++ rnd).
    { pose proof (ext_tmp p rnd H) as X. unfold tmp_of in S. rewrite S in X.
      rewrite append_assoc_s in X. unfold ext in X.
      change ("/" ++ b) with (String ch_slash b) in X. rewrite ext_go_after_slash in X. exact X. }
    unfold is_yaml_file. rewrite E. reflexivity.
  Qed.

  (* ---- rename ---- *)

  Lemma store_rename_get : forall f old new d,
    store_rename dir f old new = (ROk, d) ->
    exists b, fs_get (loc old) f = Some b /\ fs_get (loc new) d = Some b /\
              (loc old <> loc new -> fs_get (loc old) d = None /\ fs_get (loc new) f = None) /\
              (loc old = loc new -> d = f) /\
              (forall q, q <> loc old -> q <> loc new -> fs_get q d = fs_get q f).
  Proof.
    unfold store_rename. intros f old new d H.
    destruct (String.eqb (loc old) (loc new)) eqn:E; simpl in H.
    - apply String.eqb_eq in E. destruct (fs_get (loc old) f) as [b|] eqn:G; [|discriminate].
      injection H as <-. exists b. rewrite <- E. repeat split; auto; intros; congruence.
    - apply String.eqb_neq in E. destruct (fs_mem (loc new) f) eqn:M; [discriminate|].
      destruct (fs_get (loc old) f) as [b|] eqn:G; [|discriminate]. injection H as <-.
      apply fs_mem_false in M. exists b. repeat split; auto.
      + apply fs_get_set_eq.
      + rewrite fs_get_set_neq by auto. apply fs_get_del_eq.
      + intros; congruence.
      + intros. rewrite fs_get_set_neq by auto. now apply fs_get_del_neq.
  Qed.

  Lemma store_rename_err : forall f old new e d, store_rename dir f old new = (e, d) -> e <> ROk -> d = f.
  Proof.
    unfold store_rename. intros f old new e d H N.
    destruct (negb (String.eqb (loc old) (loc new)) && fs_mem (loc new) f); [congruence|].
    destruct (fs_get (loc old) f); congruence.
  Qed.

  (* the target name is taken by another file: refused, unchanged *)
  Lemma store_rename_taken : forall f old new,
    loc old <> loc new -> fs_get (loc new) f <> None -> store_rename dir f old new = (RExists, f).
  Proof.
    intros f old new N T. unfold store_rename. apply String.eqb_neq in N. apply fs_mem_true in T.
    now rewrite N, T.
  Qed.

  (* C18_rename_fresh (full statement, true since 87dde6e): a rename - client level or store level - onto a name
     that another definition already has fails and changes nothing: no definition, history or flag. *)
  Theorem rename_fresh : forall w old new,
    loc old <> loc new -> fs_get (loc new) (w_defs w) <> None ->
    step_res w (ORename old new) <> ROk /\ step_w w (ORename old new) = w /\
    step w (OStoreRename old new) = (w, RExists, []).
  Proof.
    intros w old new N T. unfold Model.step_res, Model.step_w. simpl.
    rewrite (store_rename_taken _ _ _ N T).
    destruct (load_at valid (w_defs w) (loc old)) as [[] ol]; simpl; repeat split; auto; discriminate.
  Qed.

  (* Whatever a rename does (client level or store level, successful or not), definitions other than the
     source and the target are not touched, and the flags never are. *)
  Theorem rename_others_untouched : forall w old new q,
    q <> loc old -> q <> loc new ->
    fs_get q (w_defs (step_w w (ORename old new))) = fs_get q (w_defs w) /\
    fs_get q (w_defs (step_w w (OStoreRename old new))) = fs_get q (w_defs w).
  Proof.
    intros w old new q N1 N2. unfold Model.step_w. simpl.
    destruct (store_rename dir (w_defs w) old new) as [e d] eqn:S.
    assert (O : e = ROk -> fs_get q d = fs_get q (w_defs w)).
    { intros ->. destruct (store_rename_get _ _ _ _ S) as (b & _ & _ & _ & _ & O). auto. }
    split.
    - destruct (load_at valid (w_defs w) (loc old)) as [[] ol]; simpl; auto.
      destruct e; simpl; auto.
      destruct (load_at valid d (loc new)) as [[] nl]; simpl; auto.
      destruct (hist_rename (w_hist w) ol nl); simpl; auto.
    - destruct e; simpl; auto.
  Qed.

  Theorem rename_flags : forall w old new, w_flags (step_w w (ORename old new)) = w_flags w.
  Proof.
    intros. unfold Model.step_w. simpl.
    destruct (load_at valid (w_defs w) (loc old)) as [[] ol]; simpl; auto.
    destruct (store_rename dir (w_defs w) old new) as [[] d]; simpl; auto.
    destruct (load_at valid d (loc new)) as [[] nl]; simpl; auto.
    destruct (hist_rename (w_hist w) ol nl); simpl; auto.
  Qed.

  Hypothesis dir_abs : is_abs dir = true.   (* the DAGs directory is an absolute path (config) *)

  Lemma load_at_present : forall f n b, has_slash n = false -> fs_get (loc n) f = Some b ->
    load_at valid f (loc n) = (if valid b then ROk else RInvalid, loc n).
  Proof.
    intros f n b S G. destruct (loc_facts dir n S) as (C & _ & _).
    unfold load_at. rewrite C, G. now destruct (valid b).
  Qed.

  Lemma load_at_absent : forall f n, has_slash n = false -> fs_get (loc n) f = None ->
    fst (load_at valid f (loc n)) <> ROk.
  Proof.
    intros f n S G. destruct (loc_facts dir n S) as (C & _ & _).
    unfold load_at. rewrite C, G. simpl. discriminate.
  Qed.

  Lemma hist_rename_locs : forall h old new, has_slash old = false -> has_slash new = false ->
    hist_rename h (loc old) (loc new) = Some (h_rename (loc old) (loc new) h).
  Proof.
    intros h old new S1 S2. destruct (loc_facts dir old S1) as (_ & A1 & B1). destruct (loc_facts dir new S2) as (_ & A2 & B2).
    unfold hist_rename. rewrite A1, A2, (B1 dir_abs), (B2 dir_abs). reflexivity.
  Qed.

  (* what an accepted client rename is - for all ids that are single path elements *)
  Lemma rename_ok_char : forall w old new,
    has_slash old = false -> has_slash new = false ->
    step_res w (ORename old new) = ROk ->
    exists b d, fs_get (loc old) (w_defs w) = Some b /\ valid b = true /\
                store_rename dir (w_defs w) old new = (ROk, d) /\
                step_w w (ORename old new) = mkW d (h_rename (loc old) (loc new) (w_hist w)) (w_flags w).
  Proof.
    intros w old new O1 O2. unfold Model.step_res, Model.step_w. simpl.
    destruct (fs_get (loc old) (w_defs w)) as [b|] eqn:G.
    - rewrite (load_at_present _ _ _ O1 G).
      destruct (valid b) eqn:V; simpl; [|discriminate].
      destruct (store_rename dir (w_defs w) old new) as [e d] eqn:S.
      destruct e; simpl; try discriminate.
      destruct (store_rename_get _ _ _ _ S) as (b' & G' & GN & _).
      assert (b' = b) by congruence. subst b'.
      rewrite (load_at_present _ _ _ O2 GN). rewrite V.
      rewrite (hist_rename_locs _ _ _ O1 O2). simpl. intros _. exists b, d. auto.
    - pose proof (load_at_absent _ _ O1 G) as L.
      destruct (load_at valid (w_defs w) (loc old)) as [[] ol]; simpl in *; try discriminate. congruence.
  Qed.

  (* a client rename that fails changes nothing (full statement since fe0ec16) *)
  Theorem rename_failed_unchanged : forall w old new,
    has_slash old = false -> has_slash new = false ->
    step_res w (ORename old new) <> ROk -> step_w w (ORename old new) = w.
  Proof.
    intros w old new O1 O2. unfold Model.step_res, Model.step_w. simpl.
    destruct (load_at valid (w_defs w) (loc old)) as [r0 ol] eqn:F.
    destruct r0; simpl; auto.
    destruct (store_rename dir (w_defs w) old new) as [e d] eqn:S.
    destruct e; simpl; auto.
    destruct (store_rename_get _ _ _ _ S) as (b & G & GN & _).
    rewrite (load_at_present _ _ _ O1 G) in F.
    destruct (valid b) eqn:V; [|discriminate]. injection F as <-.
    rewrite (load_at_present _ _ _ O2 GN). rewrite V.
    rewrite (hist_rename_locs _ _ _ O1 O2). simpl. congruence.
  Qed.

  (* C18_rename_carries (full statement since fe0ec16: every id that is a single path element) *)
  Theorem rename_carries : forall w old new,
    has_slash old = false -> has_slash new = false ->
    step_res w (ORename old new) = ROk ->
    let w' := step_w w (ORename old new) in
    fs_get (loc new) (w_defs w') = fs_get (loc old) (w_defs w) /\
    fs_get (loc old) (w_defs w) <> None /\
    (loc old <> loc new ->
       fs_get (loc new) (w_defs w) = None /\
       fs_get (loc old) (w_defs w') = None /\
       h_get (dag_loc dir new) (w_hist w') = (h_get (dag_loc dir old) (w_hist w) ++ h_get (dag_loc dir new) (w_hist w))%list /\
       h_get (dag_loc dir old) (w_hist w') = []) /\
    (loc old = loc new -> w' = w) /\
    (forall l, l <> dag_loc dir old -> l <> dag_loc dir new -> h_get l (w_hist w') = h_get l (w_hist w)) /\
    (forall q, q <> loc old -> q <> loc new -> fs_get q (w_defs w') = fs_get q (w_defs w)) /\
    w_flags w' = w_flags w.
  Proof.
    intros w old new O1 O2 R w'. subst w'.
    destruct (rename_ok_char w old new O1 O2 R) as (b & d & G & V & S & W). rewrite W. simpl.
    destruct (store_rename_get _ _ _ _ S) as (b' & G' & GN & GO & GE & OT).
    assert (b' = b) by congruence. subst b'.
    rewrite (dag_loc_is_loc dir old O1), (dag_loc_is_loc dir new O2).
    repeat split; try congruence; auto.
    - now apply GO.
    - now apply GO.
    - now apply h_rename_new.
    - now apply h_rename_old.
    - intros E. rewrite (GE E), E, h_rename_same. now destruct w.
    - intros. now apply h_rename_other.
  Qed.

  (* ---- delete ---- *)

  (* C18_delete_local: what Delete removes, and that it touches nothing else (by path / by location) *)
  Theorem delete_local : forall w n l,
    let w' := step_w w (ODelete n l) in
    (fs_get (loc n) (w_defs w) <> None -> step_res w (ODelete n l) = ROk) /\
    fs_get (loc n) (w_defs w') = None /\
    h_get l (w_hist w') = [] /\
    (forall q, q <> loc n -> fs_get q (w_defs w') = fs_get q (w_defs w)) /\
    (forall m, m <> l -> h_get m (w_hist w') = h_get m (w_hist w)) /\
    w_flags w' = w_flags w.
  Proof.
    intros. subst w'. unfold Model.step_w, Model.step_res. simpl.
    destruct (fs_mem (loc n) (w_defs w)) eqn:E; simpl.
    - repeat split; auto.
      + apply fs_get_del_eq.
      + apply h_get_set_eq.
      + intros. now apply fs_get_del_neq.
      + intros. now apply h_get_set_neq.
    - apply fs_mem_false in E. repeat split; auto.
      + intros. congruence.
      + apply h_get_set_eq.
      + intros. now apply h_get_set_neq.
  Qed.

  (* ... in terms of DAGs (full statement since fe0ec16): deleting DAG n (as the API does, with the location of
     the loaded DAG) leaves the definition and the history of every other DAG m as they were *)
  Theorem delete_other_dag : forall w n m,
    has_slash n = false -> has_slash m = false -> loc m <> loc n ->
    let w' := step_w w (ODelete n (dag_loc dir n)) in
    fs_get (loc m) (w_defs w') = fs_get (loc m) (w_defs w) /\
    h_get (dag_loc dir m) (w_hist w') = h_get (dag_loc dir m) (w_hist w).
  Proof.
    intros w n m O1 O2 N w'. subst w'.
    destruct (delete_local w n (dag_loc dir n)) as (_ & _ & _ & D & H & _).
    split; [now apply D|]. apply H. rewrite (dag_loc_is_loc dir n O1), (dag_loc_is_loc dir m O2). auto.
  Qed.

  (* ---- invariant over every sequence of client operations ---- *)

  Variable tmpl : bytes.
  Hypothesis tmpl_valid : valid tmpl = true.

  Definition client_op (o : op) : Prop := match o with OCreate _ s => s = tmpl | _ => True end.
  Definition defs_valid (w : world) : Prop := forall p t, fs_get p (w_defs w) = Some t -> valid t = true.

  Lemma store_rename_valid : forall f old new e d,
    (forall p t, fs_get p f = Some t -> valid t = true) -> store_rename dir f old new = (e, d) ->
    forall p t, fs_get p d = Some t -> valid t = true.
  Proof.
    unfold store_rename. intros f old new e d IH S p t G.
    destruct (negb (String.eqb (loc old) (loc new)) && fs_mem (loc new) f); [injection S as <- <-; eauto|].
    destruct (fs_get (loc old) f) as [b|] eqn:GB; [|injection S as <- <-; eauto]. injection S as <- <-.
    destruct (String.eqb (loc old) (loc new)); [eauto|].
    apply fs_get_set_inv in G. destruct G as [[-> ->]|G]; [eauto|].
    apply fs_get_del_inv in G. eauto.
  Qed.

  Lemma step_preserves_valid : forall w o, client_op o -> defs_valid w -> defs_valid (step_w w o).
  Proof.
    unfold defs_valid, Model.step_w. intros w o C IH p t.
    destruct o as [name spec|name spec|old new|old new|name l|id on|l stamp lines closed| |name]; simpl in *.
    - subst spec. destruct (fs_mem (loc name) (w_defs w)); simpl; [eauto|].
      intros G. apply fs_get_set_inv in G. destruct G as [[_ ->]|G]; eauto.
    - destruct (valid spec) eqn:V; simpl; [|eauto].
      destruct (fs_mem (loc name) (w_defs w)); simpl; [|eauto].
      intros G. apply fs_get_set_inv in G. destruct G as [[_ ->]|G]; eauto.
    - destruct (load_at valid (w_defs w) (loc old)) as [[] ol]; simpl; eauto.
      destruct (store_rename dir (w_defs w) old new) as [e d] eqn:S.
      pose proof (store_rename_valid _ _ _ _ _ IH S) as VD.
      destruct e; simpl; eauto.
      destruct (load_at valid d (loc new)) as [[] nl]; simpl; eauto.
      destruct (hist_rename (w_hist w) ol nl); simpl; eauto.
    - destruct (store_rename dir (w_defs w) old new) as [e d] eqn:S.
      pose proof (store_rename_valid _ _ _ _ _ IH S) as VD.
      destruct e; simpl; eauto.
    - destruct (fs_mem (loc name) (w_defs w)); simpl; eauto.
      intros G. apply fs_get_del_inv in G. eauto.
    - eauto.
    - eauto.
    - eauto.
    - destruct (fs_get (loc name) (w_defs w)); simpl; eauto.
  Qed.

  (* For EVERY sequence of create / save / rename / delete / suspend / list / get operations interleaved with
     recorded runs, starting from the empty store: every definition file holds a text the loader accepts. *)
  Theorem defs_always_valid : forall ops, Forall client_op ops ->
    defs_valid (run_ops valid meta_ok dir empty_world ops).
  Proof.
    intros ops F. unfold run_ops.
    assert (G : forall w, defs_valid w -> defs_valid (fold_left step_w ops w)).
    { induction F as [|o ops C F IH]; simpl; auto. intros. apply IH. now apply step_preserves_valid. }
    apply G. unfold defs_valid. simpl. discriminate.
  Qed.

End Proofs.

(* ------------------------------------------------------------------------------------------- *)
(* the former F18a / F18b witnesses as positive examples; refutations for the foreign-extension   *)
(* class (F18c, not repaired)                                                                      *)
(* ------------------------------------------------------------------------------------------- *)

Definition all_valid (_ : bytes) : bool := true.

Definition w_two : world :=
  mkW [("/d/a.yaml", "text of a"); ("/d/b.yaml", "text of b")]
      [("/d/a.yaml", [mkRun 100 [mkStatus "ra" 4 []]]); ("/d/b.yaml", [mkRun 200 [mkStatus "rb" 2 []]])] [].

(* the witness that refuted C18_rename_fresh before 87dde6e (rename a -> b with b taken): now refused, and
   definitions and both histories are what they were *)
Example ex_rename_fresh :
  file_loc "/d" "a" <> file_loc "/d" "b" /\ fs_get (file_loc "/d" "b") (w_defs w_two) <> None /\
  step all_valid all_valid "/d" w_two (ORename "a" "b") = (w_two, RExists, []) /\
  step all_valid all_valid "/d" w_two (OStoreRename "a" "b") = (w_two, RExists, []).
Proof. vm_compute. repeat split; discriminate. Qed.

(* the witness that refuted C18_save_atomic before e29932b (kill after 3 primitive steps): the definition
   still holds the old text; all crash points of that save *)
Example ex_save_atomic :
  map (fun cut => fs_get "/d/a.yaml" (crash_fs all_valid "/d" [("/d/a.yaml", "old text")] "a" "new text" "42" cut 0))
      [0; 1; 2; 3; 4; 5; 6; 7; 8; 9]%nat
  = [Some "old text"; Some "old text"; Some "old text"; Some "old text"; Some "old text"; Some "old text";
     Some "old text"; Some "old text"; Some "new text"; Some "new text"] /\
  crash_fs all_valid "/d" [("/d/a.yaml", "old text")] "a" "new text" "42" 3 4
  = [("/d/a.yaml", "old text"); ("/d/a.yaml.tmp-42", "new ")] /\
  snd (step all_valid all_valid "/d" (mkW (crash_fs all_valid "/d" [("/d/a.yaml", "old text")] "a" "new text" "42" 5 0) [] []) OList)
  = ["a.yaml"].
Proof. vm_compute. repeat split. Qed.

(* the inputs that refuted delete_other_dag / rename for names with a foreign extension before fe0ec16 (F18c):
   a.b and a.b.yaml now name the SAME definition file, deleting a.b removes that DAG and its history and
   leaves the neighbour alone ... *)
Definition w_dotted : world :=
  mkW [("/d/a.b.yaml", "t"); ("/d/a.yaml", "u")]
      [("/d/a.b.yaml", [mkRun 100 [mkStatus "r" 4 []]]); ("/d/a.yaml", [mkRun 200 [mkStatus "q" 4 []]])] [].

Example ex_delete_foreign_extension :
  file_loc "/d" "a.b" = "/d/a.b.yaml" /\ file_loc "/d" "a.b.yaml" = "/d/a.b.yaml" /\ dag_loc "/d" "a.b" = "/d/a.b.yaml" /\
  step all_valid all_valid "/d" w_dotted (ODelete "a.b" (dag_loc "/d" "a.b")) =
    (mkW [("/d/a.yaml", "u")] [("/d/a.b.yaml", []); ("/d/a.yaml", [mkRun 200 [mkStatus "q" 4 []]])] [], ROk, []).
Proof. vm_compute. repeat split. Qed.

(* ... and a rename to v1.2 is accepted: the definition and its history are at v1.2.yaml, and it is listed *)
Example ex_rename_foreign_extension :
  step all_valid all_valid "/d" (mkW [("/d/a.yaml", "t")] [("/d/a.yaml", [mkRun 100 [mkStatus "r" 4 []]])] []) (ORename "a" "v1.2") =
    (mkW [("/d/v1.2.yaml", "t")] [("/d/a.yaml", []); ("/d/v1.2.yaml", [mkRun 100 [mkStatus "r" 4 []]])] [], ROk, []) /\
  snd (step all_valid all_valid "/d" (mkW [("/d/v1.2.yaml", "t")] [] []) OList) = ["v1.2.yaml"] /\
  file_loc "/d" "a.yml" = "/d/a.yaml" /\ file_loc "/d" "a b" = "/d/a b.yaml".
Proof. vm_compute. repeat split. Qed.

(* ------------------------------------------------------------------------------------------- *)
(* examples: the hypotheses are satisfiable by concrete non-trivial states                      *)
(* ------------------------------------------------------------------------------------------- *)

Example ex_create_fresh : fs_get (file_loc "/d" "a") (w_defs w_two) <> None /\
  step all_valid all_valid "/d" w_two (OCreate "a" "x") = (w_two, RExists, []).
Proof. vm_compute. split; [discriminate|reflexivity]. Qed.

Example ex_save : step_res all_valid all_valid "/d" w_two (OSave "a" "new") = ROk /\
  fs_get "/d/a.yaml" (w_defs (step_w all_valid all_valid "/d" w_two (OSave "a" "new"))) = Some "new" /\
  step (fun _ => false) all_valid "/d" w_two (OSave "a" "bad") = (w_two, RInvalid, []).
Proof. vm_compute. repeat split. Qed.

Example ex_rename_carries :
  step_res all_valid all_valid "/d" w_two (ORename "a" "c") = ROk /\
  fs_get "/d/c.yaml" (w_defs (step_w all_valid all_valid "/d" w_two (ORename "a" "c"))) = Some "text of a" /\
  h_get "/d/c.yaml" (w_hist (step_w all_valid all_valid "/d" w_two (ORename "a" "c"))) = [mkRun 100 [mkStatus "ra" 4 []]] /\
  h_get "/d/b.yaml" (w_hist (step_w all_valid all_valid "/d" w_two (ORename "a" "c"))) = [mkRun 200 [mkStatus "rb" 2 []]].
Proof. vm_compute. repeat split. Qed.

Example ex_delete_local :
  step_res all_valid all_valid "/d" w_two (ODelete "a" (dag_loc "/d" "a")) = ROk /\
  w_defs (step_w all_valid all_valid "/d" w_two (ODelete "a" (dag_loc "/d" "a"))) = [("/d/b.yaml", "text of b")] /\
  h_get "/d/b.yaml" (w_hist (step_w all_valid all_valid "/d" w_two (ODelete "a" (dag_loc "/d" "a")))) = [mkRun 200 [mkStatus "rb" 2 []]].
Proof. vm_compute. repeat split. Qed.

Example ex_save_fault :
  map (fun k => fault_fs all_valid "/d" [("/d/a.yaml", "old text")] "a" "new text" "42" k) [2; 3; 4; 7]%nat
  = [[("/d/a.yaml", "old text")]; [("/d/a.yaml", "old text")]; [("/d/a.yaml", "old text")]; [("/d/a.yaml", "old text")]].
Proof. vm_compute. reflexivity. Qed.

Example ex_tmp_plain : plain_str "1234567890" = true.
Proof. reflexivity. Qed.

Example ex_defs_always_valid :
  Forall (client_op template) [OCreate "a" template; OSave "a" "x"; ORename "a" "b"; ODelete "b" "/d/b.yaml"].
Proof. repeat constructor. Qed.
