(* Api - executable model of the API actions of internal/frontend/dag/handler.go (postAction :696-777,
   processUpdateStatus :779-835, createDAG :257-277, deleteDAG :278-290) on top of client.go (GetStatus,
   GetLatestStatus, GetStatusByRequestID, UpdateStatus, StartAsync/Start, Stop, Retry, ToggleSuspend),
   model/status.go (CorrectRunningStatus), jsondb.go (FindByRequestID, Update) at the abstract level, and
   cmd/start.go (removeQuotes).

   World = the DagStore world (definitions, abstract histories, suspend flags) + per DAG location an optional
   live agent (request id, status it answers on its socket).  Executable definitions only. *)
From Coq Require Import List String Ascii Bool ZArith Arith.
Import ListNotations.
From BD.DagStore Require Import Model.
Open Scope string_scope.

(* scheduler.Status / scheduler.NodeStatus: 0 none, 1 running, 2 error(failed), 3 cancel, 4 success, 5 skipped *)
Definition st_running : nat := 1.
Definition st_error : nat := 2.
Definition st_success : nat := 4.
(* a live agent is (request id, status it answers).  The status value st_timeout stands for "the process owns the
   control socket and accepts the connection but does not answer within the client's 3 s timeout" (stopped, swapped
   out, starved): sock.ErrTimeout on every request. *)
Definition st_timeout : nat := 99.

Record aworld := mkA { a_w : world; a_live : list (string * (string * nat)) }.

Fixpoint live_get (l : string) (lv : list (string * (string * nat))) : option (string * nat) :=
  match lv with
  | [] => None
  | (k, v) :: r => if String.eqb k l then Some v else live_get l r
  end.

Record body := mkBody {
  b_action : option string; b_value : string; b_reqid : string; b_step : string; b_params : string }.

Inductive event :=
| ESpawn (argv : list string)     (* a process started with the configured executable *)
| EStop (loc : string).           (* POST /stop delivered to the agent of that DAG *)

(* model.Status.CorrectRunningStatus *)
Definition correct (s : status) : status :=
  if Nat.eqb (s_st s) st_running then mkStatus (s_req s) st_error (s_nodes s) else s.

(* the run with the greatest stamp (filterLatest(_, 1); stamps are assumed distinct) *)
Fixpoint latest_run (rs : list run) : option run :=
  match rs with
  | [] => None
  | r :: t => match latest_run t with
              | Some r' => if (r_stamp r' <? r_stamp r)%Z then Some r else Some r'
              | None => Some r
              end
  end.

Definition run_has_req (rq : string) (r : run) : bool :=
  match last_line r with Some s => String.eqb (s_req s) rq | None => false end.

(* jsondb.FindByRequestID: files in reverse name order = latest stamp first; the first whose last parseable
   line carries the request id.  Returned as the index into the list of runs. *)
Fixpoint pick_idx_from (rq : string) (rs : list run) (i : nat) (best : option (nat * Z)) : option (nat * Z) :=
  match rs with
  | [] => best
  | r :: t =>
      let best' := if run_has_req rq r
                   then match best with
                        | Some (_, z) => if (z <? r_stamp r)%Z then Some (i, r_stamp r) else best
                        | None => Some (i, r_stamp r)
                        end
                   else best in
      pick_idx_from rq t (S i) best'
  end.
Definition pick_idx (rq : string) (rs : list run) : option nat :=
  match pick_idx_from rq rs 0 None with Some (i, _) => Some i | None => None end.

Fixpoint upd_nth {A} (i : nat) (f : A -> A) (l : list A) : list A :=
  match l, i with
  | [], _ => []
  | x :: t, O => f x :: t
  | x :: t, S j => x :: upd_nth j f t
  end.

(* the LAST node carrying the step name (handler.go:812-817 keeps overwriting idxToUpdate) *)
Fixpoint last_node_idx_from (nm : string) (ns : list node) (i : nat) (acc : option nat) : option nat :=
  match ns with
  | [] => acc
  | n :: t => last_node_idx_from nm t (S i) (if String.eqb (n_name n) nm then Some i else acc)
  end.
Definition last_node_idx (nm : string) (ns : list node) : option nat := last_node_idx_from nm ns 0 None.

Definition set_node (i : nat) (to : nat) (s : status) : status :=
  mkStatus (s_req s) (s_st s) (upd_nth i (fun n => mkNode (n_name n) to) (s_nodes s)).

Definition append_line (s : status) (r : run) : run := mkRun (r_stamp r) (r_lines r ++ [s]).

(* client.escapeArg (client.go:374-388) on a valid UTF-8 string: CR and LF become the two characters \r, \n *)
Definition ch_cr : ascii := ascii_of_nat 13.
Definition ch_lf : ascii := ascii_of_nat 10.
Definition ch_nul : ascii := ascii_of_nat 0.
Definition ch_quote : ascii := ascii_of_nat 34.
Definition ch_bslash : ascii := ascii_of_nat 92.

Fixpoint escape_arg (s : string) : string :=
  match s with
  | EmptyString => EmptyString
  | String c r =>
      if Ascii.eqb c ch_cr then String ch_bslash (String "r"%char (escape_arg r))
      else if Ascii.eqb c ch_lf then String ch_bslash (String "n"%char (escape_arg r))
      else String c (escape_arg r)
  end.

Definition quote (s : string) : string := String ch_quote (s ++ String ch_quote EmptyString).

Fixpoint last_char (s : string) : option ascii :=
  match s with
  | EmptyString => None
  | String c EmptyString => Some c
  | String _ r => last_char r
  end.

Fixpoint drop_last (s : string) : string :=
  match s with
  | EmptyString => EmptyString
  | String c EmptyString => EmptyString
  | String c r => String c (drop_last r)
  end.

(* cmd/start.go removeQuotes *)
Definition remove_quotes (s : string) : string :=
  match s with
  | String c r =>
      if (1 <? String.length s)%nat && Ascii.eqb c ch_quote &&
         match last_char s with Some d => Ascii.eqb d ch_quote | None => false end
      then drop_last r else s
  | EmptyString => s
  end.

Fixpoint has_char (c : ascii) (s : string) : bool :=
  match s with EmptyString => false | String d r => Ascii.eqb c d || has_char c r end.

(* the class of parameter strings that reach the started process unchanged *)
Definition params_safe (p : string) : bool :=
  negb (has_char ch_cr p) && negb (has_char ch_lf p) && negb (has_char ch_nul p).

(* client.Start: argv of the spawned process; exec refuses an argument containing NUL (nothing is started) *)
Definition start_argv (params loc : string) : list string :=
  ["start"] ++ (if String.eqb params "" then [] else ["-p"; quote (escape_arg params)]) ++ [loc].
Definition spawnable (argv : list string) : bool := negb (existsb (has_char ch_nul) argv).
Definition spawn (argv : list string) : list event := if spawnable argv then [ESpawn argv] else [].

Section Api.
  Variable valid : bytes -> bool.      (* dag.LoadWithoutEval / LoadYAML accept the text *)
  Variable graph_ok : bytes -> bool.   (* scheduler.NewExecutionGraph accepts the loaded steps *)
  Variable meta_ok : bytes -> bool.
  Variable dir : string.
  Variable retry_ok : bool.            (* exit status of the spawned `retry` process (Retry waits for it) *)
  Variable tmpl : bytes.               (* the template text client.CreateDAG writes *)

  (* client.GetStatus(id) without error: the DAG's Location *)
  Definition view (w : world) (id : string) : option string :=
    let l := dag_loc dir id in
    match fs_get l (w_defs w) with
    | Some t => if valid t && graph_ok t then Some l else None
    | None => None
    end.

  (* client.GetLatestStatus: what the live agent says, else the last line of the latest run with running
     corrected to failed, else the default status (none) *)
  Definition latest_status (a : aworld) (loc : string) : nat :=
    let recorded := match latest_run (h_get loc (w_hist (a_w a))) with
                    | Some r => match last_line r with Some s => s_st (correct s) | None => 0 end
                    | None => 0
                    end in
    match live_get loc (a_live a) with
    | Some (_, st) => if Nat.eqb st st_timeout then recorded   (* currentStatus fails: fall back to the history *)
                      else st
    | None => recorded
    end.

  (* client.GetStatusByRequestID: the relabel applies unless a live agent with the same request id answers *)
  (* true = the relabel is NOT applied: a live agent answers with the same request id, or the request timed out
     (GetCurrentStatus returns nil then, client.go:190-195) *)
  Definition addressed_live (a : aworld) (loc rq : string) : bool :=
    match live_get loc (a_live a) with
    | Some (r, st) => Nat.eqb st st_timeout || String.eqb r rq
    | None => false
    end.

  (* client.UpdateStatus refuses when the addressed run is the live one and it is running, and when the DAG's
     process does not answer (sock.ErrTimeout, client.go:232-235) *)
  Definition update_refused (a : aworld) (loc rq : string) : bool :=
    match live_get loc (a_live a) with
    | Some (r, st) => Nat.eqb st st_timeout || (String.eqb r rq && Nat.eqb st st_running)
    | None => false
    end.

  Definition set_world (a : aworld) (w : world) : aworld := mkA w (a_live a).

  Definition mark (a : aworld) (loc : string) (b : body) (to : nat) : nat * aworld * list event :=
    if String.eqb (b_reqid b) "" then (400, a, [])
    else if String.eqb (b_step b) "" then (400, a, [])
    else if Nat.eqb (latest_status a loc) st_running then (400, a, [])
    else
      let rs := h_get loc (w_hist (a_w a)) in
      match pick_idx (b_reqid b) rs with
      | None => (500, a, [])
      | Some i =>
          match nth_error rs i with
          | None => (500, a, [])
          | Some r =>
              match last_line r with
              | None => (500, a, [])
              | Some s =>
                  let s1 := if addressed_live a loc (b_reqid b) then s else correct s in
                  match last_node_idx (b_step b) (s_nodes s1) with
                  | None => (400, a, [])
                  | Some j =>
                      let s2 := set_node j to s1 in
                      if update_refused a loc (s_req s2) then (500, a, [])
                      else (200, set_world a (set_hist (a_w a) (h_set loc (upd_nth i (append_line s2) rs) (w_hist (a_w a)))), [])
                  end
              end
          end
      end.

  Definition code_of (r : res) (fail : nat) : nat := match r with ROk => 200 | _ => fail end.

  Definition post (a : aworld) (id : string) (b : body) : nat * aworld * list event :=
    match b_action b with
    | None => (400, a, [])
    | Some act =>
        if String.eqb act "save" then
          let '(w', r, _) := step valid meta_ok dir (a_w a) (OSave id (b_value b)) in
          (code_of r 500, set_world a w', [])
        else
          match view (a_w a) id with
          | None => (400, a, [])
          | Some loc =>
              if String.eqb act "start" then
                if Nat.eqb (latest_status a loc) st_running then (400, a, [])
                else (200, a, spawn (start_argv (b_params b) loc))
              else if String.eqb act "suspend" then
                let '(w', _, _) := step valid meta_ok dir (a_w a) (OSuspend id (String.eqb (b_value b) "true")) in
                (200, set_world a w', [])
              else if String.eqb act "stop" then
                if negb (Nat.eqb (latest_status a loc) st_running) then (400, a, [])
                else match live_get loc (a_live a) with
                     | Some _ => (200, a, [EStop loc])
                     | None => (400, a, [])
                     end
              else if String.eqb act "retry" then
                if String.eqb (b_reqid b) "" then (400, a, [])
                else (if retry_ok then 200 else 500, a, spawn ["retry"; "--req=" ++ b_reqid b; loc])
              else if String.eqb act "mark-success" then mark a loc b st_success
              else if String.eqb act "mark-failed" then mark a loc b st_error
              else if String.eqb act "rename" then
                if String.eqb (b_value b) "" then (400, a, [])
                else let '(w', r, _) := step valid meta_ok dir (a_w a) (ORename id (b_value b)) in
                     (code_of r 500, set_world a w', [])
              else (400, a, [])
          end
    end.

  (* handler.createDAG: body (action, value), both may be absent *)
  Definition create (a : aworld) (action value : option string) : nat * aworld :=
    match action, value with
    | Some act, Some v =>
        if String.eqb act "new"
        then let '(w', r, _) := step valid meta_ok dir (a_w a) (OCreate v tmpl) in (code_of r 500, set_world a w')
        else (400, a)
    | _, _ => (400, a)
    end.

  (* handler.deleteDAG *)
  Definition delete (a : aworld) (id : string) : nat * aworld :=
    match view (a_w a) id with
    | None => (404, a)
    | Some loc => let '(w', r, _) := step valid meta_ok dir (a_w a) (ODelete id loc) in (code_of r 500, set_world a w')
    end.

  (* set-up steps of the harness: a live agent appears / disappears *)
  Definition set_live (a : aworld) (loc rq : string) (st : nat) : aworld :=
    mkA (a_w a) ((loc, (rq, st)) :: filter (fun kv => negb (String.eqb (fst kv) loc)) (a_live a)).
  Definition unset_live (a : aworld) (loc : string) : aworld :=
    mkA (a_w a) (filter (fun kv => negb (String.eqb (fst kv) loc)) (a_live a)).

End Api.

Definition empty_aworld : aworld := mkA empty_world [].
