(* Api - theorems for C20 (stdlib style): for ALL worlds, DAG ids and request bodies. *)
From Coq Require Import List String Ascii Bool ZArith Arith Lia.
Import ListNotations.
From BD.DagStore Require Import Model Proofs.
From BD.Api Require Import Model.
Open Scope string_scope.

(* ------------------------------------------------------------------------------------------- *)
(* lists                                                                                        *)
(* ------------------------------------------------------------------------------------------- *)

Lemma upd_nth_length : forall {A} (f : A -> A) l i, List.length (upd_nth i f l) = List.length l.
Proof. induction l; destruct i; simpl; auto. Qed.

Lemma upd_nth_same : forall {A} (f : A -> A) l i x, nth_error l i = Some x -> nth_error (upd_nth i f l) i = Some (f x).
Proof. induction l; destruct i; simpl; intros; try discriminate; auto. congruence. Qed.

Lemma upd_nth_other : forall {A} (f : A -> A) l i k, k <> i -> nth_error (upd_nth i f l) k = nth_error l k.
Proof.
  induction l; destruct i; destruct k; simpl; intros; auto; try congruence.
Qed.

Lemma pick_idx_from_spec : forall rq rs k best i z,
  pick_idx_from rq rs k best = Some (i, z) ->
  best = Some (i, z) \/ (exists r, (k <= i)%nat /\ nth_error rs (i - k) = Some r /\ run_has_req rq r = true).
Proof.
  induction rs as [|r t IH]; simpl; intros k best i z H; auto.
  apply IH in H. destruct H as [H|(r' & L & N & R)].
  - destruct (run_has_req rq r) eqn:E; auto.
    destruct best as [[bi bz]|].
    + destruct (bz <? r_stamp r)%Z; auto.
      injection H as <- <-. right. exists r. rewrite Nat.sub_diag. auto.
    + injection H as <- <-. right. exists r. rewrite Nat.sub_diag. auto.
  - right. exists r'. split; [lia|]. split; auto.
    replace (i - k)%nat with (S (i - S k)) by lia. auto.
Qed.

Lemma pick_idx_spec : forall rq rs i, pick_idx rq rs = Some i ->
  exists r, nth_error rs i = Some r /\ run_has_req rq r = true.
Proof.
  unfold pick_idx. intros rq rs i H.
  destruct (pick_idx_from rq rs 0 None) as [[j z]|] eqn:E; [|discriminate]. injection H as ->.
  apply pick_idx_from_spec in E. destruct E as [E|(r & _ & N & R)]; [discriminate|].
  rewrite Nat.sub_0_r in N. eauto.
Qed.

Lemma last_node_idx_from_spec : forall nm ns k acc j,
  last_node_idx_from nm ns k acc = Some j ->
  acc = Some j \/ (exists n, (k <= j)%nat /\ nth_error ns (j - k) = Some n /\ n_name n = nm).
Proof.
  induction ns as [|n t IH]; simpl; intros k acc j H; auto.
  apply IH in H. destruct H as [H|(n' & L & N & R)].
  - destruct (String.eqb (n_name n) nm) eqn:E; auto.
    injection H as <-. right. exists n. rewrite Nat.sub_diag. apply String.eqb_eq in E. auto.
  - right. exists n'. split; [lia|]. split; auto.
    replace (j - k)%nat with (S (j - S k)) by lia. auto.
Qed.

Lemma last_node_idx_spec : forall nm ns j, last_node_idx nm ns = Some j ->
  exists n, nth_error ns j = Some n /\ n_name n = nm.
Proof.
  unfold last_node_idx. intros nm ns j H. apply last_node_idx_from_spec in H.
  destruct H as [H|(n & _ & N & R)]; [discriminate|]. rewrite Nat.sub_0_r in N. eauto.
Qed.

(* ------------------------------------------------------------------------------------------- *)
(* strings: escapeArg / removeQuotes                                                            *)
(* ------------------------------------------------------------------------------------------- *)

Lemma last_char_app : forall s c, last_char (s ++ String c EmptyString) = Some c.
Proof.
  induction s as [|d r IH]; simpl; intros; auto.
  rewrite IH. destruct (r ++ String c EmptyString) eqn:E; auto.
  destruct r; discriminate.
Qed.

Lemma drop_last_app : forall s c, drop_last (s ++ String c EmptyString) = s.
Proof.
  induction s as [|d r IH]; simpl; intros; auto.
  rewrite IH. destruct (r ++ String c EmptyString) eqn:E; auto.
  destruct r; discriminate.
Qed.

Lemma length_app_one : forall s c, String.length (s ++ String c EmptyString) = S (String.length s).
Proof. induction s; simpl; intros; auto. Qed.

(* cmd/start.go removeQuotes undoes the quoting of client.Start, whatever is inside *)
Lemma remove_quotes_quote : forall s, remove_quotes (quote s) = s.
Proof.
  intros. unfold quote, remove_quotes.
  assert (L : (1 <? String.length (String ch_quote (s ++ String ch_quote EmptyString)))%nat = true).
  { simpl String.length. rewrite length_app_one. apply Nat.ltb_lt. lia. }
  rewrite L. clear L.
  assert (C : last_char (String ch_quote (s ++ String ch_quote EmptyString)) = Some ch_quote).
  { change (String ch_quote (s ++ String ch_quote EmptyString)) with ((String ch_quote s) ++ String ch_quote EmptyString).
    apply last_char_app. }
  rewrite C. simpl. apply drop_last_app.
Qed.

Lemma has_char_cons : forall c d r, has_char c (String d r) = Ascii.eqb c d || has_char c r.
Proof. reflexivity. Qed.

Lemma escape_cons : forall c r, escape_arg (String c r) =
  if Ascii.eqb c ch_cr then String ch_bslash (String "r"%char (escape_arg r))
  else if Ascii.eqb c ch_lf then String ch_bslash (String "n"%char (escape_arg r))
  else String c (escape_arg r).
Proof. reflexivity. Qed.

Lemma escape_safe : forall p, has_char ch_cr p = false -> has_char ch_lf p = false -> escape_arg p = p.
Proof.
  induction p as [|c r IH]; intros H H0; [reflexivity|].
  rewrite has_char_cons in H, H0. apply orb_false_iff in H. apply orb_false_iff in H0. destruct H as [H1 H2], H0 as [H3 H4].
  rewrite escape_cons. rewrite (Ascii.eqb_sym c ch_cr), H1, (Ascii.eqb_sym c ch_lf), H3. now rewrite IH.
Qed.

Lemma escape_len : forall p, (String.length p <= String.length (escape_arg p))%nat.
Proof.
  induction p as [|c r IH]; [simpl; auto|]. rewrite escape_cons.
  destruct (Ascii.eqb c ch_cr); [simpl; lia|]. destruct (Ascii.eqb c ch_lf); simpl; lia.
Qed.

Lemma escape_grows : forall p, has_char ch_cr p || has_char ch_lf p = true ->
  (String.length p < String.length (escape_arg p))%nat.
Proof.
  induction p as [|c r IH]; intros H; [discriminate|].
  pose proof (escape_len r). rewrite escape_cons. rewrite !has_char_cons in H.
  destruct (Ascii.eqb c ch_cr) eqn:E1; [simpl; lia|].
  destruct (Ascii.eqb c ch_lf) eqn:E2; [simpl; lia|].
  rewrite (Ascii.eqb_sym ch_cr c), E1, (Ascii.eqb_sym ch_lf c), E2 in H. simpl in H.
  simpl. apply IH in H. lia.
Qed.

Lemma has_char_app : forall c s t, has_char c (s ++ t) = has_char c s || has_char c t.
Proof. induction s; simpl; intros; auto. rewrite IHs. now rewrite orb_assoc. Qed.

(* ------------------------------------------------------------------------------------------- *)

Section Proofs.
  Variable valid graph_ok meta_ok : bytes -> bool.
  Variable dir : string.
  Variable retry_ok : bool.

  Notation post := (post valid graph_ok meta_ok dir retry_ok).
  Notation view := (view valid graph_ok dir).
  Notation mark := (mark).

  Definition is_mark (act : string) : Prop := act = "mark-success" \/ act = "mark-failed".
  Definition mark_target (act : string) : nat := if String.eqb act "mark-success" then st_success else st_error.

  (* the shape of post per action (closed-string comparisons reduce by computation) *)
  Lemma post_start : forall a id b, b_action b = Some "start" ->
    post a id b = match view (a_w a) id with
                  | None => (400, a, [])
                  | Some loc => if Nat.eqb (latest_status a loc) st_running then (400, a, [])
                                else (200, a, spawn (start_argv (b_params b) loc))
                  end.
  Proof. intros. unfold Model.post. rewrite H. reflexivity. Qed.

  Lemma post_stop : forall a id b, b_action b = Some "stop" ->
    post a id b = match view (a_w a) id with
                  | None => (400, a, [])
                  | Some loc => if negb (Nat.eqb (latest_status a loc) st_running) then (400, a, [])
                                else match live_get loc (a_live a) with
                                     | Some _ => (200, a, [EStop loc])
                                     | None => (400, a, [])
                                     end
                  end.
  Proof. intros. unfold Model.post. rewrite H. reflexivity. Qed.

  Lemma post_mark : forall a id b act, b_action b = Some act -> is_mark act ->
    post a id b = match view (a_w a) id with
                  | None => (400, a, [])
                  | Some loc => mark a loc b (mark_target act)
                  end.
  Proof. intros a id b act H [-> | ->]; unfold Model.post; rewrite H; reflexivity. Qed.

  Lemma post_retry : forall a id b, b_action b = Some "retry" ->
    post a id b = match view (a_w a) id with
                  | None => (400, a, [])
                  | Some loc => if String.eqb (b_reqid b) "" then (400, a, [])
                                else (if retry_ok then 200 else 500, a, spawn ["retry"; "--req=" ++ b_reqid b; loc])
                  end.
  Proof. intros. unfold Model.post. rewrite H. reflexivity. Qed.

  (* ---- the guards ---- *)

  (* C20_start_guard: start while the latest status is running: 400, world unchanged, nothing spawned *)
  Theorem start_guard : forall a id b loc,
    b_action b = Some "start" -> view (a_w a) id = Some loc -> latest_status a loc = st_running ->
    post a id b = (400, a, []).
  Proof. intros. rewrite post_start by auto. rewrite H0, H1. reflexivity. Qed.

  (* ... and otherwise it is accepted: world unchanged, one process with the start command line *)
  Theorem start_accepted : forall a id b loc,
    b_action b = Some "start" -> view (a_w a) id = Some loc -> latest_status a loc <> st_running ->
    post a id b = (200, a, spawn (start_argv (b_params b) loc)).
  Proof.
    intros. rewrite post_start by auto. rewrite H0.
    destruct (Nat.eqb (latest_status a loc) st_running) eqn:E; auto. apply Nat.eqb_eq in E. congruence.
  Qed.

  (* C20_stop_guard: stop while the latest status is not running: 400, unchanged, no stop request *)
  Theorem stop_guard : forall a id b loc,
    b_action b = Some "stop" -> view (a_w a) id = Some loc -> latest_status a loc <> st_running ->
    post a id b = (400, a, []).
  Proof.
    intros. rewrite post_stop by auto. rewrite H0.
    destruct (Nat.eqb (latest_status a loc) st_running) eqn:E; auto. apply Nat.eqb_eq in E. congruence.
  Qed.

  (* a stop never changes the world; it is delivered exactly when the DAG is running *)
  Theorem stop_accepted : forall a id b loc,
    b_action b = Some "stop" -> view (a_w a) id = Some loc -> latest_status a loc = st_running ->
    live_get loc (a_live a) <> None -> post a id b = (200, a, [EStop loc]).
  Proof.
    intros. rewrite post_stop by auto. rewrite H0, H1. simpl.
    destruct (live_get loc (a_live a)); congruence.
  Qed.

  (* C20_mark_guard: a status edit while the latest status is running: 400, unchanged *)
  Theorem mark_guard : forall a id b act loc,
    b_action b = Some act -> is_mark act -> view (a_w a) id = Some loc -> latest_status a loc = st_running ->
    fst (fst (post a id b)) = 400 /\ snd (fst (post a id b)) = a /\ snd (post a id b) = [].
  Proof.
    intros. rewrite (post_mark _ _ _ _ H H0). rewrite H1. unfold Model.mark.
    destruct (String.eqb (b_reqid b) ""); auto. destruct (String.eqb (b_step b) ""); auto.
    rewrite H2. simpl. auto.
  Qed.

  (* ---- the edit itself ---- *)


  Lemma correct_fields : forall s, s_req (correct s) = s_req s /\ s_nodes (correct s) = s_nodes s /\
    s_st (correct s) = if Nat.eqb (s_st s) st_running then st_error else s_st s.
  Proof. intros. unfold correct. destruct (Nat.eqb (s_st s) st_running); simpl; auto. Qed.

  Lemma run_has_req_last : forall rq r, run_has_req rq r = true -> exists s, last_line r = Some s /\ s_req s = rq.
  Proof.
    unfold run_has_req. intros. destruct (last_line r) as [s|]; [|discriminate].
    apply String.eqb_eq in H. eauto.
  Qed.

  (* every outcome of `mark`: refused (world unchanged, nothing started) or the exact edit *)
  Lemma mark_cases : forall a loc b to c a' ev,
    mark a loc b to = (c, a', ev) ->
    (c <> 200 /\ a' = a /\ ev = []) \/
    (c = 200 /\ ev = [] /\ b_reqid b <> "" /\ b_step b <> "" /\ latest_status a loc <> st_running /\
     (exists q, update_refused a loc q = false) /\
     exists i r s j,
       let rs := h_get loc (w_hist (a_w a)) in
       let s1 := if addressed_live a loc (b_reqid b) then s else correct s in
       pick_idx (b_reqid b) rs = Some i /\ nth_error rs i = Some r /\ last_line r = Some s /\
       last_node_idx (b_step b) (s_nodes s1) = Some j /\
       a' = set_world a (set_hist (a_w a) (h_set loc (upd_nth i (append_line (set_node j to s1)) rs) (w_hist (a_w a))))).
  Proof.
    unfold Model.mark. intros a loc b to c a' ev H.
    destruct (String.eqb (b_reqid b) "") eqn:E1; [injection H as <- <- <-; left; repeat split; auto; discriminate|].
    destruct (String.eqb (b_step b) "") eqn:E2; [injection H as <- <- <-; left; repeat split; auto; discriminate|].
    destruct (Nat.eqb (latest_status a loc) st_running) eqn:E3; [injection H as <- <- <-; left; repeat split; auto; discriminate|].
    destruct (pick_idx (b_reqid b) (h_get loc (w_hist (a_w a)))) as [i|] eqn:P; [|injection H as <- <- <-; left; repeat split; auto; discriminate].
    destruct (nth_error (h_get loc (w_hist (a_w a))) i) as [r|] eqn:N; [|injection H as <- <- <-; left; repeat split; auto; discriminate].
    destruct (last_line r) as [s|] eqn:LL; [|injection H as <- <- <-; left; repeat split; auto; discriminate].
    destruct (last_node_idx (b_step b) (s_nodes (if addressed_live a loc (b_reqid b) then s else correct s))) as [j|] eqn:LN;
      [|injection H as <- <- <-; left; repeat split; auto; discriminate].
    destruct (update_refused a loc _) eqn:U; [injection H as <- <- <-; left; repeat split; auto; discriminate|].
    injection H as <- <- <-. right.
    apply String.eqb_neq in E1. apply String.eqb_neq in E2. apply Nat.eqb_neq in E3.
    repeat split; auto; [eexists; exact U|]. exists i, r, s, j. simpl. repeat split; auto.
  Qed.

  (* C20_mark_unresponsive: the DAG's process owns the control socket but does not answer (every request times
     out).  The DAG-level guard then looks at the history (and may see "failed"), yet a status edit is refused by
     UpdateStatus: not 200, world unchanged, nothing started or stopped. *)
  Theorem mark_unresponsive_refused : forall a id b act loc rq,
    b_action b = Some act -> is_mark act -> view (a_w a) id = Some loc ->
    live_get loc (a_live a) = Some (rq, st_timeout) ->
    fst (fst (post a id b)) <> 200 /\ snd (fst (post a id b)) = a /\ snd (post a id b) = [].
  Proof.
    intros a id b act loc rq HA HM HV HL.
    destruct (post a id b) as [[c a'] ev] eqn:HP. simpl.
    rewrite (post_mark _ _ _ _ HA HM) in HP. rewrite HV in HP.
    apply mark_cases in HP. destruct HP as [(C & -> & ->)|(_ & _ & _ & _ & _ & (q & U) & _)]; auto.
    exfalso. unfold update_refused in U. rewrite HL in U. discriminate.
  Qed.

  (* ... while start and stop then go by the recorded history (relabelled failed): a stop is refused *)
  Theorem stop_unresponsive_refused : forall a id b loc rq,
    b_action b = Some "stop" -> view (a_w a) id = Some loc ->
    live_get loc (a_live a) = Some (rq, st_timeout) -> post a id b = (400, a, []).
  Proof.
    intros a id b loc rq HA HV HL. apply stop_guard with (loc := loc); auto.
    unfold latest_status. rewrite HL. simpl.
    destruct (latest_run (h_get loc (w_hist (a_w a)))) as [r|]; [|discriminate].
    destruct (last_line r) as [s|]; [|discriminate].
    unfold correct. destruct (Nat.eqb (s_st s) st_running) eqn:E; simpl; [discriminate|].
    apply Nat.eqb_neq in E. exact E.
  Qed.

  (* C20_mark_exact: an accepted status edit appends to the addressed run - the run of this DAG whose last
     status carries the request id - ONE status that equals that last status except for the status of the
     named step (and the top-level running -> failed relabel when that run is not the live one); every other run,
     every other DAG's history, every definition, flag and live agent is unchanged, and nothing is started. *)
  Theorem mark_exact : forall a id b act loc a' ev,
    b_action b = Some act -> is_mark act -> view (a_w a) id = Some loc ->
    post a id b = (200, a', ev) ->
    let rs := h_get loc (w_hist (a_w a)) in
    let rs' := h_get loc (w_hist (a_w a')) in
    ev = [] /\ a_live a' = a_live a /\ w_defs (a_w a') = w_defs (a_w a) /\ w_flags (a_w a') = w_flags (a_w a) /\
    (forall l, l <> loc -> h_get l (w_hist (a_w a')) = h_get l (w_hist (a_w a))) /\
    latest_status a loc <> st_running /\
    exists i r s j n s',
      nth_error rs i = Some r /\ last_line r = Some s /\ s_req s = b_reqid b /\
      nth_error (s_nodes s) j = Some n /\ n_name n = b_step b /\
      List.length rs' = List.length rs /\
      (forall k, k <> i -> nth_error rs' k = nth_error rs k) /\
      nth_error rs' i = Some (mkRun (r_stamp r) (r_lines r ++ [s'])) /\
      s_req s' = s_req s /\
      s_st s' = (if Nat.eqb (s_st s) st_running && negb (addressed_live a loc (b_reqid b)) then st_error else s_st s) /\
      List.length (s_nodes s') = List.length (s_nodes s) /\
      (forall k, k <> j -> nth_error (s_nodes s') k = nth_error (s_nodes s) k) /\
      nth_error (s_nodes s') j = Some (mkNode (b_step b) (mark_target act)).
  Proof.
    intros a id b act loc a' ev HA HM HV HP rs rs'.
    rewrite (post_mark _ _ _ _ HA HM) in HP. rewrite HV in HP.
    apply mark_cases in HP. destruct HP as [(C & _)|(_ & -> & R1 & R2 & R3 & _ & i & r & s & j & P & N & LL & LN & ->)]; [congruence|].
    subst rs rs'. simpl. rewrite h_get_set_eq.
    repeat split; auto.
    - intros. now apply h_get_set_neq.
    - set (s1 := if addressed_live a loc (b_reqid b) then s else correct s) in *.
      destruct (pick_idx_spec _ _ _ P) as (r0 & N0 & HR). assert (r0 = r) by congruence. subst r0.
      destruct (run_has_req_last _ _ HR) as (s0 & LL0 & RQ). assert (s0 = s) by congruence. subst s0.
      destruct (last_node_idx_spec _ _ _ LN) as (n & NN & NM).
      assert (NS : s_nodes s1 = s_nodes s).
      { subst s1. destruct (addressed_live a loc (b_reqid b)); auto. apply correct_fields. }
      rewrite NS in NN.
      exists i, r, s, j, n, (set_node j (mark_target act) s1).
      repeat split; auto.
      + apply upd_nth_length.
      + intros. now apply upd_nth_other.
      + erewrite upd_nth_same by eauto. reflexivity.
      + simpl. subst s1. destruct (addressed_live a loc (b_reqid b)); auto. apply correct_fields.
      + simpl. subst s1. destruct (addressed_live a loc (b_reqid b)); simpl.
        * now rewrite andb_false_r.
        * rewrite andb_true_r. apply correct_fields.
      + simpl. rewrite upd_nth_length. now rewrite NS.
      + intros. simpl. rewrite upd_nth_other by auto. now rewrite NS.
      + simpl. rewrite NS. erewrite upd_nth_same by eauto. now rewrite NM.
  Qed.

  (* ---- parameters of a start ---- *)

  Lemma escape_nul : forall p, has_char ch_nul (escape_arg p) = has_char ch_nul p.
  Proof.
    induction p as [|c r IH]; [reflexivity|]. rewrite escape_cons, has_char_cons.
    destruct (Ascii.eqb c ch_cr) eqn:E1.
    - apply Ascii.eqb_eq in E1. subst c. rewrite !has_char_cons, IH. reflexivity.
    - destruct (Ascii.eqb c ch_lf) eqn:E2.
      + apply Ascii.eqb_eq in E2. subst c. rewrite !has_char_cons, IH. reflexivity.
      + rewrite has_char_cons, IH. reflexivity.
  Qed.

  Lemma nul_in_quote : forall s, has_char ch_nul (quote s) = has_char ch_nul s.
  Proof.
    intros. unfold quote. rewrite has_char_cons, has_char_app, has_char_cons. simpl (has_char ch_nul EmptyString).
    change (Ascii.eqb ch_nul ch_quote) with false. simpl. now rewrite !orb_false_r.
  Qed.

  Lemma spawnable_start : forall p loc, has_char ch_nul p = false -> has_char ch_nul loc = false ->
    spawnable (start_argv p loc) = true.
  Proof.
    intros. unfold spawnable, start_argv. apply negb_true_iff.
    destruct (String.eqb p ""); cbn [app existsb]; rewrite ?nul_in_quote, ?escape_nul, ?H, ?H0; reflexivity.
  Qed.

  (* C20_start_params: for parameters free of CR, LF and NUL an accepted start runs exactly
     `start -p "<params>" <location>` (or `start <location>` for empty parameters), and removeQuotes of
     cmd/start.go gives back exactly the parameters. *)
  Theorem start_params : forall a id b loc,
    b_action b = Some "start" -> view (a_w a) id = Some loc -> latest_status a loc <> st_running ->
    params_safe (b_params b) = true -> has_char ch_nul loc = false ->
    (b_params b = "" /\ post a id b = (200, a, [ESpawn ["start"; loc]])) \/
    (b_params b <> "" /\ exists q, post a id b = (200, a, [ESpawn ["start"; "-p"; q; loc]]) /\ remove_quotes q = b_params b).
  Proof.
    intros a id b loc HA HV HL HS HN. rewrite (start_accepted _ _ _ _ HA HV HL).
    unfold params_safe in HS. apply andb_true_iff in HS. destruct HS as [HS N0]. apply andb_true_iff in HS. destruct HS as [N1 N2].
    apply negb_true_iff in N0, N1, N2.
    unfold spawn. rewrite spawnable_start by auto. unfold start_argv.
    destruct (String.eqb (b_params b) "") eqn:E.
    - apply String.eqb_eq in E. left. auto.
    - apply String.eqb_neq in E. right. split; auto.
      exists (quote (escape_arg (b_params b))). split; auto.
      rewrite remove_quotes_quote. now apply escape_safe.
  Qed.

  (* the class is exact: with a CR or LF the process receives a different text (F20a), with a NUL nothing starts *)
  Theorem start_params_crlf_rewritten : forall p,
    has_char ch_cr p || has_char ch_lf p = true -> remove_quotes (quote (escape_arg p)) <> p.
  Proof.
    intros p H E. rewrite remove_quotes_quote in E. apply escape_grows in H. rewrite E in H. lia.
  Qed.

  Theorem start_params_nul_nothing : forall p loc, has_char ch_nul p = true -> spawn (start_argv p loc) = [].
  Proof.
    intros. unfold spawn, spawnable, start_argv.
    destruct (String.eqb p "") eqn:E; [apply String.eqb_eq in E; subst; discriminate|].
    cbn [app existsb]. rewrite nul_in_quote, escape_nul, H. reflexivity.
  Qed.

  (* ---- refused / malformed actions change nothing ---- *)

  Definition known_action (act : string) : bool :=
    existsb (String.eqb act) ["start"; "suspend"; "stop"; "retry"; "mark-success"; "mark-failed"; "save"; "rename"].

  Hypothesis dir_abs : is_abs dir = true.

  (* the general statement (full since fe0ec16): whatever the world, the DAG id and the body - if the answer is
     not 200 the world is unchanged and nothing was started or stopped (a retry whose process fails has been
     started: 500).  Standing assumption for rename: both ids are single path elements. *)
  Theorem refused_nothing : forall a id b c a' ev,
    post a id b = (c, a', ev) -> c <> 200 ->
    (b_action b = Some "rename" -> has_slash id = false /\ has_slash (b_value b) = false) ->
    a' = a /\ (ev = [] \/ (b_action b = Some "retry" /\ b_reqid b <> "" /\ retry_ok = false)).
  Proof.
    intros a id b c a' ev HP HC HR. unfold Model.post in HP.
    destruct (b_action b) as [act|]; [|injection HP as <- <- <-; auto].
    destruct (String.eqb act "save") eqn:A0.
    { destruct (save_valid valid meta_ok dir (a_w a) id (b_value b)) as ([(_ & _ & R & _)|(W & _)] & _).
      - unfold Model.step_res in R.
        destruct (step valid meta_ok dir (a_w a) (OSave id (b_value b))) as [[w' r] o]. simpl in R. subst r.
        injection HP as <- <- <-. simpl in HC. congruence.
      - unfold Model.step_w in W.
        destruct (step valid meta_ok dir (a_w a) (OSave id (b_value b))) as [[w' r] o]. simpl in W. subst w'.
        injection HP as <- <- <-. split; auto. unfold set_world. now destruct a. }
    destruct (view (a_w a) id) as [loc|]; [|injection HP as <- <- <-; auto].
    destruct (String.eqb act "start").
    { destruct (Nat.eqb (latest_status a loc) st_running); injection HP as <- <- <-; auto. congruence. }
    destruct (String.eqb act "suspend").
    { destruct (step valid meta_ok dir (a_w a) (OSuspend id (String.eqb (b_value b) "true"))) as [[w' r] o].
      injection HP as <- <- <-. congruence. }
    destruct (String.eqb act "stop").
    { destruct (negb (Nat.eqb (latest_status a loc) st_running)); [injection HP as <- <- <-; auto|].
      destruct (live_get loc (a_live a)); injection HP as <- <- <-; auto. congruence. }
    destruct (String.eqb act "retry") eqn:A4.
    { apply String.eqb_eq in A4. subst act.
      destruct (String.eqb (b_reqid b) "") eqn:E; [injection HP as <- <- <-; auto|].
      apply String.eqb_neq in E. destruct retry_ok; injection HP as <- <- <-; [congruence|]. split; auto. }
    destruct (String.eqb act "mark-success").
    { apply mark_cases in HP. destruct HP as [(_ & -> & ->)|(C & _)]; auto. congruence. }
    destruct (String.eqb act "mark-failed").
    { apply mark_cases in HP. destruct HP as [(_ & -> & ->)|(C & _)]; auto. congruence. }
    destruct (String.eqb act "rename") eqn:A7.
    { apply String.eqb_eq in A7. subst act. destruct (HR eq_refl) as [O1 O2].
      destruct (String.eqb (b_value b) ""); [injection HP as <- <- <-; auto|].
      pose proof (rename_failed_unchanged valid meta_ok dir dir_abs (a_w a) id (b_value b) O1 O2) as RF.
      unfold Model.step_res, Model.step_w in RF.
      destruct (step valid meta_ok dir (a_w a) (ORename id (b_value b))) as [[w' r] o]. simpl in RF.
      injection HP as <- <- <-. destruct r; simpl in HC; try congruence;
        (rewrite RF by discriminate; split; auto; unfold set_world; now destruct a). }
    injection HP as <- <- <-. auto.
  Qed.

  (* which requests are refused: the malformed ones of the property *)
  Theorem refused_missing_action : forall a id b, b_action b = None -> post a id b = (400, a, []).
  Proof. intros. unfold Model.post. now rewrite H. Qed.

  Theorem refused_unknown_action : forall a id b act,
    b_action b = Some act -> known_action act = false -> post a id b = (400, a, []).
  Proof.
    intros a id b act H K. unfold Model.post. rewrite H.
    destruct (String.eqb act "save") eqn:E0; [apply String.eqb_eq in E0; subst act; discriminate K|].
    destruct (view (a_w a) id); auto.
    repeat match goal with
           | |- context [String.eqb act ?s] =>
               let E := fresh "E" in
               destruct (String.eqb act s) eqn:E; [apply String.eqb_eq in E; subst act; discriminate K|]
           end.
    reflexivity.
  Qed.

  Theorem refused_unknown_dag : forall a id b act,
    b_action b = Some act -> act <> "save" -> view (a_w a) id = None -> post a id b = (400, a, []).
  Proof.
    intros a id b act H N V. unfold Model.post. rewrite H. apply String.eqb_neq in N. now rewrite N, V.
  Qed.

  Theorem refused_mark_malformed : forall a id b act loc,
    b_action b = Some act -> is_mark act -> view (a_w a) id = Some loc ->
    (b_reqid b = "" \/ b_step b = "") -> post a id b = (400, a, []).
  Proof.
    intros a id b act loc H M V D. rewrite (post_mark _ _ _ _ H M). rewrite V. unfold Model.mark.
    destruct D as [-> | ->]; simpl; auto. destruct (String.eqb (b_reqid b) ""); auto.
  Qed.

  (* unknown request id: no run of THIS DAG has it (another DAG's request id is unknown here) *)
  Theorem refused_mark_unknown_request : forall a id b act loc,
    b_action b = Some act -> is_mark act -> view (a_w a) id = Some loc ->
    pick_idx (b_reqid b) (h_get loc (w_hist (a_w a))) = None ->
    snd (fst (post a id b)) = a /\ snd (post a id b) = [] /\ fst (fst (post a id b)) <> 200.
  Proof.
    intros a id b act loc H M V P. rewrite (post_mark _ _ _ _ H M). rewrite V. unfold Model.mark. rewrite P.
    destruct (String.eqb (b_reqid b) ""); simpl; [repeat split; auto; discriminate|].
    destruct (String.eqb (b_step b) ""); simpl; [repeat split; auto; discriminate|].
    destruct (Nat.eqb (latest_status a loc) st_running); simpl; repeat split; auto; discriminate.
  Qed.

  Theorem refused_mark_unknown_step : forall a id b act loc,
    b_action b = Some act -> is_mark act -> view (a_w a) id = Some loc ->
    (forall r s, In r (h_get loc (w_hist (a_w a))) -> last_line r = Some s ->
                 forall n, In n (s_nodes s) -> n_name n <> b_step b) ->
    snd (fst (post a id b)) = a /\ snd (post a id b) = [] /\ fst (fst (post a id b)) <> 200.
  Proof.
    intros a id b act loc H M V NS.
    destruct (post a id b) as [[c a'] ev] eqn:HP. simpl.
    rewrite (post_mark _ _ _ _ H M) in HP. rewrite V in HP.
    apply mark_cases in HP. destruct HP as [(C & -> & ->)|(_ & _ & _ & _ & _ & _ & i & r & s & j & _ & N & LL & LN & _)]; auto.
    exfalso. apply last_node_idx_spec in LN. destruct LN as (n & NN & NM).
    assert (NS' : s_nodes (if addressed_live a loc (b_reqid b) then s else correct s) = s_nodes s).
    { destruct (addressed_live a loc (b_reqid b)); auto. apply correct_fields. }
    rewrite NS' in NN. apply nth_error_In in N. apply nth_error_In in NN. exact (NS r s N LL n NN NM).
  Qed.

  Theorem refused_retry_missing_request : forall a id b,
    b_action b = Some "retry" -> b_reqid b = "" -> post a id b = (400, a, []).
  Proof. intros. rewrite post_retry by auto. rewrite H0. destruct (view (a_w a) id); auto. Qed.

  Theorem refused_rename_missing_name : forall a id b,
    b_action b = Some "rename" -> b_value b = "" -> post a id b = (400, a, []).
  Proof. intros. unfold Model.post. rewrite H, H0. simpl. destruct (view (a_w a) id); auto. Qed.

  Theorem refused_save_invalid : forall a id b,
    b_action b = Some "save" -> valid (b_value b) = false -> post a id b = (500, a, []).
  Proof.
    intros. unfold Model.post. rewrite H. simpl String.eqb. cbv iota.
    rewrite (save_invalid valid meta_ok dir (a_w a) id (b_value b) H0). simpl. unfold set_world. now destruct a.
  Qed.

  (* create through the API on a name that is taken: refused, unchanged *)
  Theorem create_refused_unchanged : forall tmpl a v,
    fs_get (file_loc dir v) (w_defs (a_w a)) <> None ->
    create valid meta_ok dir tmpl a (Some "new") (Some v) = (500, a).
  Proof.
    intros. unfold create. simpl String.eqb. cbv iota.
    rewrite (create_fresh valid meta_ok dir (a_w a) v tmpl H). simpl. unfold set_world. now destruct a.
  Qed.

End Proofs.

(* ------------------------------------------------------------------------------------------- *)
(* F20a witness and examples                                                                    *)
(* ------------------------------------------------------------------------------------------- *)

Definition lf : string := String ch_lf EmptyString.

(* C20_start_params without the premise is FALSE (F20a): a line feed arrives as backslash-n *)
Theorem start_params_refuted :
  exists p, params_safe p = false /\ remove_quotes (quote (escape_arg p)) <> p /\
            remove_quotes (quote (escape_arg p)) = "l1" ++ String ch_bslash "nl2".
Proof. exists ("l1" ++ lf ++ "l2"). vm_compute. repeat split; discriminate. Qed.

Definition ok_all (_ : bytes) : bool := true.

(* DAG a: an older failed run ro, a current run rc; ab: a neighbour with one run *)
Definition hist_ex (cur : list status) : hist :=
  [("/d/a.yaml", [mkRun 1000 [mkStatus "ro" 2 [mkNode "s1" 2; mkNode "s2" 0]]; mkRun 2000 cur]);
   ("/d/ab.yaml", [mkRun 5000 [mkStatus "rn" 2 [mkNode "s1" 4; mkNode "s2" 2]]])].
Definition world_ex (cur : list status) : world :=
  mkW [("/d/a.yaml", "T1"); ("/d/ab.yaml", "T1")] (hist_ex cur) ["ab.suspend"].
Definition a_running : aworld :=
  mkA (world_ex [mkStatus "rc" 1 [mkNode "s1" 1; mkNode "s2" 0]]) [("/d/a.yaml", ("rc", 1))].
Definition a_crashed : aworld :=
  mkA (world_ex [mkStatus "rc" 1 [mkNode "s1" 4; mkNode "s2" 1]]) [].
Definition a_failed : aworld :=
  mkA (world_ex [mkStatus "rc" 1 [mkNode "s1" 1; mkNode "s2" 0]; mkStatus "rc" 2 [mkNode "s1" 4; mkNode "s2" 2]]) [].
Definition a_unresponsive : aworld :=
  mkA (world_ex [mkStatus "rc" 1 [mkNode "s1" 1; mkNode "s2" 0]]) [("/d/a.yaml", ("", st_timeout))].
Definition bd (act rq stp p : string) : body := mkBody (Some act) "" rq stp p.

Example ex_unresponsive :
  latest_status a_unresponsive "/d/a.yaml" = 2%nat /\
  post ok_all ok_all ok_all "/d" true a_unresponsive "a" (bd "mark-success" "rc" "s1" "") = (500, a_unresponsive, []) /\
  post ok_all ok_all ok_all "/d" true a_unresponsive "a" (bd "mark-failed" "ro" "s2" "") = (500, a_unresponsive, []) /\
  post ok_all ok_all ok_all "/d" true a_unresponsive "a" (bd "stop" "" "" "") = (400, a_unresponsive, []).
Proof. vm_compute. repeat split. Qed.

Example ex_guards :
  post ok_all ok_all ok_all "/d" true a_running "a" (bd "start" "" "" "p") = (400, a_running, []) /\
  post ok_all ok_all ok_all "/d" true a_failed "a" (bd "stop" "" "" "") = (400, a_failed, []) /\
  post ok_all ok_all ok_all "/d" true a_running "a" (bd "mark-success" "rc" "s1" "") = (400, a_running, []) /\
  post ok_all ok_all ok_all "/d" true a_running "a" (bd "stop" "" "" "") = (200, a_running, [EStop "/d/a.yaml"]) /\
  view ok_all ok_all "/d" (a_w a_running) "a" = Some "/d/a.yaml" /\ latest_status a_running "/d/a.yaml" = st_running /\
  latest_status a_failed "/d/a.yaml" = 2%nat /\ latest_status a_crashed "/d/a.yaml" = 2%nat.
Proof. vm_compute. repeat split. Qed.

Example ex_mark_exact :
  post ok_all ok_all ok_all "/d" true a_crashed "a" (bd "mark-success" "rc" "s2" "") =
    (200, mkA (world_ex [mkStatus "rc" 1 [mkNode "s1" 4; mkNode "s2" 1]; mkStatus "rc" 2 [mkNode "s1" 4; mkNode "s2" 4]]) [], []) /\
  post ok_all ok_all ok_all "/d" true a_failed "a" (bd "mark-failed" "ro" "s2" "") =
    (200, mkA (mkW [("/d/a.yaml", "T1"); ("/d/ab.yaml", "T1")]
               [("/d/a.yaml", [mkRun 1000 [mkStatus "ro" 2 [mkNode "s1" 2; mkNode "s2" 0]; mkStatus "ro" 2 [mkNode "s1" 2; mkNode "s2" 2]];
                               mkRun 2000 [mkStatus "rc" 1 [mkNode "s1" 1; mkNode "s2" 0]; mkStatus "rc" 2 [mkNode "s1" 4; mkNode "s2" 2]]]);
                ("/d/ab.yaml", [mkRun 5000 [mkStatus "rn" 2 [mkNode "s1" 4; mkNode "s2" 2]]])] ["ab.suspend"]) [], []).
Proof. vm_compute. split; reflexivity. Qed.

Example ex_start_params :
  post ok_all ok_all ok_all "/d" true a_failed "a" (bd "start" "" "" "x=1 y") =
    (200, a_failed, [ESpawn ["start"; "-p"; quote "x=1 y"; "/d/a.yaml"]]) /\
  params_safe "x=1 y" = true /\ remove_quotes (quote "x=1 y") = "x=1 y".
Proof. vm_compute. repeat split. Qed.

Example ex_refused :
  post ok_all ok_all ok_all "/d" true a_failed "a" (mkBody None "" "rc" "s1" "") = (400, a_failed, []) /\
  post ok_all ok_all ok_all "/d" true a_failed "a" (bd "frobnicate" "rc" "s1" "") = (400, a_failed, []) /\
  post ok_all ok_all ok_all "/d" true a_failed "a" (bd "mark-success" "" "s1" "") = (400, a_failed, []) /\
  post ok_all ok_all ok_all "/d" true a_failed "a" (bd "mark-success" "rc" "" "") = (400, a_failed, []) /\
  post ok_all ok_all ok_all "/d" true a_failed "a" (bd "mark-success" "rc" "zz" "") = (400, a_failed, []) /\
  post ok_all ok_all ok_all "/d" true a_failed "a" (bd "mark-success" "rn" "s1" "") = (500, a_failed, []) /\
  post ok_all ok_all ok_all "/d" true a_failed "nope" (bd "start" "" "" "") = (400, a_failed, []).
Proof. vm_compute. repeat split. Qed.
