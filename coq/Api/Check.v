(* Entry points of the C20 correspondence: a case is a sequence of set-up steps (definitions, recorded runs,
   live agents, exit status of the stub) and API calls, each with what the implementation showed afterwards
   (response code, spawned argv lists, stop requests, every definition / history file / flag).  `mismatches`
   replays it on the model: (case, step, code) with code 1 response, 2 spawns, 3 definitions, 4 history,
   5 flags, 7 stop requests. *)
From Coq Require Import List String Ascii Bool ZArith Arith.
Import ListNotations.
From BD.DagStore Require Import Model Check.
From BD.Api Require Import Model.

Inductive astep :=
| SMk (name : string) (text : bytes)
| SRec (loc : string) (stamp : Z) (lines : list status) (closed : bool)
| SLive (loc rq : string) (st : nat)
| SUnlive (loc : string)
| SExit (ok : bool)
| SPost (id : string) (b : body)
| SCreate (action value : option string)
| SDelete (id : string)
| SDetails (id : string)
| SSurgery (loc : string) (stamp : Z) (mode : nat) (line : list status).
(* SSurgery: a file-level shape left by a kill, in terms of the abstract history (the file level is C07's):
   mode 0 = a torn prefix of a line appended (no status: nothing changes), 1 = a complete status without its newline
   (one more status of that run), 2 = the compacted copy next to the original (readers see only the last status) *)

Record aobs := mkAObs {
  ao_code : nat; ao_spawns : list (list string); ao_stops : list string;
  ao_defs : list (string * string); ao_hist : list (string * list run); ao_flags : list string }.

Definition spawns_of (ev : list event) : list (list string) :=
  flat_map (fun e => match e with ESpawn a => [a] | _ => [] end) ev.
Definition stops_of (ev : list event) : list string :=
  flat_map (fun e => match e with EStop l => [l] | _ => [] end) ev.

Section Replay.
  Variable valid graph_ok meta_ok : bytes -> bool.
  Variable dir : string.
  Variable tmpl : bytes.

  Definition do_step (a : aworld) (rok : bool) (s : astep) : nat * aworld * bool * list event :=
    match s with
    | SMk n t => let '(w', r, _) := step valid meta_ok dir (a_w a) (OCreate n t) in
                 (match r with ROk => 0 | _ => 1 end, set_world a w', rok, [])
    | SRec l z ls c => let '(w', _, _) := step valid meta_ok dir (a_w a) (ORun l z ls c) in (0, set_world a w', rok, [])
    | SLive l rq st => (0, set_live a l rq st, rok, [])
    | SUnlive l => (0, unset_live a l, rok, [])
    | SExit ok => (0, a, ok, [])
    | SPost id b => let '(c, a', ev) := post valid graph_ok meta_ok dir rok a id b in (c, a', rok, ev)
    | SCreate ac v => let '(c, a') := create valid meta_ok dir tmpl a ac v in (c, a', rok, [])
    | SDelete id => let '(c, a') := delete valid graph_ok meta_ok dir a id in (c, a', rok, [])
    | SDetails _ => (200, a, rok, [])
    | SSurgery l z mode ln =>
        let f (r : run) : run :=
          if Z.eqb (r_stamp r) z
          then match mode with
               | 1 => mkRun (r_stamp r) (r_lines r ++ ln)
               | 2 => mkRun (r_stamp r) (match rev (r_lines r) with s :: _ => [s] | [] => [] end)
               | _ => r
               end
          else r in
        let w := a_w a in
        (0, set_world a (set_hist w (h_set l (map f (h_get l (w_hist w))) (w_hist w))), rok, [])
    end.

  Fixpoint areplay (a : aworld) (rok : bool) (i : nat) (l : list (astep * aobs)) : option (nat * nat) :=
    match l with
    | [] => None
    | (s, ob) :: r =>
        let '(c, a', rok', ev) := do_step a rok s in
        if negb (Nat.eqb c (ao_code ob)) then Some (i, 1)
        else if negb (list_eqb (list_eqb String.eqb) (spawns_of ev) (ao_spawns ob)) then Some (i, 2)
        else if negb (list_eqb String.eqb (stops_of ev) (ao_stops ob)) then Some (i, 7)
        else match world_diff (a_w a') (mkObs 0 [] 0 (ao_defs ob) (ao_hist ob) (ao_flags ob)) with
             | 0 => areplay a' rok' (S i) r
             | d => Some (i, d)
             end
    end.
End Replay.

Fixpoint amismatches_from (valid_ids graph_ids meta_ids : list string) (dir tmpl : string) (k : nat)
         (cs : list (list (astep * aobs))) : list (nat * nat * nat) :=
  match cs with
  | [] => []
  | c :: r =>
      match areplay (in_ids valid_ids) (in_ids graph_ids) (in_ids meta_ids) dir tmpl empty_aworld true 0 c with
      | None => amismatches_from valid_ids graph_ids meta_ids dir tmpl (S k) r
      | Some (i, code) => (k, i, code) :: amismatches_from valid_ids graph_ids meta_ids dir tmpl (S k) r
      end
  end.
Definition amismatches v g m dir tmpl := amismatches_from v g m dir tmpl 0.
