(* C17 - no API request gets through without valid credentials when auth is on.
   This file holds nothing but the property theorems (closed by `exact`) and Print Assumptions.
   Model: Auth/Model.v (internal/frontend/middleware/{global,basic_auth,token_auth}.go, net/http parseBasicAuth and
   StripPrefix, encoding/base64 StdEncoding).  Byte strings are `list ascii`.  Tie to the code: tools/props/C17.py
   (the real chain built by middleware.Setup + SetupGlobalMiddleware around a sentinel, against `observe`). *)
From Coq Require Import List String Ascii.
Import ListNotations.
From BD.Auth Require Import Model Proofs.

(* base64: decoding an encoding gives the bytes back - for every byte string. *)
Theorem C17_b64_roundtrip : forall l : la, b64_dec (b64_enc l) = Some l.
Proof. exact b64_roundtrip. Qed.
Print Assumptions C17_b64_roundtrip.

(* Soundness: a request handed to the API is on an API path and either nothing is configured, or it carries the
   configured user and password (as net/http parses a Basic header), or the configured non-empty token is the second
   space-separated word of its Authorization header. *)
Theorem C17_sound : forall (c : cfg) (r : req), chain c r = Api ->
  route c r = Api /\
  ( (basic c = None /\ token c = None)
    \/ (exists u p, basic c = Some (u, p) /\ parse_basic (hdr r) = Some (u, p))
    \/ (exists t, token c = Some t /\ t <> [] /\ nth_error (split_sp (hdr r)) 1 = Some t) ).
Proof. exact sound. Qed.
Print Assumptions C17_sound.

(* ... and what net/http accepts as a Basic header: a case-insensitive "Basic " followed by a base64 text of user:password *)
Theorem C17_basic_header_shape : forall (h u p : la), parse_basic h = Some (u, p) ->
  exists pre payload, h = pre ++ payload /\ equal_fold pre (L "Basic ") = true /\ b64_dec payload = Some (u ++ colon :: p).
Proof. exact parse_basic_spec. Qed.
Print Assumptions C17_basic_header_shape.

(* Completeness for the standard forms.  Premises: the user name has no colon (RFC 7617), the token is non-empty and
   has no space (RFC 6750) - such secrets cannot be presented at all and are covered by soundness only. *)
Theorem C17_complete_basic : forall (c : cfg) (r : req) (u p : la), basic c = Some (u, p) -> ~ In colon u ->
  route c r = Api -> hdr r = std_basic u p -> chain c r = Api.
Proof. exact complete_basic. Qed.
Print Assumptions C17_complete_basic.

Theorem C17_complete_token : forall (c : cfg) (r : req) (t : la), token c = Some t -> t <> [] -> ~ In sp t ->
  route c r = Api -> hdr r = std_bearer t -> chain c r = Api.
Proof. exact complete_token. Qed.
Print Assumptions C17_complete_token.

(* Nothing configured: every API-path request passes. *)
Theorem C17_open : forall (c : cfg) (r : req), basic c = None -> token c = None -> route c r = Api -> chain c r = Api.
Proof. exact open. Qed.
Print Assumptions C17_open.

(* Otherwise: a request carrying neither secret is answered 401 and the API handler does not run. *)
Theorem C17_deny : forall (c : cfg) (r : req), route c r = Api -> no_auth c = false ->
  carries_basic c (hdr r) = false -> carries_token c (hdr r) = false ->
  chain c r = Unauth /\ served c r = false.
Proof. exact deny. Qed.
Print Assumptions C17_deny.

(* The decision is exactly this (both directions, every configuration and header). *)
Theorem C17_exact : forall (c : cfg) (h : la), auth c h =
  match basic c with
  | None => match token c with None => Api | Some _ => if carries_token c h then Api else Unauth end
  | Some _ => if skip_basic c h then (if carries_token c h then Api else Unauth)
              else if carries_basic c h then Api else Unauth
  end.
Proof. exact auth_cases. Qed.
Print Assumptions C17_exact.

(* Paths outside /api never reach the API handler (nor a 401), whatever the header. *)
Theorem C17_non_api : forall (c : cfg) (r : req), route c r <> Api ->
  chain c r <> Api /\ chain c r <> Unauth /\ served c r = false.
Proof. exact non_api. Qed.
Print Assumptions C17_non_api.

(* Wrong secrets in the standard forms are refused, for EVERY other user/password pair and every other token, whatever
   else is configured (a configured token does not let a wrong Basic pair through, nor the reverse), and the API handler
   does not run. *)
Theorem C17_wrong_basic_denied : forall (c : cfg) (r : req) (u p u' p' : la), basic c = Some (u, p) -> ~ In colon u' ->
  (u', p') <> (u, p) -> route c r = Api -> hdr r = std_basic u' p' -> chain c r = Unauth /\ served c r = false.
Proof. exact wrong_basic_denied. Qed.
Print Assumptions C17_wrong_basic_denied.

Theorem C17_wrong_token_denied : forall (c : cfg) (r : req) (t t' : la), token c = Some t -> ~ In sp t' -> t' <> t ->
  route c r = Api -> hdr r = std_bearer t' -> chain c r = Unauth /\ served c r = false.
Proof. exact wrong_token_denied. Qed.
Print Assumptions C17_wrong_token_denied.

(* Non-vacuity: the premises above are met by concrete states and the outcomes differ. *)
Example C17_ex_encoding : b64_enc (L "admin:secret") = L "YWRtaW46c2VjcmV0" /\ b64_enc (L "a") = L "YQ==" /\ b64_enc (L "ab") = L "YWI=".
Proof. exact ex_enc. Qed.
Example C17_ex_std_basic : std_basic (L "admin") (L "secret") = L "Basic YWRtaW46c2VjcmV0" /\ ~ In colon (L "admin").
Proof. exact ex_std_basic. Qed.
Example C17_ex_std_bearer : std_bearer (L "tok123") = L "Bearer tok123" /\ L "tok123" <> [] /\ ~ In sp (L "tok123").
Proof. exact ex_std_bearer. Qed.
Example C17_ex_chain :
  chain cfg_both (rq "GET" "/bd/api/v1/dags" "Basic YWRtaW46c2VjcmV0") = Api /\
  chain cfg_both (rq "GET" "/bd/api/v1/dags" "Bearer tok123") = Api /\
  chain cfg_both (rq "GET" "/bd/api/v1/dags" "Bearer tok12") = Unauth /\
  chain cfg_both (rq "GET" "/bd/api/v1/dags" "Basic YWRtaW46c2VjcmV") = Unauth /\
  chain cfg_both (rq "GET" "/bd/api/v1/dags" "") = Unauth /\
  chain cfg_both (rq "GET" "/bd/dags/x" "") = Static /\
  chain cfg_both (rq "GET" "/" "") = Redirect /\
  chain cfg_both (rq "GET" "/api/v1/dags" "Bearer tok123") = NotFound /\
  served cfg_both (rq "OPTIONS" "/bd/api/v1/dags" "Bearer tok123") = false /\
  served cfg_both (rq "POST" "/bd/api/v1/dags" "Bearer tok123") = true.
Proof. exact ex_chain. Qed.
Example C17_ex_deny_premises :
  route cfg_both (rq "GET" "/bd/api/v1/dags" "Token tok123") = Api /\ no_auth cfg_both = false /\
  carries_basic cfg_both (L "Bearer dG9rMTIz") = false /\ carries_token cfg_both (L "Bearer dG9rMTIz") = false.
Proof. exact ex_deny_premises. Qed.
(* a configured password with colons: only the whole password passes (the pair is cut at the first colon) *)
Example C17_ex_colon_password :
  chain cfg_colon {| method := L "GET"; path := L "/api/v1/dags"; rawpath := []; hdr := std_basic (L "admin") (L "a:b:c") |} = Api /\
  chain cfg_colon {| method := L "GET"; path := L "/api/v1/dags"; rawpath := []; hdr := std_basic (L "admin") (L "a:b:c:junk") |} = Unauth /\
  chain cfg_colon {| method := L "GET"; path := L "/api/v1/dags"; rawpath := []; hdr := std_basic (L "admin") (L "a") |} = Unauth /\
  parse_basic (std_basic (L "admin") (L "a:b:c")) = Some (L "admin", L "a:b:c").
Proof. exact ex_colon_password. Qed.
Example C17_ex_wrong_premises :
  basic cfg_both = Some (L "admin", L "secret") /\ ~ In colon (L "admin") /\ (L "admin", L "secreT") <> (L "admin", L "secret") /\
  token cfg_both = Some (L "tok123") /\ ~ In sp (L "tok124") /\ L "tok124" <> L "tok123" /\
  route cfg_both {| method := L "GET"; path := L "/bd/api/v1/dags"; rawpath := []; hdr := std_basic (L "admin") (L "secreT") |} = Api.
Proof. exact ex_wrong_premises. Qed.
