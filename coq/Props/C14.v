(* C14 - only well-formed dependency graphs are accepted to execution.
   This file holds nothing but the property theorems (closed by `exact`) and Print Assumptions.
   Model: Graph/Kahn.v (hasCycle, graph.go:230-264), Graph/Accept.v (setup/findStep/addEdge, graph.go:212-283),
   Agent/Run.v (agent.go:98-210).  Tie to the code: tools/props/C14.py (differential run of the real
   scheduler.NewExecutionGraph against `gaccept`). *)
From Coq Require Import List String Relations.
Import ListNotations.
From BD.Graph Require Import Kahn Accept AcceptProof.
From BD.Agent Require Import Run RunProofs.

(* A DAG with distinct step names is accepted iff every depends entry names an existing step and the
   dependency relation on names has no cycle (self-dependency = a one-step cycle). *)
Theorem C14_gaccept_iff : forall ss : list gstep, NoDup (map gname ss) ->
  (gaccept ss = VOk <-> all_resolve ss /\ acyclic_names ss).
Proof. exact gaccept_ok_iff. Qed.
Print Assumptions C14_gaccept_iff.

(* The refusal reasons are exact too. *)
Theorem C14_missing_iff : forall ss : list gstep, gaccept ss = VMissing <-> ~ all_resolve ss.
Proof. exact gaccept_missing_iff. Qed.
Print Assumptions C14_missing_iff.

Theorem C14_cycle_witness : forall ss : list gstep, NoDup (map gname ss) -> gaccept ss = VCycle ->
  all_resolve ss /\ exists x, clos_trans string (dep_rel ss) x x.
Proof. exact gaccept_cycle_witness. Qed.
Print Assumptions C14_cycle_witness.

(* A refused graph: the agent's run consists of the graph construction alone and returns an error -
   no precondition evaluation, probe, history, socket, step or handler action. *)
Theorem C14_refused_is_silent : forall e : env, e_gaccept e = false -> run e = ([ABuildGraph], true).
Proof. exact refused_graph_is_silent. Qed.
Print Assumptions C14_refused_is_silent.

(* Non-vacuity: a diamond with distinct names is accepted; a self-dependency and a two-cycle are refused
   as cycles; a dangling name as missing. *)
Example C14_nonvacuous :
  (gaccept [mk "a" []; mk "b" ["a"]; mk "c" ["a"]; mk "d" ["b"; "c"]] = VOk /\
   NoDup (map gname [mk "a" []; mk "b" ["a"]; mk "c" ["a"]; mk "d" ["b"; "c"]]))%string
  /\ gaccept [mk "a" ["a"]]%string = VCycle /\ gaccept [mk "a" ["b"]; mk "b" ["a"]]%string = VCycle
  /\ gaccept [mk "a" ["zz"]; mk "b" ["a"]]%string = VMissing.
Proof. exact (conj gaccept_diamond (conj gaccept_self (conj gaccept_two gaccept_dangling))). Qed.

(* ---- link to the step scheduler (Sched/Model.v) ---------------------------------------------------------------
   A configuration whose depends entries resolve and whose edge list passes the code's cycle check has a rank that
   strictly decreases along dependencies (`wf_deps`, the premise of the scheduler's progress theorems C15/C05), and
   every run of it can be driven to completion from any reachable state. *)
From BD.Sched Require Import Model Proofs ProofsTerm.
From BD.Graph Require Import Rank RankSched.

Theorem C14_accepted_graph_wf_deps : forall c : cfg,
  (forall i d, i < nsteps c -> In d (deps (steps c i)) -> d < nsteps c) ->
  has_cycle (nsteps c) (cfg_edges c) = false -> wf_deps c.
Proof. exact accepted_graph_wf_deps. Qed.
Print Assumptions C14_accepted_graph_wf_deps.

Theorem C14_accepted_graph_completes : forall c : cfg, norepeat c ->
  (forall i d, i < nsteps c -> In d (deps (steps c i)) -> d < nsteps c) ->
  has_cycle (nsteps c) (cfg_edges c) = false ->
  forall s, Reach c s -> exists ls s', run c s ls = Some s' /\ pc s' = LDone.
Proof. exact accepted_graph_completes. Qed.
Print Assumptions C14_accepted_graph_completes.

(* An accepted edge list has an execution order: a duplicate-free list of all n nodes in which every dependency of a
   node stands behind it (read from the back it is a topological order: the order in which the cycle check eliminates
   the nodes).  R = u :: R0 is `topo` when every edge w -> u has w in R0, recursively. *)
From BD.Graph Require Import KahnProof.
Theorem C14_accepted_has_topological_order : forall (n : nat) (E : list (nat * nat)),
  (forall u v, In (u, v) E -> u < n /\ v < n) -> has_cycle n E = false ->
  exists R, NoDup R /\ topo E R /\ forall v, v < n -> In v R.
Proof. exact topo_order. Qed.
Print Assumptions C14_accepted_has_topological_order.
