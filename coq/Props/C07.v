(* C07 - recorded history survives a crash at any instant.
   This file holds nothing but the property theorems (closed by `exact`), Print Assumptions, and Examples.

   Model:  Hist/Model.v: every store operation is a list of primitive FS steps (`prims`: mkdir / create / append chunk / unlink /
           rename / rmdir); `crash_states h o` = the file system after EVERY prefix of that list, plus, for an interrupted append,
           the two torn classes (a proper prefix of the JSON text; the complete JSON text without its newline).  A kill of the
           process leaves exactly such a state (kernel buffers survive a process kill - this is NOT power loss; fsync is
           irrelevant and not modelled).  Afterwards a FRESH process (empty cache) asks find / latest / recent.
   Proofs: Hist/ProofsCrash.v (structured level: every crash state is query-related to a run map), Hist/ProofsString.v
           (crash states of the string-level model = renderings of the structured ones), Hist/ProofsC07.v (composition),
           Hist/ProofsC07Ex.v (refuted witnesses F7a/b/c, Examples).  Quantification: ALL reachable states (any trace `es` of
           operations and queries satisfying the premises of C06) x ALL operations x ALL crash states.
   Tie to the code: tools/props/C07.py - the real jsondb is killed by SIGKILL at every system call of scripted scenarios
           (strace fault injection) and at every byte of the last append; the surviving directory must be one of the model's crash
           states and the answers of a fresh process must satisfy P1-P4 (monitor).

   P1 every completed run is found with its last status; P2 the interrupted run is found with a status no older than the last
   acknowledged one; P3 latest answers without error, never older than acknowledged; P4 recent n lists no run twice and hides
   no run with acknowledged data.
   Model of the REPAIRED store (3aa388e: readers skip files without a parseable status; e6d6379, 8ffc003, e2affa2 as for C06).
   What holds: open / write / update / chtimes are ATOMIC under a kill - every query is answered as the run map before or after the
   operation says (P1-P4; since 3aa388e this includes the crash between Open and the first write: the run without status is simply not
   listed - F7a is repaired, C07_fixed_empty_newest);
   close: find answers as before in every crash state (P1, P2), and ALL queries answer as before or after in every crash state except
   those in which the compacted twin already holds a complete status line while the original still exists (F7b, C07_refuted_compaction_twin);
   retention: every run not up for removal is found intact (P1); rename: every run is found under exactly one name (P1).
   Still refuted: F7b (as narrowed above) and F7c (an update accepted after a torn write is glued to the torn tail).
   Premises: those of C06 (names_okb, closedb, premises) for the trace up to and including the interrupted operation. *)
From Coq Require Import List String ZArith Bool Arith.
Import ListNotations.
From BD.Hist Require Import GoMatch Model SModel Spec ProofsString ProofsRefine ProofsTop ProofsC06 ProofsC06Ex ProofsC07 ProofsC07Ex.

(* open / write / update / chtimes: EVERY crash state answers EVERY query of a fresh process as the run map BEFORE or AFTER *)
Theorem C07_crash_atomic :
  forall (loc : string) (dirhash : string -> string) (D days : list string) (K : list skey),
  names_okb loc dirhash D days K = true -> closedb D K = true ->
  forall (es : list ev) (o : op) (fs' : fs),
  premises loc dirhash D days K (es ++ [EOp o]) -> atomic_op o = true ->
  In fs' (crash_states loc dirhash (y_h (yrun loc dirhash sys_init es)) o) ->
  answers0 loc dirhash D days fs' (sp_state es) \/ answers0 loc dirhash D days fs' (sp_state (es ++ [EOp o])).
Proof. exact crash_atomic. Qed.
Print Assumptions C07_crash_atomic.

(* close with compaction: find (every run, every DAG) answers as before the close in EVERY crash state - completed runs intact
   (P1), the run being closed found with its last acknowledged status (P2); and unless the compacted twin already PARSES while the
   original still exists (twin_window0), every query answers as before or after *)
Theorem C07_crash_close_partial :
  forall loc dirhash D days K, names_okb loc dirhash D days K = true -> closedb D K = true ->
  forall es now fs', premises loc dirhash D days K (es ++ [EOp (OClose now)]) ->
  In fs' (crash_states loc dirhash (y_h (yrun loc dirhash sys_init es)) (OClose now)) ->
  (forall d req, In d D -> fpayload (q_find loc dirhash fs' d req) = sp_find (sp_state es) d req)
  /\ (twin_window0 (hfs (y_h (yrun loc dirhash sys_init es))) fs'
      \/ answers0 loc dirhash D days fs' (sp_state es) \/ answers0 loc dirhash D days fs' (sp_state (es ++ [EOp (OClose now)]))).
Proof. exact crash_close0. Qed.
Print Assumptions C07_crash_close_partial.

(* retention / deletion: whatever prefix of the unlinks was executed, a run that is not up for removal is found intact (P1) *)
Theorem C07_crash_removeold_partial :
  forall loc dirhash D days K, names_okb loc dirhash D days K = true -> closedb D K = true ->
  forall es d cutoff fs', premises loc dirhash D days K (es ++ [EOp (ORemoveOld d cutoff)]) ->
  In fs' (crash_states loc dirhash (y_h (yrun loc dirhash sys_init es)) (ORemoveOld d cutoff)) ->
  forall a, In a (h_runs (sp_state es)) -> In (a_dag a) D -> a_req a <> ""%string -> ~ (a_dag a = d /\ (a_mtime a < cutoff)%Z) ->
  fpayload (q_find loc dirhash fs' (a_dag a) (a_req a)) = last_opt (a_sts a).
Proof. exact crash_removeold0. Qed.
Print Assumptions C07_crash_removeold_partial.

(* rename: whatever prefix of the renames was executed, runs of other DAGs are found intact and every run of the renamed DAG is found
   intact under exactly one of the old and the new name (P1) *)
Theorem C07_crash_rename_partial :
  forall loc dirhash D days K, names_okb loc dirhash D days K = true -> closedb D K = true ->
  forall es d d' fs', premises loc dirhash D days K (es ++ [EOp (ORename d d')]) ->
  In fs' (crash_states loc dirhash (y_h (yrun loc dirhash sys_init es)) (ORename d d')) ->
  forall a, In a (h_runs (sp_state es)) -> In (a_dag a) D -> a_req a <> ""%string ->
    (a_dag a <> d -> fpayload (q_find loc dirhash fs' (a_dag a) (a_req a)) = last_opt (a_sts a))
    /\ (a_dag a = d ->
         (fpayload (q_find loc dirhash fs' d (a_req a)) = last_opt (a_sts a) /\ fpayload (q_find loc dirhash fs' d' (a_req a)) = None)
         \/ (fpayload (q_find loc dirhash fs' d (a_req a)) = None /\ fpayload (q_find loc dirhash fs' d' (a_req a)) = last_opt (a_sts a))).
Proof. exact crash_rename0. Qed.
Print Assumptions C07_crash_rename_partial.

(* ---- refuted on the faithful model (defects of the pinned code) ---------------------------------------------------------- *)
(* F7a (P3, P4) - before fix 3aa388e the model answered latest = error, recent 1 = nothing in the crash state with the empty newest file *)
Example C07_fixed_empty_newest :
  sp_latest (sp_state es0) a None = LOk q1 /\ sp_recent (sp_state es0) a 1 = [q1]
  /\ List.length (crash_states loc dh (y_h (yrun loc dh sys_init es0)) oOpen) = 3
  /\ forallb (fun fs' => match snd (q_latest loc dh [] fs' a None), snd (q_recent loc dh [] fs' a 1) with
                         | LOk p, [p'] => String.eqb (p_req p) "req-aaaa-1" && String.eqb (p_req p') "req-aaaa-1" && Nat.eqb (p_tag p) 1
                         | _, _ => false end)
             (crash_states loc dh (y_h (yrun loc dh sys_init es0)) oOpen) = true.
Proof. exact fixed_empty_newest. Qed.
(* F7b (P4), still open: kill after the twin's status line is complete and before the original is unlinked - the run is listed twice *)
Theorem C07_refuted_compaction_twin :
  exists es now fs2, In fs2 (crash_states loc dh (y_h (yrun loc dh sys_init es)) (OClose now))
    /\ sp_recent (sp_state es) a 2 = [q2; q1] /\ sp_recent (sp_state (es ++ [EOp (OClose now)])) a 2 = [q2; q1]
    /\ snd (q_recent loc dh [] fs2 a 2) = [q2; q2].
Proof. exact refuted_compaction_twin. Qed.
Print Assumptions C07_refuted_compaction_twin.
(* ... while an empty or torn twin is invisible now (before 3aa388e it took a slot: recent 2 = [q2]) *)
Example C07_empty_twin_invisible :
  snd (q_recent loc dh [] (nth 2 (crash_states loc dh (y_h (yrun loc dh sys_init es1)) (OClose 6%Z)) fs_empty) a 2) = [q2; q1]
  /\ snd (q_recent loc dh [] (nth 3 (crash_states loc dh (y_h (yrun loc dh sys_init es1)) (OClose 6%Z)) fs_empty) a 2) = [q2; q1].
Proof. exact empty_twin_invisible. Qed.
(* F7c: an update accepted after a torn write is glued to the torn tail and lost *)
Theorem C07_refuted_glued_update :
  exists es o fs' upd, In fs' (crash_states loc dh (y_h (yrun loc dh sys_init es)) o)
    /\ prims loc dh upd {| hfs := fs'; hwr := None; hcache := [] |} <> []
    /\ fpayload (q_find loc dh (hfs (apply loc dh {| hfs := fs'; hwr := None; hcache := [] |} upd)) a "req-bbbb-2"%string) = Some q2.
Proof. exact refuted_glued_update. Qed.
Print Assumptions C07_refuted_glued_update.

(* ---- non-vacuity: the premises hold for traces whose last operation has 4 / 7 / 6 crash states ------------------------------ *)
Example C07_premises_satisfiable :
  names_okb loc dh DE7 [] KE7 = true /\ closedb DE7 KE7 = true
  /\ premisesb loc dh DE7 [] KE7 (es1 ++ [EOp (OWrite 3 10 7%Z)]) = true
  /\ premisesb loc dh DE7 [] KE7 (es1 ++ [EOp (OClose 6%Z)]) = true
  /\ premisesb loc dh DE7 [] KE7 (es0 ++ [EOp (OUpdate a "req-aaaa-1" 5 11 9%Z)]) = true
  /\ premisesb loc dh DE7 [] KE7 (es0 ++ [EOp (ORemoveOld a 100%Z)]) = true
  /\ List.length (crash_states loc dh (y_h (yrun loc dh sys_init es1)) (OWrite 3 10 7%Z)) = 4
  /\ List.length (crash_states loc dh (y_h (yrun loc dh sys_init es1)) (OClose 6%Z)) = 7
  /\ List.length (crash_states loc dh (y_h (yrun loc dh sys_init es0)) (OUpdate a "req-aaaa-1" 5 11 9%Z)) = 6.
Proof. exact crash_premises_satisfiable. Qed.
