(* C07 - recorded history survives a crash at any instant.
   This file holds nothing but the property theorems (closed by `exact`), Print Assumptions, and Examples.

   Model:  Hist/Model.v: every store operation is a list of primitive FS steps (`prims`: mkdir / create / append chunk / unlink /
           rename / rmdir); `crash_states h o` = the file system after EVERY prefix of that list, plus, for an interrupted append,
           the two torn classes (a proper prefix of the JSON text; the complete JSON text without its newline).  A kill of the
           process leaves exactly such a state (kernel buffers survive a process kill - this is NOT power loss; fsync is
           irrelevant and not modelled).  Afterwards a FRESH process (empty cache) asks find / latest / recent.
   Proofs: Hist/ProofsCrash.v (structured level: every crash state is query-related to a run map), Hist/ProofsString.v
           (crash states of the string-level model = renderings of the structured ones), Hist/ProofsC07.v (composition),
           Hist/ProofsC07Ex.v (the former witnesses of F7a/b/c as repaired Examples).  Quantification: ALL reachable states (any trace `es` of
           operations and queries satisfying the premises of C06) x ALL operations x ALL crash states.
   Tie to the code: tools/props/C07.py - the real jsondb is killed by SIGKILL at every system call of scripted scenarios
           (strace fault injection) and at every byte of the last append; the surviving directory must be one of the model's crash
           states and the answers of a fresh process must satisfy P1-P4 (monitor).

   P1 every completed run is found with its last status; P2 the interrupted run is found with a status no older than the last
   acknowledged one; P3 latest answers without error, never older than acknowledged; P4 recent n lists no run twice and hides
   no run with acknowledged data.
   Model of the REPAIRED store (3aa388e: readers skip files without a parseable status; eb925d1: the compacted copy is written as
   <file>.tmp, published with a rename, and the readers drop an original whose compacted copy is listed; 32b069b: writer.open terminates
   a torn last line; e6d6379, 8ffc003, e2affa2 as for C06).
   What holds (FULL statement): open / write / close / update / chtimes are ATOMIC under a kill - in EVERY crash state (every prefix of
   the primitive steps, every torn append) EVERY query is answered as the run map before or after the operation says (P1-P4), for every
   reachable state.  This includes the crash between Open and the first write (F7a, 3aa388e) and EVERY point of the compaction (F7b,
   eb925d1 - C07_crash_close has no exception left).  A status update recorded by a new process AFTER a kill inside a write / update -
   torn tail or not - is what every query answers afterwards (F7c, 32b069b - C07_update_after_torn); the same holds after a kill at any
   point of Close (C07_update_after_close_crash_general).
   Retention and rename are NOT atomic (one unlink(2) / rename(2) per history file - the intermediate states are visible:
   C07_refuted_retention_atomic, C07_refuted_rename_atomic); what holds, exactly: every crash state of retention answers EVERY query as
   the run map in which SOME of the runs that are up for removal are already removed (C07_crash_removeold); every crash state of rename
   answers EVERY query - under the old name, the new name, any other DAG - as the run map in which SOME of the runs of d already belong
   to d' (C07_crash_rename: each run is found under exactly one of the two names, latest / recent of a name list the runs currently
   there).  Their P1 consequences are kept as C07_crash_removeold_P1 / C07_crash_rename_P1.
   The former _refuted witnesses of F7a / F7b / F7c are positive Examples now (C07_fixed_...).
   Premises: those of C06 (names_okb, closedb, premises) for the trace up to and including the interrupted operation. *)
From Coq Require Import List String ZArith Bool Arith.
Import ListNotations.
From BD.Hist Require Import GoMatch Model SModel Spec ProofsString ProofsRefine ProofsTop ProofsC06 ProofsC06Ex ProofsCrash ProofsC07 ProofsC07Ex.

(* open / write / close / update / chtimes (atomic_op): EVERY crash state answers EVERY query of a fresh process as the run map
   BEFORE or AFTER the operation *)
Theorem C07_crash_atomic :
  forall (loc : string) (dirhash : string -> string) (D days : list string) (K : list skey),
  names_okb loc dirhash D days K = true -> closedb D K = true ->
  forall (es : list ev) (o : op) (fs' : fs),
  premises loc dirhash D days K (es ++ [EOp o]) -> atomic_op o = true ->
  In fs' (crash_states loc dirhash (y_h (yrun loc dirhash sys_init es)) o) ->
  answers0 loc dirhash D days fs' (sp_state es) \/ answers0 loc dirhash D days fs' (sp_state (es ++ [EOp o])).
Proof. exact crash_atomic. Qed.
Print Assumptions C07_crash_atomic.
Example C07_atomic_ops : forall d stamp req r8 c tag size now t,
  map atomic_op [OOpen d stamp req now; OWrite tag size now; OClose now; OUpdate d req tag size now; OTouch d stamp r8 c t;
                 ORename d d; ORemoveOld d now] = [true; true; true; true; true; false; false].
Proof. reflexivity. Qed.

(* close with compaction, spelled out: EVERY crash state - temporary copy absent / empty / torn / complete, copy published with the
   original still there, original removed - answers every query as before or after the close.  (Before eb925d1 this was
   C07_crash_close_partial with the twin-window exception.) *)
Theorem C07_crash_close :
  forall loc dirhash D days K, names_okb loc dirhash D days K = true -> closedb D K = true ->
  forall es now fs', premises loc dirhash D days K (es ++ [EOp (OClose now)]) ->
  In fs' (crash_states loc dirhash (y_h (yrun loc dirhash sys_init es)) (OClose now)) ->
  answers0 loc dirhash D days fs' (sp_state es) \/ answers0 loc dirhash D days fs' (sp_state (es ++ [EOp (OClose now)])).
Proof. exact crash_close0. Qed.
Print Assumptions C07_crash_close.

(* an update after a torn tail: the recording process is killed at ANY point of a write or an update (o); then a NEW process
   (fresh_state: no writer, empty cache) records the status update u on the surviving directory fs'.  Afterwards every query is
   answered as the run map with u recorded says - on top of the run map before or after o.  (Before 32b069b the update was glued to
   the torn line and lost.) *)
Theorem C07_update_after_torn :
  forall loc dirhash D days K, names_okb loc dirhash D days K = true -> closedb D K = true ->
  forall es o fs' d req tag size now, premises loc dirhash D days K (es ++ [EOp o]) ->
  match o with OWrite _ _ _ | OUpdate _ _ _ _ _ => True | _ => False end ->
  In fs' (crash_states loc dirhash (y_h (yrun loc dirhash sys_init es)) o) -> In d D ->
  let u := OUpdate d req tag size now in
  let fs2 := hfs (apply loc dirhash (fresh_state fs') u) in
  answers0 loc dirhash D days fs2 (sp_apply (sp_state es) u) \/ answers0 loc dirhash D days fs2 (sp_apply (sp_state (es ++ [EOp o])) u).
Proof. exact torn_then_update0. Qed.
Print Assumptions C07_update_after_torn.

(* an update after a kill inside Close, in general: for every reachable state, every crash state of Close (every prefix of its primitive
   steps, every torn class of the temporary copy), a status update of ANY run recorded afterwards by a new process on the surviving
   directory is what find, latest and recent answer - as the run map with that update, on top of the run map before or after the
   close.  (The temporary copy is matched by no pattern; next to its original the compacted copy is the file the reverse-name lookup
   finds AND the file the listings read: names_okb contains `path of the compacted copy > path of its original`.) *)
Theorem C07_update_after_close_crash_general :
  forall loc dirhash D days K, names_okb loc dirhash D days K = true -> closedb D K = true ->
  forall es now fs' d req tag size now2, premises loc dirhash D days K (es ++ [EOp (OClose now)]) ->
  In fs' (crash_states loc dirhash (y_h (yrun loc dirhash sys_init es)) (OClose now)) -> In d D ->
  let u := OUpdate d req tag size now2 in
  let fs2 := hfs (apply loc dirhash (fresh_state fs') u) in
  answers0 loc dirhash D days fs2 (sp_apply (sp_state es) u) \/ answers0 loc dirhash D days fs2 (sp_apply (sp_state (es ++ [EOp (OClose now)])) u).
Proof. exact close_then_update0. Qed.
Print Assumptions C07_update_after_close_crash_general.

(* retention / deletion, in full: whatever prefix of the unlinks was executed, EVERY query (find, latest, recent; every DAG) answers as
   a run map H' that is the run map before the operation minus some of the runs that are up for removal: nothing is added, every run
   that is not up for removal is there, no run twice (P1-P4 on the surviving runs) *)
Theorem C07_crash_removeold :
  forall loc dirhash D days K, names_okb loc dirhash D days K = true -> closedb D K = true ->
  forall es d cutoff fs', premises loc dirhash D days K (es ++ [EOp (ORemoveOld d cutoff)]) ->
  In fs' (crash_states loc dirhash (y_h (yrun loc dirhash sys_init es)) (ORemoveOld d cutoff)) ->
  exists H', answers0 loc dirhash D days fs' H' /\ hist_okb H' = true
    /\ (forall a, In a (h_runs H') -> In a (h_runs (sp_state es)))
    /\ (forall a, In a (h_runs (sp_state es)) -> ~ (a_dag a = d /\ (a_mtime a < cutoff)%Z) -> In a (h_runs H'))
    /\ NoDup (map a_id (h_runs H')).
Proof. exact crash_removeold_full0. Qed.
Print Assumptions C07_crash_removeold.
(* ... its P1 consequence: a run that is not up for removal is found intact *)
Theorem C07_crash_removeold_P1 :
  forall loc dirhash D days K, names_okb loc dirhash D days K = true -> closedb D K = true ->
  forall es d cutoff fs', premises loc dirhash D days K (es ++ [EOp (ORemoveOld d cutoff)]) ->
  In fs' (crash_states loc dirhash (y_h (yrun loc dirhash sys_init es)) (ORemoveOld d cutoff)) ->
  forall a, In a (h_runs (sp_state es)) -> In (a_dag a) D -> a_req a <> ""%string -> ~ (a_dag a = d /\ (a_mtime a < cutoff)%Z) ->
  fpayload (q_find loc dirhash fs' (a_dag a) (a_req a)) = last_opt (a_sts a).
Proof. exact crash_removeold0. Qed.
Print Assumptions C07_crash_removeold_P1.

(* rename, in full: whatever prefix of the renames was executed, EVERY query answers as a run map H' whose runs are the runs before the
   operation, each either unchanged or (only if it belonged to d) moved to d' (rrel): a run is found under exactly one name, and latest /
   recent of d, of d' and of every other DAG list exactly the runs that are there at that moment *)
Theorem C07_crash_rename :
  forall loc dirhash D days K, names_okb loc dirhash D days K = true -> closedb D K = true ->
  forall es d d' fs', premises loc dirhash D days K (es ++ [EOp (ORename d d')]) ->
  In fs' (crash_states loc dirhash (y_h (yrun loc dirhash sys_init es)) (ORename d d')) ->
  exists H', answers0 loc dirhash D days fs' H' /\ hist_okb H' = true
    /\ exists l, Permutation.Permutation l (h_runs (sp_state es)) /\ Forall2 (ProofsCrash.rrel d d') l (h_runs H').
Proof. exact crash_rename_full0. Qed.
Print Assumptions C07_crash_rename.
Example C07_rrel_meaning : forall d d' a a', ProofsCrash.rrel d d' a a' <-> (a' = a \/ (a_dag a = d /\ a' = set_dag d' a)).
Proof. intros. reflexivity. Qed.
(* ... its P1 consequence *)
Theorem C07_crash_rename_P1 :
  forall loc dirhash D days K, names_okb loc dirhash D days K = true -> closedb D K = true ->
  forall es d d' fs', premises loc dirhash D days K (es ++ [EOp (ORename d d')]) ->
  In fs' (crash_states loc dirhash (y_h (yrun loc dirhash sys_init es)) (ORename d d')) ->
  forall a, In a (h_runs (sp_state es)) -> In (a_dag a) D -> a_req a <> ""%string ->
    (a_dag a <> d -> fpayload (q_find loc dirhash fs' (a_dag a) (a_req a)) = last_opt (a_sts a))
    /\ (a_dag a = d ->
         (fpayload (q_find loc dirhash fs' d (a_req a)) = last_opt (a_sts a) /\ fpayload (q_find loc dirhash fs' d' (a_req a)) = None)
         \/ (fpayload (q_find loc dirhash fs' d (a_req a)) = None /\ fpayload (q_find loc dirhash fs' d' (a_req a)) = last_opt (a_sts a))).
Proof. exact crash_rename0. Qed.
Print Assumptions C07_crash_rename_P1.

(* full before-or-after atomicity is FALSE for retention and rename (by design of the store: file by file) - witnesses on the model *)
Theorem C07_refuted_retention_atomic :
  exists fs', In fs' rmStates
    /\ sp_recent (sp_state es2) a 5 = [q2; q1] /\ sp_recent (sp_state (es2 ++ [EOp (ORemoveOld a 100%Z)])) a 5 = []
    /\ snd (q_recent loc dh [] fs' a 5) = [q2].
Proof. exact retention_not_atomic. Qed.
Theorem C07_refuted_rename_atomic :
  exists fs', In fs' mvStates
    /\ sp_recent (sp_state es2) a 5 = [q2; q1] /\ sp_recent (sp_state es2) ab 5 = []
    /\ sp_recent (sp_state (es2 ++ [EOp (ORename a ab)])) a 5 = [] /\ sp_recent (sp_state (es2 ++ [EOp (ORename a ab)])) ab 5 = [q2; q1]
    /\ snd (q_recent loc dh [] fs' a 5) = [q2] /\ snd (q_recent loc dh [] fs' ab 5) = [q1]
    /\ fpayload (q_find loc dh fs' a "req-aaaa-1") = None /\ fpayload (q_find loc dh fs' ab "req-aaaa-1") = Some q1.
Proof. exact rename_not_atomic. Qed.
Example C07_partial_ops_premises :
  premisesb loc dh DE7 [] KE7 (es2 ++ [EOp (ORemoveOld a 100%Z)]) = true /\ premisesb loc dh DE7 [] KE7 (es2 ++ [EOp (ORename a ab)]) = true
  /\ List.length rmStates = 3 /\ List.length mvStates = 5.
Proof. exact partial_ops_premises. Qed.

(* ---- the former refutation witnesses, repaired --------------------------------------------------------------------------- *)
(* F7a (P3, P4) - before fix 3aa388e the model answered latest = error, recent 1 = nothing in the crash state with the empty newest file *)
Example C07_fixed_empty_newest :
  sp_latest (sp_state es0) a None = LOk q1 /\ sp_recent (sp_state es0) a 1 = [q1]
  /\ List.length (crash_states loc dh (y_h (yrun loc dh sys_init es0)) oOpen) = 3
  /\ forallb (fun fs' => match snd (q_latest loc dh [] fs' a None), snd (q_recent loc dh [] fs' a 1) with
                         | LOk p, [p'] => String.eqb (p_req p) "req-aaaa-1" && String.eqb (p_req p') "req-aaaa-1" && Nat.eqb (p_tag p) 1
                         | _, _ => false end)
             (crash_states loc dh (y_h (yrun loc dh sys_init es0)) oOpen) = true.
Proof. exact fixed_empty_newest. Qed.
(* F7b (P4) - before fix eb925d1 the model answered recent 2 = [q2; q2] in the crash state of Close in which the compacted copy was
   complete and the original not yet unlinked (the older run q1 was hidden); now all nine crash states answer [q2; q1] and latest = q2,
   the state with both files (index 7) included *)
Example C07_fixed_compaction_twin :
  sp_recent (sp_state es1) a 2 = [q2; q1] /\ sp_recent (sp_state (es1 ++ [EOp (OClose 6%Z)])) a 2 = [q2; q1]
  /\ List.length closeStates = 9
  /\ forallb (fun fs' => match snd (q_recent loc dh [] fs' a 2), snd (q_latest loc dh [] fs' a None) with
                         | [p; p'], LOk p'' => String.eqb (p_req p) "req-bbbb-2" && String.eqb (p_req p') "req-aaaa-1" && Nat.eqb (p_tag p'') 2
                         | _, _ => false end) closeStates = true
  /\ map (fun fs' => List.length (files fs')) closeStates = [2; 2; 2; 3; 3; 3; 3; 3; 2]%nat
  /\ map e_name (files (nth 7 closeStates fs_empty))
     = ["a.20240101.10:00:00.100.req-aaaa_c.dat"; "a.20240101.10:00:01.300.req-bbbb.dat"; "a.20240101.10:00:01.300.req-bbbb_c.dat"]%string.
Proof. exact fixed_compaction_twin. Qed.
(* ... and the temporary copy (empty / torn / complete) is matched by no pattern: find still reads the original *)
Example C07_tmp_copy_invisible :
  map e_name (files (nth 4 closeStates fs_empty))
  = ["a.20240101.10:00:00.100.req-aaaa_c.dat"; "a.20240101.10:00:01.300.req-bbbb.dat"; "a.20240101.10:00:01.300.req-bbbb_c.dat.tmp"]%string
  /\ forallb (fun i => match q_find loc dh (nth i closeStates fs_empty) a "req-bbbb-2" with
                       | FFound _ fn p => String.eqb fn "a.20240101.10:00:01.300.req-bbbb.dat" && Nat.eqb (p_tag p) 2
                       | _ => false end) [3; 4; 5; 6]%nat = true.
Proof. exact tmp_copy_invisible. Qed.
(* F7c - before fix 32b069b the model answered find = the OLD status q2 after an update (tag 9) recorded on a torn tail (the update
   was glued to the torn line and lost); now find and latest answer the update in all four crash states of the interrupted write,
   and writer.open appends the repairing newline exactly in the two torn ones (4 primitive steps instead of 3) *)
Example C07_fixed_glued_update :
  List.length tornStates = 4
  /\ forallb (fun fs' => match fpayload (q_find loc dh (hfs (apply loc dh (fresh_state fs') upd9)) a "req-bbbb-2"),
                               snd (q_latest loc dh [] (hfs (apply loc dh (fresh_state fs') upd9)) a None) with
                         | Some p, LOk p' => Nat.eqb (p_tag p) 9 && Nat.eqb (p_tag p') 9
                         | _, _ => false end) tornStates = true
  /\ map (fun fs' => List.length (prims loc dh upd9 (fresh_state fs'))) tornStates = [3; 4; 4; 3]%nat.
Proof. exact fixed_glued_update. Qed.

(* ... and an update recorded by a new process after a kill at ANY of the nine points of that Close is shown by find, latest and recent
   (the lookup scans the matches in reverse name order: next to its original the compacted copy is found, updated - and read by the
   listings).  An instance of C07_update_after_close_crash_general; on the real store the enumeration runs this after-phase at every
   kill point of Close. *)
Example C07_update_after_close_crash :
  forallb (fun fs' => let fs2 := hfs (apply loc dh (fresh_state fs') upd9) in
                      match fpayload (q_find loc dh fs2 a "req-bbbb-2"), snd (q_latest loc dh [] fs2 a None), snd (q_recent loc dh [] fs2 a 2) with
                      | Some p, LOk p', [r1; r2] => Nat.eqb (p_tag p) 9 && Nat.eqb (p_tag p') 9 && Nat.eqb (p_tag r1) 9
                                                   && String.eqb (p_req r1) "req-bbbb-2" && String.eqb (p_req r2) "req-aaaa-1"
                      | _, _, _ => false end) closeStates = true.
Proof. exact update_after_close_crash. Qed.

(* ---- non-vacuity: the premises hold for traces whose last operation has 4 / 9 / 6 crash states ------------------------------ *)
Example C07_premises_satisfiable :
  names_okb loc dh DE7 [] KE7 = true /\ closedb DE7 KE7 = true
  /\ premisesb loc dh DE7 [] KE7 (es1 ++ [EOp (OWrite 3 10 7%Z)]) = true
  /\ premisesb loc dh DE7 [] KE7 (es1 ++ [EOp (OClose 6%Z)]) = true
  /\ premisesb loc dh DE7 [] KE7 (es0 ++ [EOp (OUpdate a "req-aaaa-1" 5 11 9%Z)]) = true
  /\ premisesb loc dh DE7 [] KE7 (es0 ++ [EOp (ORemoveOld a 100%Z)]) = true
  /\ List.length (crash_states loc dh (y_h (yrun loc dh sys_init es1)) (OWrite 3 10 7%Z)) = 4
  /\ List.length (crash_states loc dh (y_h (yrun loc dh sys_init es1)) (OClose 6%Z)) = 9
  /\ List.length (crash_states loc dh (y_h (yrun loc dh sys_init es0)) (OUpdate a "req-aaaa-1" 5 11 9%Z)) = 6.
Proof. exact crash_premises_satisfiable. Qed.
