(* C15 - no more steps run at once than maxActiveRuns allows.
   This file holds nothing but the property theorems (closed by `exact`) and Print Assumptions.
   Model: Sched/Model.v (scheduler.go:98-259, node.go).  Proofs: Sched/Proofs.v (invariant), Sched/ProofsTerm.v
   (measure, progress).  Tie to the code: tools/props/C15.py (trace validation of the real scheduler).
   Premise of every theorem: norepeat c (no repeatPolicy step; those belong to C05).  For C15_bound the premise is NEEDED:
   a step with repeatPolicy and continueOn.failure whose command fails is labelled failed and keeps repeating - it is no
   longer counted as running, and with maxActiveRuns = 1 two commands execute at once (C15_repeating_step_refuted below;
   the same on the real scheduler: findings/C15-repeat-continue-on-failure.json).  For the finiteness theorems it is needed
   because a repeating step runs until a stop request; what holds after a stop, for EVERY configuration, is in C05
   (C05_no_new_start, C05_started_at_most_once: at most one more start per step).  Since fix f9e55a3 the theorems hold
   whether or not Schedule is given a done channel. *)
From Coq Require Import List.
Import ListNotations.
From BD.Sched Require Import Model Proofs ProofsFinal ProofsTerm Replay ReplayProofs ProofsTrace Examples Examples2.

(* In every reachable state of every configuration with maxActiveRuns = k > 0 - that is after every prefix of
   every execution, whatever the DAG, the outcomes and the interleaving - at most k nodes are in state running
   (the quantity the code counts), at most k workers are between launch and the end of their retry interval,
   at most k are executing or waiting out a retry interval, and at most k commands are executing. *)
Theorem C15_bound : forall c : cfg, norepeat c ->
  forall s, Reach c s -> maxActive c > 0 ->
    running_count c s <= maxActive c /\ active_count c s <= maxActive c /\
    retrywait_count c s <= maxActive c /\ exec_count c s <= maxActive c.
Proof. exact C15_bound_all. Qed.
Print Assumptions C15_bound.

(* ... hence on the VISIBLE trace (entries/exits of the executor's Run) of every execution the number of open Run calls
   never exceeds k: mon_open is the untimed part of the monitor the check evaluates on the real scheduler's traces. *)
Theorem C15_on_every_trace : forall c : cfg, norepeat c ->
  forall ls s, maxActive c > 0 -> run c (init c) ls = Some s -> mon_open (maxActive c) [] (vis ls) = true.
Proof. exact mon_open_holds. Qed.
Print Assumptions C15_on_every_trace.

(* a step waiting out its retry interval keeps status running, i.e. occupies a slot (unless the run was stopped) *)
Theorem C15_retrywait_is_running : forall c : cfg, norepeat c ->
  forall s i, Reach c s -> canceled s = false -> ph (nd s i) = PRetryWait -> st (nd s i) = NRunning.
Proof. exact retrywait_is_running. Qed.
Print Assumptions C15_retrywait_is_running.

(* maxActiveRuns = 0: the capacity test never blocks a launch *)
Theorem C15_unbounded : forall (c : cfg) s i, maxActive c = 0 ->
  i < nsteps c -> pc s = LHead -> st (nd s i) = NNone -> ready c s i = true -> canceled s = false ->
  step c s (LCommit i) = Some (set_pc s (LCommitted i)).
Proof. exact C15_unbounded_commit. Qed.
Print Assumptions C15_unbounded.

(* "The limit never prevents a run from completing", in three parts, for every configuration whose dependency
   relation is well-founded (what NewExecutionGraph guarantees, C14):
   (1) every label strictly decreases an explicit measure, so EVERY execution is finite, with the bound
       sum_i (12 * retryLimit_i + 9) + 8 + (n+1) * (number of Signal calls) + 1; *)
Theorem C15_all_executions_finite : forall c : cfg, norepeat c ->
  forall ls s, run c (init c) ls = Some s -> length ls <= bound c.
Proof. exact all_executions_finite. Qed.
Print Assumptions C15_all_executions_finite.

Theorem C15_measure_decreases : forall c : cfg, norepeat c ->
  forall s l s', Inv c s -> step c s l = Some s' -> measure c s' < measure c s.
Proof. exact step_measure. Qed.
Print Assumptions C15_measure_decreases.

(* (2) progress: in every reachable state other than Done the scheduler itself has an enabled step, unless a command
       or a handler is executing (then the environment's "command ends" is enabled) - the capacity test never
       deadlocks the loop: it refuses a launch only while some node is running, and a running node has a live worker; *)
Theorem C15_progress : forall c : cfg, norepeat c ->
  forall s, Reach c s -> wf_deps c -> pc s <> LDone ->
  (exists l s', internal l = true /\ step c s l = Some s') \/
  (exists i, i < nsteps c /\ ph (nd s i) = PExec) \/ (exists h t, pc s = LHandlers (h :: t) true).
Proof. exact progress. Qed.
Print Assumptions C15_progress.

(* (3) hence from every reachable state the run can be driven to Done, and by (1) every maximal execution ends there. *)
Theorem C15_can_complete : forall c : cfg, norepeat c ->
  forall s, Reach c s -> wf_deps c -> exists ls s', run c s ls = Some s' /\ pc s' = LDone.
Proof. exact can_complete. Qed.
Print Assumptions C15_can_complete.

(* Non-vacuity: the diamond a -> {b,c} -> d with maxActiveRuns = 2 reaches a state in which two commands execute
   (the bound is attained) and the launch of a further step is refused there. *)
Example C15_nonvacuous :
  (donech diamond = true /\ norepeat diamond) /\
  exists s, run diamond (init diamond) diamond_two = Some s /\ maxActive diamond = 2 /\
            exec_count diamond s = 2 /\ running_count diamond s = 2 /\ step diamond s (LCommit 3) = None.
Proof. exact (conj diamond_ok diamond_two_running). Qed.

(* the diamond's dependency relation is well-founded and its complete run (28 labels) is within the bound *)
Example C15_nonvacuous_termination :
  wf_deps diamond /\
  exists s, run diamond (init diamond) diamond_full = Some s /\ pc s = LDone /\ quiet s /\ dry diamond = false /\
     map (fun i => (st (nd s i), rc (nd s i), att (nd s i), outs (nd s i))) [0; 1; 2; 3] =
       [(NSuccess, 0, 1, [true]); (NSuccess, 1, 2, [true; false]); (NSuccess, 0, 1, [true]); (NSuccess, 0, 1, [true])] /\
     length diamond_full <= bound diamond.
Proof. exact (conj diamond_wf diamond_done). Qed.

(* History (fixed by f9e55a3): with done == nil two commands could run with maxActiveRuns = 1 (the stale worker of a
   retried step flipped the running attempt to finished, so the capacity count missed it).  Repaired: *)
Example C15_done_nil_flip_repaired :
  exists s, run flip_cfg (init flip_cfg) flip_exec = Some s /\
            norepeat flip_cfg /\ donech flip_cfg = false /\ maxActive flip_cfg = 1 /\
            In 0 (deps (steps flip_cfg 1)) /\ ph (nd s 0) = PExec /\ st (nd s 0) = NRunning /\
            step flip_cfg s (LCommit 1) = None.
Proof. exact stale_flip_repaired. Qed.

(* Why norepeat is a premise of C15_bound: maxActiveRuns = 1; step 0 (repeatPolicy + continueOn.failure) fails once, is
   labelled failed and waits to repeat; step 1 is launched (no node is in state running); step 0 repeats: two commands
   execute (exec_count = 2) while the quantity the code counts is 1. *)
Example C15_repeating_step_refuted :
  maxActive repeat_cof_cfg = 1 /\ donech repeat_cof_cfg = true /\
  exists s1 s2 s3, run repeat_cof_cfg (init repeat_cof_cfg) repeat_cof_pre = Some s1 /\
    step repeat_cof_cfg s1 (WExecStart 1) = Some s2 /\ run repeat_cof_cfg s2 repeat_cof_post = Some s3 /\
    In 0 (deps (steps repeat_cof_cfg 1)) /\ In (WExecStart 0) repeat_cof_post /\
    st (nd s1 0) = NError /\ ph (nd s1 0) = PRepeatWait /\
    ph (nd s3 0) = PExec /\ ph (nd s3 1) = PExec /\ exec_count repeat_cof_cfg s3 = 2 /\ running_count repeat_cof_cfg s3 = 1.
Proof. exact repeat_cof_breaks_order_and_cap. Qed.

(* A command that cannot be created (the theorems above cover it: in the model it is the label WCreateFail, an attempt
   that fails without a command having been started): step 0 (retry limit 1, continueOn.failure, maxActiveRuns = 1)
   fails to create its command once, waits out the retry interval still RUNNING - the slot stays taken during the retry interval and is freed afterwards: step 1 is refused meanwhile -,
   then executes and succeeds; only then step 1 is launched. *)
Example C15_creation_failure_nonvacuous :
  norepeat cfail_cfg /\ maxActive cfail_cfg = 1 /\
  exists s1 s2, run cfail_cfg (init cfail_cfg) cfail_pre = Some s1 /\
    st (nd s1 0) = NRunning /\ ph (nd s1 0) = PRetryWait /\ rc (nd s1 0) = 1 /\ outs (nd s1 0) = [false] /\
    step cfail_cfg s1 (LCommit 1) = None /\ step cfail_cfg s1 (WExecStart 0) = None /\
    run cfail_cfg s1 cfail_post = Some s2 /\
    st (nd s2 0) = NSuccess /\ rc (nd s2 0) = 1 /\ att (nd s2 0) = 2 /\ outs (nd s2 0) = [true; false] /\
    ph (nd s2 1) = PExec.
Proof. exact cfail_retry_ok. Qed.
