(* C15 - no more steps run at once than maxActiveRuns allows.
   This file holds nothing but the property theorems (closed by `exact`) and Print Assumptions.
   Model: Sched/Model.v (scheduler.go:98-259, node.go).  Proofs: Sched/Proofs.v (invariant), Sched/ProofsTerm.v
   (measure, progress).  Tie to the code: tools/props/C15.py (trace validation of the real scheduler).
   Premises of every theorem: donech c = true (Schedule is given a done channel, as the agent always does) and
   norepeat c (no repeatPolicy step; those belong to C05). *)
From Coq Require Import List.
Import ListNotations.
From BD.Sched Require Import Model Proofs Examples.

(* In every reachable state of every configuration with maxActiveRuns = k > 0 - that is after every prefix of
   every execution, whatever the DAG, the outcomes and the interleaving - at most k nodes are in state running
   (the quantity the code counts), at most k workers are between launch and the end of their retry interval,
   at most k are executing or waiting out a retry interval, and at most k commands are executing. *)
Theorem C15_bound : forall c : cfg, donech c = true -> norepeat c ->
  forall s, Reach c s -> maxActive c > 0 ->
    running_count c s <= maxActive c /\ active_count c s <= maxActive c /\
    retrywait_count c s <= maxActive c /\ exec_count c s <= maxActive c.
Proof. exact C15_bound_all. Qed.
Print Assumptions C15_bound.

(* a step waiting out its retry interval keeps status running, i.e. occupies a slot (unless the run was stopped) *)
Theorem C15_retrywait_is_running : forall c : cfg, donech c = true -> norepeat c ->
  forall s i, Reach c s -> canceled s = false -> ph (nd s i) = PRetryWait -> st (nd s i) = NRunning.
Proof. exact retrywait_is_running. Qed.
Print Assumptions C15_retrywait_is_running.

(* maxActiveRuns = 0: the capacity test never blocks a launch *)
Theorem C15_unbounded : forall (c : cfg) s i, maxActive c = 0 ->
  i < nsteps c -> pc s = LHead -> st (nd s i) = NNone -> ready c s i = true -> canceled s = false ->
  step c s (LCommit i) = Some (set_pc s (LCommitted i)).
Proof. exact C15_unbounded_commit. Qed.
Print Assumptions C15_unbounded.

(* Non-vacuity: the diamond a -> {b,c} -> d with maxActiveRuns = 2 reaches a state in which two commands execute
   (the bound is attained) and the launch of a further step is refused there. *)
Example C15_nonvacuous :
  (donech diamond = true /\ norepeat diamond) /\
  exists s, run diamond (init diamond) diamond_two = Some s /\ maxActive diamond = 2 /\
            exec_count diamond s = 2 /\ running_count diamond s = 2 /\ step diamond s (LCommit 3) = None.
Proof. exact (conj diamond_ok diamond_two_running). Qed.

(* Why the premise donech = true: with done == nil the faithful model runs two commands with maxActiveRuns = 1. *)
Theorem C15_without_done_channel_refuted :
  exists s, run flip_cfg (init flip_cfg) flip_exec = Some s /\
            norepeat flip_cfg /\ donech flip_cfg = false /\ maxActive flip_cfg = 1 /\
            In 0 (deps (steps flip_cfg 1)) /\ ph (nd s 0) = PExec /\ ph (nd s 1) = PExec.
Proof. exact stale_flip_refuted. Qed.
Print Assumptions C15_without_done_channel_refuted.
