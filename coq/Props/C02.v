(* C02 - failure and skip containment: final step states follow the DAG semantics.
   This file holds nothing but the property theorems (closed by `exact`) and Print Assumptions.
   Model: Sched/Model.v.  Proofs: Sched/ProofsFinal.v (invariants I6/I7).  Tie to the code: tools/props/C02.py.
   An ATTEMPT is a Run of the step's command or a failed creation of that command (label WCreateFail: the attempt ends in
   error without a command having been started; att and outs count it as a failed attempt).
   Premise: norepeat c (no repeatPolicy step: a repeating step has no last attempt until a stop request - stopped runs
   are C04/C05 - and with continueOn.failure it is labelled failed while it keeps executing, see
   C15_repeating_step_refuted).  Since fix f9e55a3 no premise about the done channel is needed.
   Reading kept explicit: a *canceled* dependency blocks its dependents irrespective of continueOn.failure - that is
   what isReady does (scheduler.go:379-381) and what the property's local-consistency quantifier allows. *)
From Coq Require Import List.
Import ListNotations.
From BD.Sched Require Import Model Proofs ProofsFinal Examples ProofsDown.

(* For every configuration and every execution that reaches Done without stop request or timeout (quiet), for every
   step i, with  blocked i := some dependency ended failed without continueOn.failure, canceled, or skipped without
   continueOn.skipped (dep_mark <> None on the final table):
   - blocked:                      never executed; ends canceled or skipped, and a dependency of exactly that kind exists;
   - not blocked, precondition unmet:  never executed; ends skipped;
   - not blocked, precondition met, dry run:        nothing executed, ends finished;
   - not blocked, precondition met, set-up fails:   never executed, ends failed;
   - otherwise (runnable):  executed at least once; all attempts but the last failed; finished iff the last attempt
     succeeded; failed only with the retries exhausted (retryCount = limit). *)
Theorem C02_final_states : forall c : cfg, norepeat c ->
  forall s, Reach c s -> quiet s -> pc s = LDone -> forall i, i < nsteps c ->
  (blocked c s i = true ->
     att (nd s i) = 0 /\ ((st (nd s i) = NCancel /\ blocker c s i NCancel) \/
                          (st (nd s i) = NSkipped /\ blocker c s i NSkipped))) /\
  (blocked c s i = false -> pre (steps c i) = false -> att (nd s i) = 0 /\ st (nd s i) = NSkipped) /\
  (blocked c s i = false -> pre (steps c i) = true -> dry c = true -> att (nd s i) = 0 /\ st (nd s i) = NSuccess) /\
  (blocked c s i = false -> pre (steps c i) = true -> dry c = false -> sfail (steps c i) = true ->
     att (nd s i) = 0 /\ st (nd s i) = NError) /\
  (blocked c s i = false -> pre (steps c i) = true -> dry c = false -> sfail (steps c i) = false ->
     ran_to_end c s i).
Proof. exact final_states. Qed.
Print Assumptions C02_final_states.

(* "Steps not downstream of any such step always run to completion." *)
Theorem C02_unaffected_run : forall c : cfg, norepeat c ->
  forall s, Reach c s -> quiet s -> pc s = LDone -> forall i, i < nsteps c ->
  dry c = false -> sfail (steps c i) = false -> pre (steps c i) = true ->
  (forall d, In d (deps (steps c i)) -> dep_mark c s d = None) ->
  att (nd s i) >= 1 /\ (st (nd s i) = NSuccess \/ st (nd s i) = NError).
Proof. exact unaffected_run. Qed.
Print Assumptions C02_unaffected_run.

(* Transitive form of "every step downstream of ...": a step reached along dependency edges from a blocking dependency
   (failed without continueOn.failure, canceled, or skipped without continueOn.skipped), through intermediate steps that
   do not carry continueOn.skipped, has not been executed at all and ends canceled or skipped - for paths of any length.
   tdown c s i := some dependency of i is blocking, or some dependency d of i is itself tdown and has no continueOn.skipped. *)
Theorem C02_transitive_downstream : forall c : cfg, norepeat c ->
  forall s, Reach c s -> quiet s -> pc s = LDone -> forall i, tdown c s i ->
  att (nd s i) = 0 /\ (st (nd s i) = NCancel \/ st (nd s i) = NSkipped).
Proof. exact transitive_downstream. Qed.
Print Assumptions C02_transitive_downstream.

(* Containment, the converse direction: nothing outside the downstream set is cut - a step ends canceled only if one of
   its dependencies is blocking, and ends skipped with its own precondition met only then. *)
Theorem C02_cut_only_downstream : forall c : cfg, norepeat c ->
  forall s, Reach c s -> quiet s -> pc s = LDone -> forall i, i < nsteps c ->
  (st (nd s i) = NCancel \/ (st (nd s i) = NSkipped /\ pre (steps c i) = true)) -> blocked c s i = true.
Proof. exact cut_only_downstream. Qed.
Print Assumptions C02_cut_only_downstream.

(* Non-vacuity.  (1) A run with every kind of outcome reaches Done quietly: a fails twice (limit 1) and blocks b
   (canceled); c's precondition is unmet (skipped) and without continueOn.skipped makes d skipped; e finishes.
   (2) The diamond run with one retry finishes everywhere.  Both satisfy every premise of the theorems. *)
Example C02_nonvacuous :
  ((donech mixed = true /\ norepeat mixed) /\
   exists s, run mixed (init mixed) mixed_full = Some s /\ pc s = LDone /\ quiet s /\ dry mixed = false /\
     map (fun i => (st (nd s i), rc (nd s i), att (nd s i))) [0; 1; 2; 3; 4] =
       [(NError, 1, 2); (NCancel, 0, 0); (NSkipped, 0, 0); (NSkipped, 0, 0); (NSuccess, 0, 1)] /\
     map (blocked mixed s) [0; 1; 2; 3; 4] = [false; true; false; true; false] /\
     map (runnable mixed s) [0; 1; 2; 3; 4] = [true; false; false; false; true] /\
     lasterr s = true).
Proof. exact (conj mixed_ok mixed_done). Qed.

(* (3) a -> b -> c with a failing: c is downstream of a through two edges; premises of C02_transitive_downstream hold. *)
Example C02_transitive_nonvacuous :
  norepeat chain3 /\
  exists s, run chain3 (init chain3) chain3_full = Some s /\ pc s = LDone /\ quiet s /\
    tdown chain3 s 2 /\ blocked chain3 s 2 = true /\ dep_mark chain3 s 0 = Some NCancel /\
    map (fun i => (st (nd s i), att (nd s i))) [0; 1; 2] = [(NError, 1); (NCancel, 0); (NCancel, 0)].
Proof. exact chain3_down. Qed.
