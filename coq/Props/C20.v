(* C20 - control actions through the API respect the state of the run.
   This file holds nothing but the property theorems (closed by `exact`), Print Assumptions and Examples.
   Model: Api/Model.v (`post` = handler.go postAction / processUpdateStatus over client.go GetStatus,
   GetLatestStatus, GetStatusByRequestID, UpdateStatus, Start, Stop, Retry, ToggleSuspend; cmd/start.go
   removeQuotes) on the DagStore world; proofs: Api/Proofs.v.
   Tie to the code: tools/props/C20.py (the real handler over a real client / data store / sockets, the full
   state x action x argument table and random sequences replayed on `post`, property monitors on the dumps).

   All theorems quantify over EVERY world a (definitions, histories of all DAGs with any number of recorded
   runs, flags, live agents), every DAG id and every request body; valid / graph_ok (verdicts of the loader and
   of the graph check on a text), the DAGs directory and the exit status of a spawned retry are universally
   quantified.  `view a id = Some loc` = client.GetStatus(id) succeeds and the DAG's location is loc;
   `latest_status a loc` = the status the guards look at (live agent's answer, else last recorded status with
   running corrected to failed, else none). *)
From Coq Require Import List String Ascii Bool ZArith.
Import ListNotations.
From BD.DagStore Require Import Model.
From BD.Api Require Import Model Proofs.
Open Scope string_scope.

(* start while running: 400, world unchanged, nothing spawned *)
Theorem C20_start_guard : forall valid graph_ok meta_ok dir retry_ok a id b loc,
  b_action b = Some "start" -> view valid graph_ok dir (a_w a) id = Some loc -> latest_status a loc = st_running ->
  post valid graph_ok meta_ok dir retry_ok a id b = (400, a, []).
Proof. exact start_guard. Qed.
Print Assumptions C20_start_guard.

(* stop while not running: 400, world unchanged, no stop request *)
Theorem C20_stop_guard : forall valid graph_ok meta_ok dir retry_ok a id b loc,
  b_action b = Some "stop" -> view valid graph_ok dir (a_w a) id = Some loc -> latest_status a loc <> st_running ->
  post valid graph_ok meta_ok dir retry_ok a id b = (400, a, []).
Proof. exact stop_guard. Qed.
Print Assumptions C20_stop_guard.

Theorem C20_stop_accepted : forall valid graph_ok meta_ok dir retry_ok a id b loc,
  b_action b = Some "stop" -> view valid graph_ok dir (a_w a) id = Some loc -> latest_status a loc = st_running ->
  live_get loc (a_live a) <> None ->
  post valid graph_ok meta_ok dir retry_ok a id b = (200, a, [EStop loc]).
Proof. exact stop_accepted. Qed.
Print Assumptions C20_stop_accepted.

(* mark-success / mark-failed while running: 400, world unchanged, nothing started *)
Theorem C20_mark_guard : forall valid graph_ok meta_ok dir retry_ok a id b act loc,
  b_action b = Some act -> is_mark act -> view valid graph_ok dir (a_w a) id = Some loc -> latest_status a loc = st_running ->
  fst (fst (post valid graph_ok meta_ok dir retry_ok a id b)) = 400 /\
  snd (fst (post valid graph_ok meta_ok dir retry_ok a id b)) = a /\
  snd (post valid graph_ok meta_ok dir retry_ok a id b) = [].
Proof. exact mark_guard. Qed.
Print Assumptions C20_mark_guard.

(* The DAG's process owns the control socket but does not answer within the timeout (live status st_timeout): the
   guard on the latest status falls back to the recorded history, but a status edit is still refused - by
   UpdateStatus - with the world unchanged; a stop is refused as well. *)
Theorem C20_mark_unresponsive : forall valid graph_ok meta_ok dir retry_ok a id b act loc rq,
  b_action b = Some act -> is_mark act -> view valid graph_ok dir (a_w a) id = Some loc ->
  live_get loc (a_live a) = Some (rq, st_timeout) ->
  fst (fst (post valid graph_ok meta_ok dir retry_ok a id b)) <> 200 /\
  snd (fst (post valid graph_ok meta_ok dir retry_ok a id b)) = a /\
  snd (post valid graph_ok meta_ok dir retry_ok a id b) = [].
Proof. exact mark_unresponsive_refused. Qed.
Print Assumptions C20_mark_unresponsive.

Theorem C20_stop_unresponsive : forall valid graph_ok meta_ok dir retry_ok a id b loc rq,
  b_action b = Some "stop" -> view valid graph_ok dir (a_w a) id = Some loc ->
  live_get loc (a_live a) = Some (rq, st_timeout) ->
  post valid graph_ok meta_ok dir retry_ok a id b = (400, a, []).
Proof. exact stop_unresponsive_refused. Qed.
Print Assumptions C20_stop_unresponsive.

(* An accepted status edit: the DAG is not running; the run i of THIS DAG whose last status s carries the request
   id grows by ONE status s' that equals s except for the status of the named step j (and the top-level
   running -> failed relabel when that run is not the live one); every other run, every other DAG's history,
   every definition, flag and live agent is unchanged; nothing is started or stopped. *)
Theorem C20_mark_exact : forall valid graph_ok meta_ok dir retry_ok a id b act loc a' ev,
  b_action b = Some act -> is_mark act -> view valid graph_ok dir (a_w a) id = Some loc ->
  post valid graph_ok meta_ok dir retry_ok a id b = (200, a', ev) ->
  let rs := h_get loc (w_hist (a_w a)) in
  let rs' := h_get loc (w_hist (a_w a')) in
  ev = [] /\ a_live a' = a_live a /\ w_defs (a_w a') = w_defs (a_w a) /\ w_flags (a_w a') = w_flags (a_w a) /\
  (forall l, l <> loc -> h_get l (w_hist (a_w a')) = h_get l (w_hist (a_w a))) /\
  latest_status a loc <> st_running /\
  exists i r s j n s',
    nth_error rs i = Some r /\ last_line r = Some s /\ s_req s = b_reqid b /\
    nth_error (s_nodes s) j = Some n /\ n_name n = b_step b /\
    List.length rs' = List.length rs /\
    (forall k, k <> i -> nth_error rs' k = nth_error rs k) /\
    nth_error rs' i = Some (mkRun (r_stamp r) (r_lines r ++ [s'])) /\
    s_req s' = s_req s /\
    s_st s' = (if Nat.eqb (s_st s) st_running && negb (addressed_live a loc (b_reqid b)) then st_error else s_st s) /\
    List.length (s_nodes s') = List.length (s_nodes s) /\
    (forall k, k <> j -> nth_error (s_nodes s') k = nth_error (s_nodes s) k) /\
    nth_error (s_nodes s') j = Some (mkNode (b_step b) (mark_target act)).
Proof. exact mark_exact. Qed.
Print Assumptions C20_mark_exact.

(* An accepted start with parameters free of CR, LF and NUL (params_safe) runs exactly
   `start -p "<params>" <location>` (`start <location>` for empty parameters) and cmd/start.go's removeQuotes
   gives back exactly the parameters; the world is unchanged. *)
Theorem C20_start_params : forall valid graph_ok meta_ok dir retry_ok a id b loc,
  b_action b = Some "start" -> view valid graph_ok dir (a_w a) id = Some loc -> latest_status a loc <> st_running ->
  params_safe (b_params b) = true -> has_char ch_nul loc = false ->
  (b_params b = "" /\ post valid graph_ok meta_ok dir retry_ok a id b = (200, a, [ESpawn ["start"; loc]])) \/
  (b_params b <> "" /\ exists q, post valid graph_ok meta_ok dir retry_ok a id b = (200, a, [ESpawn ["start"; "-p"; q; loc]]) /\
                                 remove_quotes q = b_params b).
Proof. exact start_params. Qed.
Print Assumptions C20_start_params.

(* C20_start_params for ALL parameter strings is FALSE (F20a) - and the premise is the exact class:
   any CR or LF is rewritten, any NUL means nothing is started. *)
Theorem C20_start_params_refuted :
  exists p, params_safe p = false /\ remove_quotes (quote (escape_arg p)) <> p /\
            remove_quotes (quote (escape_arg p)) = "l1" ++ String ch_bslash "nl2".
Proof. exact start_params_refuted. Qed.
Print Assumptions C20_start_params_refuted.

Theorem C20_start_params_crlf_rewritten : forall p,
  has_char ch_cr p || has_char ch_lf p = true -> remove_quotes (quote (escape_arg p)) <> p.
Proof. exact start_params_crlf_rewritten. Qed.
Print Assumptions C20_start_params_crlf_rewritten.

Theorem C20_start_params_nul_nothing : forall p loc, has_char ch_nul p = true -> spawn (start_argv p loc) = [].
Proof. exact start_params_nul_nothing. Qed.
Print Assumptions C20_start_params_nul_nothing.

(* Whatever the world, the DAG id and the body: an answer other than 200 means the world is unchanged and nothing
   was started or stopped (only a retry whose process then fails has been started).  Full statement since fe0ec16;
   standing assumptions: absolute DAGs directory, and for action rename both ids are single path elements. *)
Theorem C20_refused_nothing : forall valid graph_ok meta_ok dir retry_ok, is_abs dir = true -> forall a id b c a' ev,
  post valid graph_ok meta_ok dir retry_ok a id b = (c, a', ev) -> c <> 200 ->
  (b_action b = Some "rename" -> has_slash id = false /\ has_slash (b_value b) = false) ->
  a' = a /\ (ev = [] \/ (b_action b = Some "retry" /\ b_reqid b <> "" /\ retry_ok = false)).
Proof. exact refused_nothing. Qed.
Print Assumptions C20_refused_nothing.

(* ... and these requests ARE refused: missing action, unknown action, unknown DAG, missing request id, missing
   step, unknown request id, unknown step, retry without request id, rename without a name, save of a rejected text *)
Theorem C20_refused_missing_action : forall valid graph_ok meta_ok dir retry_ok a id b,
  b_action b = None -> post valid graph_ok meta_ok dir retry_ok a id b = (400, a, []).
Proof. exact refused_missing_action. Qed.
Print Assumptions C20_refused_missing_action.

Theorem C20_refused_unknown_action : forall valid graph_ok meta_ok dir retry_ok a id b act,
  b_action b = Some act -> known_action act = false -> post valid graph_ok meta_ok dir retry_ok a id b = (400, a, []).
Proof. exact refused_unknown_action. Qed.
Print Assumptions C20_refused_unknown_action.

Theorem C20_refused_unknown_dag : forall valid graph_ok meta_ok dir retry_ok a id b act,
  b_action b = Some act -> act <> "save" -> view valid graph_ok dir (a_w a) id = None ->
  post valid graph_ok meta_ok dir retry_ok a id b = (400, a, []).
Proof. exact refused_unknown_dag. Qed.
Print Assumptions C20_refused_unknown_dag.

Theorem C20_refused_mark_malformed : forall valid graph_ok meta_ok dir retry_ok a id b act loc,
  b_action b = Some act -> is_mark act -> view valid graph_ok dir (a_w a) id = Some loc ->
  (b_reqid b = "" \/ b_step b = "") -> post valid graph_ok meta_ok dir retry_ok a id b = (400, a, []).
Proof. exact refused_mark_malformed. Qed.
Print Assumptions C20_refused_mark_malformed.

Theorem C20_refused_mark_unknown_request : forall valid graph_ok meta_ok dir retry_ok a id b act loc,
  b_action b = Some act -> is_mark act -> view valid graph_ok dir (a_w a) id = Some loc ->
  pick_idx (b_reqid b) (h_get loc (w_hist (a_w a))) = None ->
  snd (fst (post valid graph_ok meta_ok dir retry_ok a id b)) = a /\
  snd (post valid graph_ok meta_ok dir retry_ok a id b) = [] /\
  fst (fst (post valid graph_ok meta_ok dir retry_ok a id b)) <> 200.
Proof. exact refused_mark_unknown_request. Qed.
Print Assumptions C20_refused_mark_unknown_request.

Theorem C20_refused_mark_unknown_step : forall valid graph_ok meta_ok dir retry_ok a id b act loc,
  b_action b = Some act -> is_mark act -> view valid graph_ok dir (a_w a) id = Some loc ->
  (forall r s, In r (h_get loc (w_hist (a_w a))) -> last_line r = Some s ->
               forall n, In n (s_nodes s) -> n_name n <> b_step b) ->
  snd (fst (post valid graph_ok meta_ok dir retry_ok a id b)) = a /\
  snd (post valid graph_ok meta_ok dir retry_ok a id b) = [] /\
  fst (fst (post valid graph_ok meta_ok dir retry_ok a id b)) <> 200.
Proof. exact refused_mark_unknown_step. Qed.
Print Assumptions C20_refused_mark_unknown_step.

Theorem C20_refused_retry_missing_request : forall valid graph_ok meta_ok dir retry_ok a id b,
  b_action b = Some "retry" -> b_reqid b = "" -> post valid graph_ok meta_ok dir retry_ok a id b = (400, a, []).
Proof. exact refused_retry_missing_request. Qed.
Print Assumptions C20_refused_retry_missing_request.

Theorem C20_refused_rename_missing_name : forall valid graph_ok meta_ok dir retry_ok a id b,
  b_action b = Some "rename" -> b_value b = "" -> post valid graph_ok meta_ok dir retry_ok a id b = (400, a, []).
Proof. exact refused_rename_missing_name. Qed.
Print Assumptions C20_refused_rename_missing_name.

Theorem C20_refused_save_invalid : forall valid graph_ok meta_ok dir retry_ok a id b,
  b_action b = Some "save" -> valid (b_value b) = false -> post valid graph_ok meta_ok dir retry_ok a id b = (500, a, []).
Proof. exact refused_save_invalid. Qed.
Print Assumptions C20_refused_save_invalid.

(* Non-vacuity: a DAG with an older failed run, a current run (running with a live agent / recorded running with
   nobody listening / failed) and a neighbour DAG with its own run and flag. *)
Example C20_ex_guards :
  post ok_all ok_all ok_all "/d" true a_running "a" (bd "start" "" "" "p") = (400, a_running, []) /\
  post ok_all ok_all ok_all "/d" true a_failed "a" (bd "stop" "" "" "") = (400, a_failed, []) /\
  post ok_all ok_all ok_all "/d" true a_running "a" (bd "mark-success" "rc" "s1" "") = (400, a_running, []) /\
  post ok_all ok_all ok_all "/d" true a_running "a" (bd "stop" "" "" "") = (200, a_running, [EStop "/d/a.yaml"]) /\
  view ok_all ok_all "/d" (a_w a_running) "a" = Some "/d/a.yaml" /\ latest_status a_running "/d/a.yaml" = st_running /\
  latest_status a_failed "/d/a.yaml" = 2%nat /\ latest_status a_crashed "/d/a.yaml" = 2%nat.
Proof. exact ex_guards. Qed.

Example C20_ex_unresponsive :
  latest_status a_unresponsive "/d/a.yaml" = 2%nat /\
  post ok_all ok_all ok_all "/d" true a_unresponsive "a" (bd "mark-success" "rc" "s1" "") = (500, a_unresponsive, []) /\
  post ok_all ok_all ok_all "/d" true a_unresponsive "a" (bd "mark-failed" "ro" "s2" "") = (500, a_unresponsive, []) /\
  post ok_all ok_all ok_all "/d" true a_unresponsive "a" (bd "stop" "" "" "") = (400, a_unresponsive, []).
Proof. exact ex_unresponsive. Qed.

Example C20_ex_mark_exact :
  post ok_all ok_all ok_all "/d" true a_crashed "a" (bd "mark-success" "rc" "s2" "") =
    (200, mkA (world_ex [mkStatus "rc" 1 [mkNode "s1" 4; mkNode "s2" 1]; mkStatus "rc" 2 [mkNode "s1" 4; mkNode "s2" 4]]) [], []) /\
  post ok_all ok_all ok_all "/d" true a_failed "a" (bd "mark-failed" "ro" "s2" "") =
    (200, mkA (mkW [("/d/a.yaml", "T1"); ("/d/ab.yaml", "T1")]
               [("/d/a.yaml", [mkRun 1000 [mkStatus "ro" 2 [mkNode "s1" 2; mkNode "s2" 0]; mkStatus "ro" 2 [mkNode "s1" 2; mkNode "s2" 2]];
                               mkRun 2000 [mkStatus "rc" 1 [mkNode "s1" 1; mkNode "s2" 0]; mkStatus "rc" 2 [mkNode "s1" 4; mkNode "s2" 2]]]);
                ("/d/ab.yaml", [mkRun 5000 [mkStatus "rn" 2 [mkNode "s1" 4; mkNode "s2" 2]]])] ["ab.suspend"]) [], []).
Proof. exact ex_mark_exact. Qed.

Example C20_ex_start_params :
  post ok_all ok_all ok_all "/d" true a_failed "a" (bd "start" "" "" "x=1 y") =
    (200, a_failed, [ESpawn ["start"; "-p"; quote "x=1 y"; "/d/a.yaml"]]) /\
  params_safe "x=1 y" = true /\ remove_quotes (quote "x=1 y") = "x=1 y".
Proof. exact ex_start_params. Qed.

Example C20_ex_refused :
  post ok_all ok_all ok_all "/d" true a_failed "a" (mkBody None "" "rc" "s1" "") = (400, a_failed, []) /\
  post ok_all ok_all ok_all "/d" true a_failed "a" (bd "frobnicate" "rc" "s1" "") = (400, a_failed, []) /\
  post ok_all ok_all ok_all "/d" true a_failed "a" (bd "mark-success" "" "s1" "") = (400, a_failed, []) /\
  post ok_all ok_all ok_all "/d" true a_failed "a" (bd "mark-success" "rc" "" "") = (400, a_failed, []) /\
  post ok_all ok_all ok_all "/d" true a_failed "a" (bd "mark-success" "rc" "zz" "") = (400, a_failed, []) /\
  post ok_all ok_all ok_all "/d" true a_failed "a" (bd "mark-success" "rn" "s1" "") = (500, a_failed, []) /\
  post ok_all ok_all ok_all "/d" true a_failed "nope" (bd "start" "" "" "") = (400, a_failed, []).
Proof. exact ex_refused. Qed.
