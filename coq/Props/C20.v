(* C20 - placeholder while the proofs are being written *)
From BD.Api Require Import Model.
