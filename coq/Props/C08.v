(* C08 - reported status is truthful: live while running, final afterwards, never stuck.
   This file holds only property theorems (closed by `exact`), Print Assumptions and Examples.
   Model: Status/Model.v (Scheduler.Status clause by clause; the agent's persisted snapshot sequence as a transition
   system over an abstract step scheduler - snapshot goroutines with separate compute / append labels, Close's compaction;
   client.GetLatestStatus; the daemon's Start guard; the socket as absent / stale / live).
   `fx = false` is the pinned code, `fx = true` the candidate repair fixes/F8a.diff.
   Every theorem quantifies over all table sizes n, socket pre-states s0 and label sequences ls; `exec ... ls = Some st`
   for an arbitrary ls means: st is the state at an arbitrary kill point of an arbitrary interleaving.
   Tie to the code: tools/props/C08.py (in-process agent runs: persisted lines and live answers against Status/Check.v;
   the real binary killed at system-call boundaries and time offsets). *)
From Coq Require Import List.
Import ListNotations.
From BD.Status Require Import Model Proofs Check ProofsCheck.

(* While the run is in progress (Schedule started, not returned) the socket is bound and the reported status is `running`
   with the node table of the current state; more generally whenever the socket answers. *)
Theorem C08_live : forall fx n s0 ls st,
  exec fx (init n s0) ls = Some st -> in_progress st = true ->
  alive st = true /\ report fx n st = (mkSnap ORunning (tbl (sc st)), false).
Proof. exact live_in_progress. Qed.
Print Assumptions C08_live.

Theorem C08_live_when_bound : forall fx n st,
  alive st = true -> report fx n st = (mkSnap ORunning (tbl (sc st)), false).
Proof. exact live_when_bound. Qed.
Print Assumptions C08_live_when_bound.

Example C08_live_nonvacuous : exists st,
  exec false (init 2 SockStale) [LOpen; LWriteS0; LBind; LSched AStart; LSched (ALaunch 0); LSched (AEnd 0 true)] = Some st /\
  in_progress st = true /\ map nst (s_tbl (fst (report false 2 st))) = [NSuccess; NNone] /\ s_ov (fst (report false 2 st)) = ORunning.
Proof. exact live_nonvacuous. Qed.

(* FULL STATEMENT (false of the pinned code, see C08_final_refuted):
     forall ls st, exec fx (init n s0) ls = Some st -> mp st = MClosed -> persisted st = PSnap (snap_of fx (sc st)).
   After a complete run the persisted status is the final state - provided no snapshot computed before Schedule returned
   was still waiting for the writer's lock when it returned (decidable premise on the execution: quiet_at_return). *)
Theorem C08_final_partial : forall fx n s0 ls st,
  exec fx (init n s0) ls = Some st ->
  quiet_at_return fx (init n s0) ls = true ->
  mp st = MClosed ->
  persisted st = PSnap (snap_of fx (sc st)) /\ report fx n st = (correct (snap_of fx (sc st)), false).
Proof. exact final_partial. Qed.
Print Assumptions C08_final_partial.

Example C08_final_premise_satisfiable : exists ls st,
  exec false (init 2 SockAbsent) ls = Some st /\ quiet_at_return false (init 2 SockAbsent) ls = true /\ mp st = MClosed /\
  s_ov (fst (report false 2 st)) = OSuccess.
Proof. exact final_partial_premise_satisfiable. Qed.

(* F8b: a run in which every step succeeded ends with the persisted status `running` (reported as failed) *)
Theorem C08_final_refuted : exists ls st,
  exec false (init 2 SockAbsent) ls = Some st /\ mp st = MClosed /\
  all_succeed (tbl (sc st)) = true /\ s_ov (snap_of false (sc st)) = OSuccess /\
  persisted st <> PSnap (snap_of false (sc st)) /\
  s_ov (fst (report false 2 st)) = OError /\ map nst (s_tbl (fst (report false 2 st))) = [NSuccess; NRunning].
Proof. exact final_refuted. Qed.
Print Assumptions C08_final_refuted.

(* After a kill anywhere the reported status is never `running`. *)
Theorem C08_crash_not_running : forall fx n s0 ls st,
  exec fx (init n s0) ls = Some st -> s_ov (fst (report fx n (after_kill st))) <> ORunning.
Proof. exact crash_not_running. Qed.
Print Assumptions C08_crash_not_running.

(* FULL STATEMENT (false of the pinned code, see C08_crash_refuted):
     forall ls st, exec false (init n s0) ls = Some st ->
       s_ov (fst (report false n (after_kill st))) = OSuccess -> all_succeed (tbl (sc st)) = true.
   ... and it is `finished` only if every step is finished or skipped - provided no snapshot was taken while
   Scheduler.Status was inside the window of F8a (decidable premise on the execution: no_gap_snapshot). *)
Theorem C08_crash_partial : forall fx n s0 ls st,
  exec fx (init n s0) ls = Some st ->
  no_gap_snapshot fx (init n s0) ls = true ->
  s_ov (fst (report fx n (after_kill st))) = OSuccess ->
  all_succeed (tbl (sc st)) = true.
Proof. exact crash_partial. Qed.
Print Assumptions C08_crash_partial.

Example C08_crash_premise_satisfiable : exists ls st,
  exec false (init 2 SockAbsent) ls = Some st /\ no_gap_snapshot false (init 2 SockAbsent) ls = true /\
  s_ov (fst (report false 2 (after_kill st))) = OSuccess /\ all_succeed (tbl (sc st)) = true.
Proof. exact crash_partial_premise_satisfiable. Qed.

(* F8a: chain of two steps, kill after the snapshot that follows the first: reported `finished`, second step not started *)
Theorem C08_crash_refuted : exists ls st,
  exec false (init 2 SockAbsent) ls = Some st /\
  s_ov (fst (report false 2 (after_kill st))) = OSuccess /\
  all_succeed (tbl (sc st)) = false /\
  map nst (s_tbl (fst (report false 2 (after_kill st)))) = [NSuccess; NNone].
Proof. exact crash_refuted. Qed.
Print Assumptions C08_crash_refuted.

(* With the repaired Scheduler.Status (fixes/F8a.diff) the full statement holds, no premise. *)
Theorem C08_crash_fixed : forall n s0 ls st,
  exec true (init n s0) ls = Some st ->
  s_ov (fst (report true n (after_kill st))) <> ORunning /\
  (s_ov (fst (report true n (after_kill st))) = OSuccess -> all_succeed (tbl (sc st)) = true).
Proof. exact crash_fixed. Qed.
Print Assumptions C08_crash_fixed.

(* The daemon: after a kill anywhere its Start guard never takes the DAG for running, and reaches the minute guard unless
   the kill fell between the creation of the history file and its first line (F7a: C08_daemon_refuted). *)
Theorem C08_daemon_not_running : forall fx n s0 ls st,
  exec fx (init n s0) ls = Some st -> job_guard (report fx n (after_kill st)) <> GRefusedRunning.
Proof. exact daemon_not_running. Qed.
Print Assumptions C08_daemon_not_running.

Theorem C08_daemon_partial : forall fx n s0 ls st,
  exec fx (init n s0) ls = Some st -> mp st <> MOpened ->
  job_guard (report fx n (after_kill st)) = GMinuteGuard.
Proof. exact daemon_partial. Qed.
Print Assumptions C08_daemon_partial.

Example C08_daemon_premise_satisfiable : exists st,
  exec false (init 2 SockAbsent) [LOpen; LWriteS0; LBind; LSched AStart; LSched (ALaunch 0)] = Some st /\ mp st <> MOpened /\
  job_guard (report false 2 (after_kill st)) = GMinuteGuard.
Proof. exact daemon_partial_premise_satisfiable. Qed.

Theorem C08_daemon_refuted : exists ls st,
  exec false (init 2 SockAbsent) ls = Some st /\ job_guard (report false 2 (after_kill st)) = GRefusedErr.
Proof. exact daemon_refuted. Qed.
Print Assumptions C08_daemon_refuted.

(* After a kill anywhere a new agent's probe says "not running" and its bind (after the unlink) succeeds; the unlink is
   what makes it so. *)
Theorem C08_restartable : forall fx n s0 ls st,
  exec fx (init n s0) ls = Some st ->
  probe_running (sock (after_kill st)) = false /\ bind_ok true (sock (after_kill st)) = true.
Proof. exact restartable. Qed.
Print Assumptions C08_restartable.

Theorem C08_unlink_needed : exists ls st,
  exec false (init 2 SockAbsent) ls = Some st /\ bind_ok false (sock (after_kill st)) = false.
Proof. exact unlink_needed. Qed.
Print Assumptions C08_unlink_needed.

(* The acceptance conditions of the correspondence check are necessary for model executions: every snapshot that exists
   anywhere reaches, node by node, the current state. *)
Theorem C08_snapshots_reach_current : forall fx n s0 ls st,
  exec fx (init n s0) ls = Some st ->
  forall x, In x (snaps st) -> tbl_reachb (s_tbl x) (tbl (sc st)) = true.
Proof. exact snapshots_reach_current. Qed.
Print Assumptions C08_snapshots_reach_current.

(* ... and carries Scheduler.Status of an earlier-or-equal scheduler state (Agent.Status reads the overall status before it
   copies the node table). *)
Theorem C08_snapshot_overall : forall fx n s0 ls st,
  exec fx (init n s0) ls = Some st ->
  forall x, In x (snaps st) -> exists s1, s_ov x = ov_of fx s1 /\ tbl_reachb (tbl s1) (s_tbl x) = true.
Proof. exact snapshot_overall. Qed.
Print Assumptions C08_snapshot_overall.
