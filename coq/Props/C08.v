(* C08 - reported status is truthful: live while running, final afterwards, never stuck.
   This file holds only property theorems (closed by `exact`), Print Assumptions and Examples.
   Model: Status/Model.v (Scheduler.Status clause by clause; the agent's persisted snapshot sequence as a transition
   system over an abstract step scheduler - snapshot threads under statusLock with separate lock / read / copy / append labels,
   Close's compaction;
   client.GetLatestStatus; the daemon's Start guard; the socket as absent / stale / live).
   The model follows /repo after the repairs b9e9fa2 (F8a), 3aa388e (F7a), 7f2c2d0 (F8b/F8c), ac08004 (F5c), eb925d1 (F7b: compaction
   by tmp + rename, readers drop an original next to its twin) and a924e5c (F16a, with fc081bb: flock on <socket address>.lock during start-up).
   Every theorem quantifies over all table sizes n, socket pre-states s0 and label sequences ls; `exec ... ls = Some st`
   for an arbitrary ls means: st is the state at an arbitrary kill point of an arbitrary interleaving.
   Tie to the code: tools/props/C08.py (in-process agent runs: persisted lines and live answers against Status/Check.v;
   the real binary killed at system-call boundaries and time offsets). *)
From Coq Require Import List Bool.
Import ListNotations.
From BD.Status Require Import Model Proofs Check ProofsCheck ProofsChain.

(* While the run is in progress (Schedule started, not returned) the socket is bound and the reported status is `running`
   with the node table of the current state; more generally whenever the socket answers. *)
Theorem C08_live : forall n s0 ls st,
  exec (init n s0) ls = Some st -> in_progress st = true ->
  alive st = true /\ report n st = (mkSnap ORunning (tbl (sc st)), false).
Proof. exact live_in_progress. Qed.
Print Assumptions C08_live.

Theorem C08_live_when_bound : forall n st,
  alive st = true -> report n st = (mkSnap ORunning (tbl (sc st)), false).
Proof. exact live_when_bound. Qed.
Print Assumptions C08_live_when_bound.

Example C08_live_nonvacuous : exists st,
  exec (init 2 SockStale) [LLockDag; LOpen; LWriteS0; LBind; LSched AStart; LSched (ALaunch 0); LSched (AEnd 0 true)] = Some st /\
  in_progress st = true /\ map nst (s_tbl (fst (report 2 st))) = [NSuccess; NNone] /\ s_ov (fst (report 2 st)) = ORunning.
Proof. exact live_nonvacuous. Qed.

(* C08_final - the full statement (since fix 7f2c2d0; before it false when a snapshot computed earlier was appended after the
   final status: findings F8b/F8c, fixed).  After a complete run the persisted status is the final state of the run and that
   is what is reported.  No premise. *)
Theorem C08_final : forall n s0 ls st,
  exec (init n s0) ls = Some st ->
  mp st = MClosed ->
  persisted st = PSnap (snap_of (sc st)) /\ report n st = (correct (snap_of (sc st)), false).
Proof. exact final. Qed.
Print Assumptions C08_final.

(* before fix 7f2c2d0 the prefix below continued with the main thread's final write and then the stale `running` snapshot of the
   first-status goroutine (the _refuted witness of F8b).  Now that goroutine holds statusLock: the main thread must wait ... *)
Example C08_final_former_witness_blocked :
  (exists st, exec (init 2 SockAbsent) f8b_prefix = Some st /\ locked st = true) /\
  exec (init 2 SockAbsent) (f8b_prefix ++ [LFinalLock]) = None /\
  exec (init 2 SockAbsent) (f8b_prefix ++ [LCLock]) = None.
Proof. exact f8b_main_must_wait. Qed.

(* ... and the run ends with its final state persisted and reported (the hypotheses of C08_final are satisfiable) *)
Example C08_final_former_witness : exists st,
  exec (init 2 SockAbsent)
    (f8b_prefix ++ [LFsAppend; LCLock; LCOv; LCTbl; LCAppend; LFinalLock; LFinalCompute; LFinalAppend; LFinish; LUnbind;
                    LCompactRead; LCompactCreate; LCompactWrite; LCompactRename; LCompactUnlink; LCloseWriter]) = Some st /\
  mp st = MClosed /\ persisted st = PSnap (snap_of (sc st)) /\ s_ov (fst (report 2 st)) = OSuccess /\
  map (fun x => s_ov x) (file st) = [ONone; ORunning; ORunning; OSuccess; OSuccess].
Proof. exact f8b_trace_now_final. Qed.

(* a snapshot goroutine that comes after the final status appends nothing *)
Example C08_late_snapshot_not_appended : exists st st',
  exec (init 1 SockAbsent)
    [LLockDag; LOpen; LWriteS0; LBind; LSched AStart; LSched (ALaunch 0); LSched (AEnd 0 true); LSched ADoneSend; LNotify; LSched AWait;
     LSched AReturn; LFinalLock; LFinalCompute; LFinalAppend] = Some st /\
  exec st [LCLock; LCOv; LCTbl; LCAppend; LFsWake; LFsOv; LFsTbl; LFsAppend] = Some st' /\ file st' = file st /\ length (file st) = 2.
Proof. exact late_snapshot_not_appended. Qed.

(* C08_crash - the full statement (since fix b9e9fa2; before it the second half was false: finding F8a, fixed).
   After a kill at ANY point (= for every prefix of every execution) the reported status is not `running`, and it is
   `finished` only if every step is finished or skipped.  No premise. *)
Theorem C08_crash : forall n s0 ls st,
  exec (init n s0) ls = Some st ->
  s_ov (fst (report n (after_kill st))) <> ORunning /\
  (s_ov (fst (report n (after_kill st))) = OSuccess -> all_succeed (tbl (sc st)) = true).
Proof. exact crash. Qed.
Print Assumptions C08_crash.

Example C08_crash_nonvacuous : exists ls st,
  exec (init 2 SockAbsent) ls = Some st /\
  s_ov (fst (report 2 (after_kill st))) = OSuccess /\ all_succeed (tbl (sc st)) = true.
Proof. exact crash_nonvacuous. Qed.

(* before fix b9e9fa2 this execution was the _refuted witness of F8a (reported `finished`, second step not started);
   now the snapshot taken between the two steps says `running`, which a dead run shows as `failed` *)
Example C08_crash_former_witness : exists st,
  exec (init 2 SockAbsent) f8a_trace = Some st /\ s_ov (fst (report 2 (after_kill st))) = OError /\
  map nst (s_tbl (fst (report 2 (after_kill st)))) = [NSuccess; NNone].
Proof. exact f8a_trace_now_failed. Qed.

(* C08_daemon - the full statement (since fix 3aa388e; before it false for a kill between the creation of the history file and
   its first line: finding F7a, fixed).  After a kill at ANY point the daemon's Start guard neither takes the DAG for running
   nor fails on the history: it reaches its minute guard. *)
Theorem C08_daemon : forall n s0 ls st,
  exec (init n s0) ls = Some st -> job_guard (report n (after_kill st)) = GMinuteGuard.
Proof. exact daemon. Qed.
Print Assumptions C08_daemon.

(* before fix 3aa388e: GRefusedErr (EOF) *)
Example C08_daemon_former_witness : exists st,
  exec (init 2 SockAbsent) [LLockDag; LOpen] = Some st /\ mp st = MOpened /\ job_guard (report 2 (after_kill st)) = GMinuteGuard.
Proof. exact daemon_after_open. Qed.

(* kills inside Close's compaction (tmp created, tmp written, twin published next to the original, original unlinked): always
   the final state is reported, never an error; a stray tmp is invisible to the reader *)
Example C08_kill_inside_compaction :
  reports_final_after_kill [LCompactRead] /\
  reports_final_after_kill [LCompactRead; LCompactCreate] /\
  reports_final_after_kill [LCompactRead; LCompactCreate; LCompactWrite] /\
  reports_final_after_kill [LCompactRead; LCompactCreate; LCompactWrite; LCompactRename] /\
  reports_final_after_kill [LCompactRead; LCompactCreate; LCompactWrite; LCompactRename; LCompactUnlink].
Proof. exact kill_inside_compaction. Qed.

(* After a kill anywhere the flock on the start lock file is free, a new agent's probe says "not running" and its bind (after the unlink)
   succeeds; the unlink is what makes it so; the flock is held during start-up only. *)
Theorem C08_restartable : forall n s0 ls st,
  exec (init n s0) ls = Some st ->
  dlock (after_kill st) = false /\
  probe_running (sock (after_kill st)) = false /\ bind_ok true (sock (after_kill st)) = true.
Proof. exact restartable. Qed.
Print Assumptions C08_restartable.

Theorem C08_flock_only_during_startup : forall n s0 ls st,
  exec (init n s0) ls = Some st -> dlock st = true -> mrank (mp st) <= 2.
Proof. exact flock_only_during_startup. Qed.
Print Assumptions C08_flock_only_during_startup.

Example C08_kill_holding_flock : exists st,
  exec (init 2 SockStale) [LLockDag; LOpen; LWriteS0] = Some st /\ dlock st = true /\ dlock (after_kill st) = false.
Proof. exact kill_holding_flock. Qed.

Theorem C08_unlink_needed : exists ls st,
  exec (init 2 SockAbsent) ls = Some st /\ bind_ok false (sock (after_kill st)) = false.
Proof. exact unlink_needed. Qed.
Print Assumptions C08_unlink_needed.

(* The acceptance conditions of the correspondence check are necessary for model executions: every snapshot that exists
   anywhere reaches, node by node, the current state. *)
Theorem C08_snapshots_reach_current : forall n s0 ls st,
  exec (init n s0) ls = Some st ->
  forall x, In x (snaps st) -> tbl_reachb (s_tbl x) (tbl (sc st)) = true.
Proof. exact snapshots_reach_current. Qed.
Print Assumptions C08_snapshots_reach_current.

(* ... and carries Scheduler.Status of an earlier-or-equal scheduler state (Agent.Status reads the overall status before it
   copies the node table). *)
Theorem C08_snapshot_overall : forall n s0 ls st,
  exec (init n s0) ls = Some st ->
  forall x, In x (snaps st) -> exists s1, s_ov x = ov_of s1 /\ tbl_reachb (tbl s1) (s_tbl x) = true.
Proof. exact snapshot_overall. Qed.
Print Assumptions C08_snapshot_overall.

(* Once the final status has been written it is, and stays, the last line of the history file. *)
Theorem C08_final_line_is_last : forall n s0 ls st,
  exec (init n s0) ls = Some st -> 5 <= mrank (mp st) <= 11 -> last_line (file st) = Some (snap_of (sc st)).
Proof. exact final_line_is_last. Qed.
Print Assumptions C08_final_line_is_last.

(* Since 7f2c2d0 at most one thread is inside writeStatus (statusLock), and therefore the lines of the history file, in file
   order, are ONE chain of scheduler states - whoever wrote them. *)
Theorem C08_status_lock_exclusive : forall n s0 ls st,
  exec (init n s0) ls = Some st ->
  crit_fs st && crit_cp st = false /\ crit_fs st && crit_mp st = false /\ crit_cp st && crit_mp st = false.
Proof. exact status_lock_exclusive. Qed.
Print Assumptions C08_status_lock_exclusive.

Theorem C08_file_is_a_chain : forall n s0 ls st,
  exec (init n s0) ls = Some st -> chainb (map s_tbl (file st)) = true.
Proof. exact file_is_a_chain. Qed.
Print Assumptions C08_file_is_a_chain.
