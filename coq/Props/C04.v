(* C04 - run outcome and lifecycle handlers match what happened.
   This file holds nothing but the property theorems (closed by `exact`) and Print Assumptions.
   Model: Sched/Model.v (`overall` mirrors Scheduler.Status clause by clause - incl. the decided outcome of fix 08917f8 -,
   HBegin/HStart/... mirror scheduler.go:258-300), Agent/Run.v.  Proofs: Sched/ProofsStop.v, Agent/RunProofs.v.
   Examples: Sched/Examples2.v.  Tie to the code: tools/props/C04.py (power-set trace validation of the real scheduler
   incl. stop requests at every visible event index, every subset of handlers).
   Premise: norepeat c (no repeatPolicy step).  Since fix 614b59e no premise about the done channel is needed (before it
   "finished means ran" was false for Schedule called without one: C04_done_nil_repaired below,
   findings/C04-done-nil-finished-after-failure.json); C04_finished_iff / C04_failed_iff are stated for runs without
   DAG timeout (a timed-out run is labelled failed by decision, DESIGN.md section 6; C05).  Node teardown (log flush) is modelled as infallible. *)
From Coq Require Import List.
Import ListNotations.
From BD.Agent Require Import Run RunProofs.
From BD.Sched Require Import Model Proofs ProofsFinal ProofsStop Replay Replay2 Replay2Proofs Examples Examples2.

(* At the moment the handlers are chosen (loop left, every worker gone - pc = LExited), in every reachable state:
   the run is reported finished iff every step is finished or skipped; *)
Theorem C04_finished_iff : forall c : cfg, norepeat c ->
  forall s, Reach c s -> pc s = LExited -> timedout s = false ->
  (overall c s = OSuccess <-> is_succeed c s = true).
Proof. exact overall_finished_iff. Qed.
Print Assumptions C04_finished_iff.

(* failed iff some step failed (or could not be set up) and the run was not "stopped before completing"; *)
Theorem C04_failed_iff : forall c : cfg, norepeat c ->
  forall s, Reach c s -> pc s = LExited -> timedout s = false ->
  (overall c s = OError <->
   (~ (canceled s = true /\ is_succeed c s = false) /\ exists i, i < nsteps c /\ st (nd s i) = NError)).
Proof. exact overall_failed_iff. Qed.
Print Assumptions C04_failed_iff.

(* canceled iff a stop was requested and not every step is finished or skipped ("stopped before completing") - as long
   as the outcome is not yet decided, i.e. up to the choice of the handlers. *)
Theorem C04_canceled_iff : forall (c : cfg) s, decided s = None ->
  (overall c s = OCancel <-> (canceled s = true /\ is_succeed c s = false)).
Proof. exact overall_canceled_iff. Qed.
Print Assumptions C04_canceled_iff.

(* "Finished" means completed - in EVERY reachable state, stopped run or not: a step reported finished did run and its
   last attempt succeeded.  (False before fix ac08004 - F5c.) *)
Theorem C04_finished_means_ran : forall c : cfg, norepeat c ->
  forall s, Reach c s -> dry c = false ->
  forall i, st (nd s i) = NSuccess -> exists fs, outs (nd s i) = true :: fs.
Proof. exact finished_means_ran. Qed.
Print Assumptions C04_finished_means_ran.

(* The handlers: in every execution ls1 ++ HBegin :: ls2 that reaches Done (not a dry run) - with or without stop
   requests, with or without timeout: no handler's turn comes before HBegin; after HBegin no label of the scheduling
   loop or of a step worker occurs (every step has ended: at HBegin every worker is gone); and the handlers whose turn
   comes (hturns: the handler is started, or the set-up of its node fails and it is marked failed without running) are,
   in this order and each once, exactly the configured ones among [handler of the outcome at HBegin; onExit] - onExit
   last.  A handler that cannot be set up does not take the later ones with it. *)
Theorem C04_handlers : forall c : cfg, norepeat c ->
  forall ls1 ls2 s1 s2 s3,
  run c (init c) ls1 = Some s1 -> step c s1 HBegin = Some s2 -> run c s2 ls2 = Some s3 ->
  pc s3 = LDone -> dry c = false ->
  hturns ls1 = [] /\ hturns ls2 = handlers_for c s1 /\
  forallb (fun l => negb (is_node_label l)) ls2 = true /\ gone c s1.
Proof. exact handlers_trace. Qed.
Print Assumptions C04_handlers.

(* ... and the handlers whose command is started (hstarts) are, in every run of every configuration, exactly those
   among them whose set-up does not fail. *)
Theorem C04_handlers_started : forall (c : cfg) ls s s', run c s ls = Some s' ->
  hstarts ls = filter (fun h => negb (hsfail c h)) (hturns ls).
Proof. exact starts_of_turns. Qed.
Print Assumptions C04_handlers_started.

Theorem C04_handlers_for_outcome : forall (c : cfg) s, exists x, handlers_for c s = filter (hon c) (x ++ [HExit]) /\
  x = match overall c s with OSuccess => [HSuccess] | OError => [HFailure] | OCancel => [HCancel] | _ => [] end.
Proof. exact handlers_for_shape. Qed.
Print Assumptions C04_handlers_for_outcome.

(* The outcome reported once the run is over (what the agent persists) is the outcome the handlers ran for - whatever
   arrives in between, a stop request included.  (False before fix 08917f8 - F4a.) *)
Theorem C04_outcome_stable : forall c : cfg, norepeat c ->
  forall ls1 ls2 s1 s2 s3,
  run c (init c) ls1 = Some s1 -> step c s1 HBegin = Some s2 -> run c s2 ls2 = Some s3 ->
  overall c s3 = overall c s1.
Proof. exact outcome_stable. Qed.
Print Assumptions C04_outcome_stable.

(* If the DAG's own preconditions are unmet the agent does nothing but build the graph, evaluate them and cancel:
   no step, no handler, no probe, no history. *)
Theorem C04_dag_precondition : forall e : env, e_gaccept e = true -> e_has_pre e = true -> e_pre_ok e = false ->
  Run.run e = ([ABuildGraph; AEvalPre; ACancelAll], true).
Proof. exact unmet_dag_precondition. Qed.
Print Assumptions C04_dag_precondition.

(* The tie to the implementation is sound in this direction: a run of the real scheduler that the power-set acceptor
   accepts (stage 0) comes with a REACHABLE state of the model that is Done and shows the observed final node table,
   handler states, Schedule error and Status - so the theorems above, which hold in every reachable state, apply to it.
   (That real traces ARE accepted is what the correspondence measures on every run of the check.) *)
Theorem C04_accept_sound : forall c ivl rivl eps tmo_at fin hfin tr err status k,
  replay2 c ivl rivl eps tmo_at fin hfin tr err status = (0, 0, k) ->
  exists s, Reach c s /\ final2_ok c fin hfin s err status = true.
Proof. exact replay2_sound. Qed.
Print Assumptions C04_accept_sound.

(* Non-vacuity and history.  (1) A stop of two executing steps: both end canceled, the outcome at HBegin is canceled,
   the handlers are [onCancel; onExit], Done is reached. *)
Example C04_nonvacuous :
  (donech two_steps = true /\ norepeat two_steps) /\
  exists s1 s2 s3, run two_steps (init two_steps) stop2_pre = Some s1 /\
    step two_steps s1 HBegin = Some s2 /\ run two_steps s2 stop2_post = Some s3 /\
    pc s3 = LDone /\ dry two_steps = false /\
    overall two_steps s1 = OCancel /\ hstarts stop2_post = [HCancel; HExit] /\
    map (fun i => st (nd s3 i)) [0; 1] = [NCancel; NCancel] /\ pc s1 = LExited.
Proof. exact (conj stop2_ok stop2_witness). Qed.

(* (2) The F4a scenario in the repaired model: the step fails, onFailure runs, a stop arrives while it runs; the run
   stays reported failed. *)
Example C04_stop_during_handlers_repaired :
  exists s1 s2 s3, run (one_step 1 false) (init (one_step 1 false)) f4a_pre = Some s1 /\
    step (one_step 1 false) s1 HBegin = Some s2 /\ run (one_step 1 false) s2 f4a_post = Some s3 /\
    pc s3 = LDone /\ canceled s3 = true /\ overall (one_step 1 false) s1 = OError /\ hstarts f4a_post = [HFailure; HExit] /\
    overall (one_step 1 false) s3 = OError.
Proof. exact f4a_repaired. Qed.

(* (3) The F5c scenario in the repaired model: the step the loop had committed when the stop arrived is launched
   afterwards, never runs, ends canceled; the run is canceled; onCancel then onExit. *)
Example C04_committed_step_canceled_repaired :
  exists s, run (one_step 1 false) (init (one_step 1 false)) f5c_exec = Some s /\ pc s = LDone /\
    canceled s = true /\ st (nd s 0) = NCancel /\ att (nd s 0) = 0 /\ dry (one_step 1 false) = false /\
    overall (one_step 1 false) s = OCancel /\ hstarts f5c_exec = [HCancel; HExit].
Proof. exact f5c_repaired. Qed.

(* (4) The done == nil scenario in the repaired model (fix 614b59e): Schedule called without a done channel; the command
   fails on its own after the stop flag is set and before the Signal pass reaches its node; the node is labelled
   canceled, the run canceled.  (Before the fix the step was reported finished although its only attempt had failed -
   reproduced on the real scheduler, findings/C04-done-nil-finished-after-failure.json.) *)
Example C04_done_nil_repaired :
  donech one_step_nodone = false /\ norepeat one_step_nodone /\ dry one_step_nodone = false /\
  exists s, Reach one_step_nodone s /\ canceled s = true /\ lasterr s = true /\ sigq s = [] /\
    st (nd s 0) = NCancel /\ outs (nd s 0) = [false] /\ overall one_step_nodone s = OCancel.
Proof. exact done_nil_repaired. Qed.

(* (5) A handler that cannot be set up (HSetupFail): the step fails, onFailure's node cannot be set up - it is marked
   failed without running -, and onExit still runs, last; the outcome stays failed. *)
Example C04_handler_setup_failure :
  norepeat hsf_cfg /\
  exists s1 s2 s3, run hsf_cfg (init hsf_cfg) hsf_pre = Some s1 /\ step hsf_cfg s1 HBegin = Some s2 /\
    run hsf_cfg s2 hsf_post = Some s3 /\ pc s3 = LDone /\ overall hsf_cfg s1 = OError /\
    hturns hsf_post = [HFailure; HExit] /\ hstarts hsf_post = [HExit] /\
    hs (hst s3 HFailure) = NError /\ hatt (hst s3 HFailure) = 0 /\ hs (hst s3 HExit) = NSuccess /\
    step hsf_cfg s2 (HStart HFailure) = None /\ overall hsf_cfg s3 = OError.
Proof. exact handler_setup_failure_ok. Qed.
