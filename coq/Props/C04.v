(* C04 - run outcome and lifecycle handlers match what happened.
   This file holds nothing but the property theorems (closed by `exact`) and Print Assumptions.
   Model: Sched/Model.v (`overall` mirrors Scheduler.Status clause by clause, HBegin/HStart/... mirror scheduler.go:228-258),
   Agent/Run.v.  Proofs: Sched/ProofsStop.v, Agent/RunProofs.v.  Witnesses: Sched/Examples2.v.  Tie to the code:
   tools/props/C04.py (power-set trace validation of the real scheduler incl. stop requests, every handler subset).
   Premises: donech c = true (Schedule is given a done channel, as the agent always does), norepeat c; the outcome
   theorems are stated without DAG timeout (timeouts: C05).  Node teardown is modelled as infallible. *)
From Coq Require Import List.
Import ListNotations.
From BD.Agent Require Import Run RunProofs.
From BD.Sched Require Import Model Proofs ProofsFinal ProofsStop Examples Examples2.

(* At the moment the handlers are chosen (loop left, every worker gone - pc = LExited), in every reachable state:
   the run is reported finished iff every step is finished or skipped; *)
Theorem C04_finished_iff : forall c : cfg, donech c = true -> norepeat c ->
  forall s, Reach c s -> pc s = LExited -> timedout s = false ->
  (overall c s = OSuccess <-> is_succeed c s = true).
Proof. exact overall_finished_iff. Qed.
Print Assumptions C04_finished_iff.

(* failed iff some step failed (or could not be set up) and the run was not "stopped before completing"; *)
Theorem C04_failed_iff : forall c : cfg, donech c = true -> norepeat c ->
  forall s, Reach c s -> pc s = LExited -> timedout s = false ->
  (overall c s = OError <->
   (~ (canceled s = true /\ is_succeed c s = false) /\ exists i, i < nsteps c /\ st (nd s i) = NError)).
Proof. exact overall_failed_iff. Qed.
Print Assumptions C04_failed_iff.

(* canceled iff a stop was requested and not every step is finished or skipped ("stopped before completing"). *)
Theorem C04_canceled_iff : forall (c : cfg) s,
  overall c s = OCancel <-> (canceled s = true /\ is_succeed c s = false).
Proof. exact overall_canceled_iff. Qed.
Print Assumptions C04_canceled_iff.

(* The handlers: in every execution ls1 ++ HBegin :: ls2 that reaches Done (no dry run, no timeout): no handler starts
   before HBegin; after HBegin no label of the scheduling loop or of a step worker occurs (every step has ended: at
   HBegin every worker is gone); and the handlers started are, in this order and each once, exactly the configured
   ones among [handler of the outcome at HBegin; onExit] - onExit last. *)
Theorem C04_handlers : forall c : cfg, donech c = true -> norepeat c ->
  forall ls1 ls2 s1 s2 s3,
  run c (init c) ls1 = Some s1 -> step c s1 HBegin = Some s2 -> run c s2 ls2 = Some s3 ->
  pc s3 = LDone -> dry c = false -> timedout s3 = false ->
  hstarts ls1 = [] /\ hstarts ls2 = handlers_for c s1 /\
  forallb (fun l => negb (is_node_label l)) ls2 = true /\ gone c s1.
Proof. exact handlers_trace. Qed.
Print Assumptions C04_handlers.

Theorem C04_handlers_for_outcome : forall (c : cfg) s, exists x, handlers_for c s = filter (hon c) (x ++ [HExit]) /\
  x = match overall c s with OSuccess => [HSuccess] | OError => [HFailure] | OCancel => [HCancel] | _ => [] end.
Proof. exact handlers_for_shape. Qed.
Print Assumptions C04_handlers_for_outcome.

(* If the DAG's own preconditions are unmet the agent does nothing but build the graph, evaluate them and cancel:
   no step, no handler, no probe, no history. *)
Theorem C04_dag_precondition : forall e : env, e_gaccept e = true -> e_has_pre e = true -> e_pre_ok e = false ->
  Run.run e = ([ABuildGraph; AEvalPre; ACancelAll], true).
Proof. exact unmet_dag_precondition. Qed.
Print Assumptions C04_dag_precondition.

(* ---- the full statement "the reported outcome is the one the handlers ran for" is FALSE of the pinned code (F4a):
        forall executions reaching Done, overall at Done = overall at HBegin.
   Witness (also observed on the real scheduler, findings/C04-F4a-stop-during-handlers.json): the step fails, onFailure
   is chosen and started, a stop request arrives while it runs; the run ends reported canceled. *)
Theorem C04_stop_during_handlers_refuted :
  exists s1 s2 s3, run (one_step 1 false) (init (one_step 1 false)) f4a_pre = Some s1 /\
    step (one_step 1 false) s1 HBegin = Some s2 /\ run (one_step 1 false) s2 f4a_post = Some s3 /\
    pc s3 = LDone /\ overall (one_step 1 false) s1 = OError /\ hstarts f4a_post = [HFailure; HExit] /\
    overall (one_step 1 false) s3 = OCancel /\ timedout s3 = false.
Proof. exact f4a_witness. Qed.
Print Assumptions C04_stop_during_handlers_refuted.

(* Strongest true statement: if no stop request arrives between the choice of the handlers and Done (the cancel flag
   is the same at both ends - decidable on the execution), the outcome at Done is the outcome the handlers ran for. *)
Theorem C04_outcome_stable_partial : forall c : cfg, donech c = true -> norepeat c ->
  forall ls1 ls2 s1 s2 s3,
  run c (init c) ls1 = Some s1 -> step c s1 HBegin = Some s2 -> run c s2 ls2 = Some s3 ->
  canceled s3 = canceled s1 -> overall c s3 = overall c s1.
Proof. exact outcome_stable_partial. Qed.
Print Assumptions C04_outcome_stable_partial.

(* "Succeeded" means completed - also in a stopped run: in EVERY reachable state a step reported finished did run and its
   last attempt succeeded; so by C04_finished_iff "reported finished" means every step really completed or was skipped.
   (False of the code before fix ac08004 - F5c: a step the loop had committed when the stop arrived was launched
   afterwards, skipped its command and was reported finished, the run finished, onSuccess ran.) *)
Theorem C04_finished_means_ran : forall c : cfg, donech c = true -> norepeat c ->
  forall s, Reach c s -> dry c = false ->
  forall i, st (nd s i) = NSuccess -> exists fs, outs (nd s i) = true :: fs.
Proof. exact finished_means_ran. Qed.
Print Assumptions C04_finished_means_ran.

(* the F5c scenario in the repaired model: the committed step is launched after the stop, never runs, ends canceled;
   the run is canceled; onCancel then onExit *)
Example C04_committed_step_canceled_repaired :
  exists s, run (one_step 1 false) (init (one_step 1 false)) f5c_exec = Some s /\ pc s = LDone /\
    canceled s = true /\ st (nd s 0) = NCancel /\ att (nd s 0) = 0 /\ dry (one_step 1 false) = false /\
    overall (one_step 1 false) s = OCancel /\ hstarts f5c_exec = [HCancel; HExit].
Proof. exact f5c_repaired. Qed.

(* Non-vacuity: a clean stop of two executing steps reaches every premise: both end canceled, the outcome at HBegin is
   canceled, the handlers are [onCancel; onExit], the cancel flag does not change afterwards. *)
Example C04_nonvacuous :
  (donech two_steps = true /\ norepeat two_steps) /\
  exists s1 s2 s3, run two_steps (init two_steps) stop2_pre = Some s1 /\
    step two_steps s1 HBegin = Some s2 /\ run two_steps s2 stop2_post = Some s3 /\
    pc s3 = LDone /\ dry two_steps = false /\ timedout s3 = false /\ canceled s3 = canceled s1 /\
    overall two_steps s1 = OCancel /\ hstarts stop2_post = [HCancel; HExit] /\
    map (fun i => st (nd s3 i)) [0; 1] = [NCancel; NCancel] /\ pc s1 = LExited.
Proof. exact (conj stop2_ok stop2_witness). Qed.
