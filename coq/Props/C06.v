(* C06 - history queries return exactly what was recorded, per DAG.
   This file holds nothing but the property theorems (closed by `exact`), Print Assumptions, and Examples.

   Models:  Hist/Model.v  (L0: jsondb.go + writer.go + filecache.go at string level: real path strings, byte-level port of
                           filepath.Match/Glob (Hist/GoMatch.v), the time-stamp regexp scan, sort.Slice as stable insertion
                           sort, strings.Replace, compaction, status cache)
            Hist/SModel.v (L1: the same algorithms over structured file keys)
            Hist/Spec.v   (the run map and what find / latest / recent mean)
   Proofs:  Hist/ProofsString.v (L0 ~ L1 under decidable per-path premises), Hist/ProofsRefine.v (L1 ~ spec: simulation
            relation preserved by every operation, for all operation sequences), Hist/ProofsCache.v (cache coherence),
            Hist/ProofsSpec.v (isolation, rename, retention on the spec), Hist/ProofsTop.v (composition over event traces),
            Hist/ProofsC06.v / ProofsC06Ex.v (final statements, `_refuted` witnesses, Examples).
   Tie to the code: tools/props/C06.py (seeded histories on the real jsondb, replayed on Hist/Model.v; the run-map
   specification evaluated on the implementation's answers as the monitor).

   External behaviour enters as Section variables only: loc (data directory) and dirhash (md5 of the DAG path); the single
   fact about them that the proofs use is inside the decidable premise names_okb (directory names of distinct DAGs differ).

   The premises of the `_partial` theorems, all decidable and evaluated by the check on every generated history:
     names_okb loc dirhash D days K   per-path string premises for the DAG paths D, the days and the file keys K used
                                      (glob pattern matches exactly the DAG's own files; the time-stamp scan of a path finds
                                      the start stamp; rendering injective; no glob metacharacter in the directory name)
     closedb D K                      K is closed under compaction twin and renaming between the DAGs of D
     premises es                      every event mentions only D/days/K, and along the trace: request ids and start
                                      SECONDS of one DAG pairwise distinct, no path re-created, rename/retention not applied
                                      to the DAG whose run is being recorded, positive status sizes
   FULL statement (for every trace whatsoever, ytrace = sp_trace) is FALSE of the faithful model: C06_refuted_* below. *)
From Coq Require Import List String ZArith Permutation Sorting.Sorted.
Import ListNotations.
From BD.Hist Require Import GoMatch Model SModel Spec ProofsString ProofsRefine ProofsSpec ProofsTop ProofsC06 ProofsC06Ex.

(* For every interleaving `es` of store operations and queries - asked by the operating process (who = None) or by any reader
   process j with its own cache (who = Some j) - every answer of the model of the store is the answer of the run map. *)
Theorem C06_refinement_partial :
  forall (loc : string) (dirhash : string -> string) (D days : list string) (K : list skey),
  names_okb loc dirhash D days K = true -> closedb D K = true ->
  forall es : list ev, premises loc dirhash D days K es ->
  ytrace loc dirhash sys_init es = sp_trace hist_init es.
Proof. exact refinement. Qed.
Print Assumptions C06_refinement_partial.

(* find: looking a run up by request id returns the last status recorded for it (None: no such run / no status yet) *)
Theorem C06_find_partial :
  forall loc dirhash D days K, names_okb loc dirhash D days K = true -> closedb D K = true ->
  forall es d req, premises loc dirhash D days K es -> In d D ->
  fpayload (q_find loc dirhash (hfs (y_h (yrun loc dirhash sys_init es))) d req) = sp_find (sp_state es) d req.
Proof. exact find_exact. Qed.
Print Assumptions C06_find_partial.

(* latest (of today when a day is given): the last status of the most recently started run *)
Theorem C06_latest_partial :
  forall loc dirhash D days K, names_okb loc dirhash D days K = true -> closedb D K = true ->
  forall es who d day, premises loc dirhash D days K es -> In d D -> (match day with Some x => In x days | None => True end) ->
  snd (ystep loc dirhash (yrun loc dirhash sys_init es) (ELatest who d day)) = ALatest (sp_latest (sp_state es) d day).
Proof. exact latest_exact. Qed.
Print Assumptions C06_latest_partial.

(* recent n: the n most recently started runs, newest first *)
Theorem C06_recent_partial :
  forall loc dirhash D days K, names_okb loc dirhash D days K = true -> closedb D K = true ->
  forall es who d n, premises loc dirhash D days K es -> In d D ->
  snd (ystep loc dirhash (yrun loc dirhash sys_init es) (ERecent who d n)) = ARecent (sp_recent (sp_state es) d n).
Proof. exact recent_exact. Qed.
Print Assumptions C06_recent_partial.

(* "most recently started first" in the specification: a permutation of the runs, sorted by start stamp, descending *)
Theorem C06_newest_first_meaning : forall l : list arun,
  Permutation (newest_first l) l /\ StronglySorted (fun a b => String.ltb (a_stamp a) (a_stamp b) = false) (newest_first l).
Proof. exact newest_first_spec. Qed.
Print Assumptions C06_newest_first_meaning.

(* isolation: an operation (open, write, close, update, rename, retention, deletion, chtimes) changes no answer about a DAG
   it does not name - on the specification for every history, ... *)
Theorem C06_isolation_spec : forall (H : hist) (o : op) (d' : string),
  NoDup (map a_id (h_runs H)) -> ~ In d' (op_dags H o) -> dag_view (sp_apply H o) d' = dag_view H d'.
Proof. exact sp_isolation. Qed.
Print Assumptions C06_isolation_spec.
Theorem C06_queries_depend_on_view : forall (H H' : hist) (d : string), dag_view H d = dag_view H' d ->
  (forall req, sp_find H d req = sp_find H' d req) /\ (forall day, sp_latest H d day = sp_latest H' d day)
  /\ (forall n, sp_recent H d n = sp_recent H' d n).
Proof. exact queries_depend_on_view. Qed.
Print Assumptions C06_queries_depend_on_view.
(* ... and on the store: all three queries about d' answer after the operation what they answered before *)
Theorem C06_isolation_partial :
  forall loc dirhash D days K, names_okb loc dirhash D days K = true -> closedb D K = true ->
  forall es o d', premises loc dirhash D days K es -> premises loc dirhash D days K (es ++ [EOp o]) -> In d' D ->
  ~ In d' (op_dags (sp_state es) o) ->
  let y := yrun loc dirhash sys_init es in
  let y' := yrun loc dirhash sys_init (es ++ [EOp o]) in
  (forall req, fpayload (q_find loc dirhash (hfs (y_h y')) d' req) = fpayload (q_find loc dirhash (hfs (y_h y)) d' req))
  /\ (forall who day, (match day with Some x => In x days | None => True end) ->
        snd (ystep loc dirhash y' (ELatest who d' day)) = snd (ystep loc dirhash y (ELatest who d' day)))
  /\ (forall who n, snd (ystep loc dirhash y' (ERecent who d' n)) = snd (ystep loc dirhash y (ERecent who d' n))).
Proof. exact isolation. Qed.
Print Assumptions C06_isolation_partial.

(* rename carries every run: what was answered for d is answered for d' afterwards *)
Theorem C06_rename_carries_partial :
  forall loc dirhash D days K, names_okb loc dirhash D days K = true -> closedb D K = true ->
  forall es d d', premises loc dirhash D days K es -> premises loc dirhash D days K (es ++ [EOp (ORename d d')]) ->
  In d D -> In d' D -> d <> d' -> dag_view (sp_state es) d' = [] ->
  let y := yrun loc dirhash sys_init es in
  let y' := yrun loc dirhash sys_init (es ++ [EOp (ORename d d')]) in
  (forall req, fpayload (q_find loc dirhash (hfs (y_h y')) d' req) = fpayload (q_find loc dirhash (hfs (y_h y)) d req))
  /\ (forall who day, (match day with Some x => In x days | None => True end) ->
        snd (ystep loc dirhash y' (ELatest who d' day)) = snd (ystep loc dirhash y (ELatest who d day)))
  /\ (forall who n, snd (ystep loc dirhash y' (ERecent who d' n)) = snd (ystep loc dirhash y (ERecent who d n))).
Proof. exact rename_carries. Qed.
Print Assumptions C06_rename_carries_partial.

(* retention removes exactly the runs of d older than the cutoff (specification), i.e. exactly the history files of d's
   directory whose mtime is older (store) - nothing of any other DAG *)
Theorem C06_retention_spec : forall (H : hist) (d : string) (cutoff : Z) (a : arun),
  In a (h_runs (sp_apply H (ORemoveOld d cutoff))) <-> In a (h_runs H) /\ ~ (a_dag a = d /\ (a_mtime a < cutoff)%Z).
Proof. exact sp_retention_exact. Qed.
Print Assumptions C06_retention_spec.
Theorem C06_retention_partial :
  forall loc dirhash D days K, names_okb loc dirhash D days K = true -> closedb D K = true ->
  forall es d cutoff, premises loc dirhash D days K es -> In d D ->
  let y := yrun loc dirhash sys_init es in
  files (hfs (apply loc dirhash (y_h y) (ORemoveOld d cutoff)))
  = filter (fun e => negb (String.eqb (e_dir e) (rdir dirhash d) && (mtime (e_file e) <? cutoff)%Z)) (files (hfs (y_h y))).
Proof. exact retention_exact. Qed.
Print Assumptions C06_retention_partial.

(* cache coherence: in every reachable state, for every cache (readers and the operating process) and every history file,
   LoadLatest answers exactly what ParseFile answers - files only grow or disappear, a path is never re-created *)
Theorem C06_cache_coherent_partial :
  forall loc dirhash D days K, names_okb loc dirhash D days K = true -> closedb D K = true ->
  forall es k, premises loc dirhash D days K es -> In k K ->
  let y := yrun loc dirhash sys_init es in
  let pure := match get_file (hfs (y_h y)) (rdir dirhash (k_dag k)) (rname k) with Some f => parse f | None => None end in
  (forall i, snd (load_latest (y_c y i) (hfs (y_h y)) (rdir dirhash (k_dag k)) (rname k)) = pure)
  /\ snd (load_latest (hcache (y_h y)) (hfs (y_h y)) (rdir dirhash (k_dag k)) (rname k)) = pure.
Proof. exact cache_coherent. Qed.
Print Assumptions C06_cache_coherent_partial.

(* ---- the unconditional statement is refuted by the faithful model (defects of the pinned code) ---------------------------- *)
(* F6a: two runs of one DAG started within one second: the OLDER one is "latest", recent lists oldest first *)
Theorem C06_refuted_same_second : exists es, ytrace loc dh sys_init es <> sp_trace hist_init es.
Proof. exact refuted_same_second. Qed.
Print Assumptions C06_refuted_same_second.
(* F6b: a DAG named a[1] never sees its own history *)
Theorem C06_refuted_glob_meta : exists es, ytrace loc dh sys_init es <> sp_trace hist_init es.
Proof. exact refuted_glob_meta. Qed.
Print Assumptions C06_refuted_glob_meta.
(* F6c: a DAG name containing 20240101.10:00:00 hijacks the ordering *)
Theorem C06_refuted_stamp_like_name : exists es, ytrace loc dh sys_init es <> sp_trace hist_init es.
Proof. exact refuted_stamp_like_name. Qed.
Print Assumptions C06_refuted_stamp_like_name.

(* each witness falsifies exactly the premise that names its class *)
Example C06_same_second_premise :
  names_okb loc dh [a] [] (univ [a] runsA) = true /\ closedb [a] (univ [a] runsA) = true
  /\ forallb (ev_inb [a] [] (univ [a] runsA)) esA = true /\ evs_okb loc dh ysys_init hist_init esA = false.
Proof. exact same_second_premise. Qed.
Example C06_glob_meta_premise : names_okb loc dh [b] [] (univ [b] [("20240101.10:00:00.100", "req-aaaa")]%string) = false.
Proof. exact glob_meta_premise. Qed.
Example C06_stamp_like_premise :
  names_okb loc dh [c] [] (univ [c] [("20240202.10:00:00.000", "req-aaaa"); ("20240202.10:01:00.000", "req-bbbb")]%string) = false
  /\ evs_okb loc dh ysys_init hist_init esC = true.
Proof. exact stamp_like_premise. Qed.

(* ---- non-vacuity: the premises hold of a trace with shared-prefix names, a space, the _c suffix, update, rename, retention,
        queries by two readers and the operating process; the theorem then yields these (non-trivial) answers ---------------- *)
Example C06_premises_satisfiable :
  names_okb loc dh DE daysE KE = true /\ closedb DE KE = true /\ premisesb loc dh DE daysE KE esE = true.
Proof. exact premises_satisfiable. Qed.
Example C06_premises_instance :
  ytrace loc dh sys_init esE = sp_trace hist_init esE
  /\ sp_trace hist_init esE =
     [ANone; ANone; ALatest (LOk p1); ANone; ANone; ALatest (LOk p2); ANone; ANone; ANone; ANone; ANone;
      ARecent [p3; p2]; ALatest (LOk p3); ALatest LNoData;
      ANone; AFind (Some p5); AFind None; ARecent [p3; p5];
      ANone; ANone; ANone; AFind (Some p3); ARecent [p3; p5]; ARecent [];
      ANone; ARecent [p3]; ALatest (LOk p4)].
Proof. exact premises_instance. Qed.
