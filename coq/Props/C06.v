(* C06 - history queries return exactly what was recorded, per DAG.
   This file holds nothing but the property theorems (closed by `exact`), Print Assumptions, and Examples.

   Models:  Hist/Model.v  (L0: jsondb.go + writer.go + filecache.go at string level: real path strings, byte-level port of
                           filepath.Match/Glob (Hist/GoMatch.v), the time-stamp regexp scan, sort.Slice as stable insertion
                           sort, strings.Replace, compaction, status cache)
            Hist/SModel.v (L1: the same algorithms over structured file keys)
            Hist/Spec.v   (the run map and what find / latest / recent mean)
   Proofs:  Hist/ProofsString.v (L0 ~ L1 under decidable per-path premises), Hist/ProofsRefine.v (L1 ~ spec: simulation
            relation preserved by every operation, for all operation sequences), Hist/ProofsCache.v (cache coherence),
            Hist/ProofsSpec.v (isolation, rename, retention on the spec), Hist/ProofsTop.v (composition over event traces),
            Hist/ProofsC06.v / ProofsC06Ex.v (final statements, `_refuted` witnesses, Examples).
   Tie to the code: tools/props/C06.py (seeded histories on the real jsondb, replayed on Hist/Model.v; the run-map
   specification evaluated on the implementation's answers as the monitor).

   External behaviour enters as Section variables only: loc (data directory) and dirhash (md5 of the DAG path); the single
   fact about them that the proofs use is inside the decidable premise names_okb (directory names of distinct DAGs differ).

   Model of the REPAIRED store (fix commits e6d6379 anchored time stamp with milliseconds, 8ffc003 escaped glob patterns, e2affa2
   append-mode descriptors, 3aa388e readers skip files without a parseable status, eb925d1 compaction through a temporary copy and
   dropCompacted, 32b069b writer.open terminates a torn line, fe0ec16 AddYamlExtension in Rename).  The statements below are the FULL statements of
   the property; the premises that existed only because of F6a (start stamps distinct at SECONDS), F6b/F6c (names without glob
   metacharacters / stamp-like substrings), F6d (no update during a run) are gone - the former refutation witnesses are now positive
   Examples.  Remaining premises, all decidable and evaluated by the check on every generated history, and why they remain:
     names_okb loc dirhash D days K   per-path STRING facts (the escaped glob pattern of a DAG matches exactly its own files and selects its
                                      own directory, the anchored stamp scan of a path finds the start stamp, rendering injective): the
                                      proof does no string reasoning beyond them.  They hold for every name the check ever generated,
                                      hazardous ones included (the C06_fixed Examples); they would fail e.g. for a request id containing a dot.
     closedb D K                      K is closed under compaction twin and renaming between the DAGs of D (bookkeeping of the universe)
     premises es                      - request ids of one DAG pairwise distinct: presupposed by "looking a run up by request id"
                                      - start stamps of one DAG pairwise distinct (MILLISECONDS): otherwise "most recently started" is
                                        undefined (C06_same_ms_needs_premise)
                                      - no path re-created (same DAG, stamp and request id again after deletion): the cache cannot tell a
                                        re-created file of equal size within the same second (C06_recreated_path_needs_premise)
                                      - rename only to a different DAG, rename / retention not applied to the DAG whose run is being
                                        recorded, positive status sizes, chtimes only on existing files: simplifications of the proof (the
                                        model and the differential check cover those cases too) *)
From Coq Require Import List String ZArith Permutation Sorting.Sorted.
Import ListNotations.
From BD.Hist Require Import GoMatch Model SModel Spec ProofsString ProofsRefine ProofsSpec ProofsTop ProofsC06 ProofsC06Ex ProofsNames.

(* For every interleaving `es` of store operations and queries - asked by the operating process (who = None) or by any reader
   process j with its own cache (who = Some j) - every answer of the model of the store is the answer of the run map. *)
Theorem C06_refinement :
  forall (loc : string) (dirhash : string -> string) (D days : list string) (K : list skey),
  names_okb loc dirhash D days K = true -> closedb D K = true ->
  forall es : list ev, premises loc dirhash D days K es ->
  ytrace loc dirhash sys_init es = sp_trace hist_init es.
Proof. exact refinement. Qed.
Print Assumptions C06_refinement.

(* find: looking a run up by request id returns the last status recorded for it (None: no such run / no status yet) *)
Theorem C06_find :
  forall loc dirhash D days K, names_okb loc dirhash D days K = true -> closedb D K = true ->
  forall es d req, premises loc dirhash D days K es -> In d D ->
  fpayload (q_find loc dirhash (hfs (y_h (yrun loc dirhash sys_init es))) d req) = sp_find (sp_state es) d req.
Proof. exact find_exact. Qed.
Print Assumptions C06_find.

(* latest (of today when a day is given): the last status of the most recently started run that has a status *)
Theorem C06_latest :
  forall loc dirhash D days K, names_okb loc dirhash D days K = true -> closedb D K = true ->
  forall es who d day, premises loc dirhash D days K es -> In d D -> (match day with Some x => In x days | None => True end) ->
  snd (ystep loc dirhash (yrun loc dirhash sys_init es) (ELatest who d day)) = ALatest (sp_latest (sp_state es) d day).
Proof. exact latest_exact. Qed.
Print Assumptions C06_latest.

(* recent n: the n most recently started runs, newest first *)
Theorem C06_recent :
  forall loc dirhash D days K, names_okb loc dirhash D days K = true -> closedb D K = true ->
  forall es who d n, premises loc dirhash D days K es -> In d D ->
  snd (ystep loc dirhash (yrun loc dirhash sys_init es) (ERecent who d n)) = ARecent (sp_recent (sp_state es) d n).
Proof. exact recent_exact. Qed.
Print Assumptions C06_recent.

(* "most recently started first" in the specification: a permutation of the runs, sorted by start stamp, descending *)
Theorem C06_newest_first_meaning : forall l : list arun,
  Permutation (newest_first l) l /\ StronglySorted (fun a b => String.ltb (a_stamp a) (a_stamp b) = false) (newest_first l).
Proof. exact newest_first_spec. Qed.
Print Assumptions C06_newest_first_meaning.

(* isolation: an operation (open, write, close, update, rename, retention, deletion, chtimes) changes no answer about a DAG
   it does not name - on the specification for every history, ... *)
Theorem C06_isolation_spec : forall (H : hist) (o : op) (d' : string),
  NoDup (map a_id (h_runs H)) -> ~ In d' (op_dags H o) -> dag_view (sp_apply H o) d' = dag_view H d'.
Proof. exact sp_isolation. Qed.
Print Assumptions C06_isolation_spec.
Theorem C06_queries_depend_on_view : forall (H H' : hist) (d : string), dag_view H d = dag_view H' d ->
  (forall req, sp_find H d req = sp_find H' d req) /\ (forall day, sp_latest H d day = sp_latest H' d day)
  /\ (forall n, sp_recent H d n = sp_recent H' d n).
Proof. exact queries_depend_on_view. Qed.
Print Assumptions C06_queries_depend_on_view.
(* ... and on the store: all three queries about d' answer after the operation what they answered before *)
Theorem C06_isolation :
  forall loc dirhash D days K, names_okb loc dirhash D days K = true -> closedb D K = true ->
  forall es o d', premises loc dirhash D days K es -> premises loc dirhash D days K (es ++ [EOp o]) -> In d' D ->
  ~ In d' (op_dags (sp_state es) o) ->
  let y := yrun loc dirhash sys_init es in
  let y' := yrun loc dirhash sys_init (es ++ [EOp o]) in
  (forall req, fpayload (q_find loc dirhash (hfs (y_h y')) d' req) = fpayload (q_find loc dirhash (hfs (y_h y)) d' req))
  /\ (forall who day, (match day with Some x => In x days | None => True end) ->
        snd (ystep loc dirhash y' (ELatest who d' day)) = snd (ystep loc dirhash y (ELatest who d' day)))
  /\ (forall who n, snd (ystep loc dirhash y' (ERecent who d' n)) = snd (ystep loc dirhash y (ERecent who d' n))).
Proof. exact isolation. Qed.
Print Assumptions C06_isolation.

(* rename carries every run: what was answered for d is answered for d' afterwards *)
Theorem C06_rename_carries :
  forall loc dirhash D days K, names_okb loc dirhash D days K = true -> closedb D K = true ->
  forall es d d', premises loc dirhash D days K es -> premises loc dirhash D days K (es ++ [EOp (ORename d d')]) ->
  In d D -> In d' D -> d <> d' -> dag_view (sp_state es) d' = [] ->
  let y := yrun loc dirhash sys_init es in
  let y' := yrun loc dirhash sys_init (es ++ [EOp (ORename d d')]) in
  (forall req, fpayload (q_find loc dirhash (hfs (y_h y')) d' req) = fpayload (q_find loc dirhash (hfs (y_h y)) d req))
  /\ (forall who day, (match day with Some x => In x days | None => True end) ->
        snd (ystep loc dirhash y' (ELatest who d' day)) = snd (ystep loc dirhash y (ELatest who d day)))
  /\ (forall who n, snd (ystep loc dirhash y' (ERecent who d' n)) = snd (ystep loc dirhash y (ERecent who d n))).
Proof. exact rename_carries. Qed.
Print Assumptions C06_rename_carries.

(* retention removes exactly the runs of d older than the cutoff (specification), i.e. exactly the history files of d's
   directory whose mtime is older (store) - nothing of any other DAG *)
Theorem C06_retention_spec : forall (H : hist) (d : string) (cutoff : Z) (a : arun),
  In a (h_runs (sp_apply H (ORemoveOld d cutoff))) <-> In a (h_runs H) /\ ~ (a_dag a = d /\ (a_mtime a < cutoff)%Z).
Proof. exact sp_retention_exact. Qed.
Print Assumptions C06_retention_spec.
Theorem C06_retention :
  forall loc dirhash D days K, names_okb loc dirhash D days K = true -> closedb D K = true ->
  forall es d cutoff, premises loc dirhash D days K es -> In d D ->
  let y := yrun loc dirhash sys_init es in
  files (hfs (apply loc dirhash (y_h y) (ORemoveOld d cutoff)))
  = filter (fun e => negb (String.eqb (e_dir e) (rdir dirhash d) && (mtime (e_file e) <? cutoff)%Z)) (files (hfs (y_h y))).
Proof. exact retention_exact. Qed.
Print Assumptions C06_retention.

(* cache coherence: in every reachable state, for every cache (readers and the operating process) and every history file,
   LoadLatest answers exactly what ParseFile answers - files only grow or disappear, a path is never re-created *)
Theorem C06_cache_coherent :
  forall loc dirhash D days K, names_okb loc dirhash D days K = true -> closedb D K = true ->
  forall es k, premises loc dirhash D days K es -> In k K ->
  let y := yrun loc dirhash sys_init es in
  let pure := match get_file (hfs (y_h y)) (rdir dirhash (k_dag k)) (rname k) with Some f => parse f | None => None end in
  (forall i, snd (load_latest (y_c y i) (hfs (y_h y)) (rdir dirhash (k_dag k)) (rname k)) = pure)
  /\ snd (load_latest (hcache (y_h y)) (hfs (y_h y)) (rdir dirhash (k_dag k)) (rname k)) = pure.
Proof. exact cache_coherent. Qed.
Print Assumptions C06_cache_coherent.

(* ---- the former refutation witnesses on the repaired model: premises hold, answers as specified ------------------------------------ *)
(* F6a - before fix e6d6379 the model answered latest = req-aaaa-1 (the older run), recent 2 oldest first *)
Example C06_fixed_same_second :
  all_premisesb loc dh [a] [] (univ [a] runsA) esA = true
  /\ ytrace loc dh sys_init esA = [ANone; ANone; ANone; ANone; ANone; ANone;
        ALatest (LOk (pl "req-bbbb-2" 2 10)); ARecent [(pl "req-bbbb-2" 2 10); (pl "req-aaaa-1" 1 10)]]
  /\ sp_trace hist_init esA = ytrace loc dh sys_init esA.
Proof. exact fixed_same_second. Qed.
(* F6b - before fix 8ffc003 the model answered find = None, latest = no data for the DAG a[1] *)
Example C06_fixed_glob_meta :
  all_premisesb loc dh [b; q] [] (univ [b; q] runsB) esB = true
  /\ ytrace loc dh sys_init esB = [ANone; ANone; ANone; AFind (Some (pl "req-aaaa-1" 1 10)); ALatest (LOk (pl "req-aaaa-1" 1 10));
        ANone; AFind (Some (pl "req-aaaa-1" 1 10)); AFind None; ARecent [(pl "req-aaaa-1" 1 10)]]
  /\ sp_trace hist_init esB = ytrace loc dh sys_init esB.
Proof. exact fixed_glob_meta. Qed.
(* F6c - before fix e6d6379 the model answered latest = req-aaaa-1 for the DAG n20240101.10:00:00 *)
Example C06_fixed_stamp_like_name :
  all_premisesb loc dh [c] [] (univ [c] runsC) esC = true
  /\ ytrace loc dh sys_init esC = [ANone; ANone; ANone; ANone; ANone; ANone; ALatest (LOk (pl "req-bbbb-2" 2 10))]
  /\ sp_trace hist_init esC = ytrace loc dh sys_init esC.
Proof. exact fixed_stamp_like_name. Qed.
(* F6d - before fix e2affa2 this shape was outside the model's domain (update overwritten in place, stale cache on the real store) *)
Example C06_fixed_update_during_run :
  all_premisesb loc dh [a] [] (univ [a] runsA) esD = true
  /\ ytrace loc dh sys_init esD = [ANone; ANone; ANone; ALatest (LOk (pl "req-aaaa-1" 2 12)); ANone; ALatest (LOk (pl "req-aaaa-1" 3 10));
                                  AFind (Some (pl "req-aaaa-1" 3 10))]
  /\ sp_trace hist_init esD = ytrace loc dh sys_init esD.
Proof. exact fixed_update_during_run. Qed.

(* ---- the string premises hold for EVERY DAG base name of length <= 2 over {a b Z 0 2 space . _ - [ ] * ? backslash :} and every name of
        length <= 3 over the hazardous part {a 2 . [ * ? backslash :}, and for every pair of distinct names of length <= 1 in one
        universe (bounded exhaustive; the general statement for all names is not proved) ------------------------------------------------ *)
Theorem C06_names_premises_bounded :
  List.length (words 2) = 241 /\ List.length (hwords 3) = 585
  /\ (forall w, In w (words 2) \/ In w (hwords 3) ->
        names_okb locN dhx [dag_of w] daysN (univ [dag_of w] runsN) = true /\ closedb [dag_of w] (univ [dag_of w] runsN) = true)
  /\ (forall w1 w2, In w1 (words 1) -> In w2 (words 1) -> w1 <> w2 ->
        names_okb locN dhx [dag_of w1; dag_of w2] daysN (univ [dag_of w1; dag_of w2] runsN) = true).
Proof. exact names_premises_bounded. Qed.
Print Assumptions C06_names_premises_bounded.

(* ---- premises that remain are needed ----------------------------------------------------------------------------------------------------- *)
Theorem C06_same_ms_needs_premise :
  (exists es, ytrace loc dh sys_init es <> sp_trace hist_init es) /\ evs_okb loc dh ysys_init hist_init esM = false.
Proof. exact same_ms_needs_premise. Qed.
Print Assumptions C06_same_ms_needs_premise.
Theorem C06_recreated_path_needs_premise :
  ytrace loc dh sys_init esR = [ANone; ANone; ALatest (LOk (pl "req-aaaa-1" 1 10)); ANone; ANone; ANone;
                                ALatest (LOk (pl "req-aaaa-1" 1 10)); ALatest (LOk (pl "req-aaaa-1" 2 10))]
  /\ evs_okb loc dh ysys_init hist_init esR = false.
Proof. exact recreated_path_needs_premise. Qed.
Print Assumptions C06_recreated_path_needs_premise.

(* ---- non-vacuity: the premises hold of a trace with shared-prefix names, a space, the _c suffix, update, rename, retention,
        queries by two readers and the operating process; the theorem then yields these (non-trivial) answers ---------------- *)
Example C06_premises_satisfiable :
  names_okb loc dh DE daysE KE = true /\ closedb DE KE = true /\ premisesb loc dh DE daysE KE esE = true.
Proof. exact premises_satisfiable. Qed.
Example C06_premises_instance :
  ytrace loc dh sys_init esE = sp_trace hist_init esE
  /\ sp_trace hist_init esE =
     [ANone; ANone; ALatest (LOk p1); ANone; ANone; ALatest (LOk p2); ANone; ANone; ANone; ANone; ANone;
      ARecent [p3; p2]; ALatest (LOk p3); ALatest LNoData;
      ANone; AFind (Some p5); AFind None; ARecent [p3; p5];
      ANone; ANone; ANone; AFind (Some p3); ARecent [p3; p5]; ARecent [];
      ANone; ARecent [p3]; ALatest (LOk p4)].
Proof. exact premises_instance. Qed.
