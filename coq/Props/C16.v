(* C16 - at most one run of a DAG file is active at a time.
   This file holds nothing but the property theorems (closed by `exact`) and Print Assumptions.
   Model: Sock/Model.v - every start / retry of the file is a process running the action list
   [BuildGraph; EvalPre; Lock; Probe; RemoveOld; OpenHist; WriteS0; UnlinkSock; Bind; Unlock; Steps; Handlers; WriteFinal;
    ShutUnlink; ShutClose; CloseHist] (agent.go Run / lockSocket, sock/server.go Serve, net.UnixListener.close) over a
   shared world; any number of processes interleave at action granularity.  This is the protocol AFTER the repair
   a924e5c (the probe..bind section is done under an exclusive flock on the DAG definition file; the socket path is
   removed once, by the listener close); before it the last clause of the property was false (F16a: findings/).
   What remains an assumption (modelled primitive, not proved): flock(LOCK_EX) is exclusive - `Lock` is enabled only while
   nobody holds the lock - and is released by closing the descriptor (`Unlock`, refusal, failure; process death is not
   modelled).  Since F16b the lock is on a dedicated file next to the socket address (created on demand, never removed; a
   failure to open it is an error): saving the definition (label Save) does not touch it; assumption: nothing else
   removes or replaces that file.
   Agent/Run.v is the single-agent skeleton.  Tie to the code: tools/props/C16.py (real `blackdagger` processes under
   strace with delay injection, and in-process agents, replayed against `run`). *)
From Coq Require Import List Bool Arith.
Import ListNotations.
From BD.Agent Require Import Run RunProofs.
From BD.Sock Require Import Model Proofs.

(* A start or retry whose probe is answered "running" has terminated without recording a run, executing anything or
   touching the socket - in every interleaving of any number of processes. *)
Theorem C16_refused_silent : forall (s0 : sockst) (sched : list label) (w : world) (p : nat),
  (forall q, s0 <> Bound q) -> run sched (init s0) = Some w -> refused (procs w p) = true ->
  pc (procs w p) = pcEnd /\ ~ In p (hist w) /\ ~ In p (execd w) /\ listening w p = false /\ sock w <> Bound p.
Proof. exact refused_silent. Qed.
Print Assumptions C16_refused_silent.

(* The refusal itself changes nothing but the refused process' own state. *)
Theorem C16_refusal_changes_nothing : forall (w : world) (p : nat) (w' : world),
  cur w p = Some Probe -> answering w = true -> step (Do p) w = Some w' ->
  sock w' = sock w /\ hist w' = hist w /\ execd w' = execd w /\ (forall q, listening w' q = listening w q) /\
  (forall q, q <> p -> procs w' q = procs w q) /\ refused (procs w' p) = true /\ pc (procs w' p) = pcEnd /\ lock w' = None.
Proof. exact refusal_step. Qed.
Print Assumptions C16_refusal_changes_nothing.

(* The single agent (start and retry alike - they differ in the graph construction only): a run that finds the DAG
   running ends with the probe; no history, schedule or socket action. *)
Theorem C16_agent_refused_start_is_silent : forall e : env,
  e_gaccept e = true -> (e_has_pre e = true -> e_pre_ok e = true) -> e_dry e = false ->
  e_probe_running e = true \/ e_probe_timeout e = true ->
  let acts := fst (Run.run e) in
  snd (Run.run e) = true /\ existsb is_hist acts = false /\ existsb is_sched acts = false /\ existsb is_sock acts = false
  /\ last acts ABuildGraph = AProbe.
Proof. exact refused_start_is_silent. Qed.
Print Assumptions C16_agent_refused_start_is_silent.

(* From ANY reachable state in which q owns the socket path (bound, lock released or about to be, shutdown not begun):
   in EVERY continuation in which q has not begun its shutdown, q still owns the path and its endpoint answers, the
   history is unchanged, no other process executed anything, and every process that took its probe was refused.
   (L and I are the invariants of the reachable states: C16_reachable_inv.) *)
Theorem C16_after_bind : forall (q : nat) (sched : list label) (w w' : world),
  L w -> I w -> owner (procs w q) = true -> run sched w = Some w' -> pc (procs w' q) <= pcShutUnlink ->
  (owner (procs w' q) = true /\ sock w' = Bound q /\ listening w' q = true) /\
  hist w' = hist w /\ (forall r, r <> q -> (In r (execd w') <-> In r (execd w))) /\
  (forall r, r <> q -> pc (procs w r) <= pcProbe -> pcProbe < pc (procs w' r) -> refused (procs w' r) = true).
Proof. exact after_bind. Qed.
Print Assumptions C16_after_bind.

Theorem C16_reachable_inv : forall (s0 : sockst) (sched : list label) (w : world),
  (forall p, s0 <> Bound p) -> run sched (init s0) = Some w -> L w /\ I w.
Proof. exact reachable_inv. Qed.
Print Assumptions C16_reachable_inv.

Example C16_after_bind_premise_reached :
  (exists w, run (does 0 9) (init Absent) = Some w /\ owner (procs w 0) = true) /\
  (exists w, run (does 0 9) (init Stale) = Some w /\ owner (procs w 0) = true).
Proof. exact owner_reached. Qed.

(* MUTUAL EXCLUSION, in full: any number of processes, every interleaving, from a clean or stale socket path.
   At most one process is inside its probe-and-bind section; at most one is past it un-refused and still owns the
   socket path; two starts never execute steps at the same time; the owner's endpoint answers; a run that executed
   earlier had removed its socket before the active one passed its probe; nobody fails to bind and the loser
   (refused) recorded and executed nothing. *)
Theorem C16_mutual_exclusion : forall (s0 : sockst) (sched : list label) (w : world),
  (forall q, s0 <> Bound q) -> run sched (init s0) = Some w ->
  (forall p q, in_section (procs w p) = true -> in_section (procs w q) = true -> p = q) /\
  (forall p q, owner (procs w p) = true -> owner (procs w q) = true -> p = q) /\
  (forall p q, active (procs w p) = true -> active (procs w q) = true -> p = q) /\
  (forall p, owner (procs w p) = true -> sock w = Bound p /\ listening w p = true) /\
  (forall p q, p <> q -> In p (execd w) -> active (procs w q) = true -> pcShutUnlink < pc (procs w p)) /\
  (forall p, bindfail (procs w p) = false) /\
  (forall p, refused (procs w p) = true -> ~ In p (hist w) /\ ~ In p (execd w)).
Proof. exact mutual_exclusion. Qed.
Print Assumptions C16_mutual_exclusion.

(* The four schedules that refuted the property before the repair, on the repaired protocol. *)
(* both probe before either binds: not an execution any more (the second Lock is not enabled) ... *)
Example C16_race_not_executable : run (does 0 4 ++ does 1 3) (init Absent) = None.
Proof. exact race_not_executable. Qed.
(* ... the second start waits, probes after the first's bind and is refused *)
Example C16_race_repaired :
  exists w, run (does 0 4 ++ does 1 2 ++ does 0 7 ++ does 1 2 ++ does 0 5) (init Absent) = Some w /\
            outcomes 2 w = [(1, true, true); (2, false, false)] /\ hist w = [0] /\ execd w = [0].
Proof. exact race_repaired. Qed.
Example C16_third_start_repaired :
  exists w, run (does 0 11 ++ does 1 4 ++ does 2 4) (init Absent) = Some w /\
            outcomes 3 w = [(0, true, true); (2, false, false); (2, false, false)] /\ answering w = true.
Proof. exact third_start_repaired. Qed.
Example C16_bind_first_not_executable : run (does 0 8 ++ does 1 3) (init Absent) = None.
Proof. exact bind_first_not_executable. Qed.
Example C16_late_unlink_repaired :
  exists w, run (does 0 14 ++ does 1 11 ++ does 0 2 ++ does 2 4) (init Absent) = Some w /\
            outcomes 3 w = [(1, true, true); (0, true, true); (2, false, false)] /\ sock w = Bound 1 /\ answering w = true.
Proof. exact late_unlink_repaired. Qed.

(* F16b - a save of the DAG definition (temp file + rename: a new inode) between one start's lock and its bind.  With the
   lock on the definition file (a924e5c) the second start got the lock at once and both executed; with the lock on a file
   of its own the save is invisible to the protocol (label Save, quantified over in every theorem above). *)
Example C16_save_race_refuted_before_F16b :
  exists w, run_a924 (does 0 4 ++ [Save] ++ does 1 11 ++ does 0 7) (init Absent) = Some w /\
            active (procs w 0) = true /\ active (procs w 1) = true /\ mem 0 (execd w) = true /\ mem 1 (execd w) = true /\
            sock w = Bound 0 /\ listening w 1 = true.
Proof. exact save_race_refuted_before_F16b. Qed.
Example C16_save_race_not_executable : run (does 0 4 ++ [Save] ++ does 1 3) (init Absent) = None.
Proof. exact save_race_not_executable. Qed.
Example C16_save_race_repaired :
  exists w, run (does 0 4 ++ [Save] ++ does 1 2 ++ does 0 7 ++ does 1 2 ++ does 0 5) (init Absent) = Some w /\
            outcomes 2 w = [(1, true, true); (2, false, false)] /\ hist w = [0] /\ execd w = [0].
Proof. exact save_race_repaired. Qed.
