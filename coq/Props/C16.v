(* C16 - at most one run of a DAG file is active at a time.
   This file holds nothing but the property theorems (closed by `exact`) and Print Assumptions.
   Model: Sock/Model.v - every start / retry of the file is a process running the action list
   [BuildGraph; EvalPre; Probe; RemoveOld; OpenHist; WriteS0; UnlinkSock; Bind; Steps; Handlers; WriteFinal; ShutUnlink;
    ShutClose; CloseHist; LateUnlink] (agent.go:98-210, sock/server.go:48-62, net.UnixListener.close) over a shared
   world; any number of processes interleave at action granularity.  Agent/Run.v is the single-agent skeleton.
   Tie to the code: tools/props/C16.py (two/three real `blackdagger` processes under strace delay injection, and
   in-process agents, replayed against `run`).

   The property's last clause is FALSE of the code and of the faithful model (F16a):

     C16_mutual_exclusion (not a theorem):
       forall sched w, run sched (init Absent) = Some w ->
         (forall p q, p <> q -> ~ (active (procs w p) = true /\ active (procs w q) = true)) /\
         (forall p, mem p (hist w) = true -> refused (procs w p) = false /\ bindfail (procs w p) = false ... )

   It is refuted below by explicit schedules (C16_mutual_exclusion_refuted, C16_third_start_refuted,
   C16_loser_records_refuted, C16_late_unlink_refuted) and proved under the decidable premise "no probe is taken while
   another process is between its own probe and its bind, or between its shutdown unlink and its exit"
   (C16_mutual_exclusion_partial, for any number of processes). *)
From Coq Require Import List Bool Arith.
Import ListNotations.
From BD.Agent Require Import Run RunProofs.
From BD.Sock Require Import Model Proofs.

(* A start or retry whose probe is answered "running" has terminated without recording a run, executing anything or
   touching the socket - in every interleaving of any number of processes. *)
Theorem C16_refused_silent : forall (s0 : sockst) (sched : list label) (w : world) (p : nat),
  (forall q, s0 <> Bound q) -> run sched (init s0) = Some w -> refused (procs w p) = true ->
  pc (procs w p) = pcEnd /\ ~ In p (hist w) /\ ~ In p (execd w) /\ listening w p = false /\ sock w <> Bound p.
Proof. exact refused_silent. Qed.
Print Assumptions C16_refused_silent.

(* The refusal itself changes nothing but the refused process' own state. *)
Theorem C16_refusal_changes_nothing : forall (w : world) (p : nat) (w' : world),
  cur w p = Some Probe -> answering w = true -> step (Do p) w = Some w' ->
  sock w' = sock w /\ hist w' = hist w /\ execd w' = execd w /\ (forall q, listening w' q = listening w q) /\
  (forall q, q <> p -> procs w' q = procs w q) /\ refused (procs w' p) = true /\ pc (procs w' p) = pcEnd.
Proof. exact refusal_step. Qed.
Print Assumptions C16_refusal_changes_nothing.

(* The single agent (start and retry alike - they differ in the graph construction only): a run that finds the DAG
   running ends with the probe; no history, schedule or socket action. *)
Theorem C16_agent_refused_start_is_silent : forall e : env,
  e_gaccept e = true -> (e_has_pre e = true -> e_pre_ok e = true) -> e_dry e = false ->
  e_probe_running e = true \/ e_probe_timeout e = true ->
  let acts := fst (Run.run e) in
  snd (Run.run e) = true /\ existsb is_hist acts = false /\ existsb is_sched acts = false /\ existsb is_sock acts = false
  /\ last acts ABuildGraph = AProbe.
Proof. exact refused_start_is_silent. Qed.
Print Assumptions C16_agent_refused_start_is_silent.

(* From a state in which q serves (bound and listening, not yet shutting down) and nobody else is past its probe: in
   EVERY continuation in which q has not begun its shutdown, q still serves, the history is unchanged, no other process
   executed anything, and every process that took its probe was refused. *)
Theorem C16_after_bind : forall (q : nat) (sched : list label) (w w' : world),
  L w -> K q w -> run sched w = Some w' -> pc (procs w' q) <= pcShutUnlink ->
  K q w' /\ hist w' = hist w /\ (forall r, r <> q -> (In r (execd w') <-> In r (execd w))) /\
  (forall r, r <> q -> pc (procs w r) <= pcProbe -> pcProbe < pc (procs w' r) -> refused (procs w' r) = true).
Proof. exact after_bind. Qed.
Print Assumptions C16_after_bind.

(* the bookkeeping invariant L used above holds in every reachable state *)
Theorem C16_L_reachable : forall (s0 : sockst) (sched : list label) (w : world),
  (forall p, s0 <> Bound p) -> run sched (init s0) = Some w -> L w.
Proof. exact L_reachable. Qed.
Print Assumptions C16_L_reachable.

Example C16_after_bind_premise_reached :
  K 0 (match run (does 0 8) (init Absent) with Some w => w | None => init Absent end) /\
  K 0 (match run (does 0 8) (init Stale) with Some w => w | None => init Absent end).
Proof. exact K_reached. Qed.

(* REFUTED (F16a): probe and bind are not atomic and the binder unlinks first.  Both processes execute their steps at
   the same time; process 0's endpoint is gone (the path belongs to process 1) while it still runs. *)
Theorem C16_mutual_exclusion_refuted :
  exists sched w, run sched (init Absent) = Some w /\
    both_active w 0 1 = true /\ mem 0 (execd w) = true /\ mem 1 (execd w) = true /\
    sock w = Bound 1 /\ listening w 0 = true.
Proof. exact mutual_exclusion_refuted. Qed.
Print Assumptions C16_mutual_exclusion_refuted.

(* ... process 0's own shutdown then removes process 1's endpoint and a third start is let in too *)
Theorem C16_third_start_refuted :
  exists sched w, run sched (init Absent) = Some w /\
    active (procs w 1) = true /\ active (procs w 2) = true /\ mem 2 (execd w) = true /\ mem 1 (execd w) = true /\ mem 0 (execd w) = true.
Proof. exact third_start_admitted. Qed.
Print Assumptions C16_third_start_refuted.

(* ... if the second binds first, the first fails to bind but has already recorded a run: the loser is not silent *)
Theorem C16_loser_records_refuted :
  exists sched w, run sched (init Absent) = Some w /\
    bindfail (procs w 0) = true /\ mem 0 (hist w) = true /\ mem 0 (execd w) = false /\ active (procs w 1) = true.
Proof. exact loser_records_refuted. Qed.
Print Assumptions C16_loser_records_refuted.

(* ... and without any probe/bind race: the late unlink of a finishing run deletes its successor's endpoint *)
Theorem C16_late_unlink_refuted :
  exists sched w, run sched (init Absent) = Some w /\
    active (procs w 1) = true /\ active (procs w 2) = true /\ mem 1 (execd w) = true /\ mem 2 (execd w) = true.
Proof. exact late_unlink_refuted. Qed.
Print Assumptions C16_late_unlink_refuted.

(* PARTIAL: under the guarded semantics (grun: among the processes 0..n-1 no Probe is taken while another process is in
   a dangerous phase - probed but not yet bound, or shutting down with unlinks pending) mutual exclusion holds in every
   reachable state, the active run's endpoint answers, nobody fails to bind, and the refused record nothing. *)
Theorem C16_mutual_exclusion_partial : forall (n : nat) (s0 : sockst) (sched : list label) (w : world),
  (forall q, s0 <> Bound q) -> grun n sched (init s0) = Some w ->
  (forall p q, p <> q -> ~ (busy (procs w p) = true /\ busy (procs w q) = true)) /\
  (forall p q, p <> q -> ~ (active (procs w p) = true /\ active (procs w q) = true)) /\
  (forall p, active (procs w p) = true -> sock w = Bound p /\ listening w p = true) /\
  (forall p, bindfail (procs w p) = false) /\
  (forall p, refused (procs w p) = true -> ~ In p (hist w) /\ ~ In p (execd w)).
Proof. exact mutual_exclusion_partial. Qed.
Print Assumptions C16_mutual_exclusion_partial.

(* the guard is met by non-trivial schedules (second start while the first serves: refused; second start after the first
   has exited: both run, one after the other) and does exclude the racing schedule *)
Example C16_guard_sat_refused :
  exists w, grun 2 (does 0 9 ++ does 1 3 ++ does 0 6) (init Absent) = Some w /\
            outcomes 2 w = [(1, true, true); (2, false, false)].
Proof. exact guard_sat_refused. Qed.
Example C16_guard_sat_sequential :
  exists w, grun 2 (does 0 15 ++ does 1 15) (init Stale) = Some w /\
            outcomes 2 w = [(1, true, true); (1, true, true)] /\ execd w = [0; 1].
Proof. exact guard_sat_sequential. Qed.
Example C16_guard_rejects_race : grun 2 race_sched (init Absent) = None.
Proof. exact guard_rejects_race. Qed.
