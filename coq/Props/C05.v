(* C05 - stop and timeout always bring a run to an end.
   This file holds nothing but the property theorems (closed by `exact`) and Print Assumptions.
   Model: Sched/Model.v (SigFlag / SigNode k = Scheduler.Signal: flag, then one atomic section per node, k = the signal
   was forwarded to the executor; Timeout; WExecRefused / HRefused = the executor refuses an expired context).
   Proofs: Sched/ProofsStop.v, Sched/ProofsTerm.v.  Witnesses: Sched/Examples2.v.  Tie to the code: tools/props/C05.py.
   The wall-clock bound (MaxCleanUpTime) is runtime behaviour: observed by the check, not proved. *)
From Coq Require Import List.
Import ListNotations.
From BD.Sched Require Import Model Proofs ProofsFinal ProofsTerm ProofsStop Examples Examples2.

(* No new start - for EVERY configuration (repeating steps, retries, with or without done channel): once the stop flag
   is set, a command starts only in a worker that had already passed its own cancel test (phase PStarting) when the
   flag was set; ... *)
Theorem C05_no_new_start : forall (c : cfg) ls s s', canceled s = true -> run c s ls = Some s' ->
  forall i, In (WExecStart i) ls -> ph (nd s i) = PStarting.
Proof. exact no_new_start. Qed.
Print Assumptions C05_no_new_start.

(* ... and at most once: a repeating step finishes its current iteration and is not repeated again, a failing step is
   not retried. *)
Theorem C05_started_at_most_once : forall (c : cfg) a b i s s', canceled s = true ->
  run c s (a ++ WExecStart i :: b) = Some s' -> ~ In (WExecStart i) b.
Proof. exact started_at_most_once. Qed.
Print Assumptions C05_started_at_most_once.

(* A repeating step is not signalled: the Signal pass skips it. *)
Theorem C05_repeat_not_signalled : forall (c : cfg) s k i q s', sigq s = i :: q -> repeat (steps c i) = true ->
  step c s (SigNode k) = Some s' -> k = false /\ nd s' = nd s.
Proof. exact signode_skips_repeat. Qed.
Print Assumptions C05_repeat_not_signalled.

(* The stop signal reaches every running step - for every configuration, in every reachable stopped state: a
   non-repeating step whose worker is past its cancel test and whose node is still running is still in the queue of a
   Signal pass; and when the pass reaches it while its command executes, the signal is forwarded (Kill) and the node
   flipped to canceled.  (Which signal - signalOnStop or the given one - is data of the call: checked by the monitor.) *)
Theorem C05_signal_reaches : forall (c : cfg) s, Reach c s ->
  canceled s = true -> forall i, i < nsteps c -> (ph (nd s i) = PStarting \/ ph (nd s i) = PExec) ->
  st (nd s i) = NRunning -> repeat (steps c i) = false -> In i (sigq s).
Proof. exact signal_reaches. Qed.
Print Assumptions C05_signal_reaches.

Theorem C05_signal_forwarded : forall (c : cfg) s k i q s', Inv c s -> sigq s = i :: q -> ph (nd s i) = PExec ->
  st (nd s i) = NRunning -> repeat (steps c i) = false -> step c s (SigNode k) = Some s' ->
  k = true /\ st (nd s' i) = NCancel.
Proof. exact kill_when_popped. Qed.
Print Assumptions C05_signal_forwarded.

(* ---- "processes that ignore the stop signal are force-killed once MaxCleanUpTime has elapsed" is FALSE of the pinned
        code (F5a): full statement - a step still executing when a later Signal pass (the SIGKILL escalation of
        agent.go:384-414) reaches it is forwarded that signal.
   Witness (observed on the real scheduler, findings/C05-F5a-escalation-noop.json): the first pass flipped the node
   to canceled; node.signal only acts on status running, so the second pass forwards nothing while the command is
   still executing. *)
Theorem C05_escalation_refuted :
  exists s, run (one_step 2 false) (init (one_step 2 false)) f5a_exec = Some s /\
    ph (nd s 0) = PExec /\ st (nd s 0) = NCancel /\ sigq s = [0] /\
    step (one_step 2 false) s (SigNode true) = None /\
    exists s', step (one_step 2 false) s (SigNode false) = Some s' /\ ph (nd s' 0) = PExec.
Proof. exact f5a_witness. Qed.
Print Assumptions C05_escalation_refuted.
(* Strongest true statement about forwarding: C05_signal_reaches + C05_signal_forwarded (the FIRST pass that finds the
   step running forwards its signal; excluded class: steps a previous pass has already flipped). *)

(* The run ends: every execution is finite (explicit bound; configurations without repeating steps - a repeating step
   is not re-entered after the stop by C05_no_new_start), the scheduler is never stuck before Done ... *)
Theorem C05_all_executions_finite : forall c : cfg, norepeat c ->
  forall ls s, run c (init c) ls = Some s -> length ls <= bound c.
Proof. exact all_executions_finite. Qed.
Print Assumptions C05_all_executions_finite.

Theorem C05_can_complete : forall c : cfg, norepeat c ->
  forall s, Reach c s -> wf_deps c -> exists ls s', run c s ls = Some s' /\ pc s' = LDone.
Proof. exact can_complete. Qed.
Print Assumptions C05_can_complete.

(* ... and as canceled with the cancel and exit handlers: a run reported canceled gets exactly the configured ones among
   [onCancel; onExit] (C04_handlers gives: started once each, in this order, after the last step). *)
Theorem C05_cancel_handlers : forall (c : cfg) s, overall c s = OCancel ->
  handlers_for c s = filter (hon c) [HCancel; HExit].
Proof. exact cancel_handlers. Qed.
Print Assumptions C05_cancel_handlers.
(* "Reported canceled" = stop flag set and not every step finished/skipped (C04_canceled_iff); and a stopped run whose
   steps were cut short is never reported finished: a step reported finished did run to a successful end
   (C04_finished_means_ran, unconditional since fix ac08004). *)
Theorem C05_finished_means_ran : forall c : cfg, donech c = true -> norepeat c ->
  forall s, Reach c s -> dry c = false ->
  forall i, st (nd s i) = NSuccess -> exists fs, outs (nd s i) = true :: fs.
Proof. exact finished_means_ran. Qed.
Print Assumptions C05_finished_means_ran.

(* Timeout (reading recorded in DESIGN.md section 6: a timed-out run is labelled failed): after the deadline no step
   command and no handler command starts; a command cut by the deadline is labelled canceled and the run gets an error. *)
Theorem C05_timeout_no_start : forall (c : cfg) s, timedout s = true ->
  (forall i, step c s (WExecStart i) = None) /\ (forall h, step c s (HStart h) = None).
Proof. exact timeout_no_start. Qed.
Print Assumptions C05_timeout_no_start.

Theorem C05_timeout_cuts : forall (c : cfg) s i, donech c = true -> norepeat c ->
  ph (nd s i) = PEnded false -> st (nd s i) = NRunning -> timedout s = true -> i < nsteps c ->
  exists s', step c s (WAfter i false) = Some s' /\ st (nd s' i) = NCancel /\ ph (nd s' i) = PGone /\ lasterr s' = true.
Proof. exact timeout_cuts. Qed.
Print Assumptions C05_timeout_cuts.

(* ---- "the chosen handlers really run" is FALSE of the pinned code after a timeout (F5d): full statement - in every
        execution reaching Done the handlers started are the configured ones among [handler of the outcome; onExit]
        (C04_handlers without its premise timedout = false).
   Witness (observed on the real scheduler, findings/C05-F5d-timeout-handlers-refused.json): after the deadline
   onFailure and onExit are chosen, their commands are refused (expired context), they are marked failed, never run. *)
Theorem C05_timeout_handlers_refuted :
  exists s1 s2 s3, run (one_step 0 true) (init (one_step 0 true)) f5d_pre = Some s1 /\
    step (one_step 0 true) s1 HBegin = Some s2 /\ run (one_step 0 true) s2 f5d_post = Some s3 /\
    pc s3 = LDone /\ handlers_for (one_step 0 true) s1 = [HFailure; HExit] /\ hstarts f5d_post = [] /\
    step (one_step 0 true) s2 (HStart HFailure) = None /\
    hatt (hst s3 HFailure) = 0 /\ hs (hst s3 HFailure) = NError /\ hatt (hst s3 HExit) = 0.
Proof. exact f5d_witness. Qed.
Print Assumptions C05_timeout_handlers_refuted.
(* Strongest true statement: C04_handlers (premise timedout s3 = false). *)

(* Non-vacuity: a clean stop of two executing steps: both in the Signal queue, both forwarded the signal and flipped,
   both end canceled, outcome canceled, handlers [onCancel; onExit], Done reached. *)
Example C05_nonvacuous :
  (donech two_steps = true /\ norepeat two_steps) /\
  exists s1 s2 s3, run two_steps (init two_steps) stop2_pre = Some s1 /\
    step two_steps s1 HBegin = Some s2 /\ run two_steps s2 stop2_post = Some s3 /\
    pc s3 = LDone /\ dry two_steps = false /\ timedout s3 = false /\ canceled s3 = canceled s1 /\
    overall two_steps s1 = OCancel /\ hstarts stop2_post = [HCancel; HExit] /\
    map (fun i => st (nd s3 i)) [0; 1] = [NCancel; NCancel] /\ pc s1 = LExited.
Proof. exact (conj stop2_ok stop2_witness). Qed.
