(* C05 - stop and timeout always bring a run to an end.
   This file holds nothing but the property theorems (closed by `exact`) and Print Assumptions.
   Model: Sched/Model.v (SigFlag / SigNode k = Scheduler.Signal: flag, then one atomic section per node, k = the signal
   was forwarded to the executor; Timeout; WExecRefused = the executor refuses an expired context).
   Proofs: Sched/ProofsStop.v, Sched/ProofsTerm.v.  Examples: Sched/Examples2.v.  Tie to the code: tools/props/C05.py.
   What still needs a premise / is not proved:
   - finiteness and "can be driven to Done" are proved for configurations without repeating steps (a repeating step
     runs until a stop; after the stop it is not re-entered: C05_no_new_start / C05_started_at_most_once, proved for
     every configuration - so after a stop every step's command starts at most once more; a BOUND on the length of the
     executions after a stop with repeating steps is not proved: the measure of ProofsTerm.v rests on the invariant of
     Proofs.v, which is stated for configurations without repeating steps);
   - a stop during a retry interval: the worker's unconditional reset (status := not started) overwrites the canceled
     label the Signal pass gave the node; the command is not started again (C05_no_new_start) and the run ends canceled
     with onCancel/onExit - C05_stop_during_retry_wait below -, but the node is persisted "not started" with retry
     count 1 although it was attempted once.  C05 says nothing about that label (C08 does);
   - that a signalled process exits (or is killed by SIGKILL) is the environment's part: in the model WExecEnd is
     always enabled for an executing command; which signal is sent (signalOnStop or the given one) is data of the call,
     checked by the monitor on the real Kill events;
   - the wall-clock bound (MaxCleanUpTime, agent.go:384-414) is runtime behaviour: observed by the check on real
     processes, not proved. *)
From Coq Require Import List.
Import ListNotations.
From BD.Sched Require Import Model Proofs ProofsFinal ProofsTerm ProofsStop Examples Examples2.

(* No new start - for EVERY configuration (repeating steps, retries, with or without done channel): once the stop flag
   is set, a command starts only in a worker that had already passed its own cancel test (phase PStarting) when the
   flag was set; ... *)
Theorem C05_no_new_start : forall (c : cfg) ls s s', canceled s = true -> run c s ls = Some s' ->
  forall i, In (WExecStart i) ls -> ph (nd s i) = PStarting.
Proof. exact no_new_start. Qed.
Print Assumptions C05_no_new_start.

(* ... and at most once: a repeating step finishes its current iteration and is not repeated again, a failing step is
   not retried. *)
Theorem C05_started_at_most_once : forall (c : cfg) a b i s s', canceled s = true ->
  run c s (a ++ WExecStart i :: b) = Some s' -> ~ In (WExecStart i) b.
Proof. exact started_at_most_once. Qed.
Print Assumptions C05_started_at_most_once.

(* A repeating step is not signalled: the Signal pass skips it. *)
Theorem C05_repeat_not_signalled : forall (c : cfg) s k i q s', sigq s = i :: q -> repeat (steps c i) = true ->
  step c s (SigNode k) = Some s' -> k = false /\ nd s' = nd s.
Proof. exact signode_skips_repeat. Qed.
Print Assumptions C05_repeat_not_signalled.

(* The stop signal reaches every running step - for every configuration, in every reachable stopped state: a
   non-repeating step whose worker is past its cancel test and whose node is still running is still in the queue of a
   Signal pass (nobody can take it out but the pass itself) ... *)
Theorem C05_signal_reaches : forall (c : cfg) s, Reach c s ->
  canceled s = true -> forall i, i < nsteps c -> (ph (nd s i) = PStarting \/ ph (nd s i) = PExec) ->
  st (nd s i) = NRunning -> repeat (steps c i) = false -> In i (sigq s).
Proof. exact signal_reaches. Qed.
Print Assumptions C05_signal_reaches.

(* ... and EVERY pass that reaches a non-repeating step while its command executes forwards its signal (Kill) - the
   first one (which also flips the node to canceled) and every later one: re-sends and the SIGKILL escalation after
   MaxCleanUpTime reach a process that ignored the first signal.  (False before fix 767545b - F5a: node.signal only
   acted on status running.) *)
Theorem C05_escalation : forall (c : cfg) s k i q s', Inv c s -> sigq s = i :: q -> ph (nd s i) = PExec ->
  repeat (steps c i) = false -> step c s (SigNode k) = Some s' -> k = true /\ ph (nd s' i) = PExec.
Proof. exact escalation_reaches. Qed.
Print Assumptions C05_escalation.

Theorem C05_signal_forwarded : forall (c : cfg) s k i q s', Inv c s -> sigq s = i :: q -> ph (nd s i) = PExec ->
  st (nd s i) = NRunning -> repeat (steps c i) = false -> step c s (SigNode k) = Some s' ->
  k = true /\ st (nd s' i) = NCancel.
Proof. exact kill_when_popped. Qed.
Print Assumptions C05_signal_forwarded.

(* The run ends: every execution is finite (explicit bound; configurations without repeating steps), the scheduler is
   never stuck before Done ... *)
Theorem C05_all_executions_finite : forall c : cfg, norepeat c ->
  forall ls s, run c (init c) ls = Some s -> length ls <= bound c.
Proof. exact all_executions_finite. Qed.
Print Assumptions C05_all_executions_finite.

Theorem C05_can_complete : forall c : cfg, norepeat c ->
  forall s, Reach c s -> wf_deps c -> exists ls s', run c s ls = Some s' /\ pc s' = LDone.
Proof. exact can_complete. Qed.
Print Assumptions C05_can_complete.

(* ... as canceled with the cancel and exit handlers: a run reported canceled gets exactly the configured ones among
   [onCancel; onExit] (C04_handlers: started once each, in this order, after the last step; C04_outcome_stable: the
   outcome does not change afterwards).  "Reported canceled" at the choice = stop flag set and not every step
   finished/skipped (C04_canceled_iff); and a stopped run whose steps were cut short is never reported finished: *)
Theorem C05_cancel_handlers : forall (c : cfg) s, overall c s = OCancel ->
  handlers_for c s = filter (hon c) [HCancel; HExit].
Proof. exact cancel_handlers. Qed.
Print Assumptions C05_cancel_handlers.

Theorem C05_finished_means_ran : forall c : cfg, norepeat c ->
  forall s, Reach c s -> dry c = false ->
  forall i, st (nd s i) = NSuccess -> exists fs, outs (nd s i) = true :: fs.
Proof. exact finished_means_ran. Qed.
Print Assumptions C05_finished_means_ran.

(* Timeout (reading recorded in DESIGN.md section 6: a timed-out run is labelled failed): after the deadline no step
   command starts; a command cut by the deadline is labelled canceled and the run gets an error; the chosen handlers
   do run (C04_handlers has no timeout premise any more; before fix 246fa0b they were refused - F5d). *)
Theorem C05_timeout_no_start : forall (c : cfg) s, timedout s = true -> forall i, step c s (WExecStart i) = None.
Proof. exact timeout_no_start. Qed.
Print Assumptions C05_timeout_no_start.

Theorem C05_timeout_cuts : forall (c : cfg) s i, norepeat c ->
  ph (nd s i) = PEnded false -> st (nd s i) = NRunning -> timedout s = true -> i < nsteps c ->
  exists s', step c s (WAfter i false) = Some s' /\ st (nd s' i) = NCancel /\
             (ph (nd s' i) = PGone \/ ph (nd s' i) = PPost) /\ lasterr s' = true.
Proof. exact timeout_cuts. Qed.
Print Assumptions C05_timeout_cuts.

(* The deadline is tested BEFORE the retry policy (the order of the arms of the worker's error switch): a step whose
   attempt ends after the timeout is never handed back for a retry - whatever retries it has left - and its retry count
   stays as it is.  For every configuration. *)
Theorem C05_timeout_no_retry : forall (c : cfg) s i early s', timedout s = true ->
  step c s (WAfter i early) = Some s' -> ph (nd s' i) <> PRetryWait /\ rc (nd s' i) = rc (nd s i).
Proof. exact timeout_no_retry. Qed.
Print Assumptions C05_timeout_no_retry.

Theorem C05_timeout_handler_starts : forall (c : cfg) s h t0, pc s = LHandlers (h :: t0) false -> dry c = false ->
  hsfail c h = false ->
  exists s', step c s (HStart h) = Some s'.
Proof. exact handler_starts_after_timeout. Qed.
Print Assumptions C05_timeout_handler_starts.

(* Non-vacuity and history.  (1) A stop of two executing steps: both in the Signal queue, both forwarded the signal and
   flipped, both end canceled, outcome canceled, handlers [onCancel; onExit], Done reached. *)
Example C05_nonvacuous :
  (donech two_steps = true /\ norepeat two_steps) /\
  exists s1 s2 s3, run two_steps (init two_steps) stop2_pre = Some s1 /\
    step two_steps s1 HBegin = Some s2 /\ run two_steps s2 stop2_post = Some s3 /\
    pc s3 = LDone /\ dry two_steps = false /\
    overall two_steps s1 = OCancel /\ hstarts stop2_post = [HCancel; HExit] /\
    map (fun i => st (nd s3 i)) [0; 1] = [NCancel; NCancel] /\ pc s1 = LExited.
Proof. exact (conj stop2_ok stop2_witness). Qed.

(* (2) The F5a scenario in the repaired model: the second Signal pass forwards its signal to the node the first pass has
   flipped, because its command still executes. *)
Example C05_escalation_repaired :
  exists s, run (one_step 2 false) (init (one_step 2 false)) f5a_exec = Some s /\
    ph (nd s 0) = PExec /\ st (nd s 0) = NCancel /\ sigq s = [0] /\
    step (one_step 2 false) s (SigNode false) = None /\
    exists s', step (one_step 2 false) s (SigNode true) = Some s' /\ ph (nd s' 0) = PExec.
Proof. exact f5a_repaired. Qed.

(* (3) The F5d scenario in the repaired model: after the DAG timeout onFailure and onExit are chosen and run. *)
Example C05_timeout_handlers_repaired :
  exists s1 s2 s3, run (one_step 0 true) (init (one_step 0 true)) f5d_pre = Some s1 /\
    step (one_step 0 true) s1 HBegin = Some s2 /\ run (one_step 0 true) s2 f5d_post = Some s3 /\
    pc s3 = LDone /\ timedout s3 = true /\ handlers_for (one_step 0 true) s1 = [HFailure; HExit] /\
    hstarts f5d_post = [HFailure; HExit] /\ st (nd s3 0) = NCancel /\ overall (one_step 0 true) s3 = OError /\
    hatt (hst s3 HFailure) = 1 /\ hs (hst s3 HFailure) = NSuccess /\ hatt (hst s3 HExit) = 1.
Proof. exact f5d_repaired. Qed.

(* (4) A stop during a retry interval (the reset of the retrying worker undoes the canceled label, not the stop): the
   command was started once and is not started again, the run ends canceled, onCancel then onExit run; the node ends
   "not started" with retry count 1, one attempt. *)
Example C05_stop_during_retry_wait :
  exists s, run retry_one (init retry_one) stop_in_retry_wait = Some s /\ pc s = LDone /\ canceled s = true /\
    st (nd s 0) = NNone /\ rc (nd s 0) = 1 /\ att (nd s 0) = 1 /\ ph (nd s 0) = PIdle /\
    overall retry_one s = OCancel /\ hstarts stop_in_retry_wait = [HCancel; HExit] /\
    length (filter (fun l => match l with WExecStart _ => true | _ => false end) stop_in_retry_wait) = 1.
Proof. exact stop_in_retry_wait_ok. Qed.
