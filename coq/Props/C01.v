(* C01 - a step never starts before everything it depends on has finished.
   This file holds nothing but the property theorems (closed by `exact`) and Print Assumptions.
   Model: Sched/Model.v.  Proofs: Sched/Proofs.v.  Tie to the code: tools/props/C01.py.
   Premise: norepeat c (no repeatPolicy step).  The premise is NEEDED, it is not a convenience: a step with repeatPolicy
   and continueOn.failure whose command fails is labelled failed and keeps repeating, so its dependents are released and
   its command starts again after theirs - C01_repeating_dependency_refuted below; the same on the real scheduler
   (findings/C15-repeat-continue-on-failure.json).  A repeating step WITHOUT continueOn.failure stays running until a stop
   request, so its dependents never start (C05_no_new_start).  Since fix f9e55a3 no premise about the done channel is
   needed.
   Modelled away (trusted base): node teardown (log flush) does not fail - the code turns a finished node into
   failed when the flush fails, after dependents may already have looked. *)
From Coq Require Import List.
Import ListNotations.
From BD.Sched Require Import Model Proofs Replay ReplayProofs ProofsTrace Examples Examples2.

(* For every configuration (any dependency lists, flags, retry limits, preconditions, maxActiveRuns), every
   execution ls1 ++ WExecStart i :: ls2 of the scheduler model (= every outcome assignment and interleaving) and
   every dependency d of i: at the instant i's command starts, d is finished, or failed with continueOn.failure, or
   skipped with continueOn.skipped; d has no live worker (not setting up, executing, deciding or waiting to
   retry); and d's command never starts again afterwards - it has finished its last attempt. *)
Theorem C01_start_after_deps : forall c : cfg, norepeat c ->
  forall ls1 i ls2 s1 s2 s3,
    run c (init c) ls1 = Some s1 -> step c s1 (WExecStart i) = Some s2 -> run c s2 ls2 = Some s3 ->
    forall d, In d (deps (steps c i)) ->
      okterm c s1 d /\ active (ph (nd s1 d)) = false /\ ph (nd s1 d) <> PExec /\ ~ In (WExecStart d) ls2.
Proof. exact C01_execution. Qed.
Print Assumptions C01_start_after_deps.

(* The same on the VISIBLE trace of every execution (what the harness observes of the real scheduler): when step i's
   Run is entered no dependency has an open Run (opn_after = the set of open Run calls), and no dependency's Run is
   entered again later. *)
Theorem C01_on_every_trace : forall c : cfg, norepeat c ->
  forall ls1 i ls2 s, run c (init c) (ls1 ++ WExecStart i :: ls2) = Some s ->
  forall d, In d (deps (steps c i)) ->
    ~ In d (opn_after [] (vis ls1)) /\ ~ In (VStart d) (vis ls2).
Proof. exact C01_trace. Qed.
Print Assumptions C01_on_every_trace.

(* the statuses a dependent relies on never change again *)
Theorem C01_permitting_status_is_stable : forall c : cfg, norepeat c ->
  forall s l s', Inv c s -> step c s l = Some s' -> forall d, okterm c s d -> okterm c s' d.
Proof. exact step_okterm_stable. Qed.
Print Assumptions C01_permitting_status_is_stable.

(* The tie to the implementation is sound in this direction: a trace of the real scheduler that the acceptor accepts IS
   the visible projection (command starts and ends) of an execution of the model ending in Done with the observed final
   node table, Schedule error and Status - so every theorem about all executions holds of every accepted run.  (That
   real traces ARE accepted is what the correspondence measures on every run of the check.) *)
Theorem C01_accept_sound : forall c ivl eps fin tr err status, accept c ivl eps fin tr err status = true ->
  exists ls s, run c (init c) ls = Some s /\ vis ls = untime tr /\ pc s = LDone /\
               final_ok c fin s = true /\ lasterr s = err /\ ocode (overall c s) = status.
Proof. exact accept_sound. Qed.
Print Assumptions C01_accept_sound.

(* Non-vacuity: a complete execution of the diamond a -> {b,c} -> d (b retried once) reaches every hypothesis with
   i = d and dependencies [b; c], and runs to completion. *)
Example C01_nonvacuous :
  (donech diamond = true /\ norepeat diamond) /\
  exists s1 s2 s3, run diamond (init diamond) diamond_prefix = Some s1 /\
                   step diamond s1 (WExecStart 3) = Some s2 /\ run diamond s2 diamond_rest = Some s3 /\
                   pc s3 = LDone /\ deps (steps diamond 3) = [1; 2].
Proof. exact (conj diamond_ok diamond_reaches_start). Qed.

(* History (fixed by f9e55a3): with done == nil the worker that had reset a retried node used to flip the relaunched,
   running attempt to finished, so that a dependent started while its dependency executed (reproduced on the real
   code, findings/C01-done-nil-stale-flip.json).  In the repaired model the same scenario - no done channel, first
   attempt failed, second attempt executing - leaves the dependency running and refuses the dependent. *)
Example C01_done_nil_flip_repaired :
  exists s, run flip_cfg (init flip_cfg) flip_exec = Some s /\
            norepeat flip_cfg /\ donech flip_cfg = false /\ maxActive flip_cfg = 1 /\
            In 0 (deps (steps flip_cfg 1)) /\ ph (nd s 0) = PExec /\ st (nd s 0) = NRunning /\
            step flip_cfg s (LCommit 1) = None.
Proof. exact stale_flip_repaired. Qed.

(* Why norepeat is a premise: repeatPolicy + continueOn.failure, the command fails: the step is labelled failed (which
   permits its dependent, step 1) and keeps repeating; its command starts again after step 1's (ls2 contains
   WExecStart 0) - with maxActiveRuns = 1 two commands then execute at once. *)
Example C01_repeating_dependency_refuted :
  maxActive repeat_cof_cfg = 1 /\ donech repeat_cof_cfg = true /\
  exists s1 s2 s3, run repeat_cof_cfg (init repeat_cof_cfg) repeat_cof_pre = Some s1 /\
    step repeat_cof_cfg s1 (WExecStart 1) = Some s2 /\ run repeat_cof_cfg s2 repeat_cof_post = Some s3 /\
    In 0 (deps (steps repeat_cof_cfg 1)) /\ In (WExecStart 0) repeat_cof_post /\
    st (nd s1 0) = NError /\ ph (nd s1 0) = PRepeatWait /\
    ph (nd s3 0) = PExec /\ ph (nd s3 1) = PExec /\ exec_count repeat_cof_cfg s3 = 2 /\ running_count repeat_cof_cfg s3 = 1.
Proof. exact repeat_cof_breaks_order_and_cap. Qed.

(* A command that cannot be created (the theorems above cover it: in the model it is the label WCreateFail, an attempt
   that fails without a command having been started): step 0 (retry limit 1, continueOn.failure, maxActiveRuns = 1)
   fails to create its command once, waits out the retry interval still RUNNING - dependents wait for the LAST attempt: step 1 is refused meanwhile -,
   then executes and succeeds; only then step 1 is launched. *)
Example C01_creation_failure_nonvacuous :
  norepeat cfail_cfg /\ maxActive cfail_cfg = 1 /\
  exists s1 s2, run cfail_cfg (init cfail_cfg) cfail_pre = Some s1 /\
    st (nd s1 0) = NRunning /\ ph (nd s1 0) = PRetryWait /\ rc (nd s1 0) = 1 /\ outs (nd s1 0) = [false] /\
    step cfail_cfg s1 (LCommit 1) = None /\ step cfail_cfg s1 (WExecStart 0) = None /\
    run cfail_cfg s1 cfail_post = Some s2 /\
    st (nd s2 0) = NSuccess /\ rc (nd s2 0) = 1 /\ att (nd s2 0) = 2 /\ outs (nd s2 0) = [true; false] /\
    ph (nd s2 1) = PExec.
Proof. exact cfail_retry_ok. Qed.
