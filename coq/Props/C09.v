From Coq Require Import List String ZArith.
From BD.Cron Require Import Model Proofs.
Example C09_smoke : cls (parse "0 0 30 2 *") = 0%nat.
Proof. exact parse_smoke. Qed.
Print Assumptions C09_smoke.
