(* C09 - the scheduler daemon starts each DAG exactly at its scheduled minutes.
   This file holds nothing but the property theorems (closed by `exact`), Print Assumptions and Examples.
   Models: Cron/Model.v (robfig/cron v3.0.1 Parser.Parse + SpecSchedule.Next for the 5-field option set, civil
   calendar), Cron/Schedule.v (builder.go buildSchedule, parser.go parseScheduleMap), Daemon/Model.v
   (scheduler.go run, entryreader.go Read / initDags / watchDags, job.go Start / Stop / Restart).
   Tie to the code: tools/props/C09.py (differential runs of dag.LoadYAML, Parsed.Next and of the real
   scheduler.New + watcher against these models; the property monitor on what the daemon did).

   FULL STATEMENT:
     for every history of ticks / edits / restarts, a Start for DAG d is issued by the tick of minute m iff one of
     d's start schedules matches m, d is not suspended, not running, and its latest run started before m - so no
     minute is missed and none is started twice; Stop only on running DAGs; Restart at each matching minute; an
     unloadable file never affects the other DAGs.
   Three classes of defects of the pinned tree contradicted it; all are repaired in /repo and the model follows the
   repaired code: F9a (a schedule without activation up to the end of year+5 made Next return the zero time and the
   entry was invoked at every tick; 24d4f27), F9b (two start schedules of one DAG matching the same minute started
   it twice; 7357cf4: one entry per DAG and operation) and F13a/F13b (a file on which the schedule loader panicked
   killed the daemon; c2912bd, 519d0a6).  Every clause is now proved in full - no _partial, no _refuted theorem
   remains.  What C09_no_double still assumes (tick minutes never decrease, a tick never runs before its minute, the
   reported latest start never moves backwards) delimits the histories the property speaks about; see ProofsSeq.v. *)
From Coq Require Import List String ZArith Bool.
Import ListNotations.
From BD.Cron Require Import Model Schedule ProofsCal ProofsNext ProofsSched.
From BD.Daemon Require Import Model ProofsTick Proofs ProofsSeq Witness.
Local Open Scope Z_scope.

(* ------------------------------------------------------------------------------------------ *)
(* calendar: civil date <-> day number, civil time <-> unix minute, inverse on the whole of Z  *)
(* ------------------------------------------------------------------------------------------ *)
Theorem C09_calendar_of_day : forall D y mo d, civil_from_days D = (y, mo, d) ->
  valid_date y mo d = true /\ days_from_civil y mo d = D.
Proof. exact civil_days_roundtrip. Qed.
Print Assumptions C09_calendar_of_day.

Theorem C09_calendar_of_date : forall y mo d, valid_date y mo d = true ->
  civil_from_days (days_from_civil y mo d) = (y, mo, d).
Proof. exact days_civil_roundtrip. Qed.
Print Assumptions C09_calendar_of_date.

Theorem C09_calendar_of_minute : forall m, minute_of_civil (civil_of_minute m) = m /\ valid_civil (civil_of_minute m) = true.
Proof. exact minute_civil_roundtrip. Qed.
Print Assumptions C09_calendar_of_minute.

Theorem C09_calendar_of_civil : forall c, valid_civil c = true -> civil_of_minute (minute_of_civil c) = c.
Proof. exact civil_minute_roundtrip. Qed.
Print Assumptions C09_calendar_of_civil.

(* ------------------------------------------------------------------------------------------ *)
(* Next = the least matching minute after t within the horizon (end of year(t+1s)+5), else None *)
(* ------------------------------------------------------------------------------------------ *)
Theorem C09_next_least : forall sp t, least (matches sp) (next_lo t) (horizon sp t) (next sp t).
Proof. exact next_least. Qed.
Print Assumptions C09_next_least.

Theorem C09_next_some : forall sp t m, next sp t = Some m ->
  next_lo t <= m < horizon sp t /\ matches sp m = true /\ forall y, next_lo t <= y < m -> matches sp y = false.
Proof. exact next_some. Qed.
Print Assumptions C09_next_some.

Theorem C09_next_none : forall sp t, next sp t = None -> forall y, next_lo t <= y < horizon sp t -> matches sp y = false.
Proof. exact next_none. Qed.
Print Assumptions C09_next_none.

(* a whole minute m is searched iff it lies strictly after the instant t (seconds) *)
Theorem C09_next_after : forall t m, next_lo t <= m <-> t < 60 * m.
Proof. exact next_lo_spec. Qed.
Print Assumptions C09_next_after.

(* the skipping implementation equals the naive minute-by-minute search *)
Theorem C09_next_eq_naive : forall sp t, next sp t = next_naive sp t.
Proof. exact next_eq_naive. Qed.
Print Assumptions C09_next_eq_naive.

(* ------------------------------------------------------------------------------------------ *)
(* the daemon's test Next(tick - 1s) <= tick                                                   *)
(* ------------------------------------------------------------------------------------------ *)
Theorem C09_due : forall sp m, due sp m = true <-> matches sp m = true.
Proof. exact due_iff_matches. Qed.
Print Assumptions C09_due.

Theorem C09_due_of_match : forall sp m, matches sp m = true -> due sp m = true /\ next sp (60 * m - 1) = Some m.
Proof. exact due_of_match. Qed.
Print Assumptions C09_due_of_match.

(* the former F9a: no activation within the horizon - never due *)
Theorem C09_due_of_none : forall sp m, next sp (60 * m - 1) = None -> due sp m = false /\ matches sp m = false.
Proof. exact due_of_none. Qed.
Print Assumptions C09_due_of_none.

Example C09_due_former_f9a : parse "0 0 30 2 *" = POk feb30 /\ next feb30 (60 * 28589040 - 1) = None /\ due feb30 28589040 = false.
Proof. exact due_former_f9a. Qed.

Example C09_due_sat : exists sp, parse "*/15 3 * * 1-5" = POk sp /\
    next sp (60 * 28589040 - 1) <> None /\ next sp (60 * 28588500 - 1) = Some 28588500 /\
    matches sp 28588500 = true /\ due sp 28588500 = true /\ due sp 28589040 = false.
Proof. exact due_premise_sat. Qed.

(* ------------------------------------------------------------------------------------------ *)
(* one tick: the multiset of client calls = the guard formula                                  *)
(* ------------------------------------------------------------------------------------------ *)
(* faithful form, no premise on the schedules: per file and kind, the number of calls is the number of schedules
   that are due and pass job.go's guard (file_count) *)
Theorem C09_tick_count : forall s m c, NoDup (map fst (tbl s)) ->
  count c (tick_calls s m) =
  if alive s then
    match lookup (call_file c) (tbl s) with
    | Some e => if mem (call_file c) (susp s) then 0%nat else file_count s m (call_file c) e c
    | None => 0%nat
    end
  else 0%nat.
Proof. exact tick_count. Qed.
Print Assumptions C09_tick_count.

(* b2n true = 1, b2n false = 0; hit m sps = some schedule of the list fires at minute m *)
Theorem C09_hit_iff : forall m sps, hit m sps = true <-> exists sp, In sp sps /\ matches sp m = true.
Proof. exact hit_iff. Qed.
Print Assumptions C09_hit_iff.

Theorem C09_start_iff : forall s m, NoDup (map fst (tbl s)) ->
  forall f e, lookup f (tbl s) = Some e ->
  count (CStart f) (tick_calls s m) =
  b2n (alive s && negb (mem f (susp s)) && start_guard (status_of s f) m && hit m (starts e)).
Proof. exact start_iff. Qed.
Print Assumptions C09_start_iff.

Theorem C09_stop_iff : forall s m, NoDup (map fst (tbl s)) ->
  forall f e, lookup f (tbl s) = Some e ->
  count (CStop f) (tick_calls s m) =
  b2n (alive s && negb (mem f (susp s)) && stop_guard (status_of s f) && hit m (stops e)).
Proof. exact stop_iff. Qed.
Print Assumptions C09_stop_iff.

Theorem C09_restart_iff : forall s m, NoDup (map fst (tbl s)) ->
  forall f e, lookup f (tbl s) = Some e ->
  count (CRestart f) (tick_calls s m) = b2n (alive s && negb (mem f (susp s)) && hit m (restarts e)).
Proof. exact restart_iff. Qed.
Print Assumptions C09_restart_iff.

(* the property's wording *)
Theorem C09_start_in_iff : forall s m, NoDup (map fst (tbl s)) ->
  forall f e, lookup f (tbl s) = Some e ->
  (In (CStart f) (tick_calls s m) <->
   alive s = true /\ mem f (susp s) = false /\ start_guard (status_of s f) m = true /\
   exists sp, In sp (starts e) /\ matches sp m = true).
Proof. exact start_in_iff. Qed.
Print Assumptions C09_start_in_iff.

Theorem C09_stop_in_iff : forall s m, NoDup (map fst (tbl s)) ->
  forall f e, lookup f (tbl s) = Some e ->
  (In (CStop f) (tick_calls s m) <->
   alive s = true /\ mem f (susp s) = false /\ stop_guard (status_of s f) = true /\
   exists sp, In sp (stops e) /\ matches sp m = true).
Proof. exact stop_in_iff. Qed.
Print Assumptions C09_stop_in_iff.

Theorem C09_restart_in_iff : forall s m, NoDup (map fst (tbl s)) ->
  forall f e, lookup f (tbl s) = Some e ->
  (In (CRestart f) (tick_calls s m) <->
   alive s = true /\ mem f (susp s) = false /\ exists sp, In sp (restarts e) /\ matches sp m = true).
Proof. exact restart_in_iff. Qed.
Print Assumptions C09_restart_in_iff.

(* at most one call of each kind per DAG and tick - every table, every status, every list of schedules *)
Theorem C09_start_once : forall s m, NoDup (map fst (tbl s)) -> forall c, (count c (tick_calls s m) <= 1)%nat.
Proof. exact call_once. Qed.
Print Assumptions C09_start_once.

(* the operations of one tick do not depend on each other: the calls for f are the same in any two states that agree
   on f's entry, suspension and latest status - whatever other DAGs are loaded, due, running or started in that tick *)
Theorem C09_tick_independent : forall s s' m c,
  NoDup (map fst (tbl s)) -> NoDup (map fst (tbl s')) ->
  alive s = alive s' ->
  lookup (call_file c) (tbl s) = lookup (call_file c) (tbl s') ->
  mem (call_file c) (susp s) = mem (call_file c) (susp s') ->
  status_of s (call_file c) = status_of s' (call_file c) ->
  count c (tick_calls s m) = count c (tick_calls s' m).
Proof. exact tick_independent. Qed.
Print Assumptions C09_tick_independent.

Theorem C09_unknown_file_silent : forall s m, NoDup (map fst (tbl s)) ->
  forall c, lookup (call_file c) (tbl s) = None -> count c (tick_calls s m) = 0%nat.
Proof. exact unknown_file_silent. Qed.
Print Assumptions C09_unknown_file_silent.

(* the input that used to be started twice (F9b) *)
Example C09_former_overlap :
  run (init_state d_f9b) [ORestart; OTick m0 (60 * m0); OTick (m0 + 1) (60 * m0 + 60)] = [[]; [CStart "d0.yaml"]; []]%string /\
  count (CStart "d0.yaml"%string) (tick_calls (after d_f9b [ORestart]) m0) = 1%nat /\
  List.length (filter (fun sp => matches sp m0) (starts (entry_of (after d_f9b [ORestart]) "d0.yaml"%string))) = 2%nat /\
  starts_at "d0.yaml"%string m0 (init_state d_f9b) [ORestart; OTick m0 (60 * m0)] = 1%nat.
Proof. exact former_overlap_starts_once. Qed.

Example C09_start_iff_sat : exists s m f e,
  NoDup (map fst (tbl s)) /\ lookup f (tbl s) = Some e /\
  count (CStart f) (tick_calls s m) = 1%nat /\ count (CStart f) (tick_calls s (m + 1)) = 0%nat.
Proof. exact start_iff_sat. Qed.

(* the inputs that used to be invoked at every tick (F9a) *)
Example C09_former_zero_next :
  run (init_state d_f9a_start) [ORestart; OTick m0 (60 * m0); OTick (m0 + 1) (60 * m0 + 60)] = [[]; []; []] /\
  run (init_state d_f9a_restart) [ORestart; OTick m0 (60 * m0); OTick (m0 + 1) (60 * m0 + 60); OTick (m0 + 2) (60 * m0 + 120)]
    = [[]; []; []; []] /\
  restarts (entry_of (final (init_state d_f9a_restart) [ORestart]) "d0.yaml"%string) = [feb30] /\
  next feb30 (60 * m0 - 1) = None.
Proof. exact former_zero_next_is_silent. Qed.

(* ------------------------------------------------------------------------------------------ *)
(* every history                                                                               *)
(* ------------------------------------------------------------------------------------------ *)
(* the daemon's table has one entry per file and follows the loadable part of the directory *)
Theorem C09_invariant : forall s o, Inv s -> Inv (fst (step s o)).
Proof. exact step_inv. Qed.
Print Assumptions C09_invariant.

Theorem C09_invariant_init : forall d, NoDup (map fst d) -> Inv (init_state d).
Proof. exact init_inv. Qed.
Print Assumptions C09_invariant_init.

(* the schedule loader returns a value or an error for every YAML value - it never panics *)
Theorem C09_loader_no_panic : forall v, build_schedule v <> PPanic.
Proof. exact build_schedule_no_panic. Qed.
Print Assumptions C09_loader_no_panic.

Theorem C09_parse_cron_no_panic : forall str, parse_cron str <> PPanic.
Proof. exact parse_cron_no_panic. Qed.
Print Assumptions C09_parse_cron_no_panic.

(* a started daemon stays alive over every history, whatever is written to the directory *)
Theorem C09_alive : forall ops s0, alive s0 = true -> forall s o cs, In (s, o, cs) (trace s0 ops) -> alive s = true.
Proof. exact alive_always. Qed.
Print Assumptions C09_alive.

Theorem C09_restart_alive : forall s, alive (fst (step s ORestart)) = true.
Proof. exact restart_alive_always. Qed.
Print Assumptions C09_restart_alive.

(* no scheduled minute is missed: in every history, once the daemon has been started, every tick that happens
   issues the Start of every loadable DAG file of the directory (present from the start, added or edited since)
   whose guard holds *)
Theorem C09_no_miss : forall s0 pre post, Inv s0 ->
  forall s m w cs, In (s, OTick m w, cs) (trace (final s0 (pre ++ [ORestart])) post) ->
  forall f c e sp, lookup f (dir s) = Some c -> load f c = FOk e -> In sp (starts e) -> matches sp m = true ->
  mem f (susp s) = false -> start_guard (status_of s f) m = true -> In (CStart f) cs.
Proof. exact no_miss_started. Qed.
Print Assumptions C09_no_miss.

Theorem C09_no_miss_alive : forall s0 ops, Inv s0 ->
  forall s m w cs, In (s, OTick m w, cs) (trace s0 ops) -> alive s = true ->
  forall f c e sp, lookup f (dir s) = Some c -> load f c = FOk e -> In sp (starts e) -> matches sp m = true ->
  mem f (susp s) = false -> start_guard (status_of s f) m = true -> In (CStart f) cs.
Proof. exact no_miss. Qed.
Print Assumptions C09_no_miss_alive.

Theorem C09_no_miss_stop : forall s0 ops, Inv s0 ->
  forall s m w cs, In (s, OTick m w, cs) (trace s0 ops) -> alive s = true ->
  forall f c e sp, lookup f (dir s) = Some c -> load f c = FOk e -> In sp (stops e) -> matches sp m = true ->
  mem f (susp s) = false -> stop_guard (status_of s f) = true -> In (CStop f) cs.
Proof. exact no_miss_stop. Qed.
Print Assumptions C09_no_miss_stop.

Theorem C09_no_miss_restart : forall s0 ops, Inv s0 ->
  forall s m w cs, In (s, OTick m w, cs) (trace s0 ops) -> alive s = true ->
  forall f c e sp, lookup f (dir s) = Some c -> load f c = FOk e -> In sp (restarts e) -> matches sp m = true ->
  mem f (susp s) = false -> In (CRestart f) cs.
Proof. exact no_miss_restart. Qed.
Print Assumptions C09_no_miss_restart.

(* no minute is started twice: over every history - whatever the schedules, the lag, the restarts, the edits - the
   ticks of any minute m0 issue at most one Start for f.  ticks_mono (tick minutes never decrease), and trace_ok (a
   tick never runs before its minute; the latest start reported for f never moves backwards) say which operation
   lists are histories of a daemon and its environment; they exclude no DAG, schedule or file content. *)
Theorem C09_no_double : forall ops s f m0, NoDup (map fst (tbl s)) -> ticks_mono ops -> trace_ok f s ops ->
  (starts_at f m0 s ops <= 1)%nat.
Proof. exact no_double. Qed.
Print Assumptions C09_no_double.

(* the premises are decidable *)
Theorem C09_no_double_dec : forall ops s f m0, NoDup (map fst (tbl s)) ->
  ticks_monob ops = true -> trace_okb f s ops = true -> (starts_at f m0 s ops <= 1)%nat.
Proof. exact no_double_b. Qed.
Print Assumptions C09_no_double_dec.

(* a file whose load returns an error changes nothing the daemon believes; at start-up it is skipped *)
Theorem C09_bad_file : forall s f c, (load f c = FErr \/ load f c = FNotDag) ->
  tbl (fst (step s (OWrite f c))) = tbl s /\ alive (fst (step s (OWrite f c))) = alive s.
Proof. exact bad_file_write. Qed.
Print Assumptions C09_bad_file.

Theorem C09_bad_file_scan : forall s t, NoDup (map fst (dir s)) -> scan (dir s) [] = Some t ->
  forall f, lookup f t = match lookup f (dir s) with
                         | Some c => match load f c with FOk e => Some e | _ => None end
                         | None => None
                         end.
Proof. exact bad_file_scan. Qed.
Print Assumptions C09_bad_file_scan.

(* in full: whatever is written to file f, the entries of every other file stay as they are, and the daemon lives *)
Theorem C09_bad_file_others : forall s f c h, h <> f ->
  lookup h (tbl (fst (step s (OWrite f c)))) = lookup h (tbl s).
Proof. exact bad_file_others. Qed.
Print Assumptions C09_bad_file_others.

Theorem C09_write_keeps_alive : forall s f c, alive (fst (step s (OWrite f c))) = alive s.
Proof. exact write_keeps_alive. Qed.
Print Assumptions C09_write_keeps_alive.

(* the inputs that used to kill the daemon (F13a, F13b) *)
Example C09_former_loader_panics :
  run (init_state d_f13a) [ORestart; OTick m0 (60 * m0)] = [[]; [CStart "d0.yaml"]]%string /\
  alive (final (init_state d_f13a) [ORestart]) = true /\
  run (init_state d_good) [ORestart; OWrite "d1.yaml" (file (SStr "CRON_TZ=UTC")); OTick m0 (60 * m0)]%string = [[]; []; [CStart "d0.yaml"]]%string /\
  load "d1.yaml" (file (SStr "CRON_TZ=UTC"))%string = FErr /\
  load "d1.yaml" (file (SMap [(KStr "begin", MStr "* * * * *")]))%string = FErr.
Proof. exact former_loader_panics_are_errors. Qed.

(* a history satisfying all premises at once: lag, bunched ticks, a restart inside a ticked minute, a bad file, a
   file added while the daemon runs *)
Example C09_history_sat :
  Inv (init_state d_good) /\ ticks_mono h_ops /\ trace_ok "d0.yaml" (init_state d_good) h_ops /\
  trace_ok "d2.yaml" (init_state d_good) h_ops /\
  run (init_state d_good) h_ops =
    [[]; [CStart "d0.yaml"]; []; []; []; []; []; [CStart "d0.yaml"; CStart "d2.yaml"]; []; []]%string /\
  starts_at "d0.yaml" m0 (init_state d_good) h_ops = 1%nat.
Proof. exact history_sat. Qed.

Example C09_alive_sat : dir_safe (init_state d_good) /\ Forall op_safe h_ops.
Proof. exact alive_sat. Qed.
