(* C10 - retry re-executes exactly the unfinished part of a recorded run.
   This file holds only property theorems (closed by `exact`) and Print Assumptions.
   Model: Graph/Retry.v (setupRetry, graph.go:178-210) on top of Graph/Kahn.v.
   Tie to the code: tools/props/C10.py (differential run of the real NewExecutionGraphForRetry on every
   acyclic digraph x status vector for n <= 3, sampled beyond; retry runs on the real scheduler). *)
From Coq Require Import List Relations.
Import ListNotations.
From BD.Graph Require Import Kahn Retry RetryProof.

(* On every acyclic graph (any size) and every recorded status vector, the retry set-up terminates (never out
   of fuel) and clears exactly the nodes reachable - reflexively - along dependency edges from a node recorded
   failed (2), canceled (3) or running (1).  Everything else keeps its recorded state. *)
Theorem C10_reset_set : forall (n : nat) (E : list (nat * nat)) (st : nat -> nat),
  (forall u v, In (u, v) E -> u < n /\ v < n) ->
  (forall x, ~ clos_trans nat (edge E) x x) ->
  exists cleared, setup_retry n E st = Some cleared /\
    forall u, In u cleared <-> u < n /\ exists w, w < n /\ bad st w = true /\ clos_refl_trans nat (edge E) w u.
Proof. exact setup_retry_spec. Qed.
Print Assumptions C10_reset_set.

Example C10_reset_nonvacuous :
  setup_retry 4 [(0,1);(0,2);(1,3);(2,3)] (fun i => nth i [4;2;4;4] 0) = Some [1;3] /\
  ((forall u v, In (u, v) [(0,1);(0,2);(1,3);(2,3)] -> u < 4 /\ v < 4) /\ has_cycle 4 [(0,1);(0,2);(1,3);(2,3)] = false).
Proof. exact (conj retry_diamond retry_diamond_premises). Qed.

(* A node recorded *running* (interrupted by a kill) counts as unfinished: it and its dependents are reset.
   (Before the repair of finding F10a the model - like the code - returned Some [] here.) *)
Example C10_running_is_reset :
  setup_retry 3 [(0,1);(1,2)] (fun i => nth i [4;1;0] 0) = Some [1;2].
Proof. exact running_is_reset. Qed.

(* ---- execution part (on the step-scheduler transition system Sched/Model.v) ------------------------------
   The retry starts the scheduler from the recorded table after the reset (`init_from`): steps recorded finished or
   skipped and not reset are kept, every other step starts afresh.  `tbl_consistent` = every dependency of a kept
   finished step let it proceed - what C01 guarantees for any table a run can record.  Premise `norepeat`: no
   repeatPolicy step (as for C02/C03). *)
From BD.Sched Require Import Model Proofs ProofsTerm ProofsRetry.
From BD.Graph Require Import RetrySched.
From BD.Sched Require Import Examples.
From BD.Sched Require Import Examples.

(* Steps outside the retried part keep their recorded result and are never executed, in every execution. *)
Theorem C10_keeps_finished : forall (c : cfg), norepeat c -> forall (tbl : nat -> nstatus), tbl_consistent c tbl ->
  forall j ls s, tbl j = NSuccess \/ tbl j = NSkipped ->
  run c (init_from c tbl) ls = Some s -> kept s j /\ ~ In (WExecStart j) ls.
Proof. exact retry_keeps. Qed.
Print Assumptions C10_keeps_finished.

(* A command that starts in a retry belongs to a step that did not complete successfully (or was reset because it
   is downstream of one: C10_reset_set says which). *)
Theorem C10_executes_only_unfinished : forall (c : cfg), norepeat c -> forall (tbl : nat -> nstatus), tbl_consistent c tbl ->
  forall j ls s, run c (init_from c tbl) ls = Some s -> In (WExecStart j) ls -> tbl j <> NSuccess /\ tbl j <> NSkipped.
Proof. exact retry_executes_only_unfinished. Qed.
Print Assumptions C10_executes_only_unfinished.

(* The retry always terminates: every execution from the retry's start state is finite. *)
Theorem C10_terminates : forall (c : cfg), norepeat c -> forall (tbl : nat -> nstatus), tbl_consistent c tbl ->
  forall ls s, run c (init_from c tbl) ls = Some s -> length ls <= measure c (init_from c tbl).
Proof. exact retry_finite. Qed.
Print Assumptions C10_terminates.

(* Non-vacuity: the diamond a -> {b, c} -> d recorded with b not finished (b and d to be run): the premises hold and
   the retry executes b and d once each, leaves a and c untouched, and reaches Done. *)
Example C10_retry_nonvacuous :
  (tbl_consistent diamond retry_tbl /\ norepeat diamond) /\
  retry_obs = Some (LDone, [(NSuccess, 0); (NSuccess, 1); (NSuccess, 0); (NSuccess, 1)]).
Proof. exact (conj retry_example_consistent retry_example_run). Qed.

(* Retrying a run in which every step had finished or been skipped executes no command at all. *)
From BD.Graph Require Import RetryAll.
Theorem C10_finished_run_executes_nothing : forall (c : cfg), norepeat c ->
  forall tbl : nat -> nstatus, tbl_consistent c tbl -> (forall j, tbl j = NSuccess \/ tbl j = NSkipped) ->
  forall ls s, run c (init_from c tbl) ls = Some s -> forall j, ~ In (WExecStart j) ls.
Proof. exact retry_of_finished_run_executes_nothing. Qed.
Print Assumptions C10_finished_run_executes_nothing.
Example C10_finished_run_premise : forall c : cfg,
  tbl_consistent c (fun _ => NSuccess) /\ (forall j : nat, (fun _ : nat => NSuccess) j = NSuccess \/ (fun _ : nat => NSuccess) j = NSkipped).
Proof. exact all_finished_consistent. Qed.

(* ---- "in dependency order" and "subject to scheduling" for the retry ------------------------------------------ *)
From BD.Sched Require Import ProofsFinal.

(* Whenever a command starts in a retry, each dependency of its step is finished, or failed with continueOn.failure,
   or skipped with continueOn.skipped, has no live worker, is not executing and never starts again; a dependency whose
   recorded result was kept shows exactly that recorded status (and was not executed). *)
Theorem C10_dependency_order : forall (c : cfg), norepeat c -> forall (tbl : nat -> nstatus) ls1 i ls2 s1 s2 s3,
  tbl_consistent c tbl -> run c (init_from c tbl) ls1 = Some s1 -> step c s1 (WExecStart i) = Some s2 ->
  run c s2 ls2 = Some s3 -> forall d, In d (deps (steps c i)) ->
  okterm c s1 d /\ active (ph (nd s1 d)) = false /\ ph (nd s1 d) <> PExec /\ ~ In (WExecStart d) ls2 /\
  (tbl d = NSuccess \/ tbl d = NSkipped -> st (nd s1 d) = tbl d /\ att (nd s1 d) = 0).
Proof. exact retry_start_after_deps. Qed.
Print Assumptions C10_dependency_order.

(* At the end of a retry that was not stopped and did not time out, every step of the retried part carries the state
   C02 dictates from a fresh start (blocked => not executed and canceled/skipped; unmet precondition => skipped; otherwise
   run until its first success or limit+1 attempts), the kept steps counting as blockers / permitters with their
   recorded status. *)
Theorem C10_retried_part_is_scheduled : forall (c : cfg), norepeat c -> forall (tbl : nat -> nstatus) ls s i,
  tbl_consistent c tbl -> run c (init_from c tbl) ls = Some s -> quiet s -> pc s = LDone -> i < nsteps c ->
  tbl i <> NSuccess -> tbl i <> NSkipped -> final_clauses c s i.
Proof. exact retry_final_states. Qed.
Print Assumptions C10_retried_part_is_scheduled.
