(* C18 - DAG definitions are created, saved, renamed and deleted safely.
   This file holds nothing but the property theorems (closed by `exact`), Print Assumptions and Examples.
   Model: DagStore/Model.v (dag_store.go, client.go Rename/DeleteDAG, util.AddYamlExtension, loader.craftFilePath,
   jsondb Rename/RemoveAll at the abstract level); proofs: DagStore/Proofs.v.
   Tie to the code: tools/props/C18.py (op sequences through the real client/DAGStore/jsondb replayed on `step`,
   property monitors on the dumps, strace kill enumeration of one real UpdateSpec against `crash_fs`).

   Every theorem quantifies over an ARBITRARY world w (definitions, histories, flags), hence over the world
   reached by any sequence of operations interleaved with recorded runs; `valid` (the loader's verdict on a text),
   `meta_ok` and the DAGs directory `dir` are universally quantified too.

   C18_rename_fresh and C18_save_atomic were refuted of the pinned tree (F18a: DAGStore.Rename was a bare os.Rename;
   F18b: os.WriteFile truncates before it writes); since the repairs 87dde6e / e29932b the model describes the
   repaired code and the FULL statements are proved; the former witnesses are positive Examples.
   The rename-carries / delete-other-DAG theorems needed a per-name premise (no foreign extension) and were refuted
   without it (F18c); since the repair fe0ec16 the name -> path rules agree on every id (proved on strings:
   loc_facts) and the statements hold for every id that is a single path element, with an absolute DAGs directory. *)
From Coq Require Import List String ZArith.
Import ListNotations.
From BD.DagStore Require Import Model Proofs.
Open Scope string_scope.

(* Create on a name that is taken fails and changes nothing. *)
Theorem C18_create_fresh : forall valid meta_ok dir (w : world) n s,
  fs_get (file_loc dir n) (w_defs w) <> None ->
  step valid meta_ok dir w (OCreate n s) = (w, RExists, []).
Proof. exact create_fresh. Qed.
Print Assumptions C18_create_fresh.

(* ... and on a free name it creates exactly that file with exactly that text. *)
Theorem C18_create_new : forall valid meta_ok dir (w : world) n s,
  fs_get (file_loc dir n) (w_defs w) = None ->
  step_res valid meta_ok dir w (OCreate n s) = ROk /\
  fs_get (file_loc dir n) (w_defs (step_w valid meta_ok dir w (OCreate n s))) = Some s /\
  (forall q, q <> file_loc dir n -> fs_get q (w_defs (step_w valid meta_ok dir w (OCreate n s))) = fs_get q (w_defs w)) /\
  w_hist (step_w valid meta_ok dir w (OCreate n s)) = w_hist w /\
  w_flags (step_w valid meta_ok dir w (OCreate n s)) = w_flags w.
Proof. exact create_new. Qed.
Print Assumptions C18_create_new.

(* Rename - through the client or the store alone - onto a name that another definition has is refused and
   changes nothing: no definition, no history, no flag (full statement; no premise on the names). *)
Theorem C18_rename_fresh : forall valid meta_ok dir (w : world) old new,
  file_loc dir old <> file_loc dir new -> fs_get (file_loc dir new) (w_defs w) <> None ->
  step_res valid meta_ok dir w (ORename old new) <> ROk /\
  step_w valid meta_ok dir w (ORename old new) = w /\
  step valid meta_ok dir w (OStoreRename old new) = (w, RExists, []).
Proof. exact rename_fresh. Qed.
Print Assumptions C18_rename_fresh.

(* ... and in every case (client or store level, accepted or not) only the source and the target can change. *)
Theorem C18_rename_others_untouched : forall valid meta_ok dir (w : world) old new q,
  q <> file_loc dir old -> q <> file_loc dir new ->
  fs_get q (w_defs (step_w valid meta_ok dir w (ORename old new))) = fs_get q (w_defs w) /\
  fs_get q (w_defs (step_w valid meta_ok dir w (OStoreRename old new))) = fs_get q (w_defs w).
Proof. exact rename_others_untouched. Qed.
Print Assumptions C18_rename_others_untouched.

(* After UpdateSpec name s the file holds s if s is valid (and the file existed) and the whole world is unchanged
   otherwise; no other file, no history, no flag is touched. *)
Theorem C18_save_valid : forall valid meta_ok dir (w : world) n s,
  let w' := step_w valid meta_ok dir w (OSave n s) in
  ((valid s = true /\ fs_get (file_loc dir n) (w_defs w) <> None /\ step_res valid meta_ok dir w (OSave n s) = ROk /\
    fs_get (file_loc dir n) (w_defs w') = Some s)
   \/ (w' = w /\ step_res valid meta_ok dir w (OSave n s) <> ROk)) /\
  (forall q, q <> file_loc dir n -> fs_get q (w_defs w') = fs_get q (w_defs w)) /\
  w_hist w' = w_hist w /\ w_flags w' = w_flags w.
Proof. exact save_valid. Qed.
Print Assumptions C18_save_valid.

Theorem C18_save_invalid_nothing : forall valid meta_ok dir (w : world) n s,
  valid s = false -> step valid meta_ok dir w (OSave n s) = (w, RInvalid, []).
Proof. exact save_invalid. Qed.
Print Assumptions C18_save_invalid_nothing.

(* For EVERY sequence of client operations interleaved with recorded runs, starting from the empty store, every
   definition file holds a text the loader accepts (induction over the sequence). *)
Theorem C18_defs_always_valid : forall valid meta_ok dir tmpl, valid tmpl = true ->
  forall ops, Forall (client_op tmpl) ops ->
  defs_valid valid (run_ops valid meta_ok dir empty_world ops).
Proof. exact defs_always_valid. Qed.
Print Assumptions C18_defs_always_valid.

(* In EVERY crash state of UpdateSpec - cut = number of completed primitive steps of
   [validate; exists?; create temp; write; chmod; sync; close; rename], t = bytes of a torn write, rnd = the
   name os.CreateTemp chose - the definition holds the complete old or the complete new text (full statement). *)
Theorem C18_save_atomic : forall valid dir f n s rnd cut t,
  fs_get (file_loc dir n) (crash_fs valid dir f n s rnd cut t) = fs_get (file_loc dir n) f \/
  fs_get (file_loc dir n) (crash_fs valid dir f n s rnd cut t) = Some s.
Proof. exact save_atomic. Qed.
Print Assumptions C18_save_atomic.

(* more precisely: old until the final rename, new after it; a rejected text changes nothing at any point *)
Theorem C18_save_atomic_before : forall valid dir f n s rnd cut t,
  (cut <= 7)%nat -> fs_get (file_loc dir n) (crash_fs valid dir f n s rnd cut t) = fs_get (file_loc dir n) f.
Proof. exact crash_before_rename. Qed.
Print Assumptions C18_save_atomic_before.

Theorem C18_save_atomic_after : forall valid dir f n s rnd cut t,
  valid s = true -> fs_get (file_loc dir n) f <> None -> (8 <= cut)%nat ->
  fs_get (file_loc dir n) (crash_fs valid dir f n s rnd cut t) = Some s.
Proof. exact crash_after_rename. Qed.
Print Assumptions C18_save_atomic_after.

Theorem C18_save_atomic_rejected : forall valid dir f n s rnd cut t,
  valid s = false -> crash_fs valid dir f n s rnd cut t = f.
Proof. exact crash_invalid. Qed.
Print Assumptions C18_save_atomic_rejected.

(* A FAULT instead of a kill: whichever primitive step of the save returns an error (the temporary file cannot be
   created or written, chmod / sync / close / rename fail), the definition holds the old text, the temporary file is
   removed and no other file is touched - the save is rejected, there is no second attempt on the definition itself. *)
Theorem C18_save_fault_old : forall valid dir f n s rnd k, (k <= 7)%nat ->
  fs_get (file_loc dir n) (fault_fs valid dir f n s rnd k) = fs_get (file_loc dir n) f /\
  fs_get (tmp_of (file_loc dir n) rnd) (fault_fs valid dir f n s rnd k) = None /\
  (forall q, q <> file_loc dir n -> q <> tmp_of (file_loc dir n) rnd -> fs_get q (fault_fs valid dir f n s rnd k) = fs_get q f).
Proof. exact save_fault_old. Qed.
Print Assumptions C18_save_fault_old.

(* no crash state touches a file other than the definition and the temporary file; the temporary file is never
   an entry of the DAG listing, whatever else the directory holds; all steps done = the operation *)
Theorem C18_save_crash_local : forall valid dir f n s rnd cut t q,
  q <> file_loc dir n -> q <> tmp_of (file_loc dir n) rnd ->
  fs_get q (crash_fs valid dir f n s rnd cut t) = fs_get q f.
Proof. exact crash_others_untouched. Qed.
Print Assumptions C18_save_crash_local.

Theorem C18_save_temp_not_listed : forall meta_ok dir g p rnd,
  plain_str rnd = true -> list_entry meta_ok dir g (tmp_of p rnd) = None.
Proof. exact tmp_never_listed. Qed.
Print Assumptions C18_save_temp_not_listed.

Theorem C18_save_crash_complete : forall valid meta_ok dir (w : world) n s rnd cut t q, (8 <= cut)%nat ->
  fs_get (tmp_of (file_loc dir n) rnd) (w_defs w) = None ->
  fs_get q (crash_fs valid dir (w_defs w) n s rnd cut t) = fs_get q (w_defs (step_w valid meta_ok dir w (OSave n s))).
Proof. exact crash_complete. Qed.
Print Assumptions C18_save_crash_complete.

(* After an accepted rename the new name holds the old bytes, the old name is gone, the history recorded for the
   old name answers under the new one (the target was free), and nothing else changes.  Full statement: every pair
   of ids that are single path elements (no name_okb premise any more). *)
Theorem C18_rename_carries : forall valid meta_ok dir, is_abs dir = true -> forall (w : world) old new,
  has_slash old = false -> has_slash new = false ->
  step_res valid meta_ok dir w (ORename old new) = ROk ->
  let w' := step_w valid meta_ok dir w (ORename old new) in
  fs_get (file_loc dir new) (w_defs w') = fs_get (file_loc dir old) (w_defs w) /\
  fs_get (file_loc dir old) (w_defs w) <> None /\
  (file_loc dir old <> file_loc dir new ->
     fs_get (file_loc dir new) (w_defs w) = None /\
     fs_get (file_loc dir old) (w_defs w') = None /\
     h_get (dag_loc dir new) (w_hist w') = (h_get (dag_loc dir old) (w_hist w) ++ h_get (dag_loc dir new) (w_hist w))%list /\
     h_get (dag_loc dir old) (w_hist w') = []) /\
  (file_loc dir old = file_loc dir new -> w' = w) /\
  (forall l, l <> dag_loc dir old -> l <> dag_loc dir new -> h_get l (w_hist w') = h_get l (w_hist w)) /\
  (forall q, q <> file_loc dir old -> q <> file_loc dir new -> fs_get q (w_defs w') = fs_get q (w_defs w)) /\
  w_flags w' = w_flags w.
Proof. exact rename_carries. Qed.
Print Assumptions C18_rename_carries.

(* a client rename that is refused - for whatever reason - changes nothing *)
Theorem C18_rename_failed_unchanged : forall valid meta_ok dir, is_abs dir = true -> forall (w : world) old new,
  has_slash old = false -> has_slash new = false ->
  step_res valid meta_ok dir w (ORename old new) <> ROk -> step_w valid meta_ok dir w (ORename old new) = w.
Proof. exact rename_failed_unchanged. Qed.
Print Assumptions C18_rename_failed_unchanged.

(* the string facts behind it: for every id without a slash the definition file IS the location the loader gives
   the DAG, AddYamlExtension leaves it alone and it is absolute *)
Theorem C18_name_rules_agree : forall dir n, has_slash n = false ->
  craft (file_loc dir n) = file_loc dir n /\ add_yaml_ext (file_loc dir n) = file_loc dir n /\
  (is_abs dir = true -> is_abs (file_loc dir n) = true).
Proof. exact loc_facts. Qed.
Print Assumptions C18_name_rules_agree.

(* Delete removes the definition and the history of the given location and nothing else: every other path, every
   other location, every flag is identical. *)
Theorem C18_delete_local : forall valid meta_ok dir (w : world) n l,
  let w' := step_w valid meta_ok dir w (ODelete n l) in
  (fs_get (file_loc dir n) (w_defs w) <> None -> step_res valid meta_ok dir w (ODelete n l) = ROk) /\
  fs_get (file_loc dir n) (w_defs w') = None /\
  h_get l (w_hist w') = [] /\
  (forall q, q <> file_loc dir n -> fs_get q (w_defs w') = fs_get q (w_defs w)) /\
  (forall m, m <> l -> h_get m (w_hist w') = h_get m (w_hist w)) /\
  w_flags w' = w_flags w.
Proof. exact delete_local. Qed.
Print Assumptions C18_delete_local.

(* In terms of DAGs (full statement): deleting DAG n the way the API does leaves the definition and the history of
   every other DAG m as they were. *)
Theorem C18_delete_other_dag : forall valid meta_ok dir (w : world) n m,
  has_slash n = false -> has_slash m = false -> file_loc dir m <> file_loc dir n ->
  let w' := step_w valid meta_ok dir w (ODelete n (dag_loc dir n)) in
  fs_get (file_loc dir m) (w_defs w') = fs_get (file_loc dir m) (w_defs w) /\
  h_get (dag_loc dir m) (w_hist w') = h_get (dag_loc dir m) (w_hist w).
Proof. exact delete_other_dag. Qed.
Print Assumptions C18_delete_other_dag.

(* the inputs that refuted the two statements for names with a foreign extension (F18c), now positive *)
Example C18_ex_delete_foreign_extension :
  file_loc "/d" "a.b" = "/d/a.b.yaml" /\ file_loc "/d" "a.b.yaml" = "/d/a.b.yaml" /\ dag_loc "/d" "a.b" = "/d/a.b.yaml" /\
  step all_valid all_valid "/d" w_dotted (ODelete "a.b" (dag_loc "/d" "a.b")) =
    (mkW [("/d/a.yaml", "u")] [("/d/a.b.yaml", []); ("/d/a.yaml", [mkRun 200 [mkStatus "q" 4 []]])] [], ROk, []).
Proof. exact ex_delete_foreign_extension. Qed.

Example C18_ex_rename_foreign_extension :
  step all_valid all_valid "/d" (mkW [("/d/a.yaml", "t")] [("/d/a.yaml", [mkRun 100 [mkStatus "r" 4 []]])] []) (ORename "a" "v1.2") =
    (mkW [("/d/v1.2.yaml", "t")] [("/d/a.yaml", []); ("/d/v1.2.yaml", [mkRun 100 [mkStatus "r" 4 []]])] [], ROk, []) /\
  snd (step all_valid all_valid "/d" (mkW [("/d/v1.2.yaml", "t")] [] []) OList) = ["v1.2.yaml"] /\
  file_loc "/d" "a.yml" = "/d/a.yaml" /\ file_loc "/d" "a b" = "/d/a b.yaml".
Proof. exact ex_rename_foreign_extension. Qed.

(* Non-vacuity: the premises are met by concrete non-trivial states. *)
Example C18_ex_create : fs_get (file_loc "/d" "a") (w_defs w_two) <> None /\
  step all_valid all_valid "/d" w_two (OCreate "a" "x") = (w_two, RExists, []).
Proof. exact ex_create_fresh. Qed.

Example C18_ex_rename_carries :
  step_res all_valid all_valid "/d" w_two (ORename "a" "c") = ROk /\
  fs_get "/d/c.yaml" (w_defs (step_w all_valid all_valid "/d" w_two (ORename "a" "c"))) = Some "text of a" /\
  h_get "/d/c.yaml" (w_hist (step_w all_valid all_valid "/d" w_two (ORename "a" "c"))) = [mkRun 100 [mkStatus "ra" 4 []]] /\
  h_get "/d/b.yaml" (w_hist (step_w all_valid all_valid "/d" w_two (ORename "a" "c"))) = [mkRun 200 [mkStatus "rb" 2 []]].
Proof. exact ex_rename_carries. Qed.

Example C18_ex_delete :
  step_res all_valid all_valid "/d" w_two (ODelete "a" (dag_loc "/d" "a")) = ROk /\
  w_defs (step_w all_valid all_valid "/d" w_two (ODelete "a" (dag_loc "/d" "a"))) = [("/d/b.yaml", "text of b")] /\
  h_get "/d/b.yaml" (w_hist (step_w all_valid all_valid "/d" w_two (ODelete "a" (dag_loc "/d" "a")))) = [mkRun 200 [mkStatus "rb" 2 []]].
Proof. exact ex_delete_local. Qed.

(* the inputs that refuted C18_rename_fresh / C18_save_atomic on the pinned tree, now positive *)
Example C18_ex_rename_fresh :
  file_loc "/d" "a" <> file_loc "/d" "b" /\ fs_get (file_loc "/d" "b") (w_defs w_two) <> None /\
  step all_valid all_valid "/d" w_two (ORename "a" "b") = (w_two, RExists, []) /\
  step all_valid all_valid "/d" w_two (OStoreRename "a" "b") = (w_two, RExists, []).
Proof. exact ex_rename_fresh. Qed.

Example C18_ex_save_fault :
  map (fun k => fault_fs all_valid "/d" [("/d/a.yaml", "old text")] "a" "new text" "42" k) [2; 3; 4; 7]%nat
  = [[("/d/a.yaml", "old text")]; [("/d/a.yaml", "old text")]; [("/d/a.yaml", "old text")]; [("/d/a.yaml", "old text")]].
Proof. exact ex_save_fault. Qed.

Example C18_ex_save_atomic :
  map (fun cut => fs_get "/d/a.yaml" (crash_fs all_valid "/d" [("/d/a.yaml", "old text")] "a" "new text" "42" cut 0))
      [0; 1; 2; 3; 4; 5; 6; 7; 8; 9]%nat
  = [Some "old text"; Some "old text"; Some "old text"; Some "old text"; Some "old text"; Some "old text";
     Some "old text"; Some "old text"; Some "new text"; Some "new text"] /\
  crash_fs all_valid "/d" [("/d/a.yaml", "old text")] "a" "new text" "42" 3 4
  = [("/d/a.yaml", "old text"); ("/d/a.yaml.tmp-42", "new ")] /\
  snd (step all_valid all_valid "/d" (mkW (crash_fs all_valid "/d" [("/d/a.yaml", "old text")] "a" "new text" "42" 5 0) [] []) OList)
  = ["a.yaml"].
Proof. exact ex_save_atomic. Qed.
