(* C11 - parameters and step outputs reach the steps that use them, unchanged.
   This file holds nothing but the property theorems (closed by `exact`), Print Assumptions and Examples.
   Model: Params/Model.v - the parameter tokenizer (leftmost-first semantics of the regexp of parser.go:173-175),
   Trim/unescape, stringify, model.Params (join), the assignment list of parseParams, doc_render of the documented
   forms, strings.TrimSpace, the run-wide output map; Log/Model.v for the capture pipe.
   Tie to the code: tools/props/C11.py (dag.LoadYAML / dag.Load / model.Status / real scheduler and children).

   The model describes the REPAIRED code: ff6cf28 (a name cannot contain a quote - F11c), 0f1faec (exactly the
   delimiting quotes are stripped - F11b) and 92cc1cc (model.Params quotes what needs quoting - F11a).  What is still
   false of it, and stays a known finding:
       forall its,  parse (doc_render its) = values its                      - a quoted value ending in a backslash
       forall s,    parse (record (parse s)) = parse s        - a value that must be quoted and ends in a backslash;
                                                                a positional value that looks like NAME=value
   the _partial theorems carry exactly these exclusions as decidable premises V0 / V1. *)
From Coq Require Import List String Ascii.
Import ListNotations.
From BD.Params Require Import Model Proofs.

(* Every documented item - word, "quoted value", NAME=word, NAME="quoted value" - of a list of any length yields
   exactly its name and value, for values in V0: quoted text is ARBITRARY (spaces, =, quotes anywhere - also first and
   last -, back-ticks, backslashes, any byte, empty) except that it does not end with a backslash; a word has no white
   space / quote, does not start with a back-tick (and, unnamed, has no = after its first character); a name has no
   white space, = or quote. *)
Theorem C11_parse_doc_partial : forall its : list item, V0 its = true -> parse (doc_render its) = values its.
Proof. exact parse_doc. Qed.
Print Assumptions C11_parse_doc_partial.

(* ... and each item is exported: $i carries the stringified item, $NAME exactly the value *)
Theorem C11_env_doc_partial : forall its i it, V0 its = true -> nth_error its i = Some it ->
  In (dec (S i), stringify (item_pair it)) (assigns (parse (doc_render its))) /\
  (fst (item_pair it) <> [] -> In (item_pair it) (assigns (parse (doc_render its)))).
Proof. exact env_doc. Qed.
Print Assumptions C11_env_doc_partial.

(* What retry and restart rely on: re-parsing the recorded string gives back the parameters.  V1 (decidable) excludes
   exactly: a value that has to be written quoted (empty, white space, quote, back-tick; positional: an =) AND ends
   with a backslash; a positional value with an = after a non-empty prefix free of white space and quotes. *)
Theorem C11_roundtrip_partial : forall s : la, V1 (parse s) = true -> parse (record (parse s)) = parse s.
Proof. exact roundtrip. Qed.
Print Assumptions C11_roundtrip_partial.

Theorem C11_record_parse_partial : forall ps : list pair, V1 ps = true -> parse (record ps) = ps.
Proof. exact record_parse. Qed.
Print Assumptions C11_record_parse_partial.

(* Without the second exclusion still: the stringified parameters - DAG.Params, and so $1..$n - come back unchanged
   (a positional NAME=value only turns into the named parameter of the same text) *)
Theorem C11_record_parse_strings_partial : forall ps : list pair, forallb bs_ok (map stringify ps) = true ->
  map stringify (parse (record ps)) = map stringify ps.
Proof. exact record_parse_strings. Qed.
Print Assumptions C11_record_parse_strings_partial.

(* every clause of V1 is needed *)
Theorem C11_V1_clauses_needed :
  (exists v, bs_ok v = true /\ is_nil (fst (qsplit v)) = false /\ parse (record [([], v)]) <> [([], v)]) /\
  (exists v w, bs_ok v = false /\ is_nil (fst (qsplit v)) = true /\ v1_pair ([], w) = true /\
               parse (record [([], v); ([], w)]) <> [([], v); ([], w)]) /\
  (exists n v, name_ok n = false /\ bs_ok (stringify (n, v)) = true /\ parse (record [(n, v)]) <> [(n, v)]).
Proof. exact V1_clauses_needed. Qed.
Print Assumptions C11_V1_clauses_needed.

(* what remains of F11a: a documented positional value that looks like NAME=value comes back as the named parameter *)
Theorem C11_roundtrip_refuted_positional_eq : exists its, V0 its = true /\
  parse (record (parse (doc_render its))) <> parse (doc_render its).
Proof. exact roundtrip_refuted_positional_eq. Qed.
Print Assumptions C11_roundtrip_refuted_positional_eq.

Theorem C11_roundtrip_refuted_backslash : exists ps : list pair,
  map stringify (parse (record ps)) <> map stringify ps.
Proof. exact roundtrip_refuted_backslash. Qed.
Print Assumptions C11_roundtrip_refuted_backslash.

(* repaired: before fix 92cc1cc (the record was the plain join of the values) these came back as a, b, c and X=a, b *)
Example C11_roundtrip_fixed :
  parse (record (parse (doc_render [IQuoted (L "a b"); IWord (L "c")]))) = parse (doc_render [IQuoted (L "a b"); IWord (L "c")]) /\
  parse (record (parse (doc_render [INamedQ (L "X") (L "a b")]))) = parse (doc_render [INamedQ (L "X") (L "a b")]) /\
  record (parse (doc_render [IQuoted (L "a b"); IWord (L "c"); IQuoted []])) = L """a b"" c """"".
Proof. exact roundtrip_fixed. Qed.

(* what remains of F11b: a backslash at the end of a quoted value swallows the closing quote *)
Theorem C11_parse_doc_refuted_backslash : exists v w, parse (doc_render [IQuoted v; IQuoted w]) <> values [IQuoted v; IQuoted w].
Proof. exact parse_doc_refuted_edge_backslash. Qed.
Print Assumptions C11_parse_doc_refuted_backslash.

(* repaired: before fix 0f1faec a value ending in an escaped quote was mangled by strings.Trim (F11b) ... *)
Example C11_parse_doc_fixed_edge_quote :
  let v := list_ascii_of_string "say " ++ dq :: list_ascii_of_string "hi" ++ [dq] in
  parse (doc_render [IQuoted v]) = values [IQuoted v].
Proof. exact parse_doc_fixed_edge_quote. Qed.
(* ... and before fix ff6cf28 an unnamed quoted value with an = before any space was read as NAME=value (F11c) *)
Example C11_parse_doc_fixed_eq : parse (doc_render [IQuoted (L "a=b")]) = values [IQuoted (L "a=b")].
Proof. exact parse_doc_fixed_eq. Qed.

(* V0 is as large as a class that judges items one by one can be: every clause has an item violating just that clause
   and a documented context in which the parse goes wrong *)
Theorem C11_V0_clauses_needed :
  (exists v w, qval_ok v = false /\ v0_item (IQuoted w) = true /\
               parse (doc_render [IQuoted v; IQuoted w]) <> values [IQuoted v; IQuoted w]) /\
  (exists v, word_ok v = false /\ parse (doc_render [IWord v]) <> values [IWord v]) /\
  (exists v, word_ok v = true /\ no_inner_eq v = false /\ parse (doc_render [IWord v]) <> values [IWord v]) /\
  (exists v w, word_ok v = false /\ v0_item (IWord w) = true /\ parse (doc_render [IWord v; IWord w]) <> values [IWord v; IWord w]) /\
  (exists n v, name_ok n = false /\ word_ok v = true /\ parse (doc_render [INamed n v]) <> values [INamed n v]) /\
  (exists n v, name_ok n = false /\ word_ok v = true /\ parse (doc_render [INamed n v]) <> values [INamed n v]).
Proof. exact V0_clauses_needed. Qed.
Print Assumptions C11_V0_clauses_needed.

(* Outputs: a command started after the end of a producer's attempt (a step at any distance, a handler) sees
   NAME = TrimSpace(captured bytes), provided no other attempt stored the same name in between ... *)
Theorem C11_output : forall m0 pre n c mid j post,
  no_writer n mid ->
  exists before seen after,
    oflow m0 (pre ++ OEnd n c :: mid ++ OStart j :: post) = before ++ (j, seen) :: after /\
    List.length before = List.length (oflow m0 (pre ++ OEnd n c :: mid)) /\
    value_of n seen = Some (trim_space c).
Proof. exact output_flow. Qed.
Print Assumptions C11_output.

(* ... and so does every step of a later retry of the run (the recorded map is re-installed unchanged) *)
Theorem C11_output_retry : forall pre n c mid, no_writer n mid ->
  value_of n (reinstall (ofinal [] (pre ++ OEnd n c :: mid))) = Some (trim_space c).
Proof. exact output_retry. Qed.
Print Assumptions C11_output_retry.

(* Non-vacuity: V0 and V1 are inhabited by the kinds of value the property speaks of *)
Example C11_V0_nonvacuous :
  V0 [IWord (L "a"); IQuoted (L "a b = c"); INamed (L "X") (L "1=2"); INamedQ (L "Y") (L " p=q  r ");
      IQuoted (dq :: L "hi" ++ dq :: L " there"); IQuoted []; IWord (L "=x"); IQuoted (L "a=b");
      INamedQ (L "Z") (L "`date` \x"); IQuoted (L "say " ++ dq :: L "hi" ++ [dq]); IQuoted [dq]; IQuoted (L "=")] = true.
Proof. exact V0_example. Qed.
Example C11_V1_nonvacuous :
  V1 [([], L "a"); (L "X", L "1=2"); ([], L "=x"); ([], L "a\b`c"); ([], L "a b"); (L "Y", L " p  q "); ([], []);
      (L "Z", dq :: L "hi" ++ [dq]); ([], L "x y=z"); ([], L "tail\")] = true.
Proof. exact V1_example. Qed.
