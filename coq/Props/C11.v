From Coq Require Import List String Ascii.
Import ListNotations.
From BD.Params Require Import Model Proofs.

Theorem C11_roundtrip_refuted : exists its, V0 its = true /\
  parse (record (parse (doc_render its))) <> parse (doc_render its).
Proof. exact Proofs.C11_roundtrip_refuted. Qed.
Print Assumptions C11_roundtrip_refuted.
