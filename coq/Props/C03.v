(* C03 - each runnable step runs exactly once; retries are bounded; dry-run runs nothing.
   This file holds nothing but the property theorems (closed by `exact`) and Print Assumptions.
   Model: Sched/Model.v, Agent/Run.v.  Proofs: Sched/Proofs.v, Sched/ProofsFinal.v, Agent/RunProofs.v.
   Tie to the code: tools/props/C03.py.
   An ATTEMPT is a Run of the step's command or a failed creation of that command (label WCreateFail: the attempt ends in
   error without a command having been started; att and outs count it as a failed attempt).
   Premise: norepeat c (no repeatPolicy step: a repeating step has no last attempt until a stop request - stopped runs
   are C04/C05 - and with continueOn.failure it is labelled failed while it keeps executing, see
   C15_repeating_step_refuted).  Since fix f9e55a3 no premise about the done channel is needed.
   Outside the model (documented corner): a step with BOTH retryPolicy and repeatPolicy + continueOn.failure is
   re-entered by its own worker and relaunched by the loop (the model has one worker slot per node); in a stopped
   run retryCount can exceed the extra attempts by one (stop during the retry wait) - C03_attempt_bounds covers it. *)
From Coq Require Import List.
Import ListNotations.
From BD.Agent Require Import Run RunProofs.
From BD.Sched Require Import Model Proofs ProofsFinal Examples.
From BD.Sched Require Import ProofsOnce.

(* In every reachable state (stopped or not): a step's executions never exceed retryCount + 1, and retryCount never
   exceeds the retry limit - so never more than limit + 1 executions. *)
Theorem C03_attempt_bounds : forall c : cfg, norepeat c ->
  forall s i, Reach c s -> att (nd s i) <= S (rc (nd s i)) /\ rc (nd s i) <= rlimit (steps c i).
Proof. exact C03_bounds. Qed.
Print Assumptions C03_attempt_bounds.

(* A node has one worker slot: two executions of one step are never open at once (an execution is open while the
   node is in phase PExec; WExecStart needs phase PStarting). *)
Theorem C03_no_overlap : forall (c : cfg) s i s', step c s (WExecStart i) = Some s' ->
  ph (nd s i) = PStarting /\ ph (nd s' i) = PExec.
Proof. exact start_needs_starting. Qed.
Print Assumptions C03_no_overlap.

(* At the end of a run that was neither stopped nor timed out (not a dry run): a runnable step (no blocking
   dependency, precondition met, set-up possible) was executed retryCount + 1 >= 1 times: every attempt but the last
   failed, and the last one failed only if limit + 1 attempts were made - "until the first success or limit extra
   attempts, never more"; a step that is not runnable was never executed. *)
Theorem C03_exact : forall c : cfg, norepeat c ->
  forall s, Reach c s -> quiet s -> pc s = LDone -> dry c = false -> forall i, i < nsteps c ->
  (runnable c s i = true ->
     exists last fs, outs (nd s i) = last :: fs /\ allf fs /\
       att (nd s i) = length (outs (nd s i)) /\ att (nd s i) = S (rc (nd s i)) /\
       att (nd s i) <= S (rlimit (steps c i)) /\
       (last = false -> att (nd s i) = S (rlimit (steps c i)))) /\
  (runnable c s i = false -> att (nd s i) = 0).
Proof. exact exact_attempts. Qed.
Print Assumptions C03_exact.

(* The first sentence read literally: without a retryPolicy (limit 0) a runnable step is executed exactly once (and its
   retry count is 0), a step that is not runnable never.  (Met by step e of the mixed run below: limit 0, runnable, 1 attempt.) *)
Theorem C03_exactly_once : forall c : cfg, norepeat c ->
  forall s, Reach c s -> quiet s -> pc s = LDone -> dry c = false -> forall i, i < nsteps c ->
  rlimit (steps c i) = 0 ->
  (runnable c s i = true -> att (nd s i) = 1 /\ rc (nd s i) = 0) /\ (runnable c s i = false -> att (nd s i) = 0).
Proof. exact exactly_once. Qed.
Print Assumptions C03_exactly_once.

(* Dry run: no execution of the scheduler model contains the start of a step command or of a handler command ... *)
Theorem C03_dry : forall c : cfg, dry c = true -> forall ls s s', run c s ls = Some s' ->
  forall l, In l ls -> (forall i, l <> WExecStart i) /\ (forall h, l <> HStart h).
Proof. exact dry_runs_nothing. Qed.
Print Assumptions C03_dry.

(* ... and the agent's dry run touches neither history, nor the socket, nor the probe (agent.go:108-111 returns before
   setupDatabase). *)
Theorem C03_dry_agent : forall e : env, e_dry e = true ->
  let acts := fst (Run.run e) in
  existsb is_hist acts = false /\ existsb is_exec acts = false /\ existsb is_sock acts = false /\ existsb is_probe acts = false.
Proof. exact dry_run_nothing. Qed.
Print Assumptions C03_dry_agent.

(* Non-vacuity: in the diamond run b is executed twice (fail, ok) with retryCount 1; in the mixed run a exhausts its
   limit (2 attempts, limit 1) and b, c, d are not runnable; the dry diamond run completes with zero attempts. *)
Example C03_nonvacuous :
  ((donech diamond = true /\ norepeat diamond) /\
   exists s, run diamond (init diamond) diamond_full = Some s /\ pc s = LDone /\ quiet s /\ dry diamond = false /\
     map (fun i => (st (nd s i), rc (nd s i), att (nd s i), outs (nd s i))) [0; 1; 2; 3] =
       [(NSuccess, 0, 1, [true]); (NSuccess, 1, 2, [true; false]); (NSuccess, 0, 1, [true]); (NSuccess, 0, 1, [true])] /\
     length diamond_full <= ProofsTerm.bound diamond) /\
  (exists s, run diamond_dry (init diamond_dry) diamond_dry_full = Some s /\ pc s = LDone /\ dry diamond_dry = true /\
     map (fun i => (st (nd s i), att (nd s i))) [0; 1; 2; 3] = [(NSuccess, 0); (NSuccess, 0); (NSuccess, 0); (NSuccess, 0)]).
Proof. exact (conj (conj diamond_ok diamond_done) diamond_dry_done). Qed.
