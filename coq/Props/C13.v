(* C13 - any file content is either rejected with an error or yields a runnable DAG.
   This file holds nothing but the property theorems (closed by `exact`), Print Assumptions and Examples.
   Model: Loader/Model.v (builder.go, parser.go, assert.go, condition.go, patternutil.go, status.go function by
   function; Panic = Go nil dereference / failed type assertion / slice out of range), Loader/Decode.v (the typing
   rules of yaml.v2 + mapstructure and the two checks of loader.go's decode).  The model follows the REPAIRED code
   (/repo fix commits c2912bd F13a, 519d0a6 F13b, e67ca4a F13g, c021988 F13c, 089471d F13d, aac42fa F13e,
   667fb54 F13f; the parameter fixes ff6cf28 / 0f1faec of C11 are followed too).
   Tie to the code: tools/props/C13.py (definition trees through the real LoadYAML / LoadMetadata /
   LoadWithoutEval / Load against the model on the same tree).

   Every theorem quantifies over ALL untyped trees / decoded definitions, options, initial environments and over
   every value of the library parameters (cron parse verdict, signal validity, regexp compilability, parameter
   tokenizer, command outputs, pattern matcher).  What remains beside the full statements:
     - two hypotheses on libraries in the no-panic theorems: the cron parser panics only on a bare TZ= / CRON_TZ=
       prefix - PROVED for the Cron model (C09), see C13_load_no_panic_cron; a parameter value matched by the quoted
       alternative of the tokenizer's regular expression holds its two quotes (value[1:len-1] of fix 0f1faec);
     - `build` taken alone still assumes `no_nil d`: that is exactly what decode guarantees (C13_decode_no_nil).
   Every clause of the property is now a full statement; nothing is refuted. *)
From Coq Require Import List ZArith String.
Import ListNotations.
From BD.Loader Require Import Str Model Decode Proofs DecodeProofs LoadProofs CronPlug Witness.
Open Scope string_scope.
Open Scope list_scope.

(* ---- never crashes --------------------------------------------------------------------------------------- *)
(* decode + build over EVERY untyped tree, every entry point (options) *)
Theorem C13_load_no_panic :
  forall (cron : string -> cronv) (sig_ok : string -> bool) (tokenize : string -> list (string * string))
         (sh : string -> option string),
  (forall s, cron s = CronPanic -> tz_only s = true) ->
  (forall s n v, In (n, v) (tokenize s) -> quoted_wf v) ->
  forall (o : opts) (root : yv) (e : envt),
  outcome (load_tree cron sig_ok tokenize sh o root e) <> Panic.
Proof. exact load_no_panic. Qed.
Print Assumptions C13_load_no_panic.

(* the same with the cron parser of the Cron model: the cron hypothesis is proved, the tokenizer one remains *)
Theorem C13_load_no_panic_cron :
  forall (sig_ok : string -> bool) (tokenize : string -> list (string * string)) (sh : string -> option string),
  (forall s n v, In (n, v) (tokenize s) -> quoted_wf v) ->
  forall (o : opts) (root : yv) (e : envt),
  outcome (load_tree cron_of_parse sig_ok tokenize sh o root e) <> Panic.
Proof. exact load_no_panic_cron. Qed.
Print Assumptions C13_load_no_panic_cron.

Theorem C13_cron_parse_panics_only_on_tz_prefix : forall s, cron_of_parse s = CronPanic -> tz_only s = true.
Proof. exact cron_parse_panic_tz. Qed.

(* the two stages on their own *)
Theorem C13_decode_no_panic : forall root : yv, decode root <> Panic.
Proof. exact decode_no_panic. Qed.
Theorem C13_decode_no_nil : forall (root : yv) (d : definition), decode root = Ok d -> no_nil d = true.
Proof. exact decode_no_nil. Qed.
Theorem C13_build_no_panic :
  forall (cron : string -> cronv) (sig_ok : string -> bool) (tokenize : string -> list (string * string))
         (sh : string -> option string),
  (forall s, cron s = CronPanic -> tz_only s = true) ->
  (forall s n v, In (n, v) (tokenize s) -> quoted_wf v) ->
  forall (o : opts) (d : definition) (base : list string),
  no_nil d = true ->
  forall e : envt, outcome (build cron sig_ok tokenize sh o d base e) <> Panic.
Proof. exact build_no_panic. Qed.
Print Assumptions C13_build_no_panic.

(* ---- accepted => well-formed --------------------------------------------------------------------------------- *)
(* every step and handler of an accepted DAG has a name and a valid (or no) stop signal; every schedule expression
   passed parseCron *)
Theorem C13_wf :
  forall (cron : string -> cronv) (sig_ok : string -> bool) (tokenize : string -> list (string * string))
         (sh : string -> option string) (o : opts) (d : definition) (base : list string) (e : envt) (g : dag),
  outcome (build cron sig_ok tokenize sh o d base e) = Ok g ->
  (forall s, In s (all_steps g) -> step_wf sig_ok s) /\
  forallb (cron_ok cron) (g_schedule g) = true /\ forallb (cron_ok cron) (g_stopSchedule g) = true /\
  forallb (cron_ok cron) (g_restartSchedule g) = true.
Proof. exact build_wf. Qed.
Print Assumptions C13_wf.

(* every step and handler of an accepted DAG has something to execute (full statement since fix aac42fa) *)
Theorem C13_executable :
  forall (cron : string -> cronv) (sig_ok : string -> bool) (tokenize : string -> list (string * string))
         (sh : string -> option string) (o : opts) (d : definition) (base : list string) (e : envt) (g : dag),
  outcome (build cron sig_ok tokenize sh o d base e) = Ok g ->
  forall s, In s (all_steps g) -> step_executable s = true.
Proof. exact build_executable. Qed.
Print Assumptions C13_executable.

(* "runnable" also asks that the runner can use the accepted DAG: the pointers it dereferences without a test (SMTP in
   agent.setup; ErrorMail / InfoMail in the reporter once mailOn or a step's mailOnError asks for a mail) are set by
   every full build *)
Theorem C13_runner_pointers :
  forall (cron : string -> cronv) (sig_ok : string -> bool) (tokenize : string -> list (string * string))
         (sh : string -> option string) (o : opts) (d : definition) (base : list string) (e : envt) (g : dag),
  outcome (build cron sig_ok tokenize sh o d base e) = Ok g -> o_metadataOnly o = false ->
  is_some (g_smtp g) = true /\ is_some (g_errorMail g) = true /\ is_some (g_infoMail g) = true.
Proof. exact build_runner_pointers. Qed.
Print Assumptions C13_runner_pointers.

(* evaluating conditions never crashes, whatever the expected pattern (full statement since fix 089471d) *)
Theorem C13_conditions :
  forall (re_ok : string -> bool) (sh : string -> option string) (cond_met : string -> string -> bool)
         (cs : list condition) (e : envt),
  outcome (evalConditions re_ok sh cond_met cs e) <> Panic.
Proof. exact evalConditions_np. Qed.
Print Assumptions C13_conditions.

(* ---- accepted => the status is serialisable; the agent's live status endpoint does not reach its nil-pointer path
        (full statement since fix 667fb54) -------------------------------------------------------------------------- *)
Theorem C13_serialisable :
  forall (cron : string -> cronv) (sig_ok : string -> bool) (tokenize : string -> list (string * string))
         (sh : string -> option string) (o : opts) (d : definition) (base : list string) (e : envt) (g : dag),
  outcome (build cron sig_ok tokenize sh o d base e) = Ok g ->
  json_ok g = true /\ serve_status g = Ok tt.
Proof. exact build_serialisable. Qed.
Print Assumptions C13_serialisable.

(* ---- the witnesses of the defects that were repaired, as positive examples ------------------------------------------ *)
(* before fix c2912bd the model answered Panic *)
Example C13_fixed_F13a :
  no_nil (def_of tree_F13a) = true /\ outcome (buildW oYAML (def_of tree_F13a) [] []) = Err /\
  outcome (buildW oMeta (def_of tree_F13a) [] []) = Err.
Proof. exact fixed_F13a. Qed.
(* before fix 519d0a6 the model answered Panic *)
Example C13_fixed_F13b :
  cronW "TZ=UTC" = CronPanic /\ d_schedule (def_of tree_F13b) = VStr "TZ=UTC" /\
  outcome (buildW oYAML (def_of tree_F13b) [] []) = Err /\ outcome (buildW oMeta (def_of tree_F13b) [] []) = Err.
Proof. exact fixed_F13b. Qed.
(* before fix c021988 decode let the null elements through and build answered Panic *)
Example C13_fixed_F13c :
  outcome (loadW oYAML (m [("steps", VList [VNull])])) = Err /\
  outcome (loadW oYAML (m [("functions", VList [VNull]); ("steps", VList [step1])])) = Err /\
  outcome (loadW oYAML (m [("preconditions", VList [VNull]); ("steps", VList [step1])])) = Err /\
  outcome (loadW oYAML (m [("steps", VList [m [("name", VStr "s1"); ("command", VStr "echo hi"); ("preconditions", VList [VNull])]])])) = Err.
Proof. exact fixed_F13c. Qed.
(* before fix e67ca4a decode answered Panic *)
Example C13_fixed_F13g :
  decode (m [("steps", VList [VMap [(VStr "name", VStr "s1"); (VStr "command", VStr "echo"); (VInt 1, VStr "x")]])]) = Err
  /\ decode (m [("smtp", VMap [(VNull, VStr "x")])]) = Err.
Proof. exact fixed_F13g. Qed.
(* before fix 089471d evaluating the accepted condition answered Panic *)
Example C13_fixed_F13d :
  exists d g, outcome (buildW oYAML d [] []) = Ok g /\ reW "re:[" = false /\
    outcome (evalConditions reW shW metW (g_preconditions g) []) = Err.
Proof. exact fixed_F13d. Qed.
(* before fix aac42fa these four definitions were accepted with nothing to execute *)
Example C13_fixed_F13e :
  outcome (loadW oYAML (m [("steps", VList [m [("name", VStr "s1"); ("command", VList [])]])])) = Err /\
  outcome (loadW oYAML (m [("steps", VList [m [("name", VStr "s1"); ("command", VList [VStr ""])]])])) = Err /\
  outcome (loadW oYAML (m [("steps", VList [m [("name", VStr "s1"); ("executor", VStr "")]])])) = Err /\
  outcome (loadW oYAML (m [("functions", VList [m [("name", VStr "f"); ("params", VStr "x"); ("command", VStr "$x")]]);
                           ("steps", VList [m [("name", VStr "s1"); ("call", m [("function", VStr "f"); ("args", m [("x", VStr "")])])]])])) = Err.
Proof. exact fixed_F13e. Qed.

(* before fix 667fb54 both were accepted with a status that json.Marshal refuses (serve_status = Panic) *)
Example C13_fixed_F13f :
  (exists g, outcome (loadW oYAML tree_F13f_map) = Ok g /\ json_ok g = true /\ serve_status g = Ok tt) /\
  outcome (loadW oYAML tree_F13f_nan) = Err.
Proof. exact fixed_F13f. Qed.

(* ---- non-vacuity: a definition with a schedule mapping, evaluated env, a function call, a sub-workflow, an executor
        with nested config, handlers and regular-expression preconditions is accepted ----------------------------------- *)
Example C13_nonvacuous :
  decode example_tree = Ok example_def /\ no_nil example_def = true /\
  (exists g, outcome (buildW oYAML example_def [] []) = Ok g /\ List.length (all_steps g) = 7 /\
             List.length (g_schedule g) = 2 /\ List.length (all_conditions g) = 2 /\ json_ok g = true) /\
  (exists g, outcome (buildW oLoad example_def [] []) = Ok g /\
             effects (buildW oLoad example_def [] []) = [EExec "echo a"; ESetenv "A" ""; ESetenv "B" "2"]).
Proof. exact premises_satisfiable. Qed.
