(* C13 - any file content is either rejected with an error or yields a runnable DAG.
   This file holds nothing but the property theorems (closed by `exact`), Print Assumptions and Examples.
   Model: Loader/Model.v (builder.go, parser.go, assert.go, condition.go, patternutil.go, status.go function by
   function; Panic = Go nil dereference / failed type assertion / slice out of range), Loader/Decode.v (the typing
   rules of yaml.v2 + mapstructure).  Tie to the code: tools/props/C13.py (definition trees through the real
   LoadYAML / LoadMetadata / LoadWithoutEval / Load against the model on the same tree).

   Every theorem quantifies over ALL decoded definitions, options, initial environments and over every value of
   the library parameters (cron parse verdict, signal validity, regexp compilability, parameter tokenizer, command
   outputs, pattern matcher).  The pinned code violates the property on the input classes F13a-g (DESIGN.md
   section 6): the `_refuted` lemmas are the witnesses, the `_partial` theorems exclude exactly those classes by
   decidable premises on the input. *)
From Coq Require Import List ZArith String.
Import ListNotations.
From BD.Loader Require Import Str Model Decode Proofs DecodeProofs LoadProofs Witness.
Open Scope string_scope.
Open Scope list_scope.

(* ---- never crashes --------------------------------------------------------------------------------------- *)
(* Full statement (FALSE of the pinned code):
     forall o d base e, outcome (build cron sig_ok tokenize sh o d base e) <> Panic.
   Holds when no steps / functions / preconditions list holds a null element (F13c), no schedule string makes the
   cron library panic (F13b) and every key of a schedule mapping that carries strings is start / stop / restart (F13a). *)
Theorem C13_no_panic_partial :
  forall (cron : string -> cronv) (sig_ok : string -> bool) (tokenize : string -> list (string * string))
         (sh : string -> option string) (o : opts) (d : definition) (base : list string),
  no_nil d = true -> sched_safe cron (d_schedule d) = true ->
  forall e : envt, outcome (build cron sig_ok tokenize sh o d base e) <> Panic.
Proof. exact build_no_panic_partial. Qed.
Print Assumptions C13_no_panic_partial.

(* the decode stage (mapstructure over the yaml.v2 tree) panics only on a non-string key of a nested mapping (F13g) *)
Theorem C13_decode_no_panic_partial : forall root : yv, all_keys_strings root = true -> decode root <> Panic.
Proof. exact decode_no_panic_partial. Qed.
Print Assumptions C13_decode_no_panic_partial.

(* decode + build over every untyped tree *)
Theorem C13_load_no_panic_partial :
  forall (cron : string -> cronv) (sig_ok : string -> bool) (tokenize : string -> list (string * string))
         (sh : string -> option string) (o : opts) (root : yv) (e : envt),
  all_keys_strings root = true ->
  (forall d, decode root = Ok d -> no_nil d = true /\ sched_safe cron (d_schedule d) = true) ->
  outcome (load_tree cron sig_ok tokenize sh o root e) <> Panic.
Proof. exact load_no_panic_partial. Qed.
Print Assumptions C13_load_no_panic_partial.

Theorem C13_no_panic_refuted_F13a :
  exists d, no_nil d = true /\ outcome (buildW oYAML d [] []) = Panic /\ outcome (buildW oMeta d [] []) = Panic.
Proof. exact no_panic_refuted_F13a. Qed.
Theorem C13_no_panic_refuted_F13b :
  exists d, no_nil d = true /\ d_schedule d = VStr "TZ=UTC" /\ outcome (buildW oYAML d [] []) = Panic /\ outcome (buildW oMeta d [] []) = Panic.
Proof. exact no_panic_refuted_F13b. Qed.
Theorem C13_no_panic_refuted_F13c :
  (exists d, d_steps d = [None] /\ outcome (buildW oYAML d [] []) = Panic) /\
  (exists d, d_functions d = [None] /\ outcome (buildW oYAML d [] []) = Panic) /\
  (exists d, d_preconditions d = [None] /\ outcome (buildW oYAML d [] []) = Panic) /\
  (exists d sd, d_steps d = [Some sd] /\ sd_preconditions sd = [None] /\ outcome (buildW oYAML d [] []) = Panic).
Proof. exact no_panic_refuted_F13c. Qed.
Theorem C13_decode_no_panic_refuted_F13g :
  decode (m [("steps", VList [VMap [(VStr "name", VStr "s1"); (VStr "command", VStr "echo"); (VInt 1, VStr "x")]])]) = Panic
  /\ decode (m [("smtp", VMap [(VNull, VStr "x")])]) = Panic.
Proof. exact decode_no_panic_refuted_F13g. Qed.
Print Assumptions C13_no_panic_refuted_F13c.

(* ---- accepted => well-formed --------------------------------------------------------------------------------- *)
(* every step and handler of an accepted DAG has a name and a valid (or no) stop signal; every schedule expression
   parses.  No premise: this part of the property holds of the model for all inputs. *)
Theorem C13_wf :
  forall (cron : string -> cronv) (sig_ok : string -> bool) (tokenize : string -> list (string * string))
         (sh : string -> option string) (o : opts) (d : definition) (base : list string) (e : envt) (g : dag),
  outcome (build cron sig_ok tokenize sh o d base e) = Ok g ->
  (forall s, In s (all_steps g) -> step_wf sig_ok s) /\
  forallb (cron_ok cron) (g_schedule g) = true /\ forallb (cron_ok cron) (g_stopSchedule g) = true /\
  forallb (cron_ok cron) (g_restartSchedule g) = true.
Proof. exact build_wf. Qed.
Print Assumptions C13_wf.

(* Full statement (FALSE): ... -> forall s, In s (all_steps g) -> step_executable s = true.
   Holds when every step / handler definition names something to execute (excluded: F13e - a command list without a
   non-empty element, an executor without a type, a call of a function whose command is parameters only). *)
Theorem C13_executable_partial :
  forall (cron : string -> cronv) (sig_ok : string -> bool) (tokenize : string -> list (string * string))
         (sh : string -> option string) (o : opts) (d : definition) (base : list string) (e : envt) (g : dag),
  outcome (build cron sig_ok tokenize sh o d base e) = Ok g -> def_executable d = true ->
  forall s, In s (all_steps g) -> step_executable s = true.
Proof. exact build_executable_partial. Qed.
Print Assumptions C13_executable_partial.

Theorem C13_executable_refuted_F13e :
  (exists d g, outcome (buildW oYAML d [] []) = Ok g /\ forallb step_executable (all_steps g) = false
               /\ exists sd, d_steps d = [Some sd] /\ sd_command sd = VList []) /\
  (exists d g, outcome (buildW oYAML d [] []) = Ok g /\ forallb step_executable (all_steps g) = false
               /\ exists sd, d_steps d = [Some sd] /\ sd_command sd = VList [VStr ""]) /\
  (exists d g, outcome (buildW oYAML d [] []) = Ok g /\ forallb step_executable (all_steps g) = false
               /\ exists sd, d_steps d = [Some sd] /\ sd_executor sd = VStr "").
Proof. exact executable_refuted_F13e. Qed.

(* ---- accepted => the status is serialisable, the live status endpoint does not take its nil-pointer path ------- *)
(* Full statement (FALSE): build = Ok g -> json_ok g = true.  Excluded: F13f - executor config values holding a
   mapping inside a list or a non-finite float. *)
Theorem C13_serialisable_partial :
  forall (cron : string -> cronv) (sig_ok : string -> bool) (tokenize : string -> list (string * string))
         (sh : string -> option string) (o : opts) (d : definition) (base : list string) (e : envt) (g : dag),
  outcome (build cron sig_ok tokenize sh o d base e) = Ok g -> def_config_clean d = true ->
  json_ok g = true /\ serve_status g = Ok tt.
Proof. exact build_serialisable_partial. Qed.
Print Assumptions C13_serialisable_partial.

Theorem C13_serialisable_refuted_F13f :
  (exists d g, outcome (buildW oYAML d [] []) = Ok g /\ json_ok g = false /\ serve_status g = Panic) /\
  (exists d g, outcome (buildW oYAML d [] []) = Ok g /\ json_ok g = false /\ serve_status g = Panic).
Proof. exact serialisable_refuted_F13f. Qed.

(* ---- accepted => evaluating its conditions does not crash ------------------------------------------------------- *)
(* Full statement (FALSE): build = Ok g -> NP (evalConditions (g_preconditions g)).  Excluded: F13d - an `expected:`
   with the re: prefix whose pattern does not compile. *)
Theorem C13_conditions_partial :
  forall (cron : string -> cronv) (sig_ok re_ok : string -> bool) (tokenize : string -> list (string * string))
         (sh : string -> option string) (cond_met : string -> string -> bool)
         (o : opts) (d : definition) (base : list string) (e : envt) (g : dag),
  outcome (build cron sig_ok tokenize sh o d base e) = Ok g -> def_regexps_ok re_ok d = true ->
  forall cs, (forall c, In c cs -> In c (all_conditions g)) -> NP (evalConditions re_ok sh cond_met cs).
Proof. exact build_conditions_partial. Qed.
Print Assumptions C13_conditions_partial.

Theorem C13_conditions_refuted_F13d :
  exists d g, outcome (buildW oYAML d [] []) = Ok g /\
    outcome (evalConditions reW shW metW (g_preconditions g) []) = Panic.
Proof. exact conditions_refuted_F13d. Qed.

(* ---- the premises are met by a concrete definition with a schedule mapping, evaluated env, a function call, a
        sub-workflow, an executor with nested config, handlers and regular-expression preconditions ----------------- *)
Example C13_premises_satisfiable :
  all_keys_strings example_tree = true /\ decode example_tree = Ok example_def /\
  no_nil example_def = true /\ sched_safe cronW (d_schedule example_def) = true /\
  def_executable example_def = true /\ def_config_clean example_def = true /\ def_regexps_ok reW example_def = true /\
  (exists g, outcome (buildW oYAML example_def [] []) = Ok g /\ List.length (all_steps g) = 7 /\
             List.length (g_schedule g) = 2 /\ List.length (all_conditions g) = 2) /\
  (exists g, outcome (buildW oLoad example_def [] []) = Ok g /\
             effects (buildW oLoad example_def [] []) = [EExec "echo a"; ESetenv "A" ""; ESetenv "B" "2"]).
Proof. exact premises_satisfiable. Qed.
