(* C19 - listing, viewing and validating a DAG has no side effects.
   This file holds nothing but the property theorems (closed by `exact`), Print Assumptions and Examples.
   Model: Loader/Model.v - `build` returns, beside the outcome, the EFFECT LOG: one entry per
   exec.Command(...).Output() of substituteCommands / parseParamValue and one per successful os.Setenv (reads of the
   environment are not effects).  Entry points = option values: LoadYAML / LoadWithoutEval (noEval), LoadMetadata
   (noEval, metadataOnly), Load (evaluating).  Tie to the code: tools/props/C19.py (canaries in every string-valued
   field through every non-executing entry point of /repo, compared with the effect log of the model). *)
From Coq Require Import List ZArith String.
Import ListNotations.
From BD.Loader Require Import Str Model Decode Proofs DecodeProofs LoadProofs Witness.
Open Scope string_scope.
Open Scope list_scope.

(* Full statement (FALSE of the pinned code):
     forall o d base e, o_noEval o = true -> effects (build cron sig_ok tokenize sh o d base e) = [].
   Holds when the parameter string has no token (F19b: parser.go:134 exports $1..$n whatever the options say) and -
   unless only the metadata is loaded - logDir holds no command substitution after expansion in the loader's
   environment (F19a: builder.go:259 substitutes unconditionally).  Then nothing is executed, nothing is exported and
   the environment is what it was. *)
Theorem C19_no_effects_partial :
  forall (cron : string -> cronv) (sig_ok : string -> bool) (tokenize : string -> list (string * string))
         (sh : string -> option string) (o : opts) (d : definition) (base : list string) (e : envt),
  o_noEval o = true ->
  tokenize (effective_params o d) = [] ->
  (o_metadataOnly o = true \/ logdir_commands e d = []) ->
  effects (build cron sig_ok tokenize sh o d base e) = [] /\ env_after (build cron sig_ok tokenize sh o d base e) = e.
Proof. exact build_no_effects_partial. Qed.
Print Assumptions C19_no_effects_partial.

(* the same over untyped trees (decoding has no effect) *)
Theorem C19_load_no_effects_partial :
  forall (cron : string -> cronv) (sig_ok : string -> bool) (tokenize : string -> list (string * string))
         (sh : string -> option string) (o : opts) (root : yv) (e : envt),
  o_noEval o = true ->
  (forall d, decode root = Ok d ->
     tokenize (effective_params o d) = [] /\ (o_metadataOnly o = true \/ logdir_commands e d = [])) ->
  effects (load_tree cron sig_ok tokenize sh o root e) = [] /\ env_after (load_tree cron sig_ok tokenize sh o root e) = e.
Proof. exact load_no_effects_partial. Qed.
Print Assumptions C19_load_no_effects_partial.

Theorem C19_no_effects_refuted_F19a :
  exists d, d_logDir d = "`touch /x`" /\ effects (buildW oYAML d [] []) = [EExec "touch /x"].
Proof. exact no_effects_refuted_F19a. Qed.
Theorem C19_no_effects_refuted_F19b :
  exists d, d_params d = "p1 p2" /\
    effects (buildW oYAML d [] []) = [ESetenv "1" "p1"; ESetenv "2" "p2"] /\
    effects (buildW oMeta d [] []) = [ESetenv "1" "p1"; ESetenv "2" "p2"].
Proof. exact no_effects_refuted_F19b. Qed.
Print Assumptions C19_no_effects_refuted_F19b.

(* With or without evaluation: the effects of a load that does not crash are those of env, then params, then logDir,
   and of nothing else - steps, handlers, conditions, mail settings and functions are not evaluated at load time. *)
Theorem C19_eval_effects :
  forall (cron : string -> cronv) (sig_ok : string -> bool) (tokenize : string -> list (string * string))
         (sh : string -> option string) (o : opts) (d : definition) (base : list string) (e : envt),
  outcome (build cron sig_ok tokenize sh o d base e) <> Panic ->
  let x1 := buildEnvs sh d o base e in
  let x2 := buildParams tokenize sh d o (env_after x1) in
  let x3 := buildLogDir sh d (env_after x2) in
  effects (build cron sig_ok tokenize sh o d base e) =
  effects x1 ++ effects x2 ++ (if o_metadataOnly o then [] else effects x3).
Proof. exact build_effects. Qed.
Print Assumptions C19_eval_effects.

(* the premises are met by the non-trivial example definition (no default parameters, no substitution in logDir):
   loading it for viewing / listing has no effect, loading it for execution evaluates env *)
Example C19_premises_satisfiable :
  tokW (effective_params oYAML example_def) = [] /\ logdir_commands [] example_def = [] /\
  effects (buildW oYAML example_def [] []) = [] /\ effects (buildW oMeta example_def [] []) = [].
Proof. exact no_effects_premises_satisfiable. Qed.
Example C19_eval_example :
  exists g, outcome (buildW oLoad example_def [] []) = Ok g /\
            effects (buildW oLoad example_def [] []) = [EExec "echo a"; ESetenv "A" ""; ESetenv "B" "2"].
Proof. exact (proj2 (proj2 (proj2 (proj2 (proj2 (proj2 (proj2 (proj2 premises_satisfiable)))))))). Qed.
