(* C19 - listing, viewing and validating a DAG has no side effects.
   This file holds nothing but the property theorems (closed by `exact`), Print Assumptions and Examples.
   Model: Loader/Model.v - `build` returns, beside the outcome, the EFFECT LOG: one entry per
   exec.Command(...).Output() of substituteCommands / parseParamValue and one per successful os.Setenv (reads of the
   environment are not effects).  Entry points = option values: LoadYAML / LoadWithoutEval (noEval), LoadMetadata
   (noEval, metadataOnly), Load (evaluating).  The model follows the REPAIRED code (/repo fix commits 4348d0d F19a,
   a55d876 F19b): the full statement holds, with `noEval` as its only premise.
   Tie to the code: tools/props/C19.py (canaries in every string-valued field through every non-executing entry
   point of /repo, compared with the effect log of the model). *)
From Coq Require Import List ZArith String.
Import ListNotations.
From BD.Loader Require Import Str Model Decode Proofs DecodeProofs LoadProofs Witness SessionProofs.
Open Scope string_scope.
Open Scope list_scope.

(* for ALL definitions, options, base environments and initial environments: under noEval nothing is executed,
   nothing is exported and the environment is what it was *)
Theorem C19_no_effects :
  forall (cron : string -> cronv) (sig_ok : string -> bool) (tokenize : string -> list (string * string))
         (sh : string -> option string) (o : opts) (d : definition) (base : list string) (e : envt),
  o_noEval o = true ->
  effects (build cron sig_ok tokenize sh o d base e) = [] /\ env_after (build cron sig_ok tokenize sh o d base e) = e.
Proof. exact build_no_effects. Qed.
Print Assumptions C19_no_effects.

(* the same over ALL untyped trees (decoding has no effect) *)
Theorem C19_load_no_effects :
  forall (cron : string -> cronv) (sig_ok : string -> bool) (tokenize : string -> list (string * string))
         (sh : string -> option string) (o : opts) (root : yv) (e : envt),
  o_noEval o = true ->
  effects (load_tree cron sig_ok tokenize sh o root e) = [] /\ env_after (load_tree cron sig_ok tokenize sh o root e) = e.
Proof. exact load_no_effects. Qed.
Print Assumptions C19_load_no_effects.

(* the display path of the web server (client.GetStatus and what is built on it): load without evaluation, then
   graph construction for validation - node initialisation evaluates nothing, so the path adds no effect.
   (What Node.init of /repo really does is outside `build`; it is covered by the canary monitor of tools/props/C19.py,
   which drives client.GetStatus / GetAllStatus / the API handlers.) *)
Theorem C19_display_no_effects :
  forall (cron : string -> cronv) (sig_ok : string -> bool) (tokenize : string -> list (string * string))
         (sh : string -> option string) (o : opts) (root : yv) (e : envt),
  o_noEval o = true ->
  effects (display cron sig_ok tokenize sh o root e) = [] /\ env_after (display cron sig_ok tokenize sh o root e) = e.
Proof. exact display_no_effects. Qed.
Print Assumptions C19_display_no_effects.

(* With or without evaluation: the effects of a load that does not crash are those of env, then params, then logDir,
   and of nothing else - steps, handlers, conditions, mail settings and functions are not evaluated at load time. *)
Theorem C19_eval_effects :
  forall (cron : string -> cronv) (sig_ok : string -> bool) (tokenize : string -> list (string * string))
         (sh : string -> option string) (o : opts) (d : definition) (base : list string) (e : envt),
  outcome (build cron sig_ok tokenize sh o d base e) <> Panic ->
  let x1 := buildEnvs sh d o base e in
  let x2 := buildParams tokenize sh d o (env_after x1) in
  let x3 := buildLogDir sh d o (env_after x2) in
  effects (build cron sig_ok tokenize sh o d base e) =
  effects x1 ++ effects x2 ++ (if o_metadataOnly o then [] else effects x3).
Proof. exact build_effects. Qed.
Print Assumptions C19_eval_effects.

(* the witnesses of the repaired defects, as positive examples *)
(* before fix 4348d0d the model answered [EExec "touch /x"] under noEval *)
Example C19_fixed_F19a :
  exists d, d_logDir d = "`touch /x`" /\ effects (buildW oYAML d [] []) = [] /\
            effects (buildW oLoad d [] []) = [EExec "touch /x"].
Proof. exact fixed_F19a. Qed.
(* before fix a55d876 the model answered [ESetenv "1" "p1"; ESetenv "2" "p2"] under noEval, even with metadataOnly *)
Example C19_fixed_F19b :
  exists d, d_params d = "p1 p2" /\
    effects (buildW oYAML d [] []) = [] /\ effects (buildW oMeta d [] []) = [] /\
    effects (buildW oLoad d [] []) = [ESetenv "1" "p1"; ESetenv "2" "p2"].
Proof. exact fixed_F19b. Qed.

(* non-vacuity: a definition with evaluated env, default parameters and a command substitution in logDir has no effect
   when viewed / listed, and the effects of env, params, logDir - in this order - when loaded for execution *)
Example C19_nonvacuous :
  decode example_tree2 = Ok (def_of example_tree2) /\
  effects (buildW oYAML (def_of example_tree2) [] []) = [] /\ effects (buildW oMeta (def_of example_tree2) [] []) = [] /\
  effects (buildW oLoad (def_of example_tree2) [] []) =
    [EExec "echo a"; ESetenv "A" ""; ESetenv "B" "2"; ESetenv "1" "p1"; ESetenv "2" "X=2"; EExec "echo /tmp/l"].
Proof. exact no_effects_example. Qed.

(* Whole sessions: any sequence of non-executing requests (plain loads for listing / validation, displays for viewing)
   of any definitions, each starting in the environment its predecessor left, executes nothing and ends in the
   environment it started in - listing and viewing any number of times changes nothing. *)
Theorem C19_session_no_effects :
  forall (cron : string -> cronv) (sig_ok : string -> bool) (tokenize : string -> list (string * string))
         (sh : string -> option string) (js : list job),
  Forall job_noeval js -> forall e : envt, session cron sig_ok tokenize sh js e = (e, []).
Proof. exact session_no_effects. Qed.
Print Assumptions C19_session_no_effects.

(* the premise is met by a session mixing the three non-executing entry points over the example tree *)
Example C19_session_premise :
  Forall job_noeval [(false, oYAML, example_tree2); (true, oYAML, example_tree2); (false, oMeta, example_tree2)].
Proof. repeat constructor. Qed.
