(* C12 - a finished step's log holds everything the step printed.
   This file holds nothing but the property theorems (closed by `exact`), Print Assumptions and Examples.
   Model: Log/Model.v - files, descriptors, bufio.Writer (4096: Write with bypass / fill-flush, Flush, ReadFrom),
   io.MultiWriter, the capture pipe (16 page slots, merge rule of pipe_write), node.setup / setupExec / Execute /
   teardown with the `done` flag, attempts, stale teardowns.  Tie to the code: tools/props/C12.py (real scheduler,
   real sh children printing a position-dependent pattern; file contents against the model's prediction).

   The full statement
       forall c atts lates, atts <> [] -> complete c (last atts []) (run c atts lates)
   (every subset of {stdout file, stderr file, output variable, script}, every number of attempts, every chunking,
   interleaving and size) is FALSE of the faithful model: F12a, F12b, F12c - the _refuted theorems below, each
   replayed on the real code by the check.  Proved: C12_complete_partial - one attempt (no retry happened), any
   configuration, `output:` unset or at most half a pipe (32768 bytes) towards the capture pipe; and
   C12_complete_retry_direct_partial - any number of retries when neither `stdout:` nor `output:` is configured and
   the teardowns come in the usual order. *)
From Coq Require Import List NArith.
Import ListNotations.
From BD.Log Require Import Model Proofs ProofsRetry.

(* For every configuration, every chunking / interleaving of the two streams and every size: when the worker of a
   step that needed no retry is gone, no write blocked, the file named by State.Log holds exactly the bytes that
   went towards the log in arrival order, the `stdout:` file ends with the same sequence, the `stderr:` file with
   every stderr byte.  Invariant of the proof: file ++ buffered = bytes accepted (and buffered <= 4096). *)
Theorem C12_complete_partial : forall (A : Type) (c : cfg) (cs : list (chunk A)),
  (c_output c = false \/ length (log_of A c cs) <= HALFPIPE) -> complete A c cs (run A c [cs] []).
Proof. exact complete_single. Qed.
Print Assumptions C12_complete_partial.

(* Any number of retries is fine as long as the wiring is the direct one (no `stdout:` file, no `output:` variable:
   every chunk goes straight to the file through ReadFrom, nothing is ever buffered) and every stale worker tears down
   before the next attempt is set up (lates = []): all configurations of {stderr file, script}, every number of
   attempts, every chunking, interleaving and size. *)
Theorem C12_complete_retry_direct_partial : forall (A : Type) (c : cfg),
  c_stdout c = false -> c_output c = false ->
  forall atts : list (list (chunk A)), atts <> [] -> complete A c (last atts []) (run A c atts []).
Proof. exact retry_direct. Qed.
Print Assumptions C12_complete_retry_direct_partial.

(* the sequence that reaches the log is an order-preserving merge of the attempt's stdout and - unless `stderr:` is
   configured - its stderr: every byte of either stream is there, in order *)
Theorem C12_log_is_merge : forall (A : Type) (c : cfg) (cs : list (chunk A)),
  is_merge A (out_of A cs) (if c_stderr c then [] else err_of A cs) (log_of A c cs).
Proof. exact log_of_merge. Qed.
Print Assumptions C12_log_is_merge.

(* what an `output:` variable receives before TrimSpace (C11): the same sequence - stdout, and stderr too when it
   is not redirected (F11d) *)
Theorem C12_capture_partial : forall (A : Type) (c : cfg) (cs : list (chunk A)),
  c_output c = true -> length (log_of A c cs) <= HALFPIPE ->
  outvar A (run A c [cs] []) = Some (log_of A c cs).
Proof. exact capture_single. Qed.
Print Assumptions C12_capture_partial.

Theorem C12_capture_stdout_refuted : exists (c : cfg) (cs : list (chunk nat)),
  c_output c = true /\ outvar nat (run nat c [cs] []) <> Some (out_of nat cs).
Proof. exact capture_stdout_refuted. Qed.
Print Assumptions C12_capture_stdout_refuted.

(* F12a: retry x MultiWriter wiring (stdout: file / output: variable), teardowns in the usual order *)
Theorem C12_complete_refuted_retry_stdout : exists (c : cfg) (atts : list (list (chunk nat))) (lates : list nat),
  atts <> [] /\ Forall (fun d => d = 0) lates /\ ~ complete nat c (last atts []) (run nat c atts lates).
Proof. exact complete_refuted_retry_stdout. Qed.
Print Assumptions C12_complete_refuted_retry_stdout.

Theorem C12_complete_refuted_retry_output : exists (c : cfg) (atts : list (list (chunk nat))) (lates : list nat),
  atts <> [] /\ Forall (fun d => d = 0) lates /\ ~ complete nat c (last atts []) (run nat c atts lates).
Proof. exact complete_refuted_retry_output. Qed.
Print Assumptions C12_complete_refuted_retry_output.

(* F12b: plain wiring, the stale worker's teardown lands after the next attempt's setup *)
Theorem C12_complete_refuted_stale_teardown : exists (c : cfg) (atts : list (list (chunk nat))) (lates : list nat),
  atts <> [] /\ c_stdout c = false /\ c_output c = false /\ ~ complete nat c (last atts []) (run nat c atts lates).
Proof. exact complete_refuted_stale_teardown. Qed.
Print Assumptions C12_complete_refuted_stale_teardown.

(* F12c: output: beyond the pipe - and the half-pipe premise is nearly sharp *)
Theorem C12_complete_refuted_pipe : exists (c : cfg) (cs : list (chunk nat)),
  c_output c = true /\ blocked nat (run nat c [cs] []) = true.
Proof. exact complete_refuted_pipe. Qed.
Print Assumptions C12_complete_refuted_pipe.

Theorem C12_complete_refuted_pipe_chunking : exists (c : cfg) (cs : list (chunk nat)),
  c_output c = true /\ N.of_nat (length (log_of nat c cs)) = 34833%N /\ blocked nat (run nat c [cs] []) = true.
Proof. exact complete_refuted_pipe_chunking. Qed.
Print Assumptions C12_complete_refuted_pipe_chunking.

(* Non-vacuity: the premise of C12_complete_partial holds for a run with every setting on, 8003 bytes in chunks
   that exercise bypass and fill-flush, and the files hold what the theorem says *)
Example C12_nonvacuous :
  let c := mkc true true true false in
  let cs := [(Out, repeat 7 5000); (Err, [1; 2; 3]); (Out, repeat 8 3000)] in
  (c_output c = false \/ length (log_of nat c cs) <= HALFPIPE) /\
  dsk nat (run nat c [cs] []) (logpath nat (run nat c [cs] [])) = repeat 7 5000 ++ repeat 8 3000 /\
  dsk nat (run nat c [cs] []) P_STDERR = [1; 2; 3].
Proof. exact complete_single_example. Qed.

Example C12_retry_nonvacuous :
  let c := {| c_stdout := false; c_stderr := true; c_output := false; c_script := true |} in
  let atts := [[(Out, [1; 2]); (Err, [9])]; [(Out, [3])]; [(Err, [8]); (Out, [4; 5])]] in
  c_stdout c = false /\ c_output c = false /\ atts <> [] /\
  dsk nat (run nat c atts []) (logpath nat (run nat c atts [])) = [4; 5] /\
  dsk nat (run nat c atts []) P_STDERR = [9; 8].
Proof. exact retry_direct_example. Qed.
