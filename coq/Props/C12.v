From Coq Require Import List.
Import ListNotations.
From BD.Log Require Import Model Proofs.

Theorem C12_complete_refuted_retry : exists (c : cfg) (atts : list (list (chunk nat))) (lates : list nat),
  atts <> [] /\ ~ complete nat c (last atts []) (run nat c atts lates).
Proof. exact Proofs.C12_complete_refuted_retry. Qed.
Print Assumptions C12_complete_refuted_retry.
