(* C12 - a finished step's log holds everything the step printed.
   This file holds nothing but the property theorems (closed by `exact`), Print Assumptions and Examples.
   Model: Log/Model.v - files, descriptors, bufio.Writer (4096: Write with bypass / fill-flush, Flush, ReadFrom),
   io.MultiWriter, the capture buffer, node.setup / setupExec / Execute / teardown with the `done` flag, attempts.
   Tie to the code: tools/props/C12.py (real scheduler, real sh children printing a position-dependent pattern; file
   contents against the model's prediction).

   The model describes the REPAIRED code.  Before 8880f0d (Node.done never reset; the stale worker of a failed attempt
   tore down after handing the node back), f5eca82 (capture through an undrained pipe) and 78722d0 (a write error of the
   stdout: redirect ended the copy to the log as well) the statements below were false
   of the faithful model (F12a, F12b, F12c - refuted by witnesses, each replayed on the real code); those witnesses
   are now the positive Examples at the end. *)
From Coq Require Import List NArith.
Import ListNotations.
From BD.Log Require Import Model Proofs.

(* For every subset of {stdout file, stderr file, output variable, script}, every number of attempts (retries), every
   chunking / interleaving of the two streams and every size: when the worker of the last attempt is gone, the file
   named by State.Log holds exactly the bytes of the last attempt that went towards the log, in arrival order; the
   `stdout:` file ends with the same sequence; the `stderr:` file ends with every stderr byte of the last attempt.
   (No write can block in the model: the worker always gets there.)
   Invariant of the proof: for every sink, file ++ buffered = bytes accepted and buffered <= 4096. *)
Theorem C12_complete : forall (A : Type) (c : cfg) (atts : list (list (chunk A))),
  atts <> [] -> complete A c (last atts []) (run A c atts).
Proof. exact complete_all. Qed.
Print Assumptions C12_complete.

(* Error path: teardown flushes the writers one by one.  Whatever the state of the `stdout:` writer - bytes still
   buffered, a target that rejects writes (a full volume, /dev/full), a sticky write error - what the log writer still
   buffers reaches the file named by State.Log. *)
Theorem C12_teardown_flushes_log : forall (A : Type) (s : st A) (lw lf path : nat) (bl : list A),
  n_done (nd A s) = false -> n_logW (nd A s) = Some lw -> sink A s lw lf path bl ->
  (forall ow, n_outW (nd A s) = Some ow -> ow <> lw /\ fd_path (fdd A s (bw_fd A (buf A s ow))) <> path) ->
  dsk A (teardown A s) path = dsk A s path ++ bl.
Proof. exact teardown_flushes_log. Qed.
Print Assumptions C12_teardown_flushes_log.

(* ... and not only at teardown: while the step prints, every chunk handed to the MultiWriter [log; best-effort stdout;
   capture?] reaches the log sink (file ++ buffer) and no write reports an error, whatever state the stdout: writer is in
   and whenever its target starts to reject writes (MFail, at any point of the event sequence).  Together with
   C12_teardown_flushes_log: the log file receives everything printed regardless of redirect write errors. *)
Theorem C12_log_gets_all : forall (A : Type) (l_tail : list leaf) (evs : list (mev A)) (s : st A) (lw lf path ow of : nat) (L : list A),
  l_tail = [] \/ l_tail = [LCap] -> ow <> lw -> of <> lf -> log_good A s lw lf path ow L ->
  log_good A (fold_left (mstep A (LBuf lw :: LBest ow :: l_tail) of) evs s) lw lf path ow (L ++ written A evs).
Proof. exact log_gets_all. Qed.
Print Assumptions C12_log_gets_all.

(* the sequence that reaches the log is an order-preserving merge of the attempt's stdout and - unless `stderr:` is
   configured - its stderr: every byte of either stream is there, in order *)
Theorem C12_log_is_merge : forall (A : Type) (c : cfg) (cs : list (chunk A)),
  is_merge A (out_of A cs) (if c_stderr c then [] else err_of A cs) (log_of A c cs).
Proof. exact log_of_merge. Qed.
Print Assumptions C12_log_is_merge.

(* what an `output:` variable receives before TrimSpace (C11): the same sequence of the last attempt, of any size ... *)
Theorem C12_capture : forall (A : Type) (c : cfg) (atts : list (list (chunk A))),
  atts <> [] -> c_output c = true -> outvar A (run A c atts) = Some (log_of A c (last atts [])).
Proof. exact capture_all. Qed.
Print Assumptions C12_capture.

(* ... which is NOT the step's stdout when the step also writes to stderr and no `stderr:` file is set (F11d, C11) *)
Theorem C12_capture_stdout_refuted : exists (c : cfg) (cs : list (chunk nat)),
  c_output c = true /\ outvar nat (run nat c [cs]) <> Some (out_of nat cs).
Proof. exact capture_stdout_refuted. Qed.
Print Assumptions C12_capture_stdout_refuted.

(* before fix 8880f0d: the second attempt's log stayed empty (F12a) *)
Example C12_retry_stdout_fixed :
  let r := run nat (mkc true false false false) [[(Out, [1])]; [(Out, [2])]] in
  dsk nat r (logpath nat r) = [2] /\ dsk nat r P_STDOUT = [1; 2].
Proof. exact retry_stdout_fixed. Qed.
Example C12_retry_output_fixed :
  let r := run nat (mkc false false true false) [[(Out, [1])]; [(Out, [2])]] in
  dsk nat r (logpath nat r) = [2] /\ outvar nat r = Some [2].
Proof. exact retry_output_fixed. Qed.
(* before fix f5eca82: 65537 captured bytes blocked the step for good (F12c) *)
Example C12_big_output_fixed :
  let cs := [(Out, repeat 0 (N.to_nat 32768)); (Out, repeat 0 (N.to_nat 32768)); (Out, [0])] in
  let r := run nat (mkc false false true false) [cs] in
  N.of_nat (length (dsk nat r (logpath nat r))) = 65537%N /\
  match outvar nat r with Some v => N.of_nat (length v) = 65537%N | None => False end.
Proof. exact big_output_fixed. Qed.
(* the premises of C12_teardown_flushes_log are met by a run whose stdout: target starts to reject writes: the log
   still receives everything, the stdout: file nothing *)
Example C12_teardown_log_with_failing_stdout :
  let c := mkc true false false false in
  let s := exec nat c init (body nat 0 [(Out, [1; 2; 3]); (Err, [4])]) in
  let s' := match n_outF (nd nat s) with Some f => close nat s f | None => s end in
  dsk nat (teardown nat s') (logpath nat s') = [1; 2; 3; 4] /\ dsk nat (teardown nat s') P_STDOUT = [].
Proof. exact teardown_log_with_failing_stdout. Qed.
(* before fix 78722d0 the first failed write of the stdout: redirect ended the copy: the log lost what followed *)
Example C12_failing_stdout_beyond_buffer_fixed :
  let c := mkc true false false false in
  let s0 := exec nat c init [ASetup nat 0; AStart nat] in
  let s1 := match n_outF (nd nat s0) with Some f => close nat s0 f | None => s0 end in
  let s2 := exec nat c s1 [AChunk nat Out (repeat 1 3000); AChunk nat Err (repeat 2 3000); AChunk nat Out [3]; AEnd nat; ATeardown nat] in
  dsk nat s2 (logpath nat s2) = repeat 1 3000 ++ repeat 2 3000 ++ [3] /\ dsk nat s2 P_STDOUT = [].
Proof. exact failing_stdout_beyond_buffer_fixed. Qed.
(* non-vacuity: every setting on, three attempts *)
Example C12_nonvacuous :
  let c := mkc true true true true in
  let atts := [[(Out, repeat 7 5000); (Err, [1; 2; 3]); (Out, repeat 8 3000)]; [(Out, [4])]; [(Err, [9]); (Out, repeat 5 4097); (Out, [6])]] in
  let r := run nat c atts in
  atts <> [] /\ dsk nat r (logpath nat r) = repeat 5 4097 ++ [6] /\ dsk nat r P_STDERR = [1; 2; 3; 9] /\
  outvar nat r = Some (repeat 5 4097 ++ [6]).
Proof. exact complete_all_example. Qed.
