From Coq Require Import List Bool.
Import ListNotations.
From BD.Agent Require Import Run.

Definition forall_bool (P : bool -> bool) : bool := P true && P false.
Lemma forall_bool_spec P : forall_bool P = true -> forall b, P b = true.
Proof. unfold forall_bool. intros H b. apply andb_true_iff in H. destruct H, b; assumption. Qed.

Definition sweep (P : env -> bool) : bool :=
  forall_bool (fun a => forall_bool (fun b => forall_bool (fun c => forall_bool (fun d => forall_bool (fun f =>
  forall_bool (fun g => forall_bool (fun h => forall_bool (fun i =>
    P {| e_gaccept := a; e_has_pre := b; e_pre_ok := c; e_dry := d; e_probe_timeout := f; e_probe_running := g;
         e_open_ok := h; e_bind_ok := i |})))))))).

(* finite domain: a boolean statement checked on all 256 environments holds for every environment *)
Lemma by_sweep (P : env -> bool) : sweep P = true -> forall e, P e = true.
Proof.
  intros H [a b c d f g h i]. unfold sweep in H.
  pose proof (forall_bool_spec _ H a) as H1. pose proof (forall_bool_spec _ H1 b) as H2.
  pose proof (forall_bool_spec _ H2 c) as H3. pose proof (forall_bool_spec _ H3 d) as H4.
  pose proof (forall_bool_spec _ H4 f) as H5. pose proof (forall_bool_spec _ H5 g) as H6.
  pose proof (forall_bool_spec _ H6 h) as H7. exact (forall_bool_spec _ H7 i).
Qed.

Definition act_eqb (a b : act) : bool :=
  match a, b with
  | ABuildGraph, ABuildGraph | AEvalPre, AEvalPre | ACancelAll, ACancelAll | ADrySchedule, ADrySchedule
  | AProbe, AProbe | ARemoveOld, ARemoveOld | AOpenHist, AOpenHist | AWriteStatus, AWriteStatus
  | ASockUnlink, ASockUnlink | ASockBind, ASockBind | ASchedule, ASchedule | AWriteFinal, AWriteFinal
  | ASockShutdown, ASockShutdown | ACloseHist, ACloseHist => true
  | _, _ => false end.
Lemma act_eqb_eq a b : act_eqb a b = true -> a = b.
Proof. destruct a, b; simpl; intros; try reflexivity; discriminate. Qed.
Fixpoint acts_eqb (l1 l2 : list act) : bool :=
  match l1, l2 with
  | [], [] => true
  | a :: l1', b :: l2' => act_eqb a b && acts_eqb l1' l2'
  | _, _ => false end.
Lemma acts_eqb_eq l1 l2 : acts_eqb l1 l2 = true -> l1 = l2.
Proof.
  revert l2. induction l1 as [|a l1 IH]; destruct l2 as [|b l2]; simpl; intros H; try reflexivity; try discriminate. apply andb_true_iff in H. destruct H as [H1 H2]. apply act_eqb_eq in H1. apply IH in H2. congruence.
Qed.

Definition imp (a b : bool) : bool := negb a || b.
Lemma imp_elim a b : imp a b = true -> a = true -> b = true.
Proof. destruct a, b; simpl; intros; auto; discriminate. Qed.

Ltac use_imp S := match type of S with imp ?a ?b = true => apply (imp_elim a b) in S end.

(* C14: a refused graph does nothing but build the graph *)
Lemma refused_graph_is_silent e : e_gaccept e = false -> run e = ([ABuildGraph], true).
Proof.
  intros H.
  pose proof (by_sweep (fun e => imp (negb (e_gaccept e)) (acts_eqb (fst (run e)) [ABuildGraph] && snd (run e))) ltac:(vm_compute; reflexivity) e) as S; cbv beta in S.
  use_imp S; [|now rewrite H]. apply andb_true_iff in S. destruct S as [S1 S2].
  apply acts_eqb_eq in S1. destruct (run e); simpl in *; congruence.
Qed.

(* C04: unmet DAG preconditions: no step, handler, probe, history or socket action *)
Lemma unmet_dag_precondition e : e_gaccept e = true -> e_has_pre e = true -> e_pre_ok e = false ->
  run e = ([ABuildGraph; AEvalPre; ACancelAll], true).
Proof.
  intros H1 H2 H3.
  pose proof (by_sweep (fun e => imp (e_gaccept e && e_has_pre e && negb (e_pre_ok e))
      (acts_eqb (fst (run e)) [ABuildGraph; AEvalPre; ACancelAll] && snd (run e))) ltac:(vm_compute; reflexivity) e) as S; cbv beta in S.
  use_imp S; [|now rewrite H1, H2, H3]. apply andb_true_iff in S. destruct S as [S1 S2].
  apply acts_eqb_eq in S1. destruct (run e); simpl in *; congruence.
Qed.

(* C03: a dry run never touches history, socket, probe or a real command *)
Lemma dry_run_nothing e : e_dry e = true ->
  let acts := fst (run e) in
  existsb is_hist acts = false /\ existsb is_exec acts = false /\ existsb is_sock acts = false /\ existsb is_probe acts = false.
Proof.
  intros H.
  pose proof (by_sweep (fun e => imp (e_dry e)
      (negb (existsb is_hist (fst (run e))) && negb (existsb is_exec (fst (run e))) &&
       negb (existsb is_sock (fst (run e))) && negb (existsb is_probe (fst (run e))))) ltac:(vm_compute; reflexivity) e) as S; cbv beta in S.
  use_imp S; [|exact H]. cbv zeta.
  repeat (apply andb_true_iff in S; destruct S as [S ?]).
  repeat split; apply negb_true_iff; assumption.
Qed.

(* C16: a start that finds the DAG running performs nothing after the probe *)
Lemma refused_start_is_silent e : e_gaccept e = true -> (e_has_pre e = true -> e_pre_ok e = true) -> e_dry e = false ->
  e_probe_running e = true \/ e_probe_timeout e = true ->
  let acts := fst (run e) in
  snd (run e) = true /\ existsb is_hist acts = false /\ existsb is_sched acts = false /\ existsb is_sock acts = false
  /\ last acts ABuildGraph = AProbe.
Proof.
  intros H1 H2 H3 H4.
  pose proof (by_sweep (fun e => imp (e_gaccept e && imp (e_has_pre e) (e_pre_ok e) && negb (e_dry e) &&
                                      (e_probe_running e || e_probe_timeout e))
      (snd (run e) && negb (existsb is_hist (fst (run e))) && negb (existsb is_sched (fst (run e))) &&
       negb (existsb is_sock (fst (run e))) && act_eqb (last (fst (run e)) ABuildGraph) AProbe)) ltac:(vm_compute; reflexivity) e) as S; cbv beta in S.
  use_imp S.
  - cbv zeta. repeat (apply andb_true_iff in S; destruct S as [S ?]).
    repeat split; try (apply negb_true_iff; assumption); auto using act_eqb_eq.
  - rewrite H1, H3. simpl. rewrite andb_true_r. apply andb_true_iff. split.
    + unfold imp. destruct (e_has_pre e); simpl; auto.
    + destruct H4 as [-> | ->]; auto using orb_true_r.
Qed.

(* history is touched only after a probe that said "not running" *)
Lemma hist_after_probe e : existsb is_hist (fst (run e)) = true ->
  e_gaccept e = true /\ e_dry e = false /\ e_probe_running e = false /\ e_probe_timeout e = false.
Proof.
  intros H.
  pose proof (by_sweep (fun e => imp (existsb is_hist (fst (run e)))
      (e_gaccept e && negb (e_dry e) && negb (e_probe_running e) && negb (e_probe_timeout e))) ltac:(vm_compute; reflexivity) e) as S; cbv beta in S.
  use_imp S; [|exact H]. repeat (apply andb_true_iff in S; destruct S as [S ?]).
  repeat split; try (apply negb_true_iff; assumption); auto.
Qed.

(* commands run only when every gate was passed *)
Lemma exec_needs_everything e : existsb is_exec (fst (run e)) = true ->
  e_gaccept e = true /\ (e_has_pre e = true -> e_pre_ok e = true) /\ e_dry e = false /\ e_probe_running e = false
  /\ e_probe_timeout e = false /\ e_open_ok e = true /\ e_bind_ok e = true.
Proof.
  intros H.
  pose proof (by_sweep (fun e => imp (existsb is_exec (fst (run e)))
      (e_gaccept e && imp (e_has_pre e) (e_pre_ok e) && negb (e_dry e) && negb (e_probe_running e)
       && negb (e_probe_timeout e) && e_open_ok e && e_bind_ok e)) ltac:(vm_compute; reflexivity) e) as S; cbv beta in S.
  use_imp S; [|exact H]. repeat (apply andb_true_iff in S; destruct S as [S ?]).
  repeat split; try (apply negb_true_iff; assumption); auto.
  intros Hp. eapply imp_elim; eauto.
Qed.

(* C10 (a retry is recorded as a new run): a retry differs from a start in the graph construction only (ABuildGraph from the
   recorded nodes), so its action list is `run e` as well.  `act` has no action that updates an existing history file; the
   history actions of any run are, in this order, a prefix-closed shape around ONE AOpenHist - the file opened by this very
   run (named by its own start time and request id) - never a second open and nothing before the open but the retention
   clean-up. *)
Definition hist_shapes : list (list act) :=
  [ []; [ARemoveOld; AOpenHist]; [ARemoveOld; AOpenHist; AWriteStatus; ACloseHist];
    [ARemoveOld; AOpenHist; AWriteStatus; AWriteFinal; ACloseHist] ].
Lemma hist_actions_shape e : In (filter is_hist (fst (run e))) hist_shapes.
Proof.
  pose proof (by_sweep (fun e => existsb (acts_eqb (filter is_hist (fst (run e)))) hist_shapes) ltac:(vm_compute; reflexivity) e) as S.
  cbv beta in S. apply existsb_exists in S. destruct S as (l & Hin & Heq). apply acts_eqb_eq in Heq. now rewrite Heq.
Qed.
Example retry_records_a_new_run :
  filter is_hist (fst (run {| e_gaccept := true; e_has_pre := false; e_pre_ok := false; e_dry := false; e_probe_timeout := false;
                              e_probe_running := false; e_open_ok := true; e_bind_ok := true |}))
  = [ARemoveOld; AOpenHist; AWriteStatus; AWriteFinal; ACloseHist].
Proof. reflexivity. Qed.
