(* Agent.Run (internal/agent/agent.go:98-210) as the sequence of externally visible actions one
   run of the agent performs, given what its environment answers.  Sequential skeleton; the
   concurrent protocol between several agents is in Sock/ (C16), the step scheduler in Sched/. *)
From Coq Require Import List Bool.
Import ListNotations.

Inductive act :=
| ABuildGraph        (* setup(): NewExecutionGraph / ...ForRetry  (agent.go:99, 418-443) *)
| AEvalPre           (* checkPreconditions: the DAG's own preconditions (:104, 472-483) *)
| ACancelAll         (* scheduler.Cancel(graph) on unmet preconditions (:479) *)
| ADrySchedule       (* dryRun(): Schedule with Dry=true, no history (:109-111, 350-375) *)
| AProbe             (* checkIsAlreadyRunning: GET /status on the DAG's socket (:114, 486-497) *)
| ARemoveOld         (* setupDatabase: retention clean-up (:449) *)
| AOpenHist          (* historyStore.Open (:453) *)
| AWriteStatus       (* the status written before scheduling (:130) *)
| ASockUnlink        (* sock.Server.Serve removes the socket path first (sock/server.go:49) *)
| ASockBind          (* net.Listen("unix", addr) (sock/server.go:50) *)
| ASchedule          (* scheduler.Schedule: steps and handlers (:190) *)
| AWriteFinal        (* final status (:195) *)
| ASockShutdown      (* deferred (:148-152) *)
| ACloseHist.        (* deferred Close with compaction (:124-128) *)

Record env := {
  e_gaccept : bool;      (* the graph is accepted (C14) *)
  e_has_pre : bool;    (* the DAG has preconditions *)
  e_pre_ok : bool;     (* ... and they are met *)
  e_dry : bool;
  e_probe_timeout : bool;  (* the probe ran into sock.ErrTimeout *)
  e_probe_running : bool;  (* somebody answered on the socket with a status other than "not started" *)
  e_open_ok : bool;
  e_bind_ok : bool }.

Definition run (e : env) : list act * bool (* true = Run returned an error before/without scheduling *) :=
  if negb (e_gaccept e) then ([ABuildGraph], true) else
  let pre := if e_has_pre e then [AEvalPre] else [] in
  if e_has_pre e && negb (e_pre_ok e) then (ABuildGraph :: pre ++ [ACancelAll], true) else
  if e_dry e then (ABuildGraph :: pre ++ [ADrySchedule], false) else
  if e_probe_timeout e || e_probe_running e then (ABuildGraph :: pre ++ [AProbe], true) else
  if negb (e_open_ok e) then (ABuildGraph :: pre ++ [AProbe; ARemoveOld; AOpenHist], true) else
  if negb (e_bind_ok e) then
    (ABuildGraph :: pre ++ [AProbe; ARemoveOld; AOpenHist; AWriteStatus; ASockUnlink; ASockBind; ASockShutdown; ACloseHist], true)
  else
    (ABuildGraph :: pre ++ [AProbe; ARemoveOld; AOpenHist; AWriteStatus; ASockUnlink; ASockBind; ASchedule; AWriteFinal;
                            ASockShutdown; ACloseHist], false).

Definition is_hist (a : act) : bool :=
  match a with ARemoveOld | AOpenHist | AWriteStatus | AWriteFinal | ACloseHist => true | _ => false end.
Definition is_exec (a : act) : bool :=     (* step or handler commands can only run inside these *)
  match a with ASchedule => true | _ => false end.
Definition is_sched (a : act) : bool :=
  match a with ASchedule | ADrySchedule => true | _ => false end.
Definition is_sock (a : act) : bool :=
  match a with ASockUnlink | ASockBind | ASockShutdown => true | _ => false end.
Definition is_probe (a : act) : bool := match a with AProbe => true | _ => false end.

(* what the agent-level harness can see of a run *)
Record obs := { o_err : bool; o_hist : bool; o_exec : bool; o_sched : bool; o_sock : bool }.
Definition observe (e : env) : obs :=
  let '(acts, err) := run e in
  {| o_err := err; o_hist := existsb is_hist acts; o_exec := existsb is_exec acts;
     o_sched := existsb is_sched acts; o_sock := existsb is_sock acts |}.

