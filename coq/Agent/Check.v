(* Entry points evaluated on the observations of the in-process agent driver (harness/cmd/agentrun):
   what one real agent.Run did - the ordered log of its probe / history-store calls / executor runs, the
   error flag, whether its socket path was seen, whether history files exist - against `run` of Agent/Run.v
   for the environment of the case.  The graph verdict of the environment is computed by `gaccept` (Graph/Accept.v)
   from the steps of the case, so the C14 admission model and the agent model are checked together. *)
From Coq Require Import List Bool Arith String.
Import ListNotations.
From BD.Graph Require Import Kahn Accept AcceptCheck.
From BD.Agent Require Import Run.

(* one entry of the observed log *)
Inductive ev := EProbe | ERemoveOld | EOpen | EWrite | EClose | EExec.

Definition ev_of_nat (n : nat) : ev :=
  match n with 0 => EProbe | 1 => ERemoveOld | 2 => EOpen | 3 => EWrite | 4 => EClose | _ => EExec end.

Definition is_write (e : ev) : bool := match e with EWrite => true | _ => false end.
Definition is_mid (e : ev) : bool := match e with EWrite | EExec => true | _ => false end.

(* the (EWrite | EExec)* segment produced inside Schedule plus the final status write; returns whether
   the last entry of the segment was a write, and the rest *)
Fixpoint span_mid (l : list ev) (last_write : bool) : bool * list ev :=
  match l with
  | e :: r => if is_mid e then span_mid r (is_write e) else (last_write, l)
  | [] => (last_write, [])
  end.

(* is the log a visible projection of the action list?  Actions without a visible counterpart (graph
   construction, precondition evaluation, Cancel, socket calls, the dry Schedule) consume nothing - in
   particular a dry Schedule allows NO executor entry.  Status writes that the agent's node-status goroutine
   issues after the deferred Close are tolerated at the very end (they fail on the closed writer; C08). *)
Fixpoint accept (acts : list act) (l : list ev) : bool :=
  match acts with
  | [] => forallb is_write l
  | a :: r =>
      match a with
      | AProbe => match l with EProbe :: l' => accept r l' | _ => false end
      | ARemoveOld => match l with ERemoveOld :: l' => accept r l' | _ => false end
      | AOpenHist => match l with EOpen :: l' => accept r l' | _ => false end
      | AWriteStatus => match l with EWrite :: l' => accept r l' | _ => false end
      | ACloseHist => match l with EClose :: l' => accept r l' | _ => false end
      | ASchedule => let '(lw, l') := span_mid l false in lw && accept r l'   (* includes AWriteFinal's write *)
      | _ => accept r l
      end
  end.

Definition has_act (p : act -> bool) (acts : list act) : bool := existsb p acts.
Definition is_bind (a : act) : bool := match a with ASockBind => true | _ => false end.
Definition is_open (a : act) : bool := match a with AOpenHist => true | _ => false end.

(* (steps, has_pre, pre_ok, dry, probe_running, bind_ok, check the socket observation?) ,
   (error returned, log, socket path seen, history files exist) *)
Definition acase : Type :=
  (list gstep * bool * bool * bool * bool * bool * bool) * (bool * list nat * bool * bool).

Definition env_of (c : acase) : env :=
  let '((ss, hp, pok, dry, prun, bok, _), _) := c in
  {| e_gaccept := match gaccept ss with VOk => true | _ => false end;
     e_has_pre := hp; e_pre_ok := pok; e_dry := dry; e_probe_timeout := false; e_probe_running := prun;
     e_open_ok := true; e_bind_ok := bok |}.

(* 0 = agrees; otherwise the sum of 1 (error flag), 2 (log is not a projection of the action list),
   4 (socket seen <> a bind in the list), 8 (history files <> an Open in the list) *)
Definition disagreement (c : acase) : nat :=
  let '((_, _, _, _, _, bok, chk_sock), (oerr, olog, osock, ohist)) := c in
  let '(acts, err) := run (env_of c) in
  (if Bool.eqb err oerr then 0 else 1)
  + (if accept acts (map ev_of_nat olog) then 0 else 2)
  + (if negb chk_sock || Bool.eqb (has_act is_bind acts && bok) osock then 0 else 4)
  + (if Bool.eqb (has_act is_open acts) ohist then 0 else 8).

Fixpoint mism (i : nat) (l : list acase) : list (nat * nat) :=
  match l with
  | [] => []
  | c :: r => let d := disagreement c in (if d =? 0 then [] else [(i, d)]) ++ mism (S i) r
  end.
Definition mismatches (l : list acase) : list (nat * nat) := mism 0 l.

(* self-test of the acceptor on the shapes the driver produces *)
Example accept_normal :
  accept (fst (run {| e_gaccept := true; e_has_pre := false; e_pre_ok := false; e_dry := false; e_probe_timeout := false;
                      e_probe_running := false; e_open_ok := true; e_bind_ok := true |}))
         [EProbe; ERemoveOld; EOpen; EWrite; EExec; EWrite; EWrite; EExec; EWrite; EWrite; EClose] = true.
Proof. reflexivity. Qed.
Example accept_rejects_exec_in_dry :
  accept (fst (run {| e_gaccept := true; e_has_pre := false; e_pre_ok := false; e_dry := true; e_probe_timeout := false;
                      e_probe_running := false; e_open_ok := true; e_bind_ok := true |})) [EExec] = false.
Proof. reflexivity. Qed.
Example accept_rejects_hist_after_refusal :
  accept (fst (run {| e_gaccept := true; e_has_pre := false; e_pre_ok := false; e_dry := false; e_probe_timeout := false;
                      e_probe_running := true; e_open_ok := true; e_bind_ok := true |})) [EProbe; ERemoveOld; EOpen] = false.
Proof. reflexivity. Qed.
