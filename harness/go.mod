module github.com/ErdemOzgen/blackdagger/verifh

go 1.22.5

require github.com/ErdemOzgen/blackdagger v0.0.0

require (
	github.com/docker/distribution v2.8.1+incompatible // indirect
	github.com/docker/docker v20.10.21+incompatible // indirect
	github.com/docker/go-connections v0.4.0 // indirect
	github.com/docker/go-units v0.5.0 // indirect
	github.com/go-resty/resty/v2 v2.7.0 // indirect
	github.com/gogo/protobuf v1.3.2 // indirect
	github.com/imdario/mergo v0.3.16 // indirect
	github.com/itchyny/gojq v0.12.12 // indirect
	github.com/itchyny/timefmt-go v0.1.5 // indirect
	github.com/mattn/go-shellwords v1.0.12 // indirect
	github.com/mitchellh/mapstructure v1.5.0 // indirect
	github.com/opencontainers/go-digest v1.0.0 // indirect
	github.com/opencontainers/image-spec v1.0.2 // indirect
	github.com/pkg/errors v0.9.1 // indirect
	github.com/robfig/cron/v3 v3.0.1 // indirect
	github.com/samber/lo v1.38.1 // indirect
	github.com/samber/slog-multi v1.2.0 // indirect
	github.com/sirupsen/logrus v1.9.3 // indirect
	golang.org/x/crypto v0.26.0 // indirect
	golang.org/x/exp v0.0.0-20240222234643-814bf88cf225 // indirect
	golang.org/x/net v0.28.0 // indirect
	golang.org/x/sys v0.30.0 // indirect
	gopkg.in/yaml.v2 v2.4.0 // indirect
)

replace github.com/ErdemOzgen/blackdagger => /repo
