// Package vh: shared helpers of the verification harness drivers (seeded PRNG, JSONL output).
package vh

import (
	"bufio"
	"encoding/json"
	"os"
	"strconv"
)

// Rng is splitmix64; every random choice of a driver derives from one state seeded by VERIF_SEED.
type Rng struct{ s uint64 }

func NewRng(seed uint64) *Rng { return &Rng{s: seed} }

func SeedFromEnv() uint64 {
	if v := os.Getenv("VERIF_SEED"); v != "" {
		if n, err := strconv.ParseUint(v, 10, 64); err == nil {
			return n
		}
	}
	return 20260926
}

func (r *Rng) Next() uint64 {
	r.s += 0x9E3779B97F4A7C15
	z := r.s
	z = (z ^ (z >> 30)) * 0xBF58476D1CE4E5B9
	z = (z ^ (z >> 27)) * 0x94D049BB133111EB
	return z ^ (z >> 31)
}
func (r *Rng) Below(n int) int          { return int(r.Next() % uint64(n)) }
func (r *Rng) Bool() bool               { return r.Next()&1 == 1 }
func (r *Rng) Chance(num, den int) bool { return r.Below(den) < num }

// Fork derives an independent stream for case k (replayable from (seed,k)).
func (r *Rng) Fork(k uint64) *Rng { return &Rng{s: r.s ^ (k+1)*0xD1B54A32D192ED03} }

// Out writes one JSON value per line.
type Out struct {
	w *bufio.Writer
	f *os.File
	e *json.Encoder
}

func NewOut(path string) (*Out, error) {
	f, err := os.Create(path)
	if err != nil {
		return nil, err
	}
	w := bufio.NewWriterSize(f, 1<<20)
	e := json.NewEncoder(w)
	e.SetEscapeHTML(false)
	return &Out{w: w, f: f, e: e}, nil
}
func (o *Out) Put(v any) {
	if err := o.e.Encode(v); err != nil {
		panic(err)
	}
}
func (o *Out) Close() { o.w.Flush(); o.f.Close() }
