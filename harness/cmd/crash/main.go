// Helper for C07 (crash safety of the history store).  It runs the REAL internal/persistence/jsondb.
//
//	crash run  <datadir> <scenario.json> <phase> [<fsize>]   execute the ops of the given phase ("prior" | "victim" | "after") in order;
//	                                                with <fsize>: RLIMIT_FSIZE is lowered to that many bytes first and SIGXFSZ left at its
//	                                                default, so that the KERNEL kills the process inside the write(2) that would grow a file
//	                                                beyond the limit - a real partial write (short write, then the signal)
//	crash dump <datadir> <scenario.json>            fresh process: directory dump + the three queries for every name (JSON on stdout)
//
// run: the OS thread is locked, so that every store system call is issued by ONE thread in program order; before the first op it
// writes "START\n" and after every returning op "ACK <i> <ok|err>\n" to stdout, unbuffered (one write(2) each).  The python side
// (tools/props/C07.py) runs it under `strace -f -e trace=... -e inject=<syscall>:signal=SIGKILL:when=<k>` for every system call of the
// victim phase seen in an uninterrupted traced run, then calls `dump` in a fresh process.
// Stamps and times are fixed (no dependence on the wall clock except file mtimes, which are not compared).
package main

import (
	"encoding/json"
	"errors"
	"fmt"
	"io"
	"log"
	"os"
	"os/signal"
	"path/filepath"
	"runtime"
	"sort"
	"strconv"
	"strings"
	"syscall"
	"time"

	"github.com/ErdemOzgen/blackdagger/internal/persistence"
	"github.com/ErdemOzgen/blackdagger/internal/persistence/jsondb"
	"github.com/ErdemOzgen/blackdagger/internal/persistence/model"
)

type Op struct {
	T     string `json:"t"` // open write close update rename removeold touchold
	D     string `json:"d,omitempty"`
	D2    string `json:"d2,omitempty"`
	Stamp string `json:"stamp,omitempty"` // yyyymmdd.hh:mm:ss.mmm
	Req   string `json:"req,omitempty"`
	Tag   int    `json:"tag,omitempty"`
	Big   bool   `json:"big,omitempty"`
	Days  int    `json:"days,omitempty"`
	C     bool   `json:"c,omitempty"`
}
type Scenario struct {
	Names  []string `json:"names"`
	Reqs   []string `json:"reqs"`
	Prior  []Op     `json:"prior"`
	Victim []Op     `json:"victim"`
	After  []Op     `json:"after"`
}

func mkStatus(req string, tag int, big bool) *model.Status {
	st := &model.Status{RequestID: req, Name: strconv.Itoa(tag)}
	if big {
		st.Params = strings.Repeat("x", 4200)
	}
	return st
}
func tagOf(st *model.Status) int { t, _ := strconv.Atoi(st.Name); return t }

func prefixOf(d string) string { return strings.TrimSuffix(filepath.Base(d), filepath.Ext(d)) }

// fsizeMode: the run is under a lowered RLIMIT_FSIZE.  The Go runtime does not die of SIGXFSZ (it is a
// notify-only signal for it), so the write(2) that hits the limit is cut short by the kernel, the retry
// fails with EFBIG and the store operation returns an error; the helper then kills itself at once, before
// anything else (no ACK, no deferred cleanup) - the surviving directory is the one of a process that died
// inside that write.
var fsizeMode bool

func run(dir string, sc *Scenario, phase string) {
	runtime.LockOSThread()
	db := jsondb.New(dir, false)
	ops := sc.Victim
	switch phase {
	case "prior":
		ops = sc.Prior
	case "after":
		ops = sc.After
	}
	curReq := ""
	_, _ = os.Stdout.Write([]byte("START\n"))
	for i, o := range ops {
		var err error
		switch o.T {
		case "open":
			ts, perr := time.ParseInLocation("20060102.15:04:05.000", o.Stamp, time.UTC)
			if perr != nil {
				panic(perr)
			}
			err = db.Open(o.D, ts, o.Req)
			curReq = o.Req
		case "write":
			err = db.Write(mkStatus(curReq, o.Tag, o.Big))
		case "close":
			err = db.Close()
		case "update":
			err = db.Update(o.D, o.Req, mkStatus(o.Req, o.Tag, o.Big))
		case "rename":
			err = db.Rename(o.D, o.D2)
		case "removeold":
			if o.Days == 0 {
				err = db.RemoveAll(o.D)
			} else {
				err = db.RemoveOld(o.D, o.Days)
			}
		case "touchold": // age every history file of D by 30 days (environment, not part of the store)
			t := time.Now().AddDate(0, 0, -30)
			ents, _ := filepath.Glob(filepath.Join(dir, "*", "*.dat"))
			for _, f := range ents {
				if strings.HasPrefix(filepath.Base(f), prefixOf(o.D)+".") && (o.Stamp == "" || strings.Contains(f, o.Stamp)) {
					_ = os.Chtimes(f, t, t)
				}
			}
		}
		r := "ok"
		if err != nil {
			if fsizeMode {
				_ = syscall.Kill(syscall.Getpid(), syscall.SIGKILL)
				select {}
			}
			r = "err"
		}
		_, _ = os.Stdout.Write([]byte(fmt.Sprintf("ACK %d %s\n", i, r)))
	}
}

type Ans struct {
	Code int    `json:"c"`
	Req  string `json:"r,omitempty"`
	Tag  int    `json:"t,omitempty"`
}
type Line struct {
	K    string `json:"k"`
	Req  string `json:"r,omitempty"`
	Tag  int    `json:"t,omitempty"`
	Size int    `json:"n"`
}
type FileDump struct {
	Dir   string `json:"dir"`
	Name  string `json:"name"`
	Size  int64  `json:"size"`
	Lines []Line `json:"lines"`
	Tail  Line   `json:"tail"`
}
type PerName struct {
	D      string `json:"d"`
	Latest Ans    `json:"latest"`
	Rec1   []Ans  `json:"rec1"`
	Rec2   []Ans  `json:"rec2"`
	Rec5   []Ans  `json:"rec5"`
	Finds  []Ans  `json:"finds"`
}
type Dump struct {
	Dirs  []string   `json:"dirs"`
	Files []FileDump `json:"files"`
	Per   []PerName  `json:"per"`
}

func parseLines(b []byte) ([]Line, Line) {
	lines := []Line{}
	tail := Line{K: "n"}
	for len(b) > 0 {
		i := strings.IndexByte(string(b), '\n')
		if i < 0 {
			st, err := model.StatusFromJSON(string(b))
			if err == nil {
				tail = Line{K: "f", Req: st.RequestID, Tag: tagOf(st), Size: len(b)}
			} else {
				tail = Line{K: "p", Size: len(b)}
			}
			break
		}
		ln := b[:i]
		st, err := model.StatusFromJSON(string(ln))
		if err == nil && len(ln) > 0 {
			lines = append(lines, Line{K: "r", Req: st.RequestID, Tag: tagOf(st), Size: len(ln)})
		} else {
			lines = append(lines, Line{K: "j", Size: len(ln) + 1})
		}
		b = b[i+1:]
	}
	return lines, tail
}

func ansOf(st *model.Status, err error) Ans {
	if err == nil && st != nil {
		return Ans{Code: 0, Req: st.RequestID, Tag: tagOf(st)}
	}
	if errors.Is(err, persistence.ErrNoStatusDataToday) || errors.Is(err, persistence.ErrNoStatusData) {
		return Ans{Code: 1}
	}
	return Ans{Code: 2}
}
func recOf(l []*model.StatusFile) []Ans {
	r := []Ans{}
	for _, sf := range l {
		r = append(r, Ans{Code: 0, Req: sf.Status.RequestID, Tag: tagOf(sf.Status)})
	}
	return r
}

func dump(dir string, sc *Scenario) {
	d := Dump{Dirs: []string{}, Files: []FileDump{}}
	ents, _ := os.ReadDir(dir)
	for _, e := range ents {
		if !e.IsDir() {
			continue
		}
		d.Dirs = append(d.Dirs, e.Name())
		fe, _ := os.ReadDir(filepath.Join(dir, e.Name()))
		for _, f := range fe {
			p := filepath.Join(dir, e.Name(), f.Name())
			b, err := os.ReadFile(p)
			if err != nil {
				continue
			}
			ls, tl := parseLines(b)
			d.Files = append(d.Files, FileDump{Dir: e.Name(), Name: f.Name(), Size: int64(len(b)), Lines: ls, Tail: tl})
		}
	}
	sort.Strings(d.Dirs)
	db := jsondb.New(dir, false)
	for _, nm := range sc.Names {
		pn := PerName{D: nm}
		pn.Latest = ansOf(db.ReadStatusToday(nm))
		pn.Rec1 = recOf(db.ReadStatusRecent(nm, 1))
		pn.Rec2 = recOf(db.ReadStatusRecent(nm, 2))
		pn.Rec5 = recOf(db.ReadStatusRecent(nm, 5))
		pn.Finds = []Ans{}
		for _, rq := range sc.Reqs {
			sf, err := db.FindByRequestID(nm, rq)
			switch {
			case err == nil:
				pn.Finds = append(pn.Finds, Ans{Code: 0, Req: sf.Status.RequestID, Tag: tagOf(sf.Status)})
			case errors.Is(err, persistence.ErrRequestIDNotFound) || strings.Contains(err.Error(), "request ID not found"):
				pn.Finds = append(pn.Finds, Ans{Code: 1})
			default:
				pn.Finds = append(pn.Finds, Ans{Code: 2})
			}
		}
		d.Per = append(d.Per, pn)
	}
	b, _ := json.Marshal(d)
	_, _ = os.Stdout.Write(append(b, '\n'))
}

func main() {
	log.SetOutput(io.Discard)
	mode, dir := os.Args[1], os.Args[2]
	var sc Scenario
	b, err := os.ReadFile(os.Args[3])
	if err != nil {
		panic(err)
	}
	if err := json.Unmarshal(b, &sc); err != nil {
		panic(err)
	}
	switch mode {
	case "run":
		if len(os.Args) > 5 {
			k, err := strconv.ParseUint(os.Args[5], 10, 64)
			if err != nil {
				panic(err)
			}
			signal.Reset(syscall.SIGXFSZ)
			fsizeMode = true
			if err := syscall.Setrlimit(syscall.RLIMIT_FSIZE, &syscall.Rlimit{Cur: k, Max: k}); err != nil {
				panic(err)
			}
		}
		run(dir, &sc, os.Args[4])
	case "dump":
		dump(dir, &sc)
	}
}
