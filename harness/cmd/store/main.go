// Driver for C18: sequences of create / save / rename / delete / list / get / suspend operations through the
// real client.New(...) / DAGStore over a scratch directory, interleaved with runs recorded through the real
// jsondb (Open / Write / Close with explicit start times).  After every operation the definition files,
// the history files, the suspend flags and the history query answers are dumped.
//
//	store <out.jsonl> <tier>                     generated sequences (tier = quick | thorough)
//	store <out.jsonl> replay <in.jsonl>          re-run given sequences against the current tree
//	store crash-setup <dir> <old-text-id>        prepare <dir>/dags/victim.yaml (+ a neighbour) for the save-crash runs
//	store crash-helper <dir> <new-text-id>       ONE UpdateSpec("victim") on the locked OS thread (run under strace)
//	store crash-list <dir>                       what the real DAGStore.List shows in <dir>/dags (JSON on stdout)
//	store texts <out.jsonl>                      only the text pool with the loader verdicts
package main

import (
	"bufio"
	"crypto/md5"
	"crypto/sha256"
	"encoding/hex"
	"encoding/json"
	"errors"
	"fmt"
	"io"
	"log"
	"net/http/httptest"
	"os"
	"path/filepath"
	"regexp"
	"runtime"
	"sort"
	"strings"
	"syscall"
	"time"

	"github.com/go-openapi/loads"
	oaruntime "github.com/go-openapi/runtime"
	"github.com/go-openapi/runtime/middleware"

	"github.com/ErdemOzgen/blackdagger/internal/client"
	fdag "github.com/ErdemOzgen/blackdagger/internal/frontend/dag"
	"github.com/ErdemOzgen/blackdagger/internal/frontend/gen/restapi"
	"github.com/ErdemOzgen/blackdagger/internal/frontend/gen/restapi/operations"
	"github.com/ErdemOzgen/blackdagger/internal/frontend/gen/restapi/operations/dags"
	"github.com/ErdemOzgen/blackdagger/internal/dag"
	"github.com/ErdemOzgen/blackdagger/internal/dag/scheduler"
	"github.com/ErdemOzgen/blackdagger/internal/logger"
	"github.com/ErdemOzgen/blackdagger/internal/persistence"
	dsclient "github.com/ErdemOzgen/blackdagger/internal/persistence/client"
	"github.com/ErdemOzgen/blackdagger/internal/persistence/jsondb"
	"github.com/ErdemOzgen/blackdagger/internal/persistence/model"
	"github.com/ErdemOzgen/blackdagger/verifh/vh"
)

// ---------------------------------------------------------------------------------------------
// text pool
// ---------------------------------------------------------------------------------------------

type Text struct {
	ID    string `json:"id"`
	Kind  string `json:"kind"`
	Len   int    `json:"len"`
	Sha   string `json:"sha"`
	Valid bool   `json:"valid"` // dag.LoadYAML accepts (what UpdateSpec itself asks - NOT used as the oracle)
	Load  bool   `json:"load"`  // INDEPENDENT validity oracle: dag.LoadWithoutEval of a file with these bytes succeeds
	Meta  bool   `json:"meta"`  // dag.LoadMetadata of a file with this text succeeds
	Graph bool   `json:"graph"` // scheduler.NewExecutionGraph accepts the loaded steps
	data  []byte
}

// the template text of client.CreateDAG (client.go:44-48); the dump shows whether it still is what Create writes
const template = "steps:\n  - name: step1\n    command: echo hello\n"

func bigText() []byte {
	var b strings.Builder
	b.WriteString("steps:\n  - name: big\n    command: echo big\n")
	line := "# " + strings.Repeat("x", 61) + "\n"
	for b.Len() < 1<<20 {
		b.WriteString(line)
	}
	return []byte(b.String())
}

func texts0() []*Text {
	return []*Text{
		{ID: "T0", Kind: "template", data: []byte(template)},
		{ID: "T1", Kind: "valid", data: []byte("steps:\n  - name: s1\n    command: echo one\n  - name: s2\n    command: echo two\n    depends:\n      - s1\n")},
		{ID: "T2", Kind: "valid", data: []byte("description: second\nsteps:\n  - name: only\n    command: \"true\"\n")},
		{ID: "T3", Kind: "invalid-yaml", data: []byte("steps:\n  - name: [unclosed\n   command: : :\n")},
		{ID: "T4", Kind: "invalid-dag", data: []byte("steps:\n  - command: echo nameless\n")},
		{ID: "T5", Kind: "empty", data: []byte("")},
		{ID: "T6", Kind: "huge", data: bigText()},
		{ID: "T7", Kind: "cyclic", data: []byte("steps:\n  - name: p\n    command: echo p\n    depends:\n      - q\n  - name: q\n    command: echo q\n    depends:\n      - p\n")},
		{ID: "T8", Kind: "invalid-dag", data: []byte("steps: 17\n")},
		// headline fine, STEPS invalid (only a loader that builds the steps notices)
		{ID: "T9", Kind: "invalid-step", data: []byte("description: fine\nsteps:\n  - name: s1\n")},
		{ID: "T10", Kind: "invalid-step", data: []byte("description: fine\nsteps:\n  - name: s1\n    command: echo x\n    executor: 17\n")},
		// valid, with a `name:` headline that differs from the file name: equal to the id of another DAG (b) / to none
		{ID: "T12", Kind: "valid-named", data: []byte("name: b\nsteps:\n  - name: n1\n    command: echo named-b\n")},
		{ID: "T13", Kind: "valid-named", data: []byte("name: ghost\nsteps:\n  - name: n1\n    command: echo named-ghost\n")},
		{ID: "T11", Kind: "invalid-step", data: []byte("description: fine\nsteps:\n  - name: s1\n    call:\n      function: nope\n      args:\n        a: 1\n")},
	}
}

func texts(scratch string) []*Text {
	ts := texts0()
	dir := filepath.Join(scratch, "oracle")
	_ = os.MkdirAll(dir, 0o755)
	for _, t := range ts {
		h := sha256.Sum256(t.data)
		t.Sha = hex.EncodeToString(h[:])
		t.Len = len(t.data)
		_, err := dag.LoadYAML(t.data)
		t.Valid = err == nil
		f := filepath.Join(dir, t.ID+".yaml")
		_ = os.WriteFile(f, t.data, 0o644)
		d, err := dag.LoadWithoutEval(f)
		t.Load = err == nil
		if err == nil {
			_, gerr := scheduler.NewExecutionGraph(logger.Default, d.Steps...)
			t.Graph = gerr == nil
		}
		_, err = dag.LoadMetadata(f)
		t.Meta = err == nil
	}
	_ = os.RemoveAll(dir)
	return ts
}

// ---------------------------------------------------------------------------------------------
// cases
// ---------------------------------------------------------------------------------------------

type NodeSt struct {
	N string `json:"n"`
	S int    `json:"s"`
}

type Line struct {
	R     string   `json:"r"`
	S     int      `json:"s"`
	Nodes []NodeSt `json:"nodes"`
}

type RunDump struct {
	File  string `json:"file"`
	Stamp int64  `json:"stamp"` // seconds after the base instant, -1 if the file name has no stamp
	Sha   string `json:"sha"`
	Lines []Line `json:"lines"`
}

type HistDump struct {
	Dir  string    `json:"dir"`
	Loc  string    `json:"loc"` // the location whose md5 names the directory ("?" if none of the known ones)
	Runs []RunDump `json:"runs"`
}

type Recent struct {
	Name string   `json:"name"`
	Loc  string   `json:"loc"`
	Reqs []string `json:"reqs"` // request ids of ReadStatusRecent(loc, 100), latest first
}

type Dump struct {
	Defs   [][2]string `json:"defs"`  // (file name in the DAGs directory, text id)
	Hist   []HistDump  `json:"hist"`  // every directory of the data directory
	Flags  []string    `json:"flags"` // file names of the suspend-flag directory
	Recent []Recent    `json:"recent"`
}

type Op struct {
	Op    string `json:"op"` // create createraw save rename srename delete list get suspend run; through the API handler: adelete arename asave adetails
	Code  int    `json:"code,omitempty"` // a-ops: the HTTP status of the real handler
	Name  string `json:"name,omitempty"`
	New   string `json:"new,omitempty"`
	Text  string `json:"text,omitempty"`
	Loc   string `json:"loc,omitempty"` // delete: the location handed to DeleteDAG; run: the recorded DAG's location
	On    bool   `json:"on,omitempty"`
	Stamp int64  `json:"stamp,omitempty"`
	Reqid string `json:"reqid,omitempty"`
	Sts   []Line `json:"sts,omitempty"`
	// observed
	Res  string   `json:"res"`
	Err  string   `json:"err,omitempty"`
	Out  []string `json:"out,omitempty"` // list: names; get: text id
	Errs int      `json:"errs,omitempty"`
	// save: after an accepted save the stored DAG must still load through DAGStore.GetDetails (independent of UpdateSpec's own validation)
	Loads   *bool  `json:"loads,omitempty"`
	LoadErr string `json:"load_err,omitempty"`
	Dump    *Dump  `json:"dump,omitempty"`
}

type Case struct {
	K      int    `json:"k"`
	Stream string `json:"stream"`
	Dir    string `json:"dir"` // the DAGs directory of the case (absolute; enters the model's locations)
	Ops    []Op   `json:"ops"`
	Init   *Dump  `json:"init,omitempty"`
	Fatal  string `json:"fatal,omitempty"`
}

var base = time.Date(2024, 1, 1, 0, 0, 0, 0, time.UTC)

// "a-n": the name of another DAG ("a") plus "-suffix" - the history directories are <name>-<md5(location)>
var names = []string{"a", "ab", "a b", "a.b", "b", "a.yaml", "a.yml", "abc", "a.b.yaml", "c d.e", "A", "Ab", "a-n"}

// the names of the every-ordered-pair rename stream
var renameNames = []string{"a", "A", "ab", "Ab", "a b", "b", "a.b", "a-n"}

// names used by the directed sequences only
var allNames = append(append([]string{}, names...), "fresh", "zz")

type env struct {
	root    string
	dags    string
	data    string
	flags   string
	ds      persistence.DataStores
	cli     client.Client
	pool    []*Text
	bySha   map[string]string
	locs    map[string]string // md5 hex of location -> location
	stampOf map[string]int64
	api     *operations.BlackdaggerAPI
}

var apiSpec *loads.Document

func httpCode(r middleware.Responder) int {
	rec := httptest.NewRecorder()
	r.WriteResponse(rec, oaruntime.JSONProducer())
	return rec.Code
}

func newEnv(root string, pool []*Text) *env {
	e := &env{root: root, dags: filepath.Join(root, "dags"), data: filepath.Join(root, "data"),
		flags: filepath.Join(root, "suspend"), pool: pool, bySha: map[string]string{}, locs: map[string]string{}}
	_ = os.MkdirAll(e.data, 0o755)
	for _, t := range pool {
		e.bySha[t.Sha] = t.ID
	}
	e.ds = dsclient.NewDataStores(e.dags, e.data, e.flags, dsclient.DataStoreOptions{LatestStatusToday: false})
	e.cli = client.New(e.ds, "/nonexistent/blackdagger", root, logger.Default)
	// the real API handler over the same client (delete / rename / save / details through it)
	if apiSpec == nil {
		spec, err := loads.Analyzed(restapi.SwaggerJSON, "")
		if err != nil {
			panic(err)
		}
		apiSpec = spec
	}
	e.api = operations.NewBlackdaggerAPI(apiSpec)
	fdag.NewHandler(&fdag.NewHandlerArgs{Client: e.cli, LogEncodingCharset: "utf-8"}, nil, "/api/v1").Configure(e.api)
	return e
}

func (e *env) text(id string) []byte {
	for _, t := range e.pool {
		if t.ID == id {
			return t.data
		}
	}
	return []byte(id)
}

func (e *env) textID(b []byte) string {
	h := sha256.Sum256(b)
	s := hex.EncodeToString(h[:])
	if id, ok := e.bySha[s]; ok {
		return id
	}
	return fmt.Sprintf("?%s:%d", s[:8], len(b))
}

// the location the loader gives a DAG addressed by name: craftFilePath(fileLocation(name)) - computed here
// independently of the code under test, only to know where to record runs and which directory to expect
func (e *env) loc(name string) string {
	p := filepath.Join(e.dags, name)
	switch filepath.Ext(p) {
	case "":
		p += ".yaml"
	case ".yml":
		p = strings.TrimSuffix(p, ".yml") + ".yaml"
	}
	if !strings.HasSuffix(p, ".yaml") && !strings.HasSuffix(p, ".yml") {
		p += ".yaml"
	}
	return p
}

func (e *env) knownLoc(l string) {
	h := md5.Sum([]byte(l))
	e.locs[hex.EncodeToString(h[:])] = l
}

var stampRe = regexp.MustCompile(`\.(\d{8})\.(\d{2}):(\d{2}):(\d{2})\.(\d{3})\.`)

func parseStamp(file string) int64 {
	m := stampRe.FindStringSubmatch(file)
	if m == nil {
		return -1
	}
	t, err := time.Parse("20060102 15:04:05.000", m[1]+" "+m[2]+":"+m[3]+":"+m[4]+"."+m[5])
	if err != nil {
		return -1
	}
	return int64(t.Sub(base) / time.Second)
}

func parseLines(b []byte) []Line {
	var out []Line
	for _, l := range strings.Split(string(b), "\n") {
		if l == "" {
			continue
		}
		st, err := model.StatusFromJSON(l)
		if err != nil {
			out = append(out, Line{R: "?garbage", S: -1})
			continue
		}
		ln := Line{R: st.RequestID, S: int(st.Status), Nodes: []NodeSt{}}
		for _, n := range st.Nodes {
			ln.Nodes = append(ln.Nodes, NodeSt{N: n.Step.Name, S: int(n.Status)})
		}
		out = append(out, ln)
	}
	return out
}

func (e *env) dump() *Dump {
	d := &Dump{Defs: [][2]string{}, Hist: []HistDump{}, Flags: []string{}, Recent: []Recent{}}
	if fis, err := os.ReadDir(e.dags); err == nil {
		for _, fi := range fis {
			b, err := os.ReadFile(filepath.Join(e.dags, fi.Name()))
			if err != nil {
				d.Defs = append(d.Defs, [2]string{fi.Name(), "?unreadable"})
				continue
			}
			d.Defs = append(d.Defs, [2]string{fi.Name(), e.textID(b)})
		}
	}
	if dirs, err := os.ReadDir(e.data); err == nil {
		for _, di := range dirs {
			hd := HistDump{Dir: di.Name(), Loc: "?", Runs: []RunDump{}}
			if i := strings.LastIndex(di.Name(), "-"); i >= 0 {
				if l, ok := e.locs[di.Name()[i+1:]]; ok {
					hd.Loc = l
				}
			}
			fis, _ := os.ReadDir(filepath.Join(e.data, di.Name()))
			for _, fi := range fis {
				b, _ := os.ReadFile(filepath.Join(e.data, di.Name(), fi.Name()))
				h := sha256.Sum256(b)
				hd.Runs = append(hd.Runs, RunDump{File: fi.Name(), Stamp: parseStamp(fi.Name()),
					Sha: hex.EncodeToString(h[:8]), Lines: parseLines(b)})
			}
			if len(hd.Runs) > 0 { // an emptied directory is not an observable of the history
				d.Hist = append(d.Hist, hd)
			}
		}
	}
	if fis, err := os.ReadDir(e.flags); err == nil {
		for _, fi := range fis {
			d.Flags = append(d.Flags, fi.Name())
		}
	}
	// the query answers, through a fresh store (its own cache), for every name of the pool
	fresh := jsondb.New(e.data, false)
	seen := map[string]bool{}
	for _, n := range allNames {
		l := e.loc(n)
		if seen[l] {
			continue
		}
		seen[l] = true
		r := Recent{Name: n, Loc: l, Reqs: []string{}}
		for _, sf := range fresh.ReadStatusRecent(l, 100) {
			r.Reqs = append(r.Reqs, sf.Status.RequestID)
		}
		d.Recent = append(d.Recent, r)
	}
	return d
}

func classify(err error) string {
	if err == nil {
		return "ok"
	}
	s := err.Error()
	switch {
	case strings.Contains(s, "already exists"):
		return "exists"
	case errors.Is(err, os.ErrNotExist), strings.Contains(s, "does not exist"), strings.Contains(s, "not found"),
		strings.Contains(s, "no such file"):
		return "notexist"
	}
	return "invalid"
}

func mkStatus(name string, ln Line) *model.Status {
	st := &model.Status{RequestID: ln.R, Name: name, Status: scheduler.Status(ln.S),
		StatusText: scheduler.Status(ln.S).String(), PID: model.PID(4242), StartedAt: "2024-01-01 00:00:00",
		FinishedAt: "-", Log: "/nonexistent/log", Params: "p1 p2"}
	for _, n := range ln.Nodes {
		st.Nodes = append(st.Nodes, &model.Node{Step: dag.Step{Name: n.N, Command: "true"}, StartedAt: "-", FinishedAt: "-",
			Status: scheduler.NodeStatus(n.S), StatusText: scheduler.NodeStatus(n.S).String()})
	}
	return st
}

func (e *env) apply(op *Op) {
	var err error
	switch op.Op {
	case "create":
		_, err = e.cli.CreateDAG(op.Name)
	case "createraw":
		_, err = e.ds.DAGStore().Create(op.Name, e.text(op.Text))
	case "save":
		err = e.cli.UpdateDAG(op.Name, string(e.text(op.Text)))
		if err == nil {
			_, lerr := e.ds.DAGStore().GetDetails(op.Name)
			ok := lerr == nil
			op.Loads = &ok
			if lerr != nil {
				op.LoadErr = lerr.Error()
			}
		}
	case "rename":
		err = e.cli.Rename(op.Name, op.New)
	case "srename":
		err = e.ds.DAGStore().Rename(op.Name, op.New)
	case "delete":
		// what the handler's deleteDAG passes: the location of the loaded DAG
		op.Loc = e.loc(op.Name)
		err = e.cli.DeleteDAG(op.Name, op.Loc)
	case "adelete":
		op.Loc = e.loc(op.Name)
		op.Code = httpCode(e.api.DagsDeleteDagHandler.Handle(dags.DeleteDagParams{DagID: op.Name}))
	case "arename":
		act := "rename"
		op.Code = httpCode(e.api.DagsPostDagActionHandler.Handle(dags.PostDagActionParams{DagID: op.Name,
			Body: dags.PostDagActionBody{Action: &act, Value: op.New}}))
	case "asave":
		act := "save"
		op.Code = httpCode(e.api.DagsPostDagActionHandler.Handle(dags.PostDagActionParams{DagID: op.Name,
			Body: dags.PostDagActionBody{Action: &act, Value: string(e.text(op.Text))}}))
		if op.Code == 200 {
			_, lerr := e.ds.DAGStore().GetDetails(op.Name)
			ok := lerr == nil
			op.Loads = &ok
			if lerr != nil {
				op.LoadErr = lerr.Error()
			}
		}
	case "adetails":
		op.Code = httpCode(e.api.DagsGetDagDetailsHandler.Handle(dags.GetDagDetailsParams{DagID: op.Name}))
	case "list":
		var ds []*dag.DAG
		var errs []string
		ds, errs, err = e.ds.DAGStore().List()
		op.Out = []string{}
		for _, d := range ds {
			op.Out = append(op.Out, filepath.Base(d.Location))
		}
		sort.Strings(op.Out)
		op.Errs = len(errs)
	case "get":
		var s string
		s, err = e.cli.GetDAGSpec(op.Name)
		if err == nil {
			op.Out = []string{e.textID([]byte(s))}
		}
	case "suspend":
		err = e.cli.ToggleSuspend(op.Name, op.On)
	case "run":
		// a run recorded the way an agent process does: its own store instance, Open / Write... / Close
		db := jsondb.New(e.data, false)
		l := e.loc(op.Name)
		op.Loc = l
		err = db.Open(l, base.Add(time.Duration(op.Stamp)*time.Second), op.Reqid)
		if err == nil {
			for _, ln := range op.Sts {
				if werr := db.Write(mkStatus(op.Name, ln)); werr != nil {
					err = werr
				}
			}
			if cerr := db.Close(); cerr != nil && err == nil {
				err = cerr
			}
		}
	default:
		err = fmt.Errorf("unknown op %q", op.Op)
	}
	op.Res = classify(err)
	if op.Code != 0 {
		op.Res = fmt.Sprint(op.Code)
		if op.Code == 200 {
			op.Res = "ok"
		}
	}
	if err != nil {
		op.Err = err.Error()
		if len(op.Err) > 300 {
			op.Err = op.Err[:300]
		}
	}
	op.Dump = e.dump()
}

func runCase(root string, pool []*Text, c *Case) {
	_ = os.RemoveAll(root)
	e := newEnv(root, pool)
	defer os.RemoveAll(root)
	c.Dir = e.dags
	for _, n := range allNames {
		e.knownLoc(e.loc(n))
	}
	c.Init = e.dump()
	for i := range c.Ops {
		e.apply(&c.Ops[i])
	}
}

// ---------------------------------------------------------------------------------------------
// generators
// ---------------------------------------------------------------------------------------------

type gen struct {
	r     *vh.Rng
	stamp map[int64]bool
	nreq  int
}

func (g *gen) pick(xs []string) string { return xs[g.r.Below(len(xs))] }

func (g *gen) name(small bool) string {
	if small {
		return g.pick(names[:5])
	}
	return g.pick(names)
}

func (g *gen) textID() string {
	// weights: valid ones more often; the 1 MiB text rarely (it is heavy)
	k := g.r.Below(30)
	switch {
	case k < 5:
		return "T1"
	case k < 9:
		return "T2"
	case k < 11:
		return "T0"
	case k < 14:
		return "T3"
	case k < 17:
		return "T4"
	case k < 19:
		return "T5"
	case k < 20:
		return "T6"
	case k < 22:
		return "T7"
	case k < 23:
		return "T8"
	}
	return []string{"T9", "T10", "T11", "T12", "T13", "T12"}[g.r.Below(6)]
}

func (g *gen) freshStamp() int64 {
	for {
		s := int64(g.r.Below(400 * 86400))
		if !g.stamp[s] {
			g.stamp[s] = true
			return s
		}
	}
}

func (g *gen) runOp(name string) Op {
	g.nreq++
	req := fmt.Sprintf("req%02d-%08x", g.nreq, g.r.Below(1<<30))
	nl := 1 + g.r.Below(3)
	nodes := []string{"s1", "s2", "s3"}[:1+g.r.Below(3)]
	var sts []Line
	for i := 0; i < nl; i++ {
		ln := Line{R: req, S: 1, Nodes: []NodeSt{}}
		if i == nl-1 {
			ln.S = []int{1, 2, 3, 4, 4, 2}[g.r.Below(6)]
		}
		for _, n := range nodes {
			ln.Nodes = append(ln.Nodes, NodeSt{N: n, S: g.r.Below(6)})
		}
		sts = append(sts, ln)
	}
	return Op{Op: "run", Name: name, Stamp: g.freshStamp(), Reqid: req, Sts: sts}
}

func (g *gen) op(small bool) Op {
	k := g.r.Below(100)
	switch {
	case k < 14:
		return Op{Op: "create", Name: g.name(small)}
	case k < 20:
		return Op{Op: "createraw", Name: g.name(small), Text: g.textID()}
	case k < 38:
		return Op{Op: "save", Name: g.name(small), Text: g.textID()}
	case k < 54:
		return Op{Op: "rename", Name: g.name(small), New: g.name(small)}
	case k < 58:
		return Op{Op: "srename", Name: g.name(small), New: g.name(small)}
	case k < 64:
		return Op{Op: "delete", Name: g.name(small)}
	case k < 70:
		return []Op{{Op: "adelete", Name: g.name(small)}, {Op: "arename", Name: g.name(small), New: g.name(small)},
			{Op: "asave", Name: g.name(small), Text: g.textID()}, {Op: "adetails", Name: g.name(small)}}[g.r.Below(4)]
	case k < 72:
		return Op{Op: "list"}
	case k < 76:
		return Op{Op: "get", Name: g.name(small)}
	case k < 80:
		return Op{Op: "suspend", Name: g.name(small), On: g.r.Bool()}
	}
	return g.runOp(g.name(small))
}

func generated(tier string, rng *vh.Rng) []*Case {
	var cs []*Case
	k := 0
	add := func(stream string, ops []Op) {
		cs = append(cs, &Case{K: k, Stream: stream, Ops: ops})
		k++
	}
	g0 := &gen{r: rng.Fork(0), stamp: map[int64]bool{}}
	// directed: every (op kind x existing / non-existing target) on each name class, with history next to it
	for _, n := range names {
		for _, m := range []string{"a", "ab", "a.b", "a b"} {
			if m == n {
				continue
			}
			g0.stamp = map[int64]bool{}
			ops := []Op{{Op: "create", Name: n}, g0.runOp(n), {Op: "create", Name: m}, g0.runOp(m), g0.runOp(n),
				{Op: "create", Name: n}, {Op: "save", Name: n, Text: "T1"}, {Op: "save", Name: n, Text: "T3"},
				{Op: "save", Name: n, Text: "T4"}, {Op: "save", Name: n, Text: "T9"}, {Op: "save", Name: n, Text: "T10"},
				{Op: "save", Name: n, Text: "T11"}, {Op: "get", Name: n}, {Op: "save", Name: n, Text: "T5"}, {Op: "save", Name: "zz", Text: "T1"},
				{Op: "suspend", Name: n, On: true}, {Op: "suspend", Name: m, On: true},
				{Op: "rename", Name: n, New: "fresh"}, {Op: "list"}, {Op: "rename", Name: "fresh", New: m}, {Op: "list"},
				{Op: "get", Name: m}, {Op: "delete", Name: m}, {Op: "delete", Name: m}, {Op: "list"}}
			add("directed", ops)
		}
	}
	// delete next to a prefix-sharing neighbour, every ordered pair of names
	for _, n := range names {
		for _, m := range names {
			if m == n {
				continue
			}
			g0.stamp = map[int64]bool{}
			add("delete-pair", []Op{{Op: "create", Name: n}, {Op: "create", Name: m}, g0.runOp(n), g0.runOp(m), g0.runOp(n),
				{Op: "suspend", Name: m, On: true}, {Op: "delete", Name: n}, {Op: "get", Name: m}, {Op: "delete", Name: m}})
		}
	}
	// rename onto a taken name, every ordered pair of names (incl. names that differ in letter case only)
	for _, n := range renameNames {
		for _, m := range renameNames {
			if m == n {
				continue
			}
			g0.stamp = map[int64]bool{}
			add("rename-taken", []Op{{Op: "create", Name: n}, {Op: "create", Name: m}, {Op: "save", Name: n, Text: "T1"}, g0.runOp(n), g0.runOp(m),
				{Op: "rename", Name: n, New: m}, {Op: "srename", Name: n, New: m}, {Op: "arename", Name: n, New: m}, {Op: "get", Name: m}})
		}
	}
	// through the API handler, with definitions whose `name:` headline is another DAG's id (T12: b) or nobody's (T13)
	for _, t := range []string{"T12", "T13", "T1"} {
		for _, n := range []string{"ab", "a b", "A", "a.b"} {
			g0.stamp = map[int64]bool{}
			add("api-named", []Op{{Op: "create", Name: n}, {Op: "create", Name: "b"}, {Op: "asave", Name: n, Text: t}, g0.runOp(n), g0.runOp("b"),
				{Op: "suspend", Name: "b", On: true}, {Op: "adetails", Name: n}, {Op: "arename", Name: n, New: "fresh"}, {Op: "adetails", Name: "fresh"},
				{Op: "asave", Name: "fresh", Text: t}, {Op: "arename", Name: "fresh", New: n}, {Op: "adelete", Name: n}, {Op: "list"},
				{Op: "adelete", Name: n}, {Op: "adelete", Name: "b"}})
			add("api-named", []Op{{Op: "create", Name: n}, {Op: "asave", Name: n, Text: t}, g0.runOp(n), {Op: "adelete", Name: n}, {Op: "list"}})
		}
	}
	// the 1 MiB text
	add("huge", []Op{{Op: "create", Name: "a"}, {Op: "save", Name: "a", Text: "T6"}, {Op: "get", Name: "a"},
		{Op: "save", Name: "a", Text: "T3"}, {Op: "rename", Name: "a", New: "b"}, {Op: "get", Name: "b"},
		{Op: "save", Name: "b", Text: "T2"}, {Op: "delete", Name: "b"}})
	nrand := 260
	if tier == "thorough" {
		nrand = 6000
	}
	for i := 0; i < nrand; i++ {
		g := &gen{r: rng.Fork(uint64(1000 + i)), stamp: map[int64]bool{}}
		small := g.r.Chance(2, 3)
		n := 4 + g.r.Below(22)
		var ops []Op
		for j := 0; j < n; j++ {
			ops = append(ops, g.op(small))
		}
		stream := "random"
		if small {
			stream = "random-small"
		}
		add(stream, ops)
	}
	return cs
}

// ---------------------------------------------------------------------------------------------
// save-crash helper
// ---------------------------------------------------------------------------------------------

func crashSetup(dir, oldID string) {
	pool := texts(dir)
	e := newEnv(dir, pool)
	_ = os.MkdirAll(e.dags, 0o755)
	if err := os.WriteFile(filepath.Join(e.dags, "victim.yaml"), e.text(oldID), 0o644); err != nil {
		panic(err)
	}
	if err := os.WriteFile(filepath.Join(e.dags, "victim2.yaml"), e.text("T2"), 0o644); err != nil {
		panic(err)
	}
}

func init() {
	// the save-crash helper must issue its system calls from the main OS thread in program order
	// (strace counts `when=k` per thread)
	if len(os.Args) > 1 && os.Args[1] == "crash-helper" {
		runtime.LockOSThread()
	}
}

func crashHelper(dir, newID string) {
	log.SetOutput(io.Discard)
	var data []byte
	for _, t := range texts0() {
		if t.ID == newID {
			data = t.data
		}
	}
	ds := dsclient.NewDataStores(filepath.Join(dir, "dags"), filepath.Join(dir, "data"), filepath.Join(dir, "suspend"),
		dsclient.DataStoreOptions{})
	cli := client.New(ds, "/nonexistent/blackdagger", dir, logger.Default)
	_ = ds.DAGStore() // construct the store (starts its cache goroutine) before the marker
	// marker: the python side counts system calls of this thread after this one
	_, _ = syscall.Open(filepath.Join(dir, "MARK-begin"), syscall.O_RDONLY, 0)
	err := cli.UpdateDAG("victim", string(data))
	_, _ = syscall.Open(filepath.Join(dir, "MARK-end"), syscall.O_RDONLY, 0)
	if err != nil {
		fmt.Println("ERR", classify(err))
		os.Exit(3) // the verdict is also the exit status: under an injected write fault nothing can be printed
	}
	fmt.Println("OK")
}

// ---------------------------------------------------------------------------------------------

func main() {
	log.SetOutput(io.Discard) // jsondb logs parse failures through the standard logger
	if len(os.Args) >= 4 && os.Args[1] == "crash-setup" {
		crashSetup(os.Args[2], os.Args[3])
		return
	}
	if len(os.Args) >= 3 && os.Args[1] == "crash-list" {
		// what the real DAGStore lists in <dir>/dags (a stray temporary file of a killed save must not show up)
		ds := dsclient.NewDataStores(filepath.Join(os.Args[2], "dags"), filepath.Join(os.Args[2], "data"),
			filepath.Join(os.Args[2], "suspend"), dsclient.DataStoreOptions{})
		ls, errs, err := ds.DAGStore().List()
		out := []string{}
		for _, d := range ls {
			out = append(out, filepath.Base(d.Location))
		}
		sort.Strings(out)
		all := []string{}
		if fis, e := os.ReadDir(filepath.Join(os.Args[2], "dags")); e == nil {
			for _, fi := range fis {
				all = append(all, fi.Name())
			}
		}
		b, _ := json.Marshal(map[string]any{"listed": out, "errs": len(errs), "err": fmt.Sprint(err), "files": all})
		fmt.Println(string(b))
		return
	}
	if len(os.Args) >= 4 && os.Args[1] == "crash-helper" {
		crashHelper(os.Args[2], os.Args[3])
		return
	}
	outPath, tier := os.Args[1], os.Args[2]
	if outPath == "texts" {
		outPath, tier = os.Args[2], "texts"
	}
	outPath, _ = filepath.Abs(outPath)
	out, err := vh.NewOut(outPath)
	if err != nil {
		panic(err)
	}
	defer out.Close()
	work := filepath.Join(filepath.Dir(outPath), "store-work")
	_ = os.MkdirAll(filepath.Join(work, "cwd"), 0o755)
	defer os.RemoveAll(work)
	if err := os.Chdir(filepath.Join(work, "cwd")); err != nil { // DAGStore.Find looks into "." first
		panic(err)
	}
	pool := texts(work)
	out.Put(map[string]any{"texts": pool, "names": allNames})
	if tier == "texts" {
		return
	}
	var cases []*Case
	if tier == "replay" {
		f, err := os.Open(os.Args[3])
		if err != nil {
			panic(err)
		}
		sc := bufio.NewScanner(f)
		sc.Buffer(make([]byte, 1<<20), 1<<28)
		for sc.Scan() {
			var c Case
			if json.Unmarshal(sc.Bytes(), &c) != nil || len(c.Ops) == 0 {
				continue
			}
			cases = append(cases, &c)
		}
	} else {
		cases = generated(tier, vh.NewRng(vh.SeedFromEnv()))
	}
	for _, c := range cases {
		func() {
			defer func() {
				if r := recover(); r != nil {
					c.Fatal = fmt.Sprint(r)
				}
			}()
			runCase(filepath.Join(work, fmt.Sprintf("c%d", c.K)), pool, c)
		}()
		out.Put(c)
	}
}
